import MakoModel.Lookup.LemmasInv
/-!
The paths of `get_template` as equations, and what persists across operations:
`Served` (the entry a successful `get_template` leaves behind is returned again while the disk is quiet) and
`Pinned` (memory templates and, with `filesystem_checks` off, every entry stay what they are in a plain dict).
-/
namespace MakoModel.C14
open MakoModel.Lookup MakoModel.Generated.Lookup

/-! ## directory scan -/

theorem firstDir_some_iff {n : Nat} {fs : FileRef → Option File} {k : Uri} {d : Dir} :
    firstDir n fs k = some d ↔ (fs (d, k)).isSome = true ∧ d < n ∧ ∀ j, j < d → fs (j, k) = none := by
  unfold firstDir
  rw [List.find?_range_eq_some]
  simp only [List.mem_range]
  constructor
  · rintro ⟨h1, h2, h3⟩
    refine ⟨h1, h2, fun j hj => ?_⟩
    have := h3 j hj
    cases h : fs (j, k) <;> simp [h] at this ⊢
  · rintro ⟨h1, h2, h3⟩
    refine ⟨h1, h2, fun j hj => ?_⟩
    simp [h3 j hj]

theorem firstDir_none_iff {n : Nat} {fs : FileRef → Option File} {k : Uri} :
    firstDir n fs k = none ↔ ∀ d, d < n → fs (d, k) = none := by
  unfold firstDir
  rw [List.find?_eq_none]
  simp only [List.mem_range]
  constructor
  · intro h d hd
    have := h d hd
    cases h' : fs (d, k) <;> simp [h'] at this ⊢
  · intro h d hd; simp [h d hd]

/-! ## the paths of `get_template` -/

theorem get_miss_none {cfg : Cfg} {s : State} {u : Uri} (h : get? s.coll u = none)
    (hd : firstDir cfg.ndirs s.fs u = none) : getTemplate cfg s u = (.error .topLevel, s) := by
  simp [getTemplate, h, hd]

theorem get_miss_load {cfg : Cfg} {s : State} {u : Uri} {d : Dir} (h : get? s.coll u = none)
    (hd : firstDir cfg.ndirs s.fs u = some d) : getTemplate cfg s u = load cfg s u (d, u) := by
  simp [getTemplate, h, hd]

theorem get_hit_nocheck {cfg : Cfg} {s : State} {u : Uri} {e : Entry} (h : get? s.coll u = some e)
    (hc : cfg.checks = false) : getTemplate cfg s u = (.ok e.val, stampHit s u) := by
  simp [getTemplate, h, hc]

theorem get_hit_check {cfg : Cfg} {s : State} {u : Uri} {e : Entry} (h : get? s.coll u = some e)
    (hc : cfg.checks = true) : getTemplate cfg s u = check cfg (stampHit s u) u e.val := by
  simp [getTemplate, h, hc]

theorem check_memory {cfg : Cfg} {s : State} {k : Uri} {t : Tmpl} (h : t.file = none) :
    check cfg s k t = (.ok t, s) := by
  simp [check, h]

theorem check_vanished {cfg : Cfg} {s : State} {k : Uri} {t : Tmpl} {f : FileRef} (h : t.file = some f)
    (hf : s.fs f = none) : check cfg s k t = (.error .lookup, { s with coll := erase s.coll k }) := by
  simp [check, h, hf]

theorem check_keep {cfg : Cfg} {s : State} {k : Uri} {t : Tmpl} {f : FileRef} {file : File} (h : t.file = some f)
    (hf : s.fs f = some file) (hk : file.mtime ≤ t.stamp) : check cfg s k t = (.ok t, s) := by
  simp [check, h, hf, keepCached_eq, hk]

theorem check_stale_ok {cfg : Cfg} {s s' : State} {k : Uri} {t t' : Tmpl} {f : FileRef} {file : File}
    (h : t.file = some f) (hf : s.fs f = some file) (hk : t.stamp < file.mtime)
    (hc : construct cfg { s with coll := erase s.coll k } k f = (.ok t', s')) :
    check cfg s k t = (.ok t', setItem cfg s' k t') := by
  have hl := loadFresh_ok (cfg := cfg) (s := { s with coll := erase s.coll k }) hc
  have : ¬ file.mtime ≤ t.stamp := by omega
  simp [check, h, hf, keepCached_eq, this, hl]

theorem check_stale_err {cfg : Cfg} {s s' : State} {k : Uri} {t : Tmpl} {e : Exc} {f : FileRef} {file : File}
    (h : t.file = some f) (hf : s.fs f = some file) (hk : t.stamp < file.mtime)
    (hc : construct cfg { s with coll := erase s.coll k } k f = (.error e, s')) :
    check cfg s k t = (.error (if e = .os then .lookup else e), { s' with coll := erase s'.coll k }) := by
  have hl := loadFresh_err (cfg := cfg) (s := { s with coll := erase s.coll k }) hc
  have : ¬ file.mtime ≤ t.stamp := by omega
  have hee : erase (erase s'.coll k) k = erase s'.coll k := erase_of_get?_none (get?_erase_self _ _)
  cases e <;> simp [check, h, hf, keepCached_eq, this, hl, hee]

/-! ## more about `get?` -/

theorem get?_append_ne (c : Coll) {k k' : Uri} (e : Entry) (h : k' ≠ k) : get? (c ++ [(k, e)]) k' = get? c k' := by
  induction c with
  | nil =>
    have : ¬ k = k' := fun hh => h hh.symm
    simp [get?, this]
  | cons p r ih =>
    obtain ⟨k0, e0⟩ := p
    by_cases h0 : k0 = k' <;> simp [get?, h0, ih]

/-- the template cached under `u` -/
def valAt (s : State) (u : Uri) : Option Tmpl := (get? s.coll u).map (·.val)

theorem valAt_stampHit (s : State) (k u : Uri) : valAt (stampHit s k) u = valAt s u := by
  simp only [valAt, stampHit]; exact get?_touch_val _ _ _ _

theorem valAt_erase_ne (s : State) {k u : Uri} (h : u ≠ k) :
    valAt { s with coll := erase s.coll k } u = valAt s u := by
  simp only [valAt, get?_erase_ne _ h]

theorem valAt_erase_self (s : State) (k : Uri) : valAt { s with coll := erase s.coll k } k = none := by
  simp [valAt, get?_erase_self]

theorem valAt_congr {s s' : State} (h : s'.coll = s.coll) (u : Uri) : valAt s' u = valAt s u := by
  simp [valAt, h]

theorem valAt_setItem_ne_plain {cfg : Cfg} (s : State) {k u : Uri} (t : Tmpl) (hc : cfg.cap = none) (h : u ≠ k) :
    valAt (setItem cfg s k t) u = valAt s u := by
  unfold setItem
  split
  · simp only [valAt, manage, hc, get?_replaceVal, h, if_false]
    cases get? s.coll u <;> rfl
  · simp only [valAt, manage, hc, get?_append_ne _ _ h]

/-- the item just stored is in the collection afterwards (capacity ≥ 1: it carries the youngest stamp) -/
theorem valAt_setItem_self {cfg : Cfg} {s : State} (h : Inv cfg s) (k : Uri) {t : Tmpl} (_ht : t ∈ s.made)
    (hcap : cfg.cap ≠ some 0) : valAt (setItem cfg s k t) k = some t := by
  unfold setItem
  split
  · rename_i e he
    have : manage cfg (replaceVal s.coll k t) = replaceVal s.coll k t := by
      unfold manage
      cases hc : cfg.cap with
      | none => rfl
      | some n =>
        simp only [manageSize, length_replaceVal, h.bound n hc]
        simp
    simp [valAt, this, get?_replaceVal, he]
  · rename_i hnone
    have hk : k ∉ keys s.coll := get?_eq_none_iff.mp hnone
    let c0 : Coll := s.coll ++ [(k, ⟨t, s.nextTs⟩)]
    have hmem0 : (k, (⟨t, s.nextTs⟩ : Entry)) ∈ c0 := List.mem_append_right _ (by simp)
    have hkeys0 : (keys c0).Nodup := by
      simp only [c0, keys, List.map_append, List.map_cons, List.map_nil]
      rw [List.nodup_append]
      refine ⟨h.keys_nodup, by simp, ?_⟩
      intro a ha b hb; simp at hb; subst hb
      intro hab; subst hab; exact hk ha
    have hts0 : (c0.map (·.2.ts)).Nodup := by
      simp only [c0, List.map_append, List.map_cons, List.map_nil]
      rw [List.nodup_append]
      refine ⟨h.ts_nodup, by simp, ?_⟩
      intro a ha b hb; simp at hb; subst hb
      obtain ⟨p, hp, hpa⟩ := List.mem_map.mp ha
      have := h.ts_lt p hp; omega
    have hmem : (k, (⟨t, s.nextTs⟩ : Entry)) ∈ manage cfg c0 := by
      unfold manage
      cases hc : cfg.cap with
      | none => exact hmem0
      | some n =>
        simp only [manageSize]
        split
        · have hn : 1 ≤ n := by
            cases n with
            | zero => exact absurd hc hcap
            | succ m => omega
          apply newest_mem_trim hn hkeys0 hts0 hmem0
          intro q hq hne
          rcases List.mem_append.mp hq with hq | hq
          · exact h.ts_lt q hq
          · simp at hq; exact absurd hq hne
        · exact hmem0
    have hnd : (keys (manage cfg c0)).Nodup := List.Nodup.sublist ((manage_sublist cfg c0).map _) hkeys0
    simp only [valAt]
    rw [mem_get?_of_nodup hnd hmem]; rfl

/-! ## what a successful construction / load guarantees -/

theorem construct_ok_fresh {cfg : Cfg} {s s' : State} {k : Uri} {f : FileRef} {t : Tmpl} (h : Inv cfg s)
    (hc : construct cfg s k f = (.ok t, s')) :
    ∃ file, s.fs f = some file ∧ file.mtime ≤ t.stamp ∧ t.file = some f ∧ t.id = s.nextId := by
  have hcc := construct_cases cfg s k f
  rw [hc] at hcc
  cases hcc with
  | regen file hf hb hl hr => exact ⟨file, hf, h.mtime_le _ _ hf, rfl, rfl⟩
  | reuse file m hf hmd hm hle hml hsrc => exact ⟨file, hf, hle, rfl, rfl⟩

/-- the entry under `u` would pass `_check`: a `get_template(u)` returns it as it is -/
def Served (cfg : Cfg) (s : State) (u : Uri) (t : Tmpl) : Prop :=
  valAt s u = some t ∧
    (cfg.checks = true → ∀ f, t.file = some f → ∃ file, s.fs f = some file ∧ file.mtime ≤ t.stamp)

theorem served_get {cfg : Cfg} {s : State} {u : Uri} {t : Tmpl} (h : Served cfg s u t) :
    getTemplate cfg s u = (.ok t, stampHit s u) := by
  obtain ⟨hv, hf⟩ := h
  simp only [valAt] at hv
  cases he : get? s.coll u with
  | none => simp [he] at hv
  | some e =>
    simp [he] at hv; subst hv
    cases hc : cfg.checks with
    | false => exact get_hit_nocheck he hc
    | true =>
      rw [get_hit_check he hc]
      cases hfile : e.val.file with
      | none => exact check_memory hfile
      | some f =>
        obtain ⟨file, hfs, hle⟩ := hf hc f hfile
        exact check_keep hfile (by simpa [stampHit] using hfs) hle

theorem load_ok_served {cfg : Cfg} {s s' : State} {k : Uri} {f : FileRef} {t : Tmpl} (h : Inv cfg s)
    (hcap : cfg.cap ≠ some 0) (hn : get? s.coll k = none) (hl : load cfg s k f = (.ok t, s')) :
    Served cfg s' k t ∧ t.id = s.nextId := by
  rcases hc : construct cfg s k f with ⟨r, s1⟩
  cases r with
  | error e => rw [load_err hn hc] at hl; cases hl
  | ok t1 =>
    rw [load_ok hn hc] at hl
    injection hl with h1 h2; injection h1 with h1; subst h1; subst h2
    have hp := construct_post cfg s k f
    rw [hc] at hp
    obtain ⟨file, hfs, hle, hfile, hid⟩ := construct_ok_fresh h hc
    refine ⟨⟨valAt_setItem_self (hp.inv h) k (hp.ok t1 rfl).1 hcap, ?_⟩, hid⟩
    intro _ f' hf'
    rw [hfile] at hf'; injection hf' with hf'; subst hf'
    refine ⟨file, ?_, hle⟩
    have : (setItem cfg s1 k t1).fs = s1.fs := by unfold setItem; split <;> rfl
    rw [this, hp.fs]; exact hfs

/-- after a successful `get_template(u)` the returned template is cached under `u` and passes `_check` -/
theorem get_ok_served {cfg : Cfg} {s s' : State} {u : Uri} {t : Tmpl} (h : Inv cfg s) (hcap : cfg.cap ≠ some 0)
    (hg : getTemplate cfg s u = (.ok t, s')) : Served cfg s' u t := by
  cases he : get? s.coll u with
  | none =>
    cases hd : firstDir cfg.ndirs s.fs u with
    | none => rw [get_miss_none he hd] at hg; cases hg
    | some d =>
      rw [get_miss_load he hd] at hg
      exact (load_ok_served h hcap he hg).1
  | some e =>
    have hv : valAt (stampHit s u) u = some e.val := by rw [valAt_stampHit]; simp [valAt, he]
    cases hc : cfg.checks with
    | false =>
      rw [get_hit_nocheck he hc] at hg
      injection hg with h1 h2; injection h1 with h1; subst h1; subst h2
      exact ⟨hv, by intro hh; simp [hc] at hh⟩
    | true =>
      rw [get_hit_check he hc] at hg
      cases hfile : e.val.file with
      | none =>
        rw [check_memory hfile] at hg
        injection hg with h1 h2; injection h1 with h1; subst h1; subst h2
        exact ⟨hv, by intro _ f hf; rw [hfile] at hf; cases hf⟩
      | some f =>
        cases hfs : (stampHit s u).fs f with
        | none => rw [check_vanished hfile hfs] at hg; cases hg
        | some file =>
          by_cases hk : file.mtime ≤ e.val.stamp
          · rw [check_keep hfile hfs hk] at hg
            injection hg with h1 h2; injection h1 with h1; subst h1; subst h2
            refine ⟨hv, ?_⟩
            intro _ f' hf'; rw [hfile] at hf'; injection hf' with hf'; subst hf'
            exact ⟨file, hfs, hk⟩
          · have hlt : e.val.stamp < file.mtime := by omega
            have hi1 : Inv cfg { stampHit s u with coll := erase (stampHit s u).coll u } :=
              inv_erase (inv_stampHit h u) u
            have hl : check cfg (stampHit s u) u e.val =
                load cfg { stampHit s u with coll := erase (stampHit s u).coll u } u f ∨
                ∃ s2, check cfg (stampHit s u) u e.val = (.error .lookup, s2) := by
              rcases hcn : construct cfg { stampHit s u with coll := erase (stampHit s u).coll u } u f with ⟨r, s1⟩
              cases r with
              | ok t1 =>
                left; rw [check_stale_ok hfile hfs hlt hcn, load_ok (get?_erase_self _ _) hcn]
              | error e1 =>
                rw [check_stale_err hfile hfs hlt hcn, load_err (get?_erase_self _ _) hcn]
                by_cases he1 : e1 = .os
                · right; exact ⟨{ s1 with coll := erase s1.coll u }, by simp [he1]⟩
                · left; simp [he1]
            rcases hl with hl | ⟨s2, hl⟩
            · rw [hl] at hg
              exact (load_ok_served hi1 hcap (get?_erase_self _ _) hg).1
            · rw [hl] at hg; cases hg

/-! ## frames: operations on other URIs do not touch the entry of `u` in a plain dict -/

theorem loadFresh_frame_plain {cfg : Cfg} (s : State) {k u : Uri} (f : FileRef) (hc : cfg.cap = none) (h : u ≠ k) :
    valAt (loadFresh cfg s k f).2 u = valAt s u := by
  unfold loadFresh
  have hp := construct_post cfg s k f
  split
  · rename_i t s' heq; rw [heq] at hp
    rw [valAt_setItem_ne_plain s' t hc h]; exact valAt_congr hp.coll u
  · rename_i e s' heq; rw [heq] at hp
    rw [valAt_erase_ne s' h]; exact valAt_congr hp.coll u

theorem check_frame_plain {cfg : Cfg} (s : State) {k u : Uri} (t : Tmpl) (hc : cfg.cap = none) (h : u ≠ k) :
    valAt (check cfg s k t).2 u = valAt s u := by
  unfold check
  cases hf : t.file with
  | none => rfl
  | some f =>
    simp only
    cases hfs : s.fs f with
    | none => exact valAt_erase_ne s h
    | some file =>
      simp only
      split
      · rfl
      · have hl := loadFresh_frame_plain (cfg := cfg) { s with coll := erase s.coll k } f hc h
        rw [valAt_erase_ne s h] at hl
        split
        · rename_i s' heq; rw [heq] at hl
          rw [valAt_erase_ne s' h]; exact hl
        · exact hl

theorem load_frame_plain {cfg : Cfg} (s : State) {k u : Uri} (f : FileRef) (hc : cfg.cap = none) (h : u ≠ k) :
    valAt (load cfg s k f).2 u = valAt s u := by
  unfold load
  split
  · split
    · rw [check_frame_plain (stampHit s k) _ hc h]; exact valAt_stampHit s k u
    · exact valAt_stampHit s k u
  · exact loadFresh_frame_plain s f hc h

theorem getTemplate_frame_plain {cfg : Cfg} (s : State) {k u : Uri} (hc : cfg.cap = none) (h : u ≠ k) :
    valAt (getTemplate cfg s k).2 u = valAt s u := by
  unfold getTemplate
  split
  · split
    · rw [check_frame_plain (stampHit s k) _ hc h]; exact valAt_stampHit s k u
    · exact valAt_stampHit s k u
  · split
    · exact load_frame_plain s _ hc h
    · rfl

/-- `step` on a get/has returns the state of `getTemplate` -/
theorem step_get_state (cfg : Cfg) (s : State) (u : Uri) : (step cfg s (.getTemplate u)).2 = (getTemplate cfg s u).2 := by
  simp only [step]; split <;> (rename_i heq; rw [heq])

theorem step_has_state (cfg : Cfg) (s : State) (u : Uri) : (step cfg s (.hasTemplate u)).2 = (getTemplate cfg s u).2 := by
  simp only [step]; split <;> (rename_i heq; rw [heq])

/-! ## quiet operations keep `Served` -/

/-- operations during which "nothing on disk changes": ticks, and fetches – of any URI for the plain dict, of the
same URI for an LRU cache (a fetch of another URI may evict) -/
def quietOp (cfg : Cfg) (u : Uri) : Op → Bool
  | .tick _ => true
  | .getTemplate v => cfg.cap == none || v == u
  | .hasTemplate v => cfg.cap == none || v == u
  | _ => false

theorem served_stampHit {cfg : Cfg} {s : State} {u : Uri} {t : Tmpl} (h : Served cfg s u t) (k : Uri) :
    Served cfg (stampHit s k) u t :=
  ⟨by rw [valAt_stampHit]; exact h.1, h.2⟩

theorem served_get_other {cfg : Cfg} {s : State} {u v : Uri} {t : Tmpl} (h : Served cfg s u t)
    (hc : cfg.cap = none) (hv : u ≠ v) : Served cfg (getTemplate cfg s v).2 u t := by
  refine ⟨by rw [getTemplate_frame_plain s hc hv]; exact h.1, ?_⟩
  rw [(getTemplate_fs cfg s v).1]; exact h.2

theorem served_get_any {cfg : Cfg} {s : State} {u v : Uri} {t : Tmpl} (h : Served cfg s u t)
    (hq : (cfg.cap == none || v == u) = true) : Served cfg (getTemplate cfg s v).2 u t := by
  by_cases hv : v = u
  · subst hv; rw [served_get h]; exact served_stampHit h v
  · have hc : cfg.cap = none := by
      have : (v == u) = false := by simp [hv]
      simp [this] at hq; exact hq
    exact served_get_other h hc (fun hh => hv hh.symm)

theorem served_quiet_step {cfg : Cfg} {s : State} {u : Uri} {t : Tmpl} (h : Served cfg s u t) {op : Op}
    (hq : quietOp cfg u op = true) : Served cfg (step cfg s op).2 u t := by
  cases op with
  | tick n => exact ⟨h.1, h.2⟩
  | getTemplate v => rw [step_get_state]; exact served_get_any h hq
  | hasTemplate v => rw [step_has_state]; exact served_get_any h hq
  | writeFile d v c => simp [quietOp] at hq
  | deleteFile d v => simp [quietOp] at hq
  | breakFile d v => simp [quietOp] at hq
  | breakFileLate d v => simp [quietOp] at hq
  | putString v c => simp [quietOp] at hq
  | putTemplate v i => simp [quietOp] at hq

theorem served_quiet_run {cfg : Cfg} {u : Uri} {t : Tmpl} (ops : List Op) {s : State} (h : Served cfg s u t)
    (hq : ∀ op ∈ ops, quietOp cfg u op = true) : Served cfg (run cfg s ops).2 u t := by
  induction ops generalizing s with
  | nil => exact h
  | cons op r ih =>
    simp only [run]
    exact ih (served_quiet_step h (hq op List.mem_cons_self)) (fun o ho => hq o (List.mem_cons_of_mem _ ho))

/-! ## pinned entries: memory templates, and everything when `filesystem_checks` is off (plain dict) -/

def Pinned (cfg : Cfg) (s : State) (u : Uri) (t : Tmpl) : Prop :=
  valAt s u = some t ∧ (t.file = none ∨ cfg.checks = false)

theorem pinned_served {cfg : Cfg} {s : State} {u : Uri} {t : Tmpl} (h : Pinned cfg s u t) : Served cfg s u t := by
  refine ⟨h.1, ?_⟩
  intro hc f hf
  rcases h.2 with h2 | h2
  · rw [h2] at hf; cases hf
  · rw [h2] at hc; cases hc

/-- operations that do not overwrite the entry of `u` -/
def keepsOp (u : Uri) : Op → Bool
  | .putString v _ => v != u
  | .putTemplate v _ => v != u
  | _ => true

theorem pinned_step {cfg : Cfg} {s : State} {u : Uri} {t : Tmpl} (h : Pinned cfg s u t) (hc : cfg.cap = none)
    {op : Op} (hk : keepsOp u op = true) : Pinned cfg (step cfg s op).2 u t := by
  have hget : ∀ v, Pinned cfg (getTemplate cfg s v).2 u t := by
    intro v
    have := served_get_any (pinned_served h) (v := v) (by simp [hc])
    exact ⟨this.1, h.2⟩
  cases op with
  | tick n => exact h
  | writeFile d v c => exact h
  | deleteFile d v => exact h
  | breakFile d v => exact h
  | breakFileLate d v => exact h
  | getTemplate v => rw [step_get_state]; exact hget v
  | hasTemplate v => rw [step_has_state]; exact hget v
  | putString v c =>
    have hv : u ≠ v := by simp [keepsOp] at hk; exact fun hh => hk hh.symm
    refine ⟨?_, h.2⟩
    simp only [step, putString]
    rw [valAt_setItem_ne_plain _ _ hc hv]; exact h.1
  | putTemplate v i =>
    have hv : u ≠ v := by simp [keepsOp] at hk; exact fun hh => hk hh.symm
    refine ⟨?_, h.2⟩
    simp only [step]
    split
    · rw [valAt_setItem_ne_plain _ _ hc hv]; exact h.1
    · exact h.1

theorem pinned_run {cfg : Cfg} {u : Uri} {t : Tmpl} (hc : cfg.cap = none) (ops : List Op) {s : State}
    (h : Pinned cfg s u t) (hk : ∀ op ∈ ops, keepsOp u op = true) : Pinned cfg (run cfg s ops).2 u t := by
  induction ops generalizing s with
  | nil => exact h
  | cons op r ih =>
    simp only [run]
    exact ih (pinned_step h hc (hk op List.mem_cons_self)) (fun o ho => hk o (List.mem_cons_of_mem _ ho))

end MakoModel.C14
