import MakoModel.Lookup.LemmasCur
/-!
`get_template` serves what the specification `specAt` says (a cold lookup on the current disk), for every
history that satisfies the guards `settledFrom home` – by induction over the history, with the invariant `Cur`.
-/
namespace MakoModel.C14
open MakoModel.Lookup MakoModel.Generated.Lookup

theorem check_stale_eq_load {cfg : Cfg} {s : State} {k : Uri} {t : Tmpl} {f : FileRef} {file : File}
    (h : t.file = some f) (hf : s.fs f = some file) (hk : t.stamp < file.mtime)
    (hne : (load cfg { s with coll := erase s.coll k } k f).1 ≠ .error .os) :
    check cfg s k t = load cfg { s with coll := erase s.coll k } k f := by
  rcases hcn : construct cfg { s with coll := erase s.coll k } k f with ⟨r, s1⟩
  cases r with
  | ok t1 => rw [check_stale_ok h hf hk hcn, load_ok (get?_erase_self _ _) hcn]
  | error e1 =>
    rw [load_err (get?_erase_self _ _) hcn] at hne ⊢
    rw [check_stale_err h hf hk hcn]
    have : e1 ≠ .os := fun hh => hne (by rw [hh])
    simp [this]

theorem cur_getTemplate {home : Uri → Dir} {cfg : Cfg} {s : State} (h : Cur home cfg s)
    (hck : cfg.checks = true) (u : Uri) :
    viewGet (getTemplate cfg s u).1 = specAt cfg.ndirs s.fs u ∧ Cur home cfg (getTemplate cfg s u).2 := by
  cases he : get? s.coll u with
  | none =>
    cases hd : firstDir cfg.ndirs s.fs u with
    | none =>
      rw [get_miss_none he hd]
      exact ⟨by simp [viewGet, specAt, hd], h⟩
    | some d =>
      rw [get_miss_load he hd]
      obtain ⟨hsome, hlt, _⟩ := firstDir_some_iff.mp hd
      cases hfs : s.fs (d, u) with
      | none => simp [hfs] at hsome
      | some file =>
        have hdh := h.files_home d u file hfs
        subst hdh
        exact cur_load h hlt he ⟨file, hfs⟩
  | some e =>
    have hmem := get?_some_mem he
    obtain ⟨hfile, hlt, hcur⟩ := h.entry (u, e) hmem
    simp only at hfile hlt hcur
    rw [get_hit_check he hck]
    have h1 : Cur home cfg (stampHit s u) := cur_stampHit h u
    have hfs1 : (stampHit s u).fs = s.fs := rfl
    cases hfs : s.fs (home u, u) with
    | none =>
      have hspec : specAt cfg.ndirs s.fs u = .missing := by rw [specAt_of_home h hlt, hfs]
      rw [check_vanished hfile (by rw [hfs1]; exact hfs), hspec]
      exact ⟨by simp [viewGet], cur_sub h1 (erase_sublist _ _)⟩
    | some file =>
      have hspec : specAt cfg.ndirs s.fs u =
          (if file.broken then .broken else if file.late then .late else .content file.content) := by
        rw [specAt_of_home h hlt, hfs]
      by_cases hk : file.mtime ≤ e.val.stamp
      · rw [check_keep hfile (by rw [hfs1]; exact hfs) hk, hspec]
        obtain ⟨hb, hl, hcont⟩ := hcur file hfs hk
        exact ⟨by simp [viewGet, hb, hl, hcont], h1⟩
      · have hlt' : e.val.stamp < file.mtime := by omega
        have h2 : Cur home cfg { stampHit s u with coll := erase (stampHit s u).coll u } :=
          cur_sub h1 (erase_sublist _ _)
        have hl := cur_load h2 hlt (get?_erase_self _ _) ⟨file, hfs⟩
        have hl1 : viewGet (load cfg { stampHit s u with coll := erase (stampHit s u).coll u } u (home u, u)).1
            = specAt cfg.ndirs s.fs u := hl.1
        have hne : (load cfg { stampHit s u with coll := erase (stampHit s u).coll u } u (home u, u)).1 ≠ .error .os := by
          intro hh
          rw [hh, hspec] at hl1
          cases hb : file.broken <;> cases hl : file.late <;> simp [viewGet, hb, hl] at hl1
        rw [check_stale_eq_load hfile (by rw [hfs1]; exact hfs) hlt' hne]
        exact ⟨hl1, hl.2⟩

/-! ## the guard on histories -/

/-- `settledFrom home fl h`: every name `u` is only ever written/deleted in directory `home u`; a file is changed
only when the clock has advanced by at least a second since the last compilation (`fl` = "nothing was compiled
in the current second"); no `put_string`/`put_template`. -/
def settledFrom (home : Uri → Dir) : Bool → List Op → Bool
  | _, [] => true
  | fl, .tick n :: r => settledFrom home (fl || decide (0 < n)) r
  | fl, .writeFile d u _ :: r => fl && d == home u && settledFrom home fl r
  | fl, .deleteFile d u :: r => fl && d == home u && settledFrom home fl r
  | fl, .breakFile d u :: r => fl && d == home u && settledFrom home fl r
  | fl, .breakFileLate d u :: r => fl && d == home u && settledFrom home fl r
  | _, .getTemplate _ :: r => settledFrom home false r
  | _, .hasTemplate _ :: r => settledFrom home false r
  | _, .putString _ _ :: _ => false
  | _, .putTemplate _ _ :: _ => false

theorem older_of_inv_tick {cfg : Cfg} {s : State} (h : Inv cfg s) {n : Nat} (hn : 0 < n) :
    Older { s with clock := s.clock + n } := by
  refine ⟨?_, ?_⟩
  · intro p hp
    have := h.stamp_le _ (h.coll_made p hp)
    simp only; omega
  · intro k m hm
    have := h.mod_le k m hm
    simp only; omega

theorem cur_setFs {home : Uri → Dir} {cfg : Cfg} {s : State} (h : Cur home cfg s) (ho : Older s) (u : Uri)
    (v : Option File) (hv : ∀ f, v = some f → f.mtime = s.clock) :
    Cur home cfg { s with fs := setFs s.fs (home u, u) v } := by
  refine ⟨?_, ?_, ?_⟩
  · intro d k file hf
    simp only [setFs] at hf
    split at hf
    · rename_i heq; injection heq with h1 h2; rw [h1, h2]
    · exact h.files_home d k file hf
  · intro p hp
    obtain ⟨h1, h2, h3⟩ := h.entry p hp
    refine ⟨h1, h2, ?_⟩
    intro file hf hle
    simp only [setFs] at hf
    split at hf
    · have := hv file hf
      have := ho.1 p hp
      omega
    · exact h3 file hf hle
  · intro k m hm file hf hle
    simp only [setFs] at hf
    split at hf
    · have := hv file hf
      have := ho.2 k m hm
      omega
    · exact h.modf k m hm file hf hle

theorem older_setFs {s : State} (ho : Older s) (fs : FileRef → Option File) : Older { s with fs := fs } := ho

theorem contentView_get (cfg : Cfg) (s : State) (u : Uri) :
    contentView (step cfg s (.getTemplate u)).1 =
      (match viewGet (getTemplate cfg s u).1 with
        | .content c => .ok 0 c | .missing => .exc .lookup | .broken => .exc .compile | .late => .exc .late
        | .other => .exc .os) ∧
    contentView (step cfg s (.hasTemplate u)).1 =
      (match viewGet (getTemplate cfg s u).1 with
        | .content _ => .has true | .missing => .has false | .broken => .exc .compile | .late => .exc .late
        | .other => .exc .os) := by
  rcases hg : getTemplate cfg s u with ⟨r, s'⟩
  cases r with
  | ok t => simp [step, hg, viewGet, contentView]
  | error e => cases e <;> simp [step, hg, viewGet, contentView]

/-- one step: the output is the specified one, the invariants carry over, the disk evolves as `fsStep` says -/
theorem cur_step {home : Uri → Dir} {cfg : Cfg} {s : State} (hck : cfg.checks = true) (hi : Inv cfg s)
    (h : Cur home cfg s) {fl : Bool} (hfl : fl = true → Older s) (op : Op) (r : List Op)
    (hg : settledFrom home fl (op :: r) = true) :
    contentView (step cfg s op).1 = specOut cfg.ndirs s.fs op ∧
    (step cfg s op).2.fs = fsStep s.fs s.clock op ∧ (step cfg s op).2.clock = clkStep s.clock op ∧
    Cur home cfg (step cfg s op).2 ∧
    ∃ fl', (fl' = true → Older (step cfg s op).2) ∧ settledFrom home fl' r = true := by
  cases op with
  | tick n =>
    refine ⟨rfl, rfl, rfl, ⟨h.files_home, h.entry, h.modf⟩, fl || decide (0 < n), ?_, hg⟩
    intro hf
    by_cases hn : 0 < n
    · exact older_of_inv_tick hi hn
    · have : n = 0 := by omega
      subst this
      have : fl = true := by simpa using hf
      exact hfl this
  | writeFile d u c =>
    simp only [settledFrom, Bool.and_eq_true, beq_iff_eq] at hg
    obtain ⟨⟨h1, h2⟩, h3⟩ := hg
    subst h2
    refine ⟨rfl, rfl, rfl, cur_setFs h (hfl h1) u _ (by intro f hf; injection hf with hf; subst hf; rfl), fl, ?_, h3⟩
    intro hf; exact hfl hf
  | deleteFile d u =>
    simp only [settledFrom, Bool.and_eq_true, beq_iff_eq] at hg
    obtain ⟨⟨h1, h2⟩, h3⟩ := hg
    subst h2
    refine ⟨rfl, rfl, rfl, cur_setFs h (hfl h1) u _ (by intro f hf; cases hf), fl, ?_, h3⟩
    intro hf; exact hfl hf
  | breakFile d u =>
    simp only [settledFrom, Bool.and_eq_true, beq_iff_eq] at hg
    obtain ⟨⟨h1, h2⟩, h3⟩ := hg
    subst h2
    refine ⟨rfl, rfl, rfl, cur_setFs h (hfl h1) u _ (by intro f hf; injection hf with hf; subst hf; rfl), fl, ?_, h3⟩
    intro hf; exact hfl hf
  | breakFileLate d u =>
    simp only [settledFrom, Bool.and_eq_true, beq_iff_eq] at hg
    obtain ⟨⟨h1, h2⟩, h3⟩ := hg
    subst h2
    refine ⟨rfl, rfl, rfl, cur_setFs h (hfl h1) u _ (by intro f hf; injection hf with hf; subst hf; rfl), fl, ?_, h3⟩
    intro hf; exact hfl hf
  | getTemplate u =>
    obtain ⟨hv, hc⟩ := cur_getTemplate h hck u
    refine ⟨?_, ?_, ?_, ?_, false, (by intro hf; cases hf), hg⟩
    · rw [(contentView_get cfg s u).1, hv]; simp only [specOut]; cases specAt cfg.ndirs s.fs u <;> rfl
    · rw [step_get_state]; exact (getTemplate_fs cfg s u).1
    · rw [step_get_state]; exact (getTemplate_fs cfg s u).2
    · rw [step_get_state]; exact hc
  | hasTemplate u =>
    obtain ⟨hv, hc⟩ := cur_getTemplate h hck u
    refine ⟨?_, ?_, ?_, ?_, false, (by intro hf; cases hf), hg⟩
    · rw [(contentView_get cfg s u).2, hv]; simp only [specOut]; cases specAt cfg.ndirs s.fs u <;> rfl
    · rw [step_has_state]; exact (getTemplate_fs cfg s u).1
    · rw [step_has_state]; exact (getTemplate_fs cfg s u).2
    · rw [step_has_state]; exact hc
  | putString u c => simp [settledFrom] at hg
  | putTemplate u i => simp [settledFrom] at hg

theorem cur_run {home : Uri → Dir} {cfg : Cfg} (hck : cfg.checks = true) (ops : List Op) {s : State}
    (hi : Inv cfg s) (h : Cur home cfg s) {fl : Bool} (hfl : fl = true → Older s)
    (hg : settledFrom home fl ops = true) :
    (run cfg s ops).1.map contentView = specRun cfg.ndirs s.fs s.clock ops := by
  induction ops generalizing s fl with
  | nil => rfl
  | cons op r ih =>
    obtain ⟨h1, h2, h3, h4, fl', h5, h6⟩ := cur_step hck hi h hfl op r hg
    simp only [run, specRun, List.map_cons]
    rw [h1, ih (inv_step hi op) h4 h5 h6, h2, h3]

theorem cur_init (home : Uri → Dir) (cfg : Cfg) : Cur home cfg init :=
  ⟨by intro d k file hf; simp [init] at hf, by intro p hp; simp [init] at hp, by intro k m hm; simp [init] at hm⟩

theorem older_init : Older init :=
  ⟨by intro p hp; simp [init] at hp, by intro k m hm; simp [init] at hm⟩

/-- after any exception out of `get_template` other than `TopLevelLookupException` there is no entry for the URI -/
theorem get_error_noentry {cfg : Cfg} {s s1 : State} {u : Uri} {e : Exc}
    (hfail : getTemplate cfg s u = (.error e, s1)) (hne : e ≠ .topLevel) : get? s1.coll u = none := by
  cases he : get? s.coll u with
  | none =>
    cases hd : firstDir cfg.ndirs s.fs u with
    | none =>
      rw [get_miss_none he hd] at hfail
      injection hfail with h1 _; injection h1 with h1; exact absurd h1.symm hne
    | some d =>
      rw [get_miss_load he hd] at hfail
      rcases hc : construct cfg s u (d, u) with ⟨r, s'⟩
      cases r with
      | ok t => rw [load_ok he hc] at hfail; cases hfail
      | error e0 =>
        rw [load_err he hc] at hfail
        injection hfail with _ h2; subst h2; exact get?_erase_self _ _
  | some en =>
    cases hc : cfg.checks with
    | false => rw [get_hit_nocheck he hc] at hfail; cases hfail
    | true =>
      rw [get_hit_check he hc] at hfail
      cases hfile : en.val.file with
      | none => rw [check_memory hfile] at hfail; cases hfail
      | some f =>
        cases hfs : (stampHit s u).fs f with
        | none =>
          rw [check_vanished hfile hfs] at hfail
          injection hfail with _ h2; subst h2; exact get?_erase_self _ _
        | some file =>
          by_cases hk : file.mtime ≤ en.val.stamp
          · rw [check_keep hfile hfs hk] at hfail; cases hfail
          · have hlt : en.val.stamp < file.mtime := by omega
            rcases hcn : construct cfg { stampHit s u with coll := erase (stampHit s u).coll u } u f with ⟨r, s'⟩
            cases r with
            | ok t => rw [check_stale_ok hfile hfs hlt hcn] at hfail; cases hfail
            | error e0 =>
              rw [check_stale_err hfile hfs hlt hcn] at hfail
              injection hfail with _ h2; subst h2; exact get?_erase_self _ _

/-- what a `CompileException` out of `get_template` leaves behind: `f` is the file that failed to compile -/
theorem get_compile_error {cfg : Cfg} {s s1 : State} {u : Uri} (hi : Inv cfg s)
    (hfail : getTemplate cfg s u = (.error .compile, s1)) :
    ∃ f file, s.fs f = some file ∧ file.broken = true ∧
      get? s1.coll u = none ∧ s1.fs = s.fs ∧ s1.clock = s.clock ∧ s1.mods = s.mods ∧
      (cfg.moddir = true → ∀ m, s.mods u = some m → m.time < s.clock ∨ (m.late = false ∧ m.src ≠ f)) := by
  have key : ∀ (s0 : State), s0.fs = s.fs → s0.clock = s.clock → s0.mods = s.mods → get? s0.coll u = none →
      ∀ f, load cfg s0 u f = (.error .compile, s1) →
      ∃ f file, s.fs f = some file ∧ file.broken = true ∧
      get? s1.coll u = none ∧ s1.fs = s.fs ∧ s1.clock = s.clock ∧ s1.mods = s.mods ∧
      (cfg.moddir = true → ∀ m, s.mods u = some m → m.time < s.clock ∨ (m.late = false ∧ m.src ≠ f)) := by
    intro s0 h1 h2 h3 hn f hl
    rcases hc : construct cfg s0 u f with ⟨r, s'⟩
    cases r with
    | ok t => rw [load_ok hn hc] at hl; cases hl
    | error e0 =>
      rw [load_err hn hc] at hl
      injection hl with hl1 hl2; injection hl1 with hl1; subst hl1; subst hl2
      obtain ⟨file, hf, hb, hr, hs'⟩ := construct_compile_error hc
      subst hs'
      refine ⟨f, file, by rw [← h1]; exact hf, hb, get?_erase_self _ _, h1, h2, h3, ?_⟩
      intro hmd m hm
      have h5 := hi.mtime_le f file (by rw [← h1]; exact hf)
      rcases hr hmd m (by rw [h3]; exact hm) with h4 | h4
      · left; omega
      · right; exact h4
  cases he : get? s.coll u with
  | none =>
    cases hd : firstDir cfg.ndirs s.fs u with
    | none => rw [get_miss_none he hd] at hfail; cases hfail
    | some d => rw [get_miss_load he hd] at hfail; exact key s rfl rfl rfl he _ hfail
  | some e =>
    cases hc : cfg.checks with
    | false => rw [get_hit_nocheck he hc] at hfail; cases hfail
    | true =>
      rw [get_hit_check he hc] at hfail
      cases hfile : e.val.file with
      | none => rw [check_memory hfile] at hfail; cases hfail
      | some f =>
        cases hfs : (stampHit s u).fs f with
        | none => rw [check_vanished hfile hfs] at hfail; cases hfail
        | some file =>
          by_cases hk : file.mtime ≤ e.val.stamp
          · rw [check_keep hfile hfs hk] at hfail; cases hfail
          · have hlt : e.val.stamp < file.mtime := by omega
            rcases hcn : construct cfg { stampHit s u with coll := erase (stampHit s u).coll u } u f with ⟨r, s'⟩
            cases r with
            | ok t => rw [check_stale_ok hfile hfs hlt hcn] at hfail; cases hfail
            | error e0 =>
              rw [check_stale_err hfile hfs hlt hcn] at hfail
              have he0 : e0 = .compile := by
                injection hfail with h1 _; injection h1 with h1
                cases e0 <;> simp at h1 ⊢
              subst he0
              have hl := load_err (cfg := cfg) (s := { stampHit s u with coll := erase (stampHit s u).coll u })
                (get?_erase_self _ _) hcn
              have hs1 : s1 = { s' with coll := erase s'.coll u } := by
                injection hfail with _ h2; exact h2.symm
              rw [← hs1] at hl
              exact key { stampHit s u with coll := erase (stampHit s u).coll u } rfl rfl rfl (get?_erase_self _ _) f hl

end MakoModel.C14
