import MakoModel.Lookup.Model
/-!
Lemmas about the collection (`dict` / `LRUCache`): lookup, `pop`, re-stamping, `_manage_size`.
-/
namespace MakoModel.C14
open MakoModel.Lookup MakoModel.Generated.Lookup

/-! ## obligations on the regenerated constants -/

/-- `_check` keeps the cached template iff `_modified_time >= mtime` (the operator is regenerated from the source;
an edited operator breaks this obligation) -/
theorem keepCached_eq (a b : Nat) : keepCached a b = decide (a ≥ b) := by
  unfold keepCached
  have : (checkCompare == "GtE") = true := by decide
  simp [this]

/-- `_compile_from_file` regenerates a module generated from another file name (regenerated from the source;
reverting that repair breaks this obligation) -/
theorem module_checks_source_name : moduleChecksSourceName = true := by decide

/-- `_compile_from_file` decides "module file older than the source" before it imports the module file
(regenerated from the source; importing first breaks this obligation) -/
theorem stale_decided_before_import : staleDecidedBeforeImport = true := by decide

/-- `_load` hands a second-chance hit to `_check` (regenerated; the model's `load` follows the flag – sequentially
the branch is never taken, so no property theorem depends on it; the concurrent model of C16 reads the same flag) -/
theorem second_chance_checked : secondChanceChecked = true := by decide

/-- the defaults of `TemplateLookup.__init__` are the configuration the property calls the default one:
`filesystem_checks` on, and `collection_size` equal to the value that selects the plain dict (`Cfg.cap = none`) -/
theorem default_filesystem_checks : defaultFilesystemChecks = true := by decide
theorem default_collection_unbounded : defaultCollectionSize = unboundedSentinel := by decide

theorem threshold_den_pos : 0 < thresholdDen := by decide
theorem sort_is_descending : sortDescending = true := by decide
theorem slice_is_from_capacity : sliceFromCapacity = true := by decide

/-! ## get? / keys -/

theorem get?_eq_none_iff {c : Coll} {k : Uri} : get? c k = none ↔ k ∉ keys c := by
  induction c with
  | nil => simp [get?, keys]
  | cons p r ih =>
    obtain ⟨k', e⟩ := p
    by_cases h : k' = k
    · simp [get?, keys, h]
    · simp only [get?, h, if_false, keys, List.map_cons, List.mem_cons] at ih ⊢
      rw [ih]; constructor
      · intro hn hc; rcases hc with hc | hc
        · exact h hc.symm
        · exact hn hc
      · intro hn hc; exact hn (Or.inr hc)

theorem get?_some_mem {c : Coll} {k : Uri} {e : Entry} (h : get? c k = some e) : (k, e) ∈ c := by
  induction c with
  | nil => simp [get?] at h
  | cons p r ih =>
    obtain ⟨k', e'⟩ := p
    by_cases hk : k' = k
    · simp [get?, hk] at h; subst hk; subst h; exact List.mem_cons_self
    · simp [get?, hk] at h; exact List.mem_cons_of_mem _ (ih h)

theorem mem_get?_of_nodup {c : Coll} {k : Uri} {e : Entry} (hn : (keys c).Nodup) (h : (k, e) ∈ c) :
    get? c k = some e := by
  induction c with
  | nil => simp at h
  | cons p r ih =>
    obtain ⟨k', e'⟩ := p
    simp only [keys, List.map_cons, List.nodup_cons] at hn
    rcases List.mem_cons.mp h with h | h
    · injection h with h1 h2; subst h1; subst h2; simp [get?]
    · have : k' ≠ k := by
        intro hk; subst hk; exact hn.1 (List.mem_map.mpr ⟨(k', e), h, rfl⟩)
      simp [get?, this]; exact ih hn.2 h

theorem mem_keys_of_mem {c : Coll} {p : Uri × Entry} (h : p ∈ c) : p.1 ∈ keys c :=
  List.mem_map.mpr ⟨p, h, rfl⟩

/-! ## erase -/

theorem get?_erase_self (c : Coll) (k : Uri) : get? (erase c k) k = none := by
  rw [get?_eq_none_iff]; intro h
  obtain ⟨p, hp, hk⟩ := List.mem_map.mp h
  simp [erase, List.mem_filter] at hp
  exact hp.2 hk

theorem get?_erase_ne (c : Coll) {k k' : Uri} (h : k' ≠ k) : get? (erase c k) k' = get? c k' := by
  induction c with
  | nil => simp [erase, get?]
  | cons p r ih =>
    obtain ⟨k0, e⟩ := p
    by_cases h0 : k0 = k
    · subst h0
      have : ¬ k0 = k' := fun hh => h hh.symm
      simp only [erase, List.filter_cons, bne_self_eq_false, Bool.false_eq_true, if_false, get?, this] at *
      exact ih
    · have hb : ((k0, e).1 != k) = true := by simp [h0]
      simp only [erase, List.filter_cons, hb, if_true, get?] at *
      by_cases h1 : k0 = k' <;> simp [h1, ih]

theorem erase_sublist (c : Coll) (k : Uri) : (erase c k).Sublist c := List.filter_sublist

theorem mem_erase {c : Coll} {k : Uri} {p : Uri × Entry} : p ∈ erase c k ↔ p ∈ c ∧ p.1 ≠ k := by
  simp [erase, List.mem_filter]

theorem erase_of_get?_none {c : Coll} {k : Uri} (h : get? c k = none) : erase c k = c := by
  rw [get?_eq_none_iff] at h
  apply List.filter_eq_self.mpr
  intro p hp
  have : p.1 ≠ k := fun hk => h (hk ▸ mem_keys_of_mem hp)
  simp [this]

theorem length_erase_le (c : Coll) (k : Uri) : (erase c k).length ≤ c.length := List.length_filter_le _ _

/-! ## touch / replaceVal -/

theorem keys_touch (c : Coll) (k : Uri) (t : Nat) : keys (touch c k t) = keys c := by
  simp only [keys, touch, List.map_map]
  apply List.map_congr_left
  intro p _; simp only [Function.comp]; split <;> rfl

theorem keys_replaceVal (c : Coll) (k : Uri) (v : Tmpl) : keys (replaceVal c k v) = keys c := by
  simp only [keys, replaceVal, List.map_map]
  apply List.map_congr_left
  intro p _; simp only [Function.comp]; split <;> rfl

theorem length_touch (c : Coll) (k : Uri) (t : Nat) : (touch c k t).length = c.length := by simp [touch]
theorem length_replaceVal (c : Coll) (k : Uri) (v : Tmpl) : (replaceVal c k v).length = c.length := by
  simp [replaceVal]

theorem get?_touch (c : Coll) (k k' : Uri) (t : Nat) :
    get? (touch c k t) k' = (get? c k').map (fun e => if k' = k then { e with ts := t } else e) := by
  induction c with
  | nil => simp [touch, get?]
  | cons p r ih =>
    obtain ⟨k0, e⟩ := p
    simp only [touch, List.map_cons] at *
    by_cases h0 : k0 = k
    · subst h0
      by_cases h1 : k0 = k'
      · subst h1; simp [get?]
      · simp [get?, h1, ih]
    · by_cases h1 : k0 = k'
      · subst h1; simp [get?, h0]
      · simp [get?, h0, h1, ih]

theorem get?_touch_val (c : Coll) (k k' : Uri) (t : Nat) :
    (get? (touch c k t) k').map (·.val) = (get? c k').map (·.val) := by
  rw [get?_touch]; cases get? c k' with
  | none => rfl
  | some e => simp only [Option.map]; split <;> rfl

theorem get?_replaceVal (c : Coll) (k k' : Uri) (v : Tmpl) :
    get? (replaceVal c k v) k' = (get? c k').map (fun e => if k' = k then { e with val := v } else e) := by
  induction c with
  | nil => simp [replaceVal, get?]
  | cons p r ih =>
    obtain ⟨k0, e⟩ := p
    simp only [replaceVal, List.map_cons] at *
    by_cases h0 : k0 = k
    · subst h0
      by_cases h1 : k0 = k'
      · subst h1; simp [get?]
      · simp [get?, h1, ih]
    · by_cases h1 : k0 = k'
      · subst h1; simp [get?, h0]
      · simp [get?, h0, h1, ih]

theorem mem_touch {c : Coll} {k : Uri} {t : Nat} {q : Uri × Entry} (h : q ∈ touch c k t) :
    ∃ p ∈ c, q.1 = p.1 ∧ q.2.val = p.2.val ∧ ((q.1 = k ∧ q.2.ts = t) ∨ (q.1 ≠ k ∧ q = p)) := by
  simp only [touch, List.mem_map] at h
  obtain ⟨p, hp, rfl⟩ := h
  refine ⟨p, hp, ?_⟩
  by_cases hk : p.1 = k <;> simp [hk]

theorem mem_replaceVal {c : Coll} {k : Uri} {v : Tmpl} {q : Uri × Entry} (h : q ∈ replaceVal c k v) :
    ∃ p ∈ c, q.1 = p.1 ∧ q.2.ts = p.2.ts ∧ ((q.1 = k ∧ q.2.val = v) ∨ (q.1 ≠ k ∧ q = p)) := by
  simp only [replaceVal, List.mem_map] at h
  obtain ⟨p, hp, rfl⟩ := h
  refine ⟨p, hp, ?_⟩
  by_cases hk : p.1 = k <;> simp [hk]

theorem ts_replaceVal (c : Coll) (k : Uri) (v : Tmpl) :
    (replaceVal c k v).map (·.2.ts) = c.map (·.2.ts) := by
  simp only [replaceVal, List.map_map]
  apply List.map_congr_left
  intro p _; simp only [Function.comp]; split <;> rfl

theorem touch_of_not_mem {c : Coll} {k : Uri} {t : Nat} (h : k ∉ keys c) : touch c k t = c := by
  induction c with
  | nil => rfl
  | cons p r ih =>
    simp only [keys, List.map_cons, List.mem_cons, not_or] at h
    have h1 : ¬ p.1 = k := fun hh => h.1 hh.symm
    simp only [touch, List.map_cons, h1, if_false]
    congr 1; exact ih h.2

/-- re-stamping one item with a stamp greater than all present keeps the stamps distinct -/
theorem ts_nodup_touch {c : Coll} {k : Uri} {t : Nat} (hk : (keys c).Nodup)
    (hn : (c.map (·.2.ts)).Nodup) (hlt : ∀ p ∈ c, p.2.ts < t) : ((touch c k t).map (·.2.ts)).Nodup := by
  induction c with
  | nil => simp [touch]
  | cons p r ih =>
    simp only [keys, List.map_cons, List.nodup_cons] at hk hn
    have hr : ∀ q ∈ r, q.2.ts < t := fun q hq => hlt q (List.mem_cons_of_mem _ hq)
    by_cases h0 : p.1 = k
    · have : touch (p :: r) k t = (p.1, { p.2 with ts := t }) :: r := by
        simp only [touch, List.map_cons, h0, if_true]
        congr 1
        exact touch_of_not_mem (h0 ▸ hk.1)
      rw [this]
      simp only [List.map_cons, List.nodup_cons]
      refine ⟨?_, hn.2⟩
      intro hm
      obtain ⟨q, hq, he⟩ := List.mem_map.mp hm
      have := hr q hq; omega
    · have : touch (p :: r) k t = p :: touch r k t := by
        simp only [touch, List.map_cons, h0, if_false]
      rw [this]
      simp only [List.map_cons, List.nodup_cons]
      refine ⟨?_, ih hk.2 hn.2 hr⟩
      intro hm
      obtain ⟨q, hq, he⟩ := List.mem_map.mp hm
      obtain ⟨p', hp', _, _, hc⟩ := mem_touch hq
      rcases hc with ⟨_, hts⟩ | ⟨_, heq⟩
      · have := hlt p List.mem_cons_self; omega
      · subst heq; exact hn.1 (List.mem_map.mpr ⟨q, hp', he⟩)

theorem eq_of_nodup_map {α β} (f : α → β) {l : List α} (hn : (l.map f).Nodup) {a b : α}
    (ha : a ∈ l) (hb : b ∈ l) (he : f a = f b) : a = b := by
  induction l with
  | nil => simp at ha
  | cons x r ih =>
    simp only [List.map_cons, List.nodup_cons] at hn
    rcases List.mem_cons.mp ha with ha1 | ha1 <;> rcases List.mem_cons.mp hb with hb1 | hb1
    · rw [ha1, hb1]
    · subst ha1; exact absurd (List.mem_map.mpr (⟨b, hb1, he.symm⟩ : ∃ y, y ∈ r ∧ f y = f a)) hn.1
    · subst hb1; exact absurd (List.mem_map.mpr (⟨a, ha1, he⟩ : ∃ y, y ∈ r ∧ f y = f b)) hn.1
    · exact ih hn.2 ha1 hb1

/-! ## `_manage_size` -/

theorem insertByTime_perm (x : Uri × Entry) (l : Coll) : (insertByTime x l).Perm (x :: l) := by
  induction l with
  | nil => exact List.Perm.refl _
  | cons y r ih =>
    simp only [insertByTime]
    split
    · exact List.Perm.refl _
    · exact (List.Perm.cons y ih).trans (List.Perm.swap x y r)

theorem byTime_perm (c : Coll) : (byTime c).Perm c := by
  induction c with
  | nil => exact List.Perm.refl _
  | cons x r ih =>
    simp only [byTime, List.foldr_cons]
    exact (insertByTime_perm x _).trans (List.Perm.cons x ih)

theorem insertByTime_sorted (x : Uri × Entry) {l : Coll} (h : l.Pairwise (fun a b => a.2.ts ≥ b.2.ts)) :
    (insertByTime x l).Pairwise (fun a b => a.2.ts ≥ b.2.ts) := by
  induction l with
  | nil => simp [insertByTime]
  | cons y r ih =>
    simp only [insertByTime]
    rw [List.pairwise_cons] at h
    split
    · rename_i hxy
      rw [List.pairwise_cons]
      refine ⟨?_, List.pairwise_cons.mpr h⟩
      intro z hz
      rcases List.mem_cons.mp hz with hz | hz
      · subst hz; exact hxy
      · have := h.1 z hz; omega
    · rename_i hxy
      rw [List.pairwise_cons]
      refine ⟨?_, ih h.2⟩
      intro z hz
      rcases List.mem_cons.mp ((insertByTime_perm x r).mem_iff.mp hz) with hz | hz
      · subst hz; omega
      · exact h.1 z hz

theorem byTime_sorted (c : Coll) : (byTime c).Pairwise (fun a b => a.2.ts ≥ b.2.ts) := by
  induction c with
  | nil => simp [byTime]
  | cons x r ih =>
    simp only [byTime, List.foldr_cons]
    exact insertByTime_sorted x ih

theorem keys_byTime_nodup {c : Coll} (h : (keys c).Nodup) : (keys (byTime c)).Nodup := by
  have hp : (keys (byTime c)).Perm (keys c) := (byTime_perm c).map (fun p : Uri × Entry => p.1)
  exact hp.nodup_iff.mpr h

/-- one pass of `_manage_size` keeps exactly the first `cap` items of the by-time order -/
theorem trim_perm_take {c : Coll} (cap : Nat) (hn : (keys c).Nodup) :
    (trim cap c).Perm ((byTime c).take cap) := by
  have hs := keys_byTime_nodup hn
  let p : Uri × Entry → Bool := fun q => !(keys ((byTime c).drop cap)).contains q.1
  have h1 : (trim cap c).Perm ((byTime c).filter p) := ((byTime_perm c).filter p).symm
  refine h1.trans ?_
  have hsplit : byTime c = (byTime c).take cap ++ (byTime c).drop cap := (List.take_append_drop _ _).symm
  have hk : (keys ((byTime c).take cap) ++ keys ((byTime c).drop cap)).Nodup := by
    have : keys (byTime c) = keys ((byTime c).take cap) ++ keys ((byTime c).drop cap) := by
      simp only [keys, ← List.map_append, List.take_append_drop]
    rw [← this]; exact hs
  rw [List.nodup_append] at hk
  conv => lhs; rw [hsplit]
  rw [List.filter_append]
  have ha : ((byTime c).take cap).filter p = (byTime c).take cap := by
    apply List.filter_eq_self.mpr
    intro q hq
    simp only [p, Bool.not_eq_true', List.contains_eq_mem, decide_eq_false_iff_not]
    intro hm
    exact hk.2.2 q.1 (mem_keys_of_mem hq) q.1 hm rfl
  have hb : ((byTime c).drop cap).filter p = [] := by
    apply List.filter_eq_nil_iff.mpr
    intro q hq
    simp only [p, Bool.not_eq_true', List.contains_eq_mem, decide_eq_false_iff_not, Classical.not_not]
    exact mem_keys_of_mem hq
  rw [ha, hb, List.append_nil]

theorem length_trim {c : Coll} (cap : Nat) (hn : (keys c).Nodup) : (trim cap c).length = min cap c.length := by
  rw [(trim_perm_take cap hn).length_eq, List.length_take, (byTime_perm c).length_eq]

theorem trim_sublist (cap : Nat) (c : Coll) : (trim cap c).Sublist c := List.filter_sublist

theorem manageSize_sublist (cap : Nat) (c : Coll) : (manageSize cap c).Sublist c := by
  unfold manageSize; split
  · exact trim_sublist cap c
  · exact List.Sublist.refl _

theorem manage_sublist (cfg : Cfg) (c : Coll) : (manage cfg c).Sublist c := by
  unfold manage; split
  · exact List.Sublist.refl _
  · exact manageSize_sublist _ _

theorem not_over_cap (cap len : Nat) (h : len ≤ cap) : over cap len = false := by
  simp only [over, decide_eq_false_iff_not, Nat.not_lt]
  calc len * thresholdDen ≤ cap * thresholdDen := Nat.mul_le_mul_right _ h
    _ ≤ cap * thresholdDen + cap * thresholdNum := Nat.le_add_right _ _

/-- after `_manage_size` the loop condition is false: one pass suffices, and the bound holds -/
theorem over_manageSize {c : Coll} (cap : Nat) (hn : (keys c).Nodup) : over cap (manageSize cap c).length = false := by
  unfold manageSize; split
  · rw [length_trim cap hn]; exact not_over_cap _ _ (Nat.min_le_left _ _)
  · rename_i h; simpa using h

/-- every item kept by a pass is younger than every item it deletes -/
theorem trim_keeps_newest {c : Coll} (cap : Nat) (hn : (keys c).Nodup) (ht : (c.map (·.2.ts)).Nodup)
    {p q : Uri × Entry} (hp : p ∈ trim cap c) (hq : q ∈ c) (hqn : q ∉ trim cap c) : q.2.ts < p.2.ts := by
  have hperm := trim_perm_take cap hn
  have hp' : p ∈ (byTime c).take cap := hperm.mem_iff.mp hp
  have hq' : q ∈ byTime c := (byTime_perm c).mem_iff.mpr hq
  have hqd : q ∈ (byTime c).drop cap := by
    rw [← List.take_append_drop cap (byTime c)] at hq'
    rcases List.mem_append.mp hq' with h | h
    · exact absurd (hperm.mem_iff.mpr h) hqn
    · exact h
  have hsorted := byTime_sorted c
  rw [← List.take_append_drop cap (byTime c), List.pairwise_append] at hsorted
  have hge : p.2.ts ≥ q.2.ts := hsorted.2.2 p hp' q hqd
  have hne : p.2.ts ≠ q.2.ts := by
    intro he
    have hpc : p ∈ c := (trim_sublist cap c).subset hp
    have : p = q := eq_of_nodup_map (fun x : Uri × Entry => x.2.ts) ht hpc hq he
    subst this; exact hqn hp
  omega

/-- the youngest item survives a pass when the capacity is at least 1 -/
theorem newest_mem_trim {c : Coll} {cap : Nat} (hcap : 1 ≤ cap) (hn : (keys c).Nodup) (ht : (c.map (·.2.ts)).Nodup)
    {p : Uri × Entry} (hp : p ∈ c) (hmax : ∀ q ∈ c, q ≠ p → q.2.ts < p.2.ts) : p ∈ trim cap c := by
  apply Classical.byContradiction; intro hnp
  have hlen := length_trim cap hn
  have hpos : 0 < (trim cap c).length := by
    rw [hlen]; have : 0 < c.length := List.length_pos_of_mem hp; omega
  obtain ⟨q, hq⟩ := List.exists_mem_of_length_pos hpos
  have h1 := trim_keeps_newest cap hn ht hq hp hnp
  have hqc : q ∈ c := (trim_sublist cap c).subset hq
  have hne : q ≠ p := fun h => hnp (h ▸ hq)
  have := hmax q hqc hne
  omega

end MakoModel.C14
