import MakoModel.Lookup.LemmasColl
/-!
The invariant of the lookup state machine and its preservation by every operation
(hence by every history, `run_inv`).
-/
namespace MakoModel.C14
open MakoModel.Lookup MakoModel.Generated.Lookup

/-- What holds in every reachable state. -/
structure Inv (cfg : Cfg) (s : State) : Prop where
  /-- no file is dated in the future -/
  mtime_le : ∀ r f, s.fs r = some f → f.mtime ≤ s.clock
  /-- no module file is dated / stamped in the future -/
  mod_le : ∀ k m, s.mods k = some m → m.time ≤ s.clock
  /-- compiledAt ≤ clock, for every template ever constructed -/
  stamp_le : ∀ t ∈ s.made, t.stamp ≤ s.clock
  /-- every cached template was constructed by `Template.__init__` -/
  coll_made : ∀ p ∈ s.coll, p.2.val ∈ s.made
  /-- the collection is a map -/
  keys_nodup : (keys s.coll).Nodup
  /-- LRU stamps are pairwise distinct and in the past of the timer -/
  ts_nodup : (s.coll.map (·.2.ts)).Nodup
  ts_lt : ∀ p ∈ s.coll, p.2.ts < s.nextTs
  /-- identities are fresh -/
  id_lt : ∀ t ∈ s.made, t.id < s.nextId
  ids_nodup : (s.made.map (·.id)).Nodup
  /-- the loop condition of `_manage_size` is false after every operation -/
  bound : ∀ n, cfg.cap = some n → over n s.coll.length = false

theorem inv_init (cfg : Cfg) : Inv cfg init := by
  constructor <;> simp [init, keys, over]

theorem over_mono {cap a b : Nat} (h : a ≤ b) (hb : over cap b = false) : over cap a = false := by
  simp only [over, decide_eq_false_iff_not, Nat.not_lt] at *
  exact Nat.le_trans (Nat.mul_le_mul_right _ h) hb

/-- replacing the collection (and advancing the timer) keeps the invariant when the collection facets hold -/
theorem inv_of_coll {cfg : Cfg} {s : State} (h : Inv cfg s) (c : Coll) (nts : Nat)
    (h1 : ∀ p ∈ c, p.2.val ∈ s.made) (h2 : (keys c).Nodup) (h3 : (c.map (·.2.ts)).Nodup)
    (h4 : ∀ p ∈ c, p.2.ts < nts) (h5 : ∀ n, cfg.cap = some n → over n c.length = false) :
    Inv cfg { s with coll := c, nextTs := nts } :=
  ⟨h.mtime_le, h.mod_le, h.stamp_le, h1, h2, h3, h4, h.id_lt, h.ids_nodup, h5⟩

/-- a sub-collection keeps the invariant (`pop`, `del`) -/
theorem inv_sub {cfg : Cfg} {s : State} (h : Inv cfg s) {c : Coll} (hs : c.Sublist s.coll) :
    Inv cfg { s with coll := c } := by
  have := inv_of_coll h c s.nextTs (fun p hp => h.coll_made p (hs.subset hp))
    (List.Nodup.sublist (hs.map _) h.keys_nodup) (List.Nodup.sublist (hs.map _) h.ts_nodup)
    (fun p hp => h.ts_lt p (hs.subset hp))
    (fun n hn => over_mono hs.length_le (h.bound n hn))
  simpa using this

theorem inv_erase {cfg : Cfg} {s : State} (h : Inv cfg s) (k : Uri) :
    Inv cfg { s with coll := erase s.coll k } := inv_sub h (erase_sublist _ _)

theorem inv_stampHit {cfg : Cfg} {s : State} (h : Inv cfg s) (k : Uri) : Inv cfg (stampHit s k) := by
  unfold stampHit
  apply inv_of_coll h
  · intro q hq
    obtain ⟨p, hp, _, hv, _⟩ := mem_touch hq
    rw [hv]; exact h.coll_made p hp
  · rw [keys_touch]; exact h.keys_nodup
  · exact ts_nodup_touch h.keys_nodup h.ts_nodup h.ts_lt
  · intro q hq
    obtain ⟨p, hp, _, _, hc⟩ := mem_touch hq
    rcases hc with ⟨_, ht⟩ | ⟨_, he⟩
    · omega
    · subst he; have := h.ts_lt q hp; omega
  · intro n hn; rw [length_touch]; exact h.bound n hn

/-- the facets of a collection that `manage` preserves / establishes -/
theorem inv_manage {cfg : Cfg} {s : State} (h : Inv cfg s) (c : Coll) (nts : Nat)
    (h1 : ∀ p ∈ c, p.2.val ∈ s.made) (h2 : (keys c).Nodup) (h3 : (c.map (·.2.ts)).Nodup)
    (h4 : ∀ p ∈ c, p.2.ts < nts) :
    Inv cfg { s with coll := manage cfg c, nextTs := nts } := by
  have hs := manage_sublist cfg c
  apply inv_of_coll h
  · exact fun p hp => h1 p (hs.subset hp)
  · exact List.Nodup.sublist (hs.map _) h2
  · exact List.Nodup.sublist (hs.map _) h3
  · exact fun p hp => h4 p (hs.subset hp)
  · intro n hn
    simp only [manage, hn]
    exact over_manageSize n h2

theorem inv_setItem {cfg : Cfg} {s : State} (h : Inv cfg s) (k : Uri) {t : Tmpl} (ht : t ∈ s.made) :
    Inv cfg (setItem cfg s k t) := by
  unfold setItem
  split
  · have := inv_manage h (replaceVal s.coll k t) s.nextTs
      (by
        intro q hq
        obtain ⟨p, hp, _, _, hc⟩ := mem_replaceVal hq
        rcases hc with ⟨_, hv⟩ | ⟨_, he⟩
        · rw [hv]; exact ht
        · subst he; exact h.coll_made q hp)
      (by rw [keys_replaceVal]; exact h.keys_nodup)
      (by rw [ts_replaceVal]; exact h.ts_nodup)
      (by
        intro q hq
        obtain ⟨p, hp, _, hts, _⟩ := mem_replaceVal hq
        rw [hts]; exact h.ts_lt p hp)
    simpa using this
  · rename_i hnone
    have hk : k ∉ keys s.coll := get?_eq_none_iff.mp hnone
    apply inv_manage h
    · intro q hq
      rcases List.mem_append.mp hq with hq | hq
      · exact h.coll_made q hq
      · simp at hq; subst hq; exact ht
    · simp only [keys, List.map_append, List.map_cons, List.map_nil]
      rw [List.nodup_append]
      refine ⟨h.keys_nodup, by simp, ?_⟩
      intro a ha b hb; simp at hb; subst hb
      intro hab; subst hab; exact hk ha
    · simp only [List.map_append, List.map_cons, List.map_nil]
      rw [List.nodup_append]
      refine ⟨h.ts_nodup, by simp, ?_⟩
      intro a ha b hb; simp at hb; subst hb
      obtain ⟨p, hp, hpa⟩ := List.mem_map.mp ha
      have := h.ts_lt p hp; omega
    · intro q hq
      rcases List.mem_append.mp hq with hq | hq
      · have := h.ts_lt q hq; omega
      · simp at hq; subst hq; simp

/-- entering `Template.__init__`, registering the constructed template, writing a module file -/
theorem inv_made {cfg : Cfg} {s : State} (h : Inv cfg s) (t : Tmpl) (mods : Uri → Option ModFile)
    (hid : t.id = s.nextId) (hst : t.stamp ≤ s.clock) (hm : ∀ k m, mods k = some m → m.time ≤ s.clock) :
    Inv cfg { s with nextId := s.nextId + 1, mods := mods, made := s.made ++ [t] } := by
  refine ⟨h.mtime_le, hm, ?_, ?_, h.keys_nodup, h.ts_nodup, h.ts_lt, ?_, ?_, h.bound⟩
  · intro x hx; rcases List.mem_append.mp hx with hx | hx
    · exact h.stamp_le x hx
    · simp at hx; subst hx; exact hst
  · intro p hp; exact List.mem_append_left _ (h.coll_made p hp)
  · intro x hx; rcases List.mem_append.mp hx with hx | hx
    · have := h.id_lt x hx; simp only; omega
    · simp at hx; subst hx; simp only; omega
  · simp only [List.map_append, List.map_cons, List.map_nil]
    rw [List.nodup_append]
    refine ⟨h.ids_nodup, by simp, ?_⟩
    intro a ha b hb; simp at hb; subst hb
    obtain ⟨x, hx, hxa⟩ := List.mem_map.mp ha
    have := h.id_lt x hx; omega

theorem inv_bumpId {cfg : Cfg} {s : State} (h : Inv cfg s) : Inv cfg { s with nextId := s.nextId + 1 } :=
  ⟨h.mtime_le, h.mod_le, h.stamp_le, h.coll_made, h.keys_nodup, h.ts_nodup, h.ts_lt,
    fun t ht => Nat.lt_succ_of_lt (h.id_lt t ht), h.ids_nodup, h.bound⟩

/-! ## `Template(uri=k, filename=f)`: the four outcomes -/

/-- the state after a successful construction that (re)generated the module -/
def regenState (cfg : Cfg) (s : State) (k : Uri) (f : FileRef) (file : File) : State :=
  { s with
    nextId := s.nextId + 1,
    mods := if cfg.moddir then setMod s.mods k (some ⟨f, file.content, s.clock, false⟩) else s.mods,
    made := s.made ++ [⟨s.nextId, k, some f, file.content, s.clock⟩] }

/-- the state after generating a module whose import raises: with a module directory the module file stays -/
def lateState (cfg : Cfg) (s : State) (k : Uri) (f : FileRef) (file : File) : State :=
  { s with
    nextId := s.nextId + 1,
    mods := if cfg.moddir then setMod s.mods k (some ⟨f, file.content, s.clock, true⟩) else s.mods }

/-- the state after a construction that re-used the module file `m` -/
def reuseState (s : State) (k : Uri) (f : FileRef) (m : ModFile) : State :=
  { s with nextId := s.nextId + 1, made := s.made ++ [⟨s.nextId, k, some f, m.content, m.time⟩] }

/-- the module file of `k` does not stand in the way of compiling `file` from `f`: there is none, or it is older
than the source, or it imports and was generated from another source file -/
def needsRegen (cfg : Cfg) (s : State) (k : Uri) (f : FileRef) (file : File) : Prop :=
  cfg.moddir = true → ∀ m, s.mods k = some m → m.time < file.mtime ∨ (m.late = false ∧ m.src ≠ f)

inductive ConstructCase (cfg : Cfg) (s : State) (k : Uri) (f : FileRef) : Except Exc Tmpl × State → Prop
  | nofile : s.fs f = none → ConstructCase cfg s k f (.error .os, { s with nextId := s.nextId + 1 })
  | broken (file : File) : s.fs f = some file → file.broken = true → needsRegen cfg s k f file →
      ConstructCase cfg s k f (.error .compile, { s with nextId := s.nextId + 1 })
  | late (file : File) : s.fs f = some file → file.broken = false → file.late = true → needsRegen cfg s k f file →
      ConstructCase cfg s k f (.error .late, lateState cfg s k f file)
  | regen (file : File) : s.fs f = some file → file.broken = false → file.late = false →
      needsRegen cfg s k f file →
      ConstructCase cfg s k f (.ok ⟨s.nextId, k, some f, file.content, s.clock⟩, regenState cfg s k f file)
  | lateImport (file : File) (m : ModFile) : s.fs f = some file → cfg.moddir = true → s.mods k = some m →
      file.mtime ≤ m.time → m.late = true →
      ConstructCase cfg s k f (.error .late, { s with nextId := s.nextId + 1 })
  | reuse (file : File) (m : ModFile) : s.fs f = some file → cfg.moddir = true → s.mods k = some m →
      file.mtime ≤ m.time → m.late = false → m.src = f →
      ConstructCase cfg s k f (.ok ⟨s.nextId, k, some f, m.content, m.time⟩, reuseState s k f m)

theorem construct_cases (cfg : Cfg) (s : State) (k : Uri) (f : FileRef) :
    ConstructCase cfg s k f (construct cfg s k f) := by
  unfold construct
  cases hf : s.fs f with
  | none => exact .nofile hf
  | some file =>
    simp only
    -- the three outcomes of `regenerate`
    have hregen : ∀ (hr : needsRegen cfg s k f file),
        ConstructCase cfg s k f
          (if file.broken = true then (.error .compile, { s with nextId := s.nextId + 1 })
           else if file.late = true then
             (.error .late,
             { s with nextId := s.nextId + 1,
                      mods := if cfg.moddir = true then setMod s.mods k (some ⟨f, file.content, s.clock, true⟩) else s.mods })
           else (.ok ⟨s.nextId, k, some f, file.content, s.clock⟩,
             { s with nextId := s.nextId + 1,
                      mods := if cfg.moddir = true then setMod s.mods k (some ⟨f, file.content, s.clock, false⟩) else s.mods,
                      made := s.made ++ [⟨s.nextId, k, some f, file.content, s.clock⟩] })) := by
      intro hr
      cases hb : file.broken with
      | true => simp only [if_true]; exact .broken file hf hb hr
      | false =>
        simp only [Bool.false_eq_true, if_false]
        cases hl : file.late with
        | true => simp only [if_true]; exact .late file hf hb hl hr
        | false =>
          simp only [Bool.false_eq_true, if_false]
          exact .regen file hf hb hl hr
    cases hmd : cfg.moddir with
    | false =>
      simp only [Bool.false_eq_true, if_false]
      have := hregen (by intro h; simp [hmd] at h)
      simpa [hmd] using this
    | true =>
      simp only [if_true]
      cases hm : s.mods k with
      | none =>
        simp only
        have := hregen (by intro _ m h; simp [hm] at h)
        simpa [hmd] using this
      | some m =>
        simp only
        have h0 : (!staleDecidedBeforeImport && m.late) = false := by simp [stale_decided_before_import]
        simp only [h0, Bool.false_eq_true, if_false]
        by_cases hlt : m.time < file.mtime
        · simp only [hlt, if_true]
          have := hregen (by intro _ m' h; rw [hm] at h; injection h with h; subst h; exact Or.inl hlt)
          simpa [hmd] using this
        · simp only [hlt, if_false]
          cases hml : m.late with
          | true => simp only [if_true]; exact .lateImport file m hf hmd hm (Nat.le_of_not_lt hlt) hml
          | false =>
            simp only [Bool.false_eq_true, if_false]
            by_cases hsrc : m.src = f
            · have : (moduleChecksSourceName && m.src != f) = false := by simp [hsrc]
              simp only [this, Bool.false_eq_true, if_false]
              exact .reuse file m hf hmd hm (Nat.le_of_not_lt hlt) hml hsrc
            · have : (moduleChecksSourceName && m.src != f) = true := by
                simp [module_checks_source_name, hsrc]
              simp only [this, if_true]
              have := hregen (by
                intro _ m' h; rw [hm] at h; injection h with h; subst h; exact Or.inr ⟨hml, hsrc⟩)
              simpa [hmd] using this

theorem inv_regenState {cfg : Cfg} {s : State} (h : Inv cfg s) (k : Uri) (f : FileRef) (file : File) :
    Inv cfg (regenState cfg s k f file) := by
  unfold regenState
  apply inv_made h _ _ rfl (Nat.le_refl _)
  intro k' m hm
  split at hm
  · simp only [setMod] at hm
    split at hm
    · injection hm with hm; subst hm; exact Nat.le_refl _
    · exact h.mod_le k' m hm
  · exact h.mod_le k' m hm

theorem inv_lateState {cfg : Cfg} {s : State} (h : Inv cfg s) (k : Uri) (f : FileRef) (file : File) :
    Inv cfg (lateState cfg s k f file) := by
  unfold lateState
  refine ⟨h.mtime_le, ?_, h.stamp_le, h.coll_made, h.keys_nodup, h.ts_nodup, h.ts_lt,
    fun t ht => Nat.lt_succ_of_lt (h.id_lt t ht), h.ids_nodup, h.bound⟩
  intro k' m hm
  simp only at hm
  split at hm
  · simp only [setMod] at hm
    split at hm
    · injection hm with hm; subst hm; exact Nat.le_refl _
    · exact h.mod_le k' m hm
  · exact h.mod_le k' m hm

theorem inv_reuseState {cfg : Cfg} {s : State} (h : Inv cfg s) (k : Uri) (f : FileRef) {m : ModFile}
    (hm : s.mods k = some m) : Inv cfg (reuseState s k f m) := by
  have := inv_made h ⟨s.nextId, k, some f, m.content, m.time⟩ s.mods rfl (h.mod_le k m hm) h.mod_le
  simpa [reuseState] using this

/-- facts about the result of a construction that every later proof uses -/
structure ConstructPost (cfg : Cfg) (s : State) (k : Uri) (f : FileRef) (r : Except Exc Tmpl × State) : Prop where
  inv : Inv cfg s → Inv cfg r.2
  coll : r.2.coll = s.coll
  fs : r.2.fs = s.fs
  clock : r.2.clock = s.clock
  nextTs : r.2.nextTs = s.nextTs
  nextId : r.2.nextId = s.nextId + 1
  ok : ∀ t, r.1 = .ok t → t ∈ r.2.made ∧ t.id = s.nextId ∧ t.uri = k ∧ t.file = some f

theorem construct_post (cfg : Cfg) (s : State) (k : Uri) (f : FileRef) :
    ConstructPost cfg s k f (construct cfg s k f) := by
  have hc := construct_cases cfg s k f
  generalize construct cfg s k f = r at hc
  cases hc with
  | nofile hf => exact ⟨inv_bumpId, rfl, rfl, rfl, rfl, rfl, by intro t h; cases h⟩
  | broken file hf hb hr => exact ⟨inv_bumpId, rfl, rfl, rfl, rfl, rfl, by intro t h; cases h⟩
  | late file hf hb hl hr =>
    exact ⟨fun h => inv_lateState h k f file, rfl, rfl, rfl, rfl, rfl, by intro t h; cases h⟩
  | lateImport file m hf hmd hm hle hml => exact ⟨inv_bumpId, rfl, rfl, rfl, rfl, rfl, by intro t h; cases h⟩
  | regen file hf hb hl hr =>
    refine ⟨fun h => inv_regenState h k f file, rfl, rfl, rfl, rfl, rfl, ?_⟩
    intro t h; injection h with h; subst h
    simp [regenState]
  | reuse file m hf hmd hm hle hml hsrc =>
    refine ⟨fun h => inv_reuseState h k f hm, rfl, rfl, rfl, rfl, rfl, ?_⟩
    intro t h; injection h with h; subst h
    simp [reuseState]

/-! ## `_load`, `_check`, `get_template` -/

theorem loadFresh_ok {cfg : Cfg} {s s' : State} {k : Uri} {f : FileRef} {t : Tmpl}
    (hc : construct cfg s k f = (.ok t, s')) : loadFresh cfg s k f = (.ok t, setItem cfg s' k t) := by
  simp [loadFresh, hc]

theorem loadFresh_err {cfg : Cfg} {s s' : State} {k : Uri} {f : FileRef} {e : Exc}
    (hc : construct cfg s k f = (.error e, s')) :
    loadFresh cfg s k f = (.error e, { s' with coll := erase s'.coll k }) := by
  simp [loadFresh, hc]

theorem load_of_none {cfg : Cfg} {s : State} {k : Uri} (f : FileRef) (h : get? s.coll k = none) :
    load cfg s k f = loadFresh cfg s k f := by
  simp [load, h]

theorem load_ok {cfg : Cfg} {s s' : State} {k : Uri} {f : FileRef} {t : Tmpl} (h : get? s.coll k = none)
    (hc : construct cfg s k f = (.ok t, s')) : load cfg s k f = (.ok t, setItem cfg s' k t) := by
  rw [load_of_none f h]; exact loadFresh_ok hc

theorem load_err {cfg : Cfg} {s s' : State} {k : Uri} {f : FileRef} {e : Exc} (h : get? s.coll k = none)
    (hc : construct cfg s k f = (.error e, s')) :
    load cfg s k f = (.error e, { s' with coll := erase s'.coll k }) := by
  rw [load_of_none f h]; exact loadFresh_err hc

theorem inv_loadFresh {cfg : Cfg} {s : State} (h : Inv cfg s) (k : Uri) (f : FileRef) :
    Inv cfg (loadFresh cfg s k f).2 := by
  unfold loadFresh
  have hp := construct_post cfg s k f
  split
  · rename_i t s' heq
    rw [heq] at hp
    exact inv_setItem (hp.inv h) k (hp.ok t rfl).1
  · rename_i e s' heq
    rw [heq] at hp
    exact inv_erase (hp.inv h) k

theorem loadFresh_fs (cfg : Cfg) (s : State) (k : Uri) (f : FileRef) :
    (loadFresh cfg s k f).2.fs = s.fs ∧ (loadFresh cfg s k f).2.clock = s.clock := by
  unfold loadFresh
  have hp := construct_post cfg s k f
  split
  · rename_i t s' heq; rw [heq] at hp
    refine ⟨?_, ?_⟩
    · have : (setItem cfg s' k t).fs = s'.fs := by unfold setItem; split <;> rfl
      rw [this]; exact hp.fs
    · have : (setItem cfg s' k t).clock = s'.clock := by unfold setItem; split <;> rfl
      rw [this]; exact hp.clock
  · rename_i e s' heq; rw [heq] at hp; exact ⟨hp.fs, hp.clock⟩

theorem inv_check {cfg : Cfg} {s : State} (h : Inv cfg s) (k : Uri) (t : Tmpl) : Inv cfg (check cfg s k t).2 := by
  unfold check
  split
  · exact h
  · split
    · exact inv_erase h k
    · split
      · exact h
      · have hl := inv_loadFresh (inv_erase h k) k (by assumption)
        split
        · rename_i s' heq
          rw [heq] at hl; exact inv_erase hl k
        · exact hl

theorem check_fs (cfg : Cfg) (s : State) (k : Uri) (t : Tmpl) :
    (check cfg s k t).2.fs = s.fs ∧ (check cfg s k t).2.clock = s.clock := by
  unfold check
  cases hf : t.file with
  | none => exact ⟨rfl, rfl⟩
  | some f =>
    simp only
    cases hfs : s.fs f with
    | none => exact ⟨rfl, rfl⟩
    | some file =>
      simp only
      split
      · exact ⟨rfl, rfl⟩
      · have hl := loadFresh_fs cfg { s with coll := erase s.coll k } k f
        split
        · rename_i s' heq; rw [heq] at hl; exact hl
        · exact hl

theorem inv_load {cfg : Cfg} {s : State} (h : Inv cfg s) (k : Uri) (f : FileRef) : Inv cfg (load cfg s k f).2 := by
  unfold load
  split
  · split
    · exact inv_check (inv_stampHit h k) k _
    · exact inv_stampHit h k
  · exact inv_loadFresh h k f

theorem load_fs (cfg : Cfg) (s : State) (k : Uri) (f : FileRef) :
    (load cfg s k f).2.fs = s.fs ∧ (load cfg s k f).2.clock = s.clock := by
  unfold load
  split
  · split
    · exact check_fs cfg (stampHit s k) k _
    · exact ⟨rfl, rfl⟩
  · exact loadFresh_fs cfg s k f

theorem inv_getTemplate {cfg : Cfg} {s : State} (h : Inv cfg s) (k : Uri) : Inv cfg (getTemplate cfg s k).2 := by
  unfold getTemplate
  split
  · split
    · exact inv_check (inv_stampHit h k) k _
    · exact inv_stampHit h k
  · split
    · exact inv_load h k _
    · exact h

theorem getTemplate_fs (cfg : Cfg) (s : State) (k : Uri) :
    (getTemplate cfg s k).2.fs = s.fs ∧ (getTemplate cfg s k).2.clock = s.clock := by
  unfold getTemplate
  split
  · split
    · exact check_fs cfg (stampHit s k) k _
    · exact ⟨rfl, rfl⟩
  · split
    · exact load_fs cfg s k _
    · exact ⟨rfl, rfl⟩

theorem inv_tick {cfg : Cfg} {s : State} (h : Inv cfg s) (n : Nat) : Inv cfg { s with clock := s.clock + n } :=
  ⟨fun r f hf => Nat.le_trans (h.mtime_le r f hf) (Nat.le_add_right _ _),
   fun k m hm => Nat.le_trans (h.mod_le k m hm) (Nat.le_add_right _ _),
   fun t ht => Nat.le_trans (h.stamp_le t ht) (Nat.le_add_right _ _),
   h.coll_made, h.keys_nodup, h.ts_nodup, h.ts_lt, h.id_lt, h.ids_nodup, h.bound⟩

theorem inv_setFs {cfg : Cfg} {s : State} (h : Inv cfg s) (r : FileRef) (v : Option File)
    (hv : ∀ f, v = some f → f.mtime ≤ s.clock) : Inv cfg { s with fs := setFs s.fs r v } := by
  refine ⟨?_, h.mod_le, h.stamp_le, h.coll_made, h.keys_nodup, h.ts_nodup, h.ts_lt, h.id_lt, h.ids_nodup, h.bound⟩
  intro r' f hf
  simp only [setFs] at hf
  split at hf
  · exact hv f hf
  · exact h.mtime_le r' f hf

theorem inv_putString {cfg : Cfg} {s : State} (h : Inv cfg s) (k : Uri) (c : Content) :
    Inv cfg (putString cfg s k c) := by
  unfold putString
  have h1 := inv_made h ⟨s.nextId, k, none, c, s.clock⟩ s.mods rfl (Nat.le_refl _) h.mod_le
  exact inv_setItem h1 k (by simp)

theorem inv_step {cfg : Cfg} {s : State} (h : Inv cfg s) (op : Op) : Inv cfg (step cfg s op).2 := by
  cases op with
  | tick n => exact inv_tick h n
  | writeFile d u c => exact inv_setFs h _ _ (by intro f hf; injection hf with hf; subst hf; exact Nat.le_refl _)
  | deleteFile d u => exact inv_setFs h _ _ (by intro f hf; cases hf)
  | breakFile d u => exact inv_setFs h _ _ (by intro f hf; injection hf with hf; subst hf; exact Nat.le_refl _)
  | breakFileLate d u => exact inv_setFs h _ _ (by intro f hf; injection hf with hf; subst hf; exact Nat.le_refl _)
  | getTemplate u =>
    have := inv_getTemplate h u
    simp only [step]; split <;> (rename_i heq; rw [heq] at this; exact this)
  | hasTemplate u =>
    have := inv_getTemplate h u
    simp only [step]; split <;> (rename_i heq; rw [heq] at this; exact this)
  | putString u c => exact inv_putString h u c
  | putTemplate u tid =>
    simp only [step]; split
    · rename_i t hfind
      exact inv_setItem h u (List.mem_of_find?_eq_some hfind)
    · exact h

theorem inv_run {cfg : Cfg} (ops : List Op) {s : State} (h : Inv cfg s) : Inv cfg (run cfg s ops).2 := by
  induction ops generalizing s with
  | nil => exact h
  | cons op r ih =>
    simp only [run]
    exact ih (inv_step h op)

/-- every reachable state satisfies the invariant -/
theorem inv_final (cfg : Cfg) (h : List Op) : Inv cfg (final cfg h) := inv_run h (inv_init cfg)

end MakoModel.C14
