import MakoModel.Lookup.LemmasServe
/-!
Two further invariants over histories.

* `ModSync` (histories without `put_template`): with a module directory, a file-backed entry cached under `k`
  carries the stamp of the module file of `k` – so a source modified later than the entry's stamp is also
  later than the module file, and `_compile_from_file` regenerates.
* `Cur` (histories in which every name lives in one directory `home name`, no file is changed in a second in
  which something was compiled, no `put_*`): every cached entry and every module file whose stamp is not older
  than the source's mtime holds the *current* content of the source.  Consequence: `get_template` serves exactly
  what a lookup with an empty collection would serve (`specAt`) – whatever the collection kind and capacity.
-/
namespace MakoModel.C14
open MakoModel.Lookup MakoModel.Generated.Lookup

/-! ## membership after `setItem` / `stampHit` -/

theorem mem_setItem {cfg : Cfg} {s : State} {k : Uri} {t : Tmpl} {p : Uri × Entry}
    (h : p ∈ (setItem cfg s k t).coll) : (p.1 = k ∧ p.2.val = t) ∨ (p.1 ≠ k ∧ p ∈ s.coll) := by
  unfold setItem at h
  split at h
  · have h' := (manage_sublist cfg _).subset h
    obtain ⟨q, hq, _, _, hc⟩ := mem_replaceVal h'
    rcases hc with ⟨h1, h2⟩ | ⟨h1, h2⟩
    · exact Or.inl ⟨h1, h2⟩
    · subst h2; exact Or.inr ⟨h1, hq⟩
  · rename_i hnone
    have hk : k ∉ keys s.coll := get?_eq_none_iff.mp hnone
    have h' := (manage_sublist cfg _).subset h
    rcases List.mem_append.mp h' with h' | h'
    · refine Or.inr ⟨?_, h'⟩
      intro hpk; exact hk (hpk ▸ mem_keys_of_mem h')
    · simp at h'; subst h'; exact Or.inl ⟨rfl, rfl⟩

theorem mem_stampHit {s : State} {k : Uri} {q : Uri × Entry} (h : q ∈ (stampHit s k).coll) :
    ∃ p ∈ s.coll, q.1 = p.1 ∧ q.2.val = p.2.val := by
  obtain ⟨p, hp, h1, h2, _⟩ := mem_touch h
  exact ⟨p, hp, h1, h2⟩

theorem setItem_fields (cfg : Cfg) (s : State) (k : Uri) (t : Tmpl) :
    (setItem cfg s k t).fs = s.fs ∧ (setItem cfg s k t).mods = s.mods ∧ (setItem cfg s k t).clock = s.clock
      ∧ (setItem cfg s k t).nextId = s.nextId ∧ (setItem cfg s k t).made = s.made := by
  unfold setItem; split <;> exact ⟨rfl, rfl, rfl, rfl, rfl⟩

/-! ## construction that regenerates -/

theorem construct_regen {cfg : Cfg} {s : State} {k : Uri} {f : FileRef} {file : File} (hf : s.fs f = some file)
    (hb : file.broken = false) (hl : file.late = false) (hr : needsRegen cfg s k f file) :
    construct cfg s k f = (.ok ⟨s.nextId, k, some f, file.content, s.clock⟩, regenState cfg s k f file) := by
  have hc := construct_cases cfg s k f
  generalize construct cfg s k f = r at hc
  cases hc with
  | nofile hf' => rw [hf] at hf'; cases hf'
  | broken file' hf' hb' _ => rw [hf] at hf'; injection hf' with hf'; subst hf'; rw [hb] at hb'; cases hb'
  | late file' hf' _ hl' _ => rw [hf] at hf'; injection hf' with hf'; subst hf'; rw [hl] at hl'; cases hl'
  | regen file' hf' _ _ _ => rw [hf] at hf'; injection hf' with hf'; subst hf'; rfl
  | lateImport file' m hf' hmd hm hle hml =>
    rw [hf] at hf'; injection hf' with hf'; subst hf'
    rcases hr hmd m hm with h1 | h1
    · omega
    · rw [hml] at h1; cases h1.1
  | reuse file' m hf' hmd hm hle hml hsrc =>
    rw [hf] at hf'; injection hf' with hf'; subst hf'
    rcases hr hmd m hm with h1 | h1
    · omega
    · exact absurd hsrc h1.2

theorem construct_broken {cfg : Cfg} {s : State} {k : Uri} {f : FileRef} {file : File} (hf : s.fs f = some file)
    (hb : file.broken = true) (hr : needsRegen cfg s k f file) :
    construct cfg s k f = (.error .compile, { s with nextId := s.nextId + 1 }) := by
  have hc := construct_cases cfg s k f
  generalize construct cfg s k f = r at hc
  cases hc with
  | nofile hf' => rw [hf] at hf'; cases hf'
  | broken file' hf' hb' _ => rfl
  | late file' hf' hb' _ _ => rw [hf] at hf'; injection hf' with hf'; subst hf'; rw [hb] at hb'; cases hb'
  | regen file' hf' hb' _ _ => rw [hf] at hf'; injection hf' with hf'; subst hf'; rw [hb] at hb'; cases hb'
  | lateImport file' m hf' hmd hm hle hml =>
    rw [hf] at hf'; injection hf' with hf'; subst hf'
    rcases hr hmd m hm with h1 | h1
    · omega
    · rw [hml] at h1; cases h1.1
  | reuse file' m hf' hmd hm hle hml hsrc =>
    rw [hf] at hf'; injection hf' with hf'; subst hf'
    rcases hr hmd m hm with h1 | h1
    · omega
    · exact absurd hsrc h1.2

/-- a compile error of `Template.__init__` means: the file is broken and no module file stood in the way -/
theorem construct_compile_error {cfg : Cfg} {s s' : State} {k : Uri} {f : FileRef}
    (hc : construct cfg s k f = (.error .compile, s')) :
    ∃ file, s.fs f = some file ∧ file.broken = true ∧ needsRegen cfg s k f file ∧
      s' = { s with nextId := s.nextId + 1 } := by
  have hcc := construct_cases cfg s k f
  rw [hc] at hcc
  cases hcc with
  | broken file hf hb hr => exact ⟨file, hf, hb, hr, rfl⟩

/-! ## ModSync -/

def ModSync (cfg : Cfg) (s : State) : Prop :=
  cfg.moddir = true → ∀ p ∈ s.coll, p.2.val.file ≠ none → ∃ m, s.mods p.1 = some m ∧ m.time = p.2.val.stamp ∧ m.late = false

theorem modsync_sub {cfg : Cfg} {s : State} (h : ModSync cfg s) {c : Coll} (hs : c.Sublist s.coll) :
    ModSync cfg { s with coll := c } := fun hmd p hp hf => h hmd p (hs.subset hp) hf

theorem modsync_stampHit {cfg : Cfg} {s : State} (h : ModSync cfg s) (k : Uri) : ModSync cfg (stampHit s k) := by
  intro hmd q hq hf
  obtain ⟨p, hp, h1, h2⟩ := mem_stampHit hq
  rw [h1, h2]; rw [h2] at hf
  exact h hmd p hp hf

theorem modsync_load {cfg : Cfg} {s : State} (h : ModSync cfg s) {k : Uri} (f : FileRef)
    (hn : get? s.coll k = none) : ModSync cfg (load cfg s k f).2 := by
  have hk : k ∉ keys s.coll := get?_eq_none_iff.mp hn
  have hcc := construct_cases cfg s k f
  rcases hc : construct cfg s k f with ⟨r, s1⟩
  rw [hc] at hcc
  cases hcc with
  | nofile hf => rw [load_err hn hc]; exact modsync_sub (s := { s with nextId := s.nextId + 1 }) h (erase_sublist _ _)
  | broken file hf hb hr =>
    rw [load_err hn hc]; exact modsync_sub (s := { s with nextId := s.nextId + 1 }) h (erase_sublist _ _)
  | lateImport file m hf hmd hm hle hml =>
    rw [load_err hn hc]; exact modsync_sub (s := { s with nextId := s.nextId + 1 }) h (erase_sublist _ _)
  | late file hf hb hl hr =>
    rw [load_err hn hc]
    intro hmd p hp hfile
    obtain ⟨hp1, hp2⟩ := mem_erase.mp hp
    have := h hmd p hp1 hfile
    simp only [lateState, hmd, if_true, setMod, hp2, if_false]; exact this
  | regen file hf hb hl hr =>
    rw [load_ok hn hc]
    intro hmd p hp hfile
    obtain ⟨hfs, hmods, _, _, _⟩ := setItem_fields cfg (regenState cfg s k f file) k ⟨s.nextId, k, some f, file.content, s.clock⟩
    simp only [hmods]
    rcases mem_setItem hp with ⟨h1, h2⟩ | ⟨h1, h2⟩
    · rw [h1, h2]; simp [regenState, hmd, setMod]
    · have := h hmd p h2 hfile
      simp only [regenState, hmd, if_true, setMod, h1, if_false]; exact this
  | reuse file m hf hmd' hm hle hml hsrc =>
    rw [load_ok hn hc]
    intro hmd p hp hfile
    obtain ⟨hfs, hmods, _, _, _⟩ := setItem_fields cfg (reuseState s k f m) k ⟨s.nextId, k, some f, m.content, m.time⟩
    simp only [hmods]
    rcases mem_setItem hp with ⟨h1, h2⟩ | ⟨h1, h2⟩
    · rw [h1, h2]; exact ⟨m, hm, rfl, hml⟩
    · exact h hmd p h2 hfile

theorem modsync_check {cfg : Cfg} {s : State} (h : ModSync cfg s) (k : Uri) (t : Tmpl) :
    ModSync cfg (check cfg s k t).2 := by
  unfold check
  cases hf : t.file with
  | none => exact h
  | some f =>
    simp only
    cases hfs : s.fs f with
    | none => exact modsync_sub h (erase_sublist _ _)
    | some file =>
      simp only
      split
      · exact h
      · have hl := modsync_load (cfg := cfg) (s := { s with coll := erase s.coll k }) (modsync_sub h (erase_sublist _ _)) f
          (get?_erase_self _ _)
        rw [load_of_none f (get?_erase_self _ _)] at hl
        split
        · rename_i s' heq; rw [heq] at hl; exact modsync_sub hl (erase_sublist _ _)
        · exact hl

theorem modsync_getTemplate {cfg : Cfg} {s : State} (h : ModSync cfg s) (k : Uri) :
    ModSync cfg (getTemplate cfg s k).2 := by
  unfold getTemplate
  split
  · split
    · exact modsync_check (modsync_stampHit h k) k _
    · exact modsync_stampHit h k
  · rename_i hn
    split
    · exact modsync_load h _ hn
    · exact h

def noPutTemplate : Op → Bool
  | .putTemplate _ _ => false
  | _ => true

theorem modsync_step {cfg : Cfg} {s : State} (h : ModSync cfg s) {op : Op} (hop : noPutTemplate op = true) :
    ModSync cfg (step cfg s op).2 := by
  cases op with
  | tick n => exact h
  | writeFile d u c => exact h
  | deleteFile d u => exact h
  | breakFile d u => exact h
  | breakFileLate d u => exact h
  | getTemplate u => rw [step_get_state]; exact modsync_getTemplate h u
  | hasTemplate u => rw [step_has_state]; exact modsync_getTemplate h u
  | putString u c =>
    intro hmd p hp hfile
    simp only [step, putString] at hp ⊢
    obtain ⟨_, hmods, _, _, _⟩ := setItem_fields cfg
      { s with nextId := s.nextId + 1, made := s.made ++ [⟨s.nextId, u, none, c, s.clock⟩] } u ⟨s.nextId, u, none, c, s.clock⟩
    rw [hmods]
    rcases mem_setItem hp with ⟨h1, h2⟩ | ⟨h1, h2⟩
    · rw [h2] at hfile; exact absurd rfl hfile
    · exact h hmd p h2 hfile
  | putTemplate u i => simp [noPutTemplate] at hop

theorem modsync_run {cfg : Cfg} (ops : List Op) {s : State} (h : ModSync cfg s)
    (hop : ∀ op ∈ ops, noPutTemplate op = true) : ModSync cfg (run cfg s ops).2 := by
  induction ops generalizing s with
  | nil => exact h
  | cons op r ih =>
    simp only [run]
    exact ih (modsync_step h (hop op List.mem_cons_self)) (fun o ho => hop o (List.mem_cons_of_mem _ ho))

theorem modsync_final (cfg : Cfg) (h : List Op) (hop : ∀ op ∈ h, noPutTemplate op = true) :
    ModSync cfg (final cfg h) :=
  modsync_run h (by intro _ p hp; simp [init] at hp) hop

/-! ## ModCur: a module file stamped later than its source's mtime holds the source's current content -/

def ModCur (s : State) : Prop :=
  ∀ k m file, s.mods k = some m → s.fs m.src = some file → file.mtime < m.time →
    file.broken = false ∧ m.content = file.content ∧ m.late = file.late

theorem modcur_congr {s s' : State} (hm : s'.mods = s.mods) (hf : s'.fs = s.fs) (h : ModCur s) : ModCur s' := by
  intro k m file h1 h2 h3
  rw [hm] at h1; rw [hf] at h2
  exact h k m file h1 h2 h3

theorem modcur_construct {cfg : Cfg} {s : State} (h : ModCur s) (k : Uri) (f : FileRef) :
    ModCur (construct cfg s k f).2 := by
  have hc := construct_cases cfg s k f
  generalize construct cfg s k f = r at hc
  cases hc with
  | nofile hf => exact modcur_congr rfl rfl h
  | broken file hf hb hr => exact modcur_congr rfl rfl h
  | lateImport file m hf hmd hm hle hml => exact modcur_congr rfl rfl h
  | reuse file m hf hmd hm hle hml hsrc => exact modcur_congr rfl rfl h
  | late file hf hb hl hr =>
    intro k' m file' h1 h2 h3
    simp only [lateState] at h1 h2
    split at h1
    · simp only [setMod] at h1
      split at h1
      · injection h1 with h1; subst h1
        simp only at h2
        rw [hf] at h2; injection h2 with h2; subst h2
        exact ⟨hb, rfl, hl.symm⟩
      · exact h k' m file' h1 h2 h3
    · exact h k' m file' h1 h2 h3
  | regen file hf hb hl hr =>
    intro k' m file' h1 h2 h3
    simp only [regenState] at h1 h2
    split at h1
    · simp only [setMod] at h1
      split at h1
      · injection h1 with h1; subst h1
        simp only at h2
        rw [hf] at h2; injection h2 with h2; subst h2
        exact ⟨hb, rfl, hl.symm⟩
      · exact h k' m file' h1 h2 h3
    · exact h k' m file' h1 h2 h3

theorem modcur_loadFresh {cfg : Cfg} {s : State} (h : ModCur s) (k : Uri) (f : FileRef) :
    ModCur (loadFresh cfg s k f).2 := by
  have hc := modcur_construct (cfg := cfg) h k f
  unfold loadFresh
  split
  · rename_i t s' heq; rw [heq] at hc
    obtain ⟨h1, h2, _⟩ := setItem_fields cfg s' k t
    exact modcur_congr h2 h1 hc
  · rename_i e s' heq; rw [heq] at hc
    exact modcur_congr rfl rfl hc

theorem modcur_check {cfg : Cfg} {s : State} (h : ModCur s) (k : Uri) (t : Tmpl) : ModCur (check cfg s k t).2 := by
  unfold check
  cases hf : t.file with
  | none => exact h
  | some f =>
    simp only
    cases hfs : s.fs f with
    | none => exact modcur_congr rfl rfl h
    | some file =>
      simp only
      split
      · exact h
      · have hl := modcur_loadFresh (cfg := cfg) (s := { s with coll := erase s.coll k }) (modcur_congr rfl rfl h) k f
        split
        · rename_i s' heq; rw [heq] at hl; exact modcur_congr rfl rfl hl
        · exact hl

theorem modcur_getTemplate {cfg : Cfg} {s : State} (h : ModCur s) (k : Uri) : ModCur (getTemplate cfg s k).2 := by
  have hst : ModCur (stampHit s k) := modcur_congr rfl rfl h
  unfold getTemplate
  split
  · split
    · exact modcur_check hst k _
    · exact hst
  · split
    · unfold load
      split
      · split
        · exact modcur_check hst k _
        · exact hst
      · exact modcur_loadFresh h k _
    · exact h

theorem modcur_setFs {cfg : Cfg} {s : State} (hi : Inv cfg s) (h : ModCur s) (r : FileRef) (v : Option File)
    (hv : ∀ f, v = some f → f.mtime = s.clock) : ModCur { s with fs := setFs s.fs r v } := by
  intro k m file h1 h2 h3
  simp only [setFs] at h2
  split at h2
  · have := hv file h2
    have := hi.mod_le k m h1
    omega
  · exact h k m file h1 h2 h3

theorem modcur_step {cfg : Cfg} {s : State} (hi : Inv cfg s) (h : ModCur s) (op : Op) : ModCur (step cfg s op).2 := by
  cases op with
  | tick n => exact modcur_congr rfl rfl h
  | writeFile d u c => exact modcur_setFs hi h _ _ (by intro f hf; injection hf with hf; subst hf; rfl)
  | deleteFile d u => exact modcur_setFs hi h _ _ (by intro f hf; cases hf)
  | breakFile d u => exact modcur_setFs hi h _ _ (by intro f hf; injection hf with hf; subst hf; rfl)
  | breakFileLate d u => exact modcur_setFs hi h _ _ (by intro f hf; injection hf with hf; subst hf; rfl)
  | getTemplate u => rw [step_get_state]; exact modcur_getTemplate h u
  | hasTemplate u => rw [step_has_state]; exact modcur_getTemplate h u
  | putString u c =>
    simp only [step, putString]
    obtain ⟨h1, h2, _⟩ := setItem_fields cfg
      { s with nextId := s.nextId + 1, made := s.made ++ [⟨s.nextId, u, none, c, s.clock⟩] } u ⟨s.nextId, u, none, c, s.clock⟩
    exact modcur_congr h2 h1 (modcur_congr rfl rfl h)
  | putTemplate u i =>
    simp only [step]
    split
    · rename_i t _
      obtain ⟨h1, h2, _⟩ := setItem_fields cfg s u t
      exact modcur_congr h2 h1 h
    · exact h

theorem modcur_run {cfg : Cfg} (ops : List Op) {s : State} (hi : Inv cfg s) (h : ModCur s) :
    ModCur (run cfg s ops).2 := by
  induction ops generalizing s with
  | nil => exact h
  | cons op r ih =>
    simp only [run]
    exact ih (inv_step hi op) (modcur_step hi h op)

theorem modcur_final (cfg : Cfg) (h : List Op) : ModCur (final cfg h) :=
  modcur_run h (inv_init cfg) (by intro k m file h1; simp [init] at h1)

/-- the possible results of constructing from an existing, compiling file: the current content, or – with a
module directory – the content of a module file of the same source stamped in the very second of the source's
mtime (the one-second allowance) -/
theorem construct_ok_current {cfg : Cfg} {s s' : State} {k : Uri} {f : FileRef} {file : File} {t : Tmpl}
    (hm : ModCur s) (hf : s.fs f = some file) (hc : construct cfg s k f = (.ok t, s')) :
    t.file = some f ∧ t.id = s.nextId ∧
      (t.content = file.content ∨ (cfg.moddir = true ∧ t.stamp = file.mtime)) := by
  have hcc := construct_cases cfg s k f
  rw [hc] at hcc
  cases hcc with
  | regen file' hf' hb hl hr =>
    rw [hf] at hf'; injection hf' with hf'; subst hf'
    exact ⟨rfl, rfl, Or.inl rfl⟩
  | reuse file' m hf' hmd hmm hle hml hsrc =>
    rw [hf] at hf'; injection hf' with hf'; subst hf'
    refine ⟨rfl, rfl, ?_⟩
    by_cases heq : file.mtime = m.time
    · exact Or.inr ⟨hmd, heq.symm⟩
    · have hlt : file.mtime < m.time := by omega
      exact Or.inl (hm k m file hmm (by rw [hsrc]; exact hf) hlt).2.1

/-- …and it cannot fail when the file compiles and imports, unless a module file whose import raises is in the
way (not older than the source) -/
theorem construct_ok_of_compiles {cfg : Cfg} {s : State} {k : Uri} {f : FileRef} {file : File}
    (hf : s.fs f = some file) (hb : file.broken = false) (hl : file.late = false)
    (hlate : cfg.moddir = true → ∀ m, s.mods k = some m → m.late = true → m.time < file.mtime) :
    ∃ t s', construct cfg s k f = (.ok t, s') := by
  have hcc := construct_cases cfg s k f
  rcases hc : construct cfg s k f with ⟨r, s'⟩
  rw [hc] at hcc
  cases hcc with
  | nofile hf' => rw [hf] at hf'; cases hf'
  | broken file' hf' hb' _ => rw [hf] at hf'; injection hf' with hf'; subst hf'; rw [hb] at hb'; cases hb'
  | late file' hf' _ hl' _ => rw [hf] at hf'; injection hf' with hf'; subst hf'; rw [hl] at hl'; cases hl'
  | regen file' hf' _ _ _ => exact ⟨_, _, rfl⟩
  | lateImport file' m hf' hmd hmm hle hml =>
    rw [hf] at hf'; injection hf' with hf'; subst hf'
    have := hlate hmd m hmm hml; omega
  | reuse file' m hf' hmd hmm hle hml hsrc => exact ⟨_, _, rfl⟩

/-- an import error of `Template.__init__`: the source is late-breaking and its module was (re)generated now, or a
module file whose import raises, not older than the source, was imported -/
theorem construct_late_error {cfg : Cfg} {s s' : State} {k : Uri} {f : FileRef}
    (hc : construct cfg s k f = (.error .late, s')) :
    (∃ file, s.fs f = some file ∧ file.broken = false ∧ file.late = true ∧ s' = lateState cfg s k f file) ∨
    (∃ file m, s.fs f = some file ∧ cfg.moddir = true ∧ s.mods k = some m ∧ file.mtime ≤ m.time ∧ m.late = true ∧
      s' = { s with nextId := s.nextId + 1 }) := by
  have hcc := construct_cases cfg s k f
  rw [hc] at hcc
  cases hcc with
  | late file hf hb hl hr => exact Or.inl ⟨file, hf, hb, hl, rfl⟩
  | lateImport file m hf hmd hm hle hml => exact Or.inr ⟨file, m, hf, hmd, hm, hle, hml, rfl⟩

/-! ## the specification of "what a lookup serves": a cold lookup on the current disk -/

inductive View
  | content (c : Content)
  | missing
  | broken
  | late
  | other
deriving DecidableEq, Repr

/-- what a lookup with an empty collection and no module directory serves for `u` -/
def specAt (ndirs : Nat) (fs : FileRef → Option File) (u : Uri) : View :=
  match firstDir ndirs fs u with
  | none => .missing
  | some d =>
    match fs (d, u) with
    | none => .missing
    | some file => if file.broken then .broken else if file.late then .late else .content file.content

def viewGet : Except Exc Tmpl → View
  | .ok t => .content t.content
  | .error .topLevel => .missing
  | .error .lookup => .missing
  | .error .compile => .broken
  | .error .late => .late
  | .error .os => .other

/-- content-level view of an output: identities are forgotten, the two lookup exceptions are identified -/
def contentView : Out → Out
  | .ok _ c => .ok 0 c
  | .exc .topLevel => .exc .lookup
  | o => o

def specOut (ndirs : Nat) (fs : FileRef → Option File) : Op → Out
  | .getTemplate u =>
    match specAt ndirs fs u with
    | .content c => .ok 0 c
    | .missing => .exc .lookup
    | .broken => .exc .compile
    | .late => .exc .late
    | .other => .exc .os
  | .hasTemplate u =>
    match specAt ndirs fs u with
    | .content _ => .has true
    | .missing => .has false
    | .broken => .exc .compile
    | .late => .exc .late
    | .other => .exc .os
  | _ => .none

def fsStep (fs : FileRef → Option File) (clk : Nat) : Op → (FileRef → Option File)
  | .writeFile d u c => setFs fs (d, u) (some ⟨c, clk, false, false⟩)
  | .deleteFile d u => setFs fs (d, u) none
  | .breakFile d u => setFs fs (d, u) (some ⟨0, clk, true, false⟩)
  | .breakFileLate d u => setFs fs (d, u) (some ⟨0, clk, false, true⟩)
  | _ => fs

def clkStep (clk : Nat) : Op → Nat
  | .tick n => clk + n
  | _ => clk

/-- the outputs of a history according to the specification: depends on the disk operations only -/
def specRun (ndirs : Nat) : (FileRef → Option File) → Nat → List Op → List Out
  | _, _, [] => []
  | fs, clk, op :: r => specOut ndirs fs op :: specRun ndirs (fsStep fs clk op) (clkStep clk op) r

/-! ## Cur -/

structure Cur (home : Uri → Dir) (cfg : Cfg) (s : State) : Prop where
  files_home : ∀ d k file, s.fs (d, k) = some file → d = home k
  entry : ∀ p ∈ s.coll, p.2.val.file = some (home p.1, p.1) ∧ home p.1 < cfg.ndirs ∧
    ∀ file, s.fs (home p.1, p.1) = some file → file.mtime ≤ p.2.val.stamp →
      file.broken = false ∧ file.late = false ∧ p.2.val.content = file.content
  modf : ∀ k m, s.mods k = some m → ∀ file, s.fs (home k, k) = some file → file.mtime ≤ m.time →
    file.broken = false ∧ m.late = file.late ∧ m.content = file.content

/-- everything compiled so far was compiled in an earlier second -/
def Older (s : State) : Prop :=
  (∀ p ∈ s.coll, p.2.val.stamp < s.clock) ∧ (∀ k m, s.mods k = some m → m.time < s.clock)

theorem cur_sub {home : Uri → Dir} {cfg : Cfg} {s : State} (h : Cur home cfg s) {c : Coll}
    (hs : c.Sublist s.coll) : Cur home cfg { s with coll := c } :=
  ⟨h.files_home, fun p hp => h.entry p (hs.subset hp), h.modf⟩

theorem cur_stampHit {home : Uri → Dir} {cfg : Cfg} {s : State} (h : Cur home cfg s) (k : Uri) :
    Cur home cfg (stampHit s k) := by
  refine ⟨h.files_home, ?_, h.modf⟩
  intro q hq
  obtain ⟨p, hp, h1, h2⟩ := mem_stampHit hq
  rw [h1, h2]; exact h.entry p hp

theorem specAt_of_home {home : Uri → Dir} {cfg : Cfg} {s : State} (h : Cur home cfg s) {u : Uri}
    (hlt : home u < cfg.ndirs) :
    specAt cfg.ndirs s.fs u =
      match s.fs (home u, u) with
      | none => .missing
      | some file => if file.broken then .broken else if file.late then .late else .content file.content := by
  unfold specAt
  cases hfs : s.fs (home u, u) with
  | none =>
    have : firstDir cfg.ndirs s.fs u = none := by
      rw [firstDir_none_iff]; intro d _
      cases hd : s.fs (d, u) with
      | none => rfl
      | some file => have := h.files_home d u file hd; subst this; rw [hfs] at hd; cases hd
    simp [this]
  | some file =>
    have : firstDir cfg.ndirs s.fs u = some (home u) := by
      rw [firstDir_some_iff]
      refine ⟨by simp [hfs], hlt, ?_⟩
      intro j hj
      cases hd : s.fs (j, u) with
      | none => rfl
      | some file' =>
        have := h.files_home j u file' hd
        rw [this] at hj; exact absurd hj (Nat.lt_irrefl _)
    simp [this, hfs]

/-- the result of loading the existing file `(home k, k)` under `k`, content-wise, and the invariant afterwards -/
theorem cur_load {home : Uri → Dir} {cfg : Cfg} {s : State} (h : Cur home cfg s) {k : Uri}
    (hlt : home k < cfg.ndirs) (hn : get? s.coll k = none) (hex : ∃ file, s.fs (home k, k) = some file) :
    viewGet (load cfg s k (home k, k)).1 = specAt cfg.ndirs s.fs k ∧ Cur home cfg (load cfg s k (home k, k)).2 := by
  rw [specAt_of_home h hlt]
  have hcc := construct_cases cfg s k (home k, k)
  rcases hc : construct cfg s k (home k, k) with ⟨r, s1⟩
  rw [hc] at hcc
  cases hcc with
  | nofile hf => obtain ⟨file, hfile⟩ := hex; rw [hf] at hfile; cases hfile
  | broken file hf hb hr =>
    rw [load_err hn hc]
    refine ⟨by simp [viewGet, hf, hb],
      cur_sub (s := { s with nextId := s.nextId + 1 }) ⟨h.files_home, h.entry, h.modf⟩ (erase_sublist _ _)⟩
  | lateImport file m hf hmd hm hle hml =>
    rw [load_err hn hc]
    obtain ⟨hb, hlate, _⟩ := h.modf k m hm file hf hle
    rw [hml] at hlate
    refine ⟨by simp [viewGet, hf, hb, ← hlate],
      cur_sub (s := { s with nextId := s.nextId + 1 }) ⟨h.files_home, h.entry, h.modf⟩ (erase_sublist _ _)⟩
  | late file hf hb hl hr =>
    rw [load_err hn hc]
    refine ⟨by simp [viewGet, hf, hb, hl], ?_⟩
    refine cur_sub (s := lateState cfg s k (home k, k) file) ⟨h.files_home, h.entry, ?_⟩ (erase_sublist _ _)
    intro k' m hm file' hf' hle
    simp only [lateState] at hm hf'
    split at hm
    · simp only [setMod] at hm
      split at hm
      · rename_i hk; subst hk
        injection hm with hm; subst hm
        rw [hf] at hf'; injection hf' with hf'; subst hf'
        exact ⟨hb, hl.symm, rfl⟩
      · exact h.modf k' m hm file' hf' hle
    · exact h.modf k' m hm file' hf' hle
  | regen file hf hb hl hr =>
    rw [load_ok hn hc]
    refine ⟨by simp [viewGet, hf, hb, hl], ?_⟩
    obtain ⟨hfs, hmods, _, _, _⟩ := setItem_fields cfg (regenState cfg s k (home k, k) file) k
      ⟨s.nextId, k, some (home k, k), file.content, s.clock⟩
    refine ⟨by rw [hfs]; exact h.files_home, ?_, ?_⟩
    · intro p hp
      rw [hfs]
      rcases mem_setItem hp with ⟨h1, h2⟩ | ⟨h1, h2⟩
      · rw [h1, h2]
        refine ⟨rfl, hlt, ?_⟩
        intro file' hf' _
        simp only [regenState] at hf'
        rw [hf] at hf'; injection hf' with hf'; subst hf'
        exact ⟨hb, hl, rfl⟩
      · exact h.entry p h2
    · intro k' m hm file' hf' hle
      rw [hmods] at hm; rw [hfs] at hf'
      simp only [regenState] at hm hf'
      split at hm
      · simp only [setMod] at hm
        split at hm
        · rename_i hk; subst hk
          injection hm with hm; subst hm
          rw [hf] at hf'; injection hf' with hf'; subst hf'
          exact ⟨hb, hl.symm, rfl⟩
        · exact h.modf k' m hm file' hf' hle
      · exact h.modf k' m hm file' hf' hle
  | reuse file m hf hmd hm hle hml hsrc =>
    rw [load_ok hn hc]
    obtain ⟨hb, hlate, hcont⟩ := h.modf k m hm file hf hle
    rw [hml] at hlate
    refine ⟨by simp [viewGet, hf, hb, ← hlate, hcont], ?_⟩
    obtain ⟨hfs, hmods, _, _, _⟩ := setItem_fields cfg (reuseState s k (home k, k) m) k
      ⟨s.nextId, k, some (home k, k), m.content, m.time⟩
    refine ⟨by rw [hfs]; exact h.files_home, ?_, by rw [hmods, hfs]; exact h.modf⟩
    intro p hp
    rw [hfs]
    rcases mem_setItem hp with ⟨h1, h2⟩ | ⟨h1, h2⟩
    · rw [h1, h2]
      refine ⟨rfl, hlt, ?_⟩
      intro file' hf' hle'
      simp only [reuseState] at hf'
      obtain ⟨a1, a2, a3⟩ := h.modf k m hm file' hf' hle'
      rw [hml] at a2
      exact ⟨a1, a2.symm, a3⟩
    · exact h.entry p h2

end MakoModel.C14
