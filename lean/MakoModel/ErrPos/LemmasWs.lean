import MakoModel.ErrPos.LemmasLines
/-!
`adjust_whitespace` (the model of C19's area, `PyExpr.Ws.adjustWhitespace`) keeps the line structure the line
arithmetic of `PythonCode` relies on: the same number of lines, none containing a newline, and a line is
whitespace-only after re-margining iff it was before.  Hence the newlines `PythonCode` strips from
`adjust_whitespace(raw) + "\n"` are the leading blank lines of `raw`.
-/
namespace MakoModel.ErrPos
open MakoModel.Basic MakoModel.Lexer
open MakoModel.PyExpr.Ws (splitLines joinLines expandTabs adjustLoop adjustWhitespace replaceMargin margin stepLine MLState)

def blankL (l : Str) : Bool := l.all isPySpace
def lead (ls : List Str) : Nat := (ls.takeWhile blankL).length

theorem blankL_false_iff (l : Str) : blankL l = false ↔ HasCode l := by
  unfold blankL HasCode
  rw [List.all_eq_false]
  constructor
  · rintro ⟨c, hc, hp⟩; exact ⟨c, hc, by simpa using hp⟩
  · rintro ⟨c, hc, hp⟩; exact ⟨c, hc, by simp [hp]⟩

theorem lead_congr {a b : List Str} (h : a.map blankL = b.map blankL) : lead a = lead b := by
  unfold lead
  induction a generalizing b with
  | nil => cases b with
    | nil => rfl
    | cons y ys => simp at h
  | cons x xs ih =>
    cases b with
    | nil => simp at h
    | cons y ys =>
      simp only [List.map_cons, List.cons.injEq] at h
      simp only [List.takeWhile_cons, h.1]
      split
      · simp only [List.length_cons, ih h.2]
      · rfl

/-! ### joining -/

theorem countNL_wsPrefix_join (ls : List Str) (hnl : ∀ l ∈ ls, '\n' ∉ l) (hcode : ∃ l ∈ ls, blankL l = false) :
    countNL (wsPrefix (joinLines ls ++ ['\n'])) = lead ls := by
  induction ls with
  | nil => obtain ⟨l, hl, _⟩ := hcode; cases hl
  | cons l rest ih =>
    have hl_nl : '\n' ∉ l := hnl l (by simp)
    cases rest with
    | nil =>
      obtain ⟨l', hl', hb⟩ := hcode
      simp only [List.mem_singleton] at hl'
      subst hl'
      have hc := (blankL_false_iff l').mp hb
      simp only [joinLines, wsPrefix, lead, List.takeWhile_cons, hb]
      rw [takeWhile_append_of_exists isPySpace _ _ hc]
      exact countNL_zero_of_not_mem (fun hm => hl_nl (takeWhile_subset _ _ _ hm))
    | cons m r =>
      have e : joinLines (l :: m :: r) ++ ['\n'] = l ++ '\n' :: (joinLines (m :: r) ++ ['\n']) := by
        simp [joinLines]
      rw [e]
      by_cases hb : blankL l = true
      · have hall : ∀ c ∈ l, isPySpace c = true := by
          unfold blankL at hb; exact List.all_eq_true.mp hb
        have hcode' : ∃ x ∈ m :: r, blankL x = false := by
          obtain ⟨x, hx, hxb⟩ := hcode
          simp only [List.mem_cons] at hx
          rcases hx with rfl | hx
          · rw [hb] at hxb; cases hxb
          · exact ⟨x, by simpa using hx, hxb⟩
        have ih' := ih (fun x hx => hnl x (by simp [hx])) hcode'
        unfold wsPrefix at ih' ⊢
        rw [takeWhile_append_all isPySpace _ _ hall, List.takeWhile_cons, isPySpace_nl]
        simp only [if_true, countNL_append, countNL_cons, ih', countNL_zero_of_not_mem hl_nl]
        simp only [lead, List.takeWhile_cons, hb, if_true, List.length_cons]
        omega
      · have hb' : blankL l = false := by simpa using hb
        have hc := (blankL_false_iff l).mp hb'
        unfold wsPrefix
        rw [takeWhile_append_of_exists isPySpace _ _ hc]
        simp only [lead, List.takeWhile_cons, hb']
        exact countNL_zero_of_not_mem (fun hm => hl_nl (takeWhile_subset _ _ _ hm))

/-! ### splitting -/

theorem splitLines_ne_nil (x : Str) : ∃ l ls, splitLines x = l :: ls := by
  fun_induction splitLines x with
  | case1 => exact ⟨_, _, rfl⟩
  | case2 => exact ⟨_, _, rfl⟩
  | case3 => exact ⟨_, _, rfl⟩
  | case4 => exact ⟨_, _, rfl⟩
  | case5 => exact ⟨_, _, rfl⟩

theorem splitLines_noNL (x : Str) : ∀ l ∈ splitLines x, '\n' ∉ l := by
  fun_induction splitLines x with
  | case1 => simp
  | case2 r ih =>
    intro l hl
    simp only [List.mem_cons] at hl
    rcases hl with rfl | hl
    · simp
    · exact ih l hl
  | case3 r ih =>
    intro l hl
    simp only [List.mem_cons] at hl
    rcases hl with rfl | hl
    · simp
    · exact ih l hl
  | case4 c r h1 h2 heq ih =>
    intro l hl
    simp only [List.mem_singleton] at hl
    subst hl
    simp only [List.mem_singleton]
    intro e
    exact h2 e.symm
  | case5 c r h1 h2 l ls heq ih =>
    intro x hx
    simp only [List.mem_cons] at hx
    rcases hx with rfl | hx
    · simp only [List.mem_cons, not_or]
      refine ⟨?_, ?_⟩
      · intro e
        exact h2 e.symm
      · exact ih l (by rw [heq]; simp)
    · exact ih x (by rw [heq]; simp [hx])

/-- the number of leading whitespace-only lines of `re.split(r"\r?\n", raw)` is the number of newlines in the
    whitespace prefix of `raw`; and some line has code -/
theorem lead_splitLines (x : Str) (h : HasCode x) :
    lead (splitLines x) = countNL (wsPrefix x) ∧ false ∈ (splitLines x).map blankL := by
  unfold lead wsPrefix
  fun_induction splitLines x with
  | case1 => obtain ⟨c, hc, _⟩ := h; cases hc
  | case2 r ih =>
    have hr : HasCode r := by
      obtain ⟨c, hc, hp⟩ := h
      simp only [List.mem_cons] at hc
      rcases hc with rfl | rfl | hc
      · rw [isPySpace_cr] at hp; cases hp
      · rw [isPySpace_nl] at hp; cases hp
      · exact ⟨c, hc, hp⟩
    have ih' := ih hr
    refine ⟨?_, ?_⟩
    · simp only [List.takeWhile_cons, blankL, List.all_nil, if_true, List.length_cons, isPySpace_cr, isPySpace_nl,
        countNL_cons]
      have := ih'.1
      have e : (if '\r' = '\n' then 1 else 0) = 0 := by decide
      rw [e]
      omega
    · simp only [List.map_cons, List.mem_cons]
      exact Or.inr ih'.2
  | case3 r ih =>
    have hr : HasCode r := by
      obtain ⟨c, hc, hp⟩ := h
      simp only [List.mem_cons] at hc
      rcases hc with rfl | hc
      · rw [isPySpace_nl] at hp; cases hp
      · exact ⟨c, hc, hp⟩
    have ih' := ih hr
    refine ⟨?_, ?_⟩
    · simp only [List.takeWhile_cons, blankL, List.all_nil, if_true, List.length_cons, isPySpace_nl, countNL_cons]
      have := ih'.1
      omega
    · simp only [List.map_cons, List.mem_cons]
      exact Or.inr ih'.2
  | case4 c r h1 h2 heq ih =>
    obtain ⟨l, ls, hl⟩ := splitLines_ne_nil r
    rw [hl] at heq; cases heq
  | case5 c r h1 h2 l ls heq ih =>
    have hcn : c ≠ '\n' := fun e => h2 e
    by_cases hws : isPySpace c = true
    · have hr : HasCode r := by
        obtain ⟨d, hd, hp⟩ := h
        simp only [List.mem_cons] at hd
        rcases hd with rfl | hd
        · rw [hws] at hp; cases hp
        · exact ⟨d, hd, hp⟩
      have ih' := ih hr
      rw [heq] at ih'
      have hb : blankL (c :: l) = blankL l := by simp [blankL, hws]
      refine ⟨?_, ?_⟩
      · simp only [List.takeWhile_cons, hb, hws, if_true, countNL_cons, hcn, if_false, Nat.zero_add]
        rw [← ih'.1]
        simp only [List.takeWhile_cons]
        split <;> rfl
      · simp only [List.map_cons, hb]
        simpa using ih'.2
    · have hws' : isPySpace c = false := by simpa using hws
      have hb : blankL (c :: l) = false := by simp [blankL, hws']
      refine ⟨?_, ?_⟩
      · simp [List.takeWhile_cons, hb, hws']
      · simp [hb]

/-! ### the loop of `adjust_whitespace` -/

theorem blankL_expandTabs (col : Nat) (l : Str) : blankL (expandTabs col l) = blankL l := by
  unfold blankL
  fun_induction expandTabs col l with
  | case1 => rfl
  | case2 col r ih =>
    simp only [List.all_append, List.all_cons, ih]
    have h1 : (List.replicate (8 - col % 8) ' ').all isPySpace = true := by
      rw [List.all_eq_true]
      intro x hx
      rw [List.eq_of_mem_replicate hx]
      decide +kernel
    have h2 : isPySpace '\t' = true := by decide +kernel
    simp [h1, h2]
  | case3 col c r hc hcc ih => simp only [List.all_cons, ih]
  | case4 col c r hc hcc ih => simp only [List.all_cons, ih]

theorem noNL_expandTabs (col : Nat) (l : Str) (h : '\n' ∉ l) : '\n' ∉ expandTabs col l := by
  fun_induction expandTabs col l with
  | case1 => simp
  | case2 col r ih =>
    simp only [List.mem_cons, not_or] at h
    simp only [List.mem_append, not_or]
    refine ⟨?_, ih h.2⟩
    intro hm
    have := List.eq_of_mem_replicate hm
    cases this
  | case3 col c r hc hcc ih =>
    simp only [List.mem_cons, not_or] at h ⊢
    exact ⟨h.1, ih h.2⟩
  | case4 col c r hc hcc ih =>
    simp only [List.mem_cons, not_or] at h ⊢
    exact ⟨h.1, ih h.2⟩

theorem wsIsBlank_isPySpace (c : Char) (h : PyExpr.Ws.isBlank c = true) : isPySpace c = true := by
  simp only [PyExpr.Ws.isBlank, Bool.or_eq_true, decide_eq_true_eq] at h
  rcases h with h | h <;> subst h <;> decide +kernel

theorem margin_all (l : Str) : ∀ c ∈ margin l, isPySpace c = true := by
  intro c hc
  exact wsIsBlank_isPySpace c (of_mem_takeWhile _ _ c hc)

theorem blankL_replaceMargin (m : Option Str) (y : Str) (hm : ∀ x, m = some x → ∀ c ∈ x, isPySpace c = true) :
    blankL (replaceMargin m [] y) = blankL y := by
  unfold replaceMargin
  split
  · rfl
  · rename_i x
    split
    · rename_i hp
      obtain ⟨t, ht⟩ := List.isPrefixOf_iff_prefix.mp hp
      have hall : blankL x = true := by
        unfold blankL; rw [List.all_eq_true]; exact hm x rfl
      subst ht
      simp only [List.nil_append, List.drop_left]
      unfold blankL at hall ⊢
      rw [List.all_append, hall, Bool.true_and]
    · rfl

theorem noNL_replaceMargin (m : Option Str) (y : Str) (h : '\n' ∉ y) : '\n' ∉ replaceMargin m [] y := by
  unfold replaceMargin
  split
  · exact h
  · split
    · simp only [List.nil_append]
      exact fun hm => h (List.mem_of_mem_drop hm)
    · exact h

theorem adjustLoop_props (ls : List Str) : ∀ (st : MLState) (m : Option Str),
    (∀ x, m = some x → ∀ c ∈ x, isPySpace c = true) → (∀ l ∈ ls, '\n' ∉ l) →
    (adjustLoop st m ls).map blankL = ls.map blankL ∧ ∀ l ∈ adjustLoop st m ls, '\n' ∉ l := by
  induction ls with
  | nil => intro st m _ _; simp [adjustLoop]
  | cons l r ih =>
    intro st m hm hnl
    have hl := hnl l (by simp)
    have hr : ∀ x ∈ r, '\n' ∉ x := fun x hx => hnl x (by simp [hx])
    simp only [adjustLoop]
    split
    · have := ih (stepLine st l).2 m hm hr
      refine ⟨by simp only [List.map_cons, this.1], ?_⟩
      intro x hx
      simp only [List.mem_cons] at hx
      rcases hx with rfl | hx
      · exact hl
      · exact this.2 x hx
    · -- the margin after this line
      have hm' : ∀ x, (match m with
            | some x => some x
            | none => if PyExpr.Ws.isCodeLine (expandTabs 0 l) = true then some (margin (expandTabs 0 l)) else none) = some x →
          ∀ c ∈ x, isPySpace c = true := by
        intro x hx
        split at hx
        · exact hm x hx
        · split at hx
          · cases hx; exact margin_all _
          · cases hx
      have := ih (stepLine st l).2 _ hm' hr
      refine ⟨?_, ?_⟩
      · rw [List.map_cons, List.map_cons]
        exact congr (congrArg List.cons ((blankL_replaceMargin _ _ hm').trans (blankL_expandTabs 0 l))) this.1
      · intro x hx
        simp only [List.mem_cons] at hx
        rcases hx with rfl | hx
        · exact noNL_replaceMargin _ _ (noNL_expandTabs 0 l hl)
        · exact this.2 x hx

/-- **`PythonCode`'s offset for a `<% %>` block** is the number of leading blank lines of the raw block text,
    whatever the margin, the tabs, the triple-quoted strings and the line ends (LF / CRLF) of the block -/
theorem block_offset (raw : Str) (h : HasCode raw) :
    countNL (wsPrefix (adjustWhitespace raw ++ ['\n'])) = leadingBlankLines raw := by
  unfold adjustWhitespace
  have hs := lead_splitLines raw h
  have ha := adjustLoop_props (splitLines raw) MLState.init none (by intro x hx; cases hx) (splitLines_noNL raw)
  have hcode : ∃ l ∈ adjustLoop MLState.init none (splitLines raw), blankL l = false := by
    have : false ∈ (adjustLoop MLState.init none (splitLines raw)).map blankL := by rw [ha.1]; exact hs.2
    obtain ⟨l, hl, hb⟩ := List.mem_map.mp this
    exact ⟨l, hl, hb⟩
  rw [countNL_wsPrefix_join _ ha.2 hcode, lead_congr ha.1, hs.1, leadingNL_eq_leadingBlankLines raw h]

/-- `adjust_whitespace` preserves the number of lines (own small lemma; C19 states the same for its `remargin`) -/
theorem adjustLoop_length (ls : List Str) : ∀ (st : MLState) (m : Option Str), (adjustLoop st m ls).length = ls.length := by
  induction ls with
  | nil => intro st m; simp [adjustLoop]
  | cons l r ih =>
    intro st m
    simp only [adjustLoop]
    split <;> simp [ih]

end MakoModel.ErrPos
