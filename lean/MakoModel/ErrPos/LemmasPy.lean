import MakoModel.ErrPos.LemmasWs
/-!
The `lineno_offset` each construct ends up with, and the generic step from "offset + k = raw line" to
"reported line = true line".
-/
namespace MakoModel.ErrPos
open MakoModel.Basic MakoModel.Lexer

/-- general form: the code string starts `d` lines below the node -/
theorem reported_eq_true_at (lb : Label) (s : Str) (p o : Nat) (raw : Str) (k : Nat) (pc : PyCall) (j d : Nat)
    (hcall : pyCallOf lb (ctorString lb raw) = some pc)
    (hj : rawLineOf lb raw k = j) (hd : countNL (slice s p o) = d) (hoff : pc.offset + (k : Int) = (d : Int) + (j : Int))
    (hpo : p ≤ o) (hloc : slice s o (o + raw.length) = raw)
    (hj1 : 1 ≤ j) (hjn : j ≤ countNL raw + 1) :
    reportedLine lb (lineOf s p) raw k = some ((trueLine s o lb raw k : Nat) : Int) := by
  unfold reportedLine trueLine lineStart
  rw [hcall, hj, lineOf_in_code s o raw (j - 1) hloc (by omega), lineOf_add s p o hpo, hd]
  simp only [Option.map_some, adjustLineno, Option.some.injEq]
  omega

/-- reported = true, given the construct's arithmetic fact `offset + k = raw line index` -/
theorem reported_eq_true (lb : Label) (s : Str) (p o : Nat) (raw : Str) (k : Nat) (pc : PyCall) (j : Nat)
    (hcall : pyCallOf lb (ctorString lb raw) = some pc)
    (hj : rawLineOf lb raw k = j) (hoff : pc.offset + (k : Int) = (j : Int))
    (hpo : p ≤ o) (hfirst : countNL (slice s p o) = 0) (hloc : slice s o (o + raw.length) = raw)
    (hj1 : 1 ≤ j) (hjn : j ≤ countNL raw + 1) :
    reportedLine lb (lineOf s p) raw k = some ((trueLine s o lb raw k : Nat) : Int) := by
  unfold reportedLine trueLine
  rw [hcall, hj, line_algebra s p o raw j hpo hfirst hloc hj1 hjn]
  simp only [Option.map_some, adjustLineno, Option.some.injEq]
  omega

/-! ### offsets per construct -/

theorem offset_expr (raw : Str) (h : HasCode raw) :
    pyCallOf .expr (ctorString .expr raw) = some (pythonCode (replaceCRLF raw)) ∧
    (pythonCode (replaceCRLF raw)).offset = (leadingBlankLines raw : Nat) := by
  refine ⟨rfl, ?_⟩
  rw [pythonCode_offset, countNL_wsPrefix_replaceCRLF, leadingNL_eq_leadingBlankLines raw h]
  simp

theorem offset_callExpr (raw : Str) (h : HasCode raw) :
    pyCallOf .callExpr (ctorString .callExpr raw) = some (pythonCode (replaceCRLF raw)) ∧
    (pythonCode (replaceCRLF raw)).offset = (leadingBlankLines raw : Nat) := by
  refine ⟨rfl, ?_⟩
  rw [pythonCode_offset, countNL_wsPrefix_replaceCRLF, leadingNL_eq_leadingBlankLines raw h]
  simp

theorem offset_attrExpr (raw : Str) (h : HasCode raw) :
    pyCallOf .attrExpr (ctorString .attrExpr raw) = some (pythonCode (rstripPy (replaceCRLF raw))) ∧
    (pythonCode (rstripPy (replaceCRLF raw))).offset = (leadingBlankLines raw : Nat) := by
  refine ⟨rfl, ?_⟩
  rw [pythonCode_offset, wsPrefix_rstrip (hasCode_replaceCRLF h), countNL_wsPrefix_replaceCRLF,
    leadingNL_eq_leadingBlankLines raw h]
  simp

theorem offset_block (raw : Str) (h : HasCode raw) :
    pyCallOf .block (ctorString .block raw) = some (pythonCode (PyExpr.Ws.adjustWhitespace raw ++ ['\n'])) ∧
    (pythonCode (PyExpr.Ws.adjustWhitespace raw ++ ['\n'])).offset = (leadingBlankLines raw : Nat) := by
  refine ⟨rfl, ?_⟩
  rw [pythonCode_offset, block_offset raw h]
  simp

theorem offset_filter (n : Nat) (raw : Str) :
    ∃ pc, pyCallOf (.filter n) (ctorString (.filter n) raw) = some pc ∧ pc.offset = (n : Int) :=
  ⟨_, rfl, rfl⟩

theorem escapesLinenoOffset_eq (exprRaw rawEsc : Str) :
    escapesLinenoOffset exprRaw rawEsc = countNL exprRaw + countNL (wsPrefix rawEsc) := by
  unfold escapesLinenoOffset
  rw [countNL_append, take_len_sub_lstrip]

theorem offset_sigDef (raw : Str) : ∃ pc, pyCallOf .sigDef (ctorString .sigDef raw) = some pc ∧ pc.offset = 0 :=
  ⟨_, rfl, rfl⟩

theorem offset_sigArgs (raw : Str) : ∃ pc, pyCallOf .sigArgs (ctorString .sigArgs raw) = some pc ∧ pc.offset = 0 :=
  ⟨_, rfl, rfl⟩

theorem offset_argList (raw : Str) : ∃ pc, pyCallOf .argList (ctorString .argList raw) = some pc ∧ pc.offset = 0 :=
  ⟨_, rfl, rfl⟩

theorem offset_dummyArgs (raw : Str) : ∃ pc, pyCallOf .dummyArgs (ctorString .dummyArgs raw) = some pc ∧ pc.offset = 0 := by
  refine ⟨_, rfl, ?_⟩
  show (pythonCode ('_' :: (lit "_DUMMY(" ++ replaceCRLF raw ++ lit ")"))).offset = 0
  exact pythonCode_offset_of_head _ _ _ (by decide +kernel)

/-! ### control lines -/

theorem pythonCode_offset_append_pass (code1 : Str) (c : Char) (r : Str) (off : Int) (tail : Str) (d : Char)
    (hc : isPySpace c = false) (hd : isPySpace d = false) (g : Nat) (hcode : code1 = c :: r ∨ code1 = (c :: r).take g) :
    (pythonCode (code1 ++ d :: tail) off).offset = off := by
  rcases hcode with h | h
  · subst h
    exact pythonCode_offset_of_head c _ off hc
  · subst h
    cases g with
    | zero => exact pythonCode_offset_of_head d tail off hd
    | succ g => exact pythonCode_offset_of_head c _ off hc

/-- the offset `PythonFragment` passes on: `-1` exactly for the keywords completed by a synthetic first line -/
theorem offset_ctl (c : Char) (r : Str) (hc : isPySpace c = false) (pc : PyCall)
    (h : pyCallOf .ctl (ctorString .ctl (c :: r)) = some pc) :
    pc.offset = if hasSyntheticLine .ctl (c :: r) = true then -1 else 0 := by
  have hfr : ∃ kw, pythonFragment (c :: r) = .call kw pc := by
    simp only [pyCallOf, ctorString] at h
    split at h
    · rename_i kw p heq; cases h; exact ⟨kw, heq⟩
    · cases h
  obtain ⟨kw0, h⟩ := hfr
  unfold pythonFragment at h
  simp only at h
  split at h
  · cases h
  · -- the regex matched or not
    split at h
    · cases h
    · rename_i g3 hash _
      have hp : isPySpace 'p' = false := by decide +kernel
      have hi : isPySpace 'i' = false := by decide +kernel
      have ht : isPySpace 't' = false := by decide +kernel
      have hcode : (if hash = true then (c :: r).take g3 else c :: r) = c :: r ∨
          (if hash = true then (c :: r).take g3 else c :: r) = (c :: r).take g3 := by
        split
        · exact Or.inr rfl
        · exact Or.inl rfl
      split at h
      · rename_i hk
        cases h
        have hs : hasSyntheticLine .ctl (c :: r) = false := by
          show isSyntheticKw ((stripPy (c :: r)).take (spanLen isWord (stripPy (c :: r)))) = false
          rcases hk with hk | hk | hk | hk <;> rw [hk] <;> decide
        rw [hs]
        exact pythonCode_offset_append_pass _ c r 0 _ 'p' hc hp g3 hcode
      · split at h
        · rename_i hk
          cases h
          have hs : hasSyntheticLine .ctl (c :: r) = false := by
            show isSyntheticKw ((stripPy (c :: r)).take (spanLen isWord (stripPy (c :: r)))) = false
            rw [hk]; decide
          rw [hs]
          exact pythonCode_offset_append_pass _ c r 0 _ 'p' hc hp g3 hcode
        · split at h
          · rename_i hk
            cases h
            have hs : hasSyntheticLine .ctl (c :: r) = true := by
              show isSyntheticKw ((stripPy (c :: r)).take (spanLen isWord (stripPy (c :: r)))) = true
              rcases hk with hk | hk <;> rw [hk] <;> decide
            rw [hs]
            exact pythonCode_offset_of_head 'i' _ (-1) hi
          · split at h
            · rename_i hk
              cases h
              have hs : hasSyntheticLine .ctl (c :: r) = true := by
                show isSyntheticKw ((stripPy (c :: r)).take (spanLen isWord (stripPy (c :: r)))) = true
                rw [hk]; decide
              rw [hs]
              exact pythonCode_offset_of_head 't' _ (-1) ht
            · cases h

end MakoModel.ErrPos
