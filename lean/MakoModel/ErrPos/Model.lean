import MakoModel.Lexer.Model
import MakoModel.PyExpr.Ws
import MakoModel.Generated.ErrPos
/-!
# ErrPos – where compile-time errors are reported (model for C11)

Three parts, each a transcription of the code in /repo as it is now:

* **(a) Python-level errors.**  Every piece of embedded Python is handed to `pyparser.parse(code, "exec",
  lineno_offset, **exception_kwargs)`; when CPython's parser raises, `_adjust_lineno` reports
  `lineno + lineno_offset + exc.lineno - 1`, where `lineno` is the line of the *node* (`Node.exception_kwargs`)
  and `exc.lineno = k` is the line CPython blames **inside the string it was given** – `k` is an input of the
  model (the parser is an oracle).  `PythonCode` strips leading whitespace and adds the newlines it stripped to
  the offset; `PythonFragment` completes `elif/else/except` with one synthetic line and passes `-1`;
  `ArgumentList`, `FunctionDecl`, `FunctionArgs` pass no offset.  `pyCallOf` gives, for each construct, the
  string parsed and the offset; `reportedLine` is the arithmetic.  `trueLine` is the specification: the line
  (of the source `s`) of the position, inside `s`, of the raw code line that parsed line `k` was made from.
* **(b) structural faults.**  Lexer errors are the `Outcome.error` of the lexer model; `ErrSite` says, per kind,
  which source position the reported `(lineno, pos)` is the position of.  Errors raised by node constructors
  (`parsetree`) and by `codegen._Identifiers` carry `node.exception_kwargs`, i.e. the coordinates of a token.
* **(c) construction paths.**  `Template(text)`, `Template(filename=…)`, `TemplateLookup.get_template` and
  `module_directory=` all reach `template._compile(template, text, filename, generate_magic_comment)`.
-/
namespace MakoModel.ErrPos
open MakoModel.Basic MakoModel.Lexer

/-! ## (a) embedded Python -/

/-- the prefix `str.lstrip()` removes -/
def wsPrefix (c : Str) : Str := c.takeWhile isPySpace
/-- `str.lstrip()` -/
def lstripPy (c : Str) : Str := c.dropWhile isPySpace
/-- `str.rstrip()` -/
def rstripPy (c : Str) : Str := (c.reverse.dropWhile isPySpace).reverse

/-- one call of `pyparser.parse(code, "exec", lineno_offset=offset, **exception_kwargs)` -/
structure PyCall where
  code : Str
  offset : Int
  deriving DecidableEq, Repr

/-- `ast.PythonCode.__init__(code, lineno_offset)` for a `str`:
    `stripped = code.lstrip(); lineno_offset += code[: len(code) - len(stripped)].count("\n")` -/
def pythonCode (code : Str) (off : Int := 0) : PyCall :=
  let stripped := lstripPy code
  { code := stripped, offset := off + (countNL (code.take (code.length - stripped.length)) : Nat) }

/-- `re.match(r",\s*$", code)` -/
def commaOnly : Str → Bool
  | c :: rest => c == ',' && rest.all isSpace
  | [] => false

/-- `ast.ArgumentList.__init__(code, lineno_offset)`: a trailing comma is added when there is text; nothing is
    stripped; the offset is passed on as it is (`0` for the filter attributes of tags) -/
def argumentList (code : Str) (off : Int := 0) : PyCall :=
  let hasText := match code with
    | c :: _ => !isSpace c
    | [] => false
  { code := if hasText && !commaOnly code then code ++ [','] else code, offset := off }

/-- `match_expression` (since 78adfd6): `leading = escapes[: len(escapes) - len(escapes.lstrip())]`,
    `escapes_lineno_offset = (text + leading).count("\n")` – the line the first filter is on, relative to `${`;
    `exprRaw` is the text between `${` and the bar, `rawEsc` the text between the bar and `}` -/
def escapesLinenoOffset (exprRaw rawEsc : Str) : Nat :=
  countNL (exprRaw ++ rawEsc.take (rawEsc.length - (lstripPy rawEsc).length))

/-- `ast.FunctionDecl.__init__(code)` -/
def functionDecl (code : Str) : PyCall := { code := code, offset := 0 }

/-- `DefTag`: `FunctionDecl("def " + name + ":pass")` -/
def defSignature (name : Str) : PyCall := functionDecl (lit "def " ++ name ++ lit ":pass")

/-- `ast.FunctionArgs.__init__(code)`: `"def ANON(%s):pass" % code` -/
def functionArgs (code : Str) : PyCall := functionDecl (lit "def ANON(" ++ code ++ lit "):pass")

/-- after a `:`: `\s*(#|$)` – the start of group 3 relative to the character after the colon and whether it is `#`.
    (`$` without `re.M` also matches before a final newline; the string this is applied to is stripped.) -/
def fragTail (cs : Str) : Option (Nat × Bool) :=
  match cs.drop (spanLen isSpace cs) with
  | [] => some (spanLen isSpace cs, false)
  | d :: _ => if d = '#' then some (spanLen isSpace cs, true) else none

/-- the lazy `(.*?)` of `^(\w+)(?:\s+(.*?))?:\s*(#|$)` under `re.S`: the leftmost colon whose tail fits.
    Returns (start of group 3, group 3 is `#`), offsets counted from `off`. -/
def fragColonFrom : Str → Nat → Option (Nat × Bool)
  | [], _ => none
  | c :: cs, off =>
    if c = ':' then
      match fragTail cs with
      | some (w, h) => some (off + 1 + w, h)
      | none => fragColonFrom cs (off + 1)
    else fragColonFrom cs (off + 1)

inductive FragRes
  | notPartial                       -- CompileException "Fragment '…' is not a partial control statement"
  | unsupported (kw : Str)           -- CompileException "Unsupported control keyword: '…'"
  | call (kw : Str) (p : PyCall)
  deriving DecidableEq, Repr

/-- the keyword group of the regex: the maximal `\w+` run of the stripped text (a shorter run would be followed
    by a word character, which neither `\s+` nor `:` accepts) -/
def fragKeyword (code : Str) : Str := (stripPy code).take (spanLen isWord (stripPy code))

/-- the keywords completed by a synthetic first line -/
def isSyntheticKw (kw : Str) : Bool := kw == lit "elif" || kw == lit "else" || kw == lit "except"

/-- `ast.PythonFragment.__init__(code)` -/
def pythonFragment (code : Str) : FragRes :=
  let t := stripPy code
  let n := spanLen isWord t
  if n = 0 then .notPartial
  else
    let kw := t.take n
    let m : Option (Nat × Bool) :=
      match t.drop n with
      | [] => none
      | c :: cs =>
        if c = ':' then (fragTail cs).map fun (w, h) => (n + 1 + w, h)   -- the optional group needs `\s+`
        else if isSpace c then fragColonFrom (c :: cs) n
        else none
    match m with
    | none => .notPartial
    | some (g3, hash) =>
      -- `if m.group(3): code = code[: m.start(3)]` (index of the stripped string, applied to the unstripped one)
      let code1 := if hash then code.take g3 else code
      if kw = lit "for" ∨ kw = lit "if" ∨ kw = lit "while" ∨ kw = lit "with" then
        .call kw (pythonCode (code1 ++ lit "pass") 0)
      else if kw = lit "try" then .call kw (pythonCode (code1 ++ lit "pass\nexcept:pass") 0)
      else if kw = lit "elif" ∨ kw = lit "else" then
        .call kw (pythonCode (lit "if False:pass\n" ++ code1 ++ lit "pass") (-1))
      else if kw = lit "except" then .call kw (pythonCode (lit "try:pass\n" ++ code1 ++ lit "pass") (-1))
      else .unsupported kw

/-- the constructs that hold Python, by the constructor call that parses them -/
inductive Label
  | expr        -- `${c}` / `${c | …}`:         `Expression.code = PythonCode(text)`
  | filter (off : Nat)   -- `${… | c}`: `Expression.escapes_code = ArgumentList(escapes, lineno_offset=off)`,
                -- `off` = the `escapes_lineno_offset` the lexer computed (`escapesLinenoOffset`)
  | block       -- `<% c %>` / `<%! c %>`:       `Code.code = PythonCode(adjust_whitespace(c) + "\n")`
  | ctl         -- `% c`:                        `ControlLine: PythonFragment(text)`
  | sigDef      -- `<%def name="c">`:            `FunctionDecl("def " + c + ":pass")`
  | sigArgs     -- `args="c"` of block/page/call/ns:call: `FunctionArgs(c)`
  | attrExpr    -- `${c}` inside an attribute:   `PythonCode(c.rstrip())` in `Tag._parse_attributes`
  | callExpr    -- `<%call expr="c">`:           `PythonCode(c)`
  | dummyArgs   -- `<%include args="c">`:        `PythonCode("__DUMMY(%s)" % c)`
  | argList     -- `filter="c"`, `expression_filter="c"`: `ArgumentList(c)`
  deriving DecidableEq, Repr

/-- what the lexer hands to the node constructor for a raw source string: `text.replace("\r\n", "\n")` for
    expressions and attribute values, `escapes.strip()` for a filter list, the text as it is otherwise -/
def ctorString : Label → Str → Str
  | .expr, raw => replaceCRLF raw
  | .filter _, raw => stripPy raw
  | .block, raw => raw
  | .ctl, raw => raw
  | _, raw => replaceCRLF raw

/-- the call of the Python parser made for a construct whose constructor receives `c` -/
def pyCallOf : Label → Str → Option PyCall
  | .expr, c => some (pythonCode c)
  | .filter off, c => some (argumentList c off)
  | .block, c => some (pythonCode (PyExpr.Ws.adjustWhitespace c ++ ['\n']))
  | .ctl, c =>
    match pythonFragment c with
    | .call _ p => some p
    | _ => none
  | .sigDef, c => some (defSignature c)
  | .sigArgs, c => some (functionArgs c)
  | .attrExpr, c => some (pythonCode (rstripPy c))
  | .callExpr, c => some (pythonCode c)
  | .dummyArgs, c => some (pythonCode (lit "__DUMMY(" ++ c ++ lit ")"))
  | .argList, c => some (argumentList c)

/-- `pyparser._adjust_lineno`: `lineno + lineno_offset + exc_lineno - 1` -/
def adjustLineno (lineno : Nat) (off : Int) (k : Nat) : Int := (lineno : Int) + off + (k : Int) - 1

/-- **the line the code reports** for a Python error in a construct whose node is on line `L`, whose raw source
    text is `raw`, when CPython blames line `k` of the string it was given -/
def reportedLine (lb : Label) (L : Nat) (raw : Str) (k : Nat) : Option Int :=
  (pyCallOf lb (ctorString lb raw)).map fun p => adjustLineno L p.offset k

/-! ### the specification -/

/-- the lines of a string (`'\n'` ends a line; a trailing `'\n'` is followed by one empty line) -/
def lines : Str → List Str
  | [] => [[]]
  | c :: cs =>
    if c = '\n' then [] :: lines cs
    else
      match lines cs with
      | l :: ls => (c :: l) :: ls
      | [] => [[c]]

def isBlankLine (l : Str) : Bool := l.all isPySpace

/-- number of whitespace-only lines before the first line that has code -/
def leadingBlankLines (x : Str) : Nat := ((lines x).takeWhile isBlankLine).length

/-- offset just after the `n`-th `'\n'` of `x` (`0` for `n = 0`) -/
def afterNL : Str → Nat → Nat
  | _, 0 => 0
  | [], _ + 1 => 0
  | c :: cs, n + 1 => 1 + (if c = '\n' then afterNL cs n else afterNL cs (n + 1))

/-- offset of the first character of line `j` (1-based) of `x` -/
def lineStart (x : Str) (j : Nat) : Nat := afterNL x (j - 1)

/-- does the construct get a synthetic first line (`elif`/`else`/`except`)? -/
def hasSyntheticLine : Label → Str → Bool
  | .ctl, raw => isSyntheticKw (fragKeyword raw)
  | _, _ => false

/-- **which raw line parsed line `k` was made from** (1-based), written against the construct alone:
    constructs whose leading whitespace is dropped before parsing (`PythonCode`'s `lstrip`, the lexer's
    `strip` of a filter list) start at their first line with code; a signature, `__DUMMY(…)` and an attribute
    filter list are parsed from their first character; `elif/else/except` follow one synthetic line. -/
def rawLineOf (lb : Label) (raw : Str) (k : Nat) : Nat :=
  match lb with
  | .expr | .filter _ | .block | .attrExpr | .callExpr => leadingBlankLines raw + k
  | .ctl => if hasSyntheticLine .ctl raw then k - 1 else k
  | .sigDef | .sigArgs | .dummyArgs | .argList => k

/-- **the line the property demands**: the line of `s` holding the start of that raw line; `o` is the offset of
    `raw` inside `s` -/
def trueLine (s : Str) (o : Nat) (lb : Label) (raw : Str) (k : Nat) : Nat :=
  lineOf s (o + lineStart raw (rawLineOf lb raw k))

/-! ## (b) structural faults -/

/-- which source position a lexer error is reported at (`p`), per kind: the start of the construct the matcher
    matched at `p`.  Two kinds have a second, defective case: `expected` after a filter bar (the bar's position),
    `unclosedTag` at the end of `parse` (the end of the source). -/
def ErrSite (s : Str) (k : ErrKind) (p : Nat) : Prop :=
  match k with
  | .expected =>
      hasPrefix (lit "${") (s.drop p) = true ∨ hasPrefix (lit "<%") (s.drop p) = true ∨ s[p]? = some '|'
  | .unclosedTag =>
      p = s.length ∨ ∃ m, rxTagStart (s.drop p) = some m ∧ m.keyword = lit "text"
  | .closingWithoutOpening | .closingMismatch => (rxTagEnd (s.drop p)).isSome = true
  | .invalidControlLine | .noStartingKeyword | .keywordMismatch | .illegalTernary =>
      atLineStart s p = true ∧ ∃ m, rxControlLine (s.drop p) = some m ∧ m.isPercent = true
  | .unterminatedControl =>
      atLineStart s p = true ∧ ∃ m kw, rxControlLine (s.drop p) = some m ∧ m.isPercent = true
        ∧ splitKeyword m.text = some (false, kw) ∧ isPrimary kw = true
  | .assertionFailed => False

/-- end of the span accounted for by the tokens -/
def tileEnd (toks : List Token) : Nat :=
  match toks.getLast? with
  | some t => t.stop
  | none => 0

/-- the open tags (innermost first) after the tokens -/
def openTags : List Token → List Token → List Token
  | [], st => st
  | t :: ts, st =>
    match t.payload with
    | .tagOpen _ _ sc => if sc then openTags ts st else openTags ts (t :: st)
    | .tagClose _ => openTags ts st.tail
    | _ => openTags ts st

/-- the open primary control lines (innermost first) after the tokens -/
def openCtls : List Token → List Token → List Token
  | [], st => st
  | t :: ts, st =>
    match t.payload with
    | .ctl kw isend _ => if isend then openCtls ts st.tail else if isPrimary kw then openCtls ts (t :: st) else openCtls ts st
    | _ => openCtls ts st

/-- **where the construct blamed by a lexer error begins** (offset), recomputed from the token list alone –
    this is what the property demands; it is independent of `matched_lineno/matched_charpos` -/
def faultStart (r : Result) : Option Nat :=
  match r.outcome with
  | .error k _ _ =>
    match k with
    | .expected | .closingWithoutOpening | .closingMismatch | .invalidControlLine | .noStartingKeyword
    | .keywordMismatch => some (tileEnd r.toks)
    | .illegalTernary => r.toks.getLast?.map (·.start)
    | .unclosedTag => (openTags r.toks []).head?.map (·.start)
    | .unterminatedControl => (openCtls r.toks []).head?.map (·.start)
    | .assertionFailed => none
  | _ => none

/-- errors raised while a node is constructed (`parsetree`) or visited (`codegen`): all carry
    `node.exception_kwargs` (or the very kwargs the node is being built with) -/
inductive NodeFault
  | noSuchTag | invalidTagName | missingAttribute | invalidAttribute | attrNoExpressions | missingParenthesis
  | blockHasSignature | anonBlockArgs | namespaceNeedsName | namespaceFileAndModule
  | notFunctionDecl | kwargsNotAllowed | importStar | nestedTooDeeply | fragmentNotPartial | unsupportedKeyword
  | duplicateName | namedBlockInDef | namedBlockInCall | anonBlockInNamespace
  deriving DecidableEq, Repr

/-- **every raise site of mako's compile-time exceptions, by fault class** – one row per regenerated site, in the
    order of `Generated.ErrPos.raiseSites` (35 rows; `Props/C11.lean` checks that the keys ARE the regenerated sites).
    Key: (file, enclosing function, first 32 characters of the message).  The key is unique per site except for the
    two raises of `_Identifiers.visitBlockTag` ("Named block '%s' not allowed inside of def '%s'" / "… inside of
    <%%call> tag"), which agree on all three components and on their class; value: the structural fault class of
    the generator (`harness/c11_gen.py`) that plants it, `python` for the one site of `pyparser.parse`, or
    `outside:<reason>` for a site no template text reaches / another property's subject. -/
def siteClassTable : List ((String × String × String) × String) := [
  (("mako/lexer.py", "Lexer.parse_until_text", "Expected: %s; unterminated tag o"), "unterminated-construct"),
  (("mako/lexer.py", "Lexer.append_node", "Keyword '%s' not a legal ternary"), "illegal-ternary"),
  (("mako/lexer.py", "Lexer.decode_raw_stream", "Found utf-8 BOM in file, with co"), "outside:encoding of a template given as bytes (C18), position (0,0)"),
  (("mako/lexer.py", "Lexer.decode_raw_stream", "Unicode decode operation of enco"), "outside:encoding of a template given as bytes (C18), position (0,0)"),
  (("mako/lexer.py", "Lexer.parse", "Unclosed tag: <%%%s>"), "unclosed-tag"),
  (("mako/lexer.py", "Lexer.parse", "Unterminated control keyword: '%"), "unterminated-control"),
  (("mako/lexer.py", "Lexer.match_tag_start", "Unclosed tag: <%%%s>"), "unclosed-text-tag"),
  (("mako/lexer.py", "Lexer.match_tag_end", "Closing tag without opening tag:"), "closing-without-opening"),
  (("mako/lexer.py", "Lexer.match_tag_end", "Closing tag </%%%s> does not mat"), "closing-mismatch"),
  (("mako/lexer.py", "Lexer.match_control_line", "Invalid control line: '%s'"), "invalid-control-line"),
  (("mako/lexer.py", "Lexer.match_control_line", "No starting keyword '%s' for '%s"), "no-starting-keyword"),
  (("mako/lexer.py", "Lexer.match_control_line", "Keyword '%s' doesn't match keywo"), "keyword-mismatch"),
  (("mako/parsetree.py", "_TagMeta.__call__", "Invalid tag name: '%s'"), "invalid-tag-name"),
  (("mako/parsetree.py", "_TagMeta.__call__", "No such tag: '%s'"), "unknown-tag"),
  (("mako/parsetree.py", "Tag.__init__", "Missing attribute(s): %s"), "missing-attribute"),
  (("mako/parsetree.py", "Tag._parse_attributes", "Attribute '%s' in tag '%s' does "), "attribute-no-expression"),
  (("mako/parsetree.py", "Tag._parse_attributes", "Invalid attribute for tag '%s': "), "illegal-attribute"),
  (("mako/parsetree.py", "NamespaceTag.__init__", "'name' and/or 'import' attribute"), "namespace-needs-name"),
  (("mako/parsetree.py", "NamespaceTag.__init__", "<%namespace> may only have one o"), "namespace-file-and-module"),
  (("mako/parsetree.py", "DefTag.__init__", "Missing parenthesis in %def"), "missing-parenthesis"),
  (("mako/parsetree.py", "BlockTag.__init__", "%block may not specify an argume"), "block-signature"),
  (("mako/parsetree.py", "BlockTag.__init__", "Only named %blocks may specify a"), "anon-block-args"),
  (("mako/codegen.py", "_GenerateRenderMethod.write_namespaces.NSDefVisitor.visitDefOrBase", "Can't put anonymous blocks insid"), "anon-block-in-namespace"),
  (("mako/codegen.py", "_Identifiers._check_name_exists", "%%def or %%block named '%s' alre"), "duplicate-block"),
  (("mako/codegen.py", "_Identifiers._reject_named_blocks.FindNamedBlocks.visitBlockTag", "Named block '%s' not allowed ins"), "named-block-in-def-or-call"),
  (("mako/codegen.py", "_Identifiers.visitBlockTag", "Named block '%s' not allowed ins"), "named-block-in-def-or-call"),
  (("mako/codegen.py", "_Identifiers.visitBlockTag", "Named block '%s' not allowed ins"), "named-block-in-def-or-call"),
  (("mako/pyparser.py", "parse", "(%s) %s (%r)"), "python"),
  (("mako/pyparser.py", "visit", "(RecursionError) Python code is "), "deep-nesting"),
  (("mako/pyparser.py", "FindIdentifiers.visit_ImportFrom", "'import *' is not supported, sin"), "import-star"),
  (("mako/ast.py", "PythonFragment.__init__", "Fragment '%s' is not a partial c"), "fragment-not-partial"),
  (("mako/ast.py", "PythonFragment.__init__", "Unsupported control keyword: '%s"), "unsupported-keyword"),
  (("mako/ast.py", "FunctionDecl.__init__", "Code '%s' is not a function decl"), "outside:unreachable - the code parsed always begins with 'def '"),
  (("mako/ast.py", "FunctionDecl.__init__", "'**%s' keyword argument not allo"), "outside:unreachable - no caller passes allow_kwargs=False"),
  (("mako/ast.py", "FunctionDecl.get_argument_expressions", "(RecursionError) Python code is "), "deep-nesting")]

/-- the fault class of a regenerated raise site `(file, function, message prefix, coordinates)` -/
def siteClass (site : String × String × String × String) : Option String :=
  (siteClassTable.find? fun e => e.1.1 == site.1 && e.1.2.1 == site.2.1 && e.1.2.2 == site.2.2.1).map (·.2)

/-- the coordinates of a raise site belong to the node the raising function is about (its `self` or one of its
    own parameters), possibly adjusted – never to a variable of an enclosing function -/
def siteUsesOwnNode (site : String × String × String × String) : Bool :=
  ["self", "param", "self+override", "adjusted", "explicit"].contains site.2.2.2

inductive ExcClass | syntaxException | compileException
  deriving DecidableEq, Repr

/-- all `CompileException`, except the `SyntaxException` of `pyparser.visit` (code nested deeper than the identifier
    visitors can recurse; since /repo 8d3f80e) -/
def NodeFault.cls : NodeFault → ExcClass
  | .nestedTooDeeply => .syntaxException
  | _ => .compileException

/-- what a node-level fault reports: the coordinates of the node's token -/
def nodeFaultPos (t : Token) (_ : NodeFault) : Nat × Nat := (t.lineno, t.pos)

/-! ## (c) the construction paths -/

structure ExcFields where
  cls : ExcClass
  lineno : Int
  pos : Nat
  filename : Option Str
  source : Str
  deriving DecidableEq, Repr

/-- the answers of everything outside the lexer model, as functions of what they are given: the Python parser
    and the checks of the node constructors (`nodeCheck`: per token, in order) and of `codegen.compile`
    (`genCheck`: on the token list; it is also given `uri` and the magic-comment flag, on which the *generated
    source* depends) -/
structure Checks where
  nodeCheck : Token → Option (ExcClass × Int)        -- class and reported line; `pos` is the token's
  genCheck : List Token → Option (ExcClass × Token)   -- the node whose kwargs are used

/-- `template._compile(template, text, filename, generate_magic_comment)`: `Lexer(text, filename).parse()` then
    `codegen.compile(node, uri, filename, …)`.  Only the error side is modelled: `none` = a module source is
    produced. -/
def compileError (cfg : Cfg) (ck : Checks) (text : Str) (filename : Option Str) (_uri : Str) (_magic : Bool) :
    Option ExcFields :=
  let r := lex cfg text
  -- a constructor raises while its node is appended: the first node token that fails wins over any later lexer error
  match (r.toks.filter (·.payload.isNode)).findSome? (fun t => (ck.nodeCheck t).map (t, ·)) with
  | some (t, (cls, line)) => some ⟨cls, line, t.pos, filename, text⟩
  | none =>
    match r.outcome with
    | .error _ l c => some ⟨.syntaxException, l, c, filename, text⟩
    | .outOfFuel => none
    | .ok =>
      match ck.genCheck r.toks with
      | some (cls, t) => some ⟨cls, t.lineno, t.pos, filename, text⟩
      | none => none

/-- the four ways a template is constructed -/
inductive Path
  | string       -- `Template(text, filename=?)`                      → `_compile_text`
  | file         -- `Template(filename=f)`                            → `_compile_from_file` → `_compile_text`
  | lookup       -- `TemplateLookup.get_template(uri)` → `_load`      → `Template(uri=…, filename=f, lookup=…)`
  | moduleDir    -- `module_directory=` / `module_filename=`          → `_compile_module_file`
  | reload (modules : Bool)   -- a lookup that has already served the file finds it newer:
                 -- `get_template` → `_check` → `_load` → `Template(...)` (with or without `module_directory`)
  deriving DecidableEq, Repr

/-- the arguments with which each path calls `_compile`: the decoded text and the file name are the caller's,
    `uri` and the magic-comment flag differ per path -/
def Path.magic : Path → Bool
  | .moduleDir => true
  | .reload m => m
  | _ => false

/-- the exception a construction path ends with, for decoded text `text` of a file called `filename`;
    `uri` is whatever that path uses as the template's URI -/
def constructError (cfg : Cfg) (ck : Checks) (path : Path) (text : Str) (filename : Option Str) (uri : Str) :
    Option ExcFields :=
  compileError cfg ck text filename uri path.magic

/-- what the caller of a construction path sees -/
inductive Raised
  | compileError (e : ExcFields)      -- the SyntaxException / CompileException itself
  | converted                         -- some other exception without the template's coordinates
                                      -- (`TemplateLookupException("Can't locate template for uri …")`)
  deriving DecidableEq, Repr

/-- does `except <name>` catch a `SyntaxException` / `CompileException`?  (their classes and base classes) -/
def catchesCompileError (handler : String) : Bool :=
  handler == "BaseException" || handler == "Exception" || handler == "MakoException"
    || handler == "SyntaxException" || handler == "CompileException"

/-- `TemplateLookup._check` around the reload: `handlers` = the exception classes its `except` clauses convert into
    `TemplateLookupException`, `reraises` = `_load`'s own handler ends with a bare `raise` -/
def throughCheck (handlers : List String) (reraises : Bool) (e : ExcFields) : Raised :=
  if reraises && !(handlers.any catchesCompileError) then .compileError e else .converted

/-- the exception a caller sees, per path, for given `_check` handlers -/
def constructOutcomeWith (handlers : List String) (reraises : Bool) (cfg : Cfg) (ck : Checks) (path : Path)
    (text : Str) (filename : Option Str) (uri : Str) : Option Raised :=
  match path with
  | .reload _ => (constructError cfg ck path text filename uri).map (throughCheck handlers reraises)
  | _ => (constructError cfg ck path text filename uri).map .compileError

/-- … for the code in /repo (handlers regenerated from `mako/lookup.py`) -/
def constructOutcome (cfg : Cfg) (ck : Checks) (path : Path) (text : Str) (filename : Option Str) (uri : Str) :
    Option Raised :=
  constructOutcomeWith Generated.ErrPos.checkConverts Generated.ErrPos.loadReraises cfg ck path text filename uri

end MakoModel.ErrPos
