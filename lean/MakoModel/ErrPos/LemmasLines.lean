import MakoModel.ErrPos.Model
/-!
Line algebra for C11: positions of lines inside an embedded code string, leading blank lines, and what
`lstrip`/`rstrip`/`replace("\r\n", "\n")` do to them.
-/
namespace MakoModel.ErrPos
open MakoModel.Basic MakoModel.Lexer

theorem isPySpace_nl : isPySpace '\n' = true := by decide +kernel
theorem isPySpace_cr : isPySpace '\r' = true := by decide +kernel

/-- a string that is not only whitespace -/
def HasCode (x : Str) : Prop := ∃ c ∈ x, isPySpace c = false

instance (x : Str) : Decidable (HasCode x) := by unfold HasCode; infer_instance

/-! ### generic list facts -/

theorem takeWhile_append_of_exists {α} (p : α → Bool) (a b : List α) (h : ∃ c ∈ a, p c = false) :
    (a ++ b).takeWhile p = a.takeWhile p := by
  induction a with
  | nil => obtain ⟨c, hc, _⟩ := h; cases hc
  | cons x xs ih =>
    simp only [List.cons_append, List.takeWhile_cons]
    by_cases hx : p x = true
    · simp only [hx, if_true]
      obtain ⟨c, hc, hpc⟩ := h
      simp only [List.mem_cons] at hc
      rcases hc with rfl | hc
      · rw [hx] at hpc; cases hpc
      · rw [ih ⟨c, hc, hpc⟩]
    · simp [hx]

theorem takeWhile_append_all {α} (p : α → Bool) (a b : List α) (h : ∀ c ∈ a, p c = true) :
    (a ++ b).takeWhile p = a ++ b.takeWhile p := by
  induction a with
  | nil => rfl
  | cons x xs ih =>
    have hx := h x (by simp)
    simp only [List.cons_append, List.takeWhile_cons, hx, if_true]
    rw [ih (fun c hc => h c (by simp [hc]))]

theorem countNL_zero_of_not_mem {l : Str} (h : '\n' ∉ l) : countNL l = 0 := (countNL_eq_zero_iff l).mpr h

theorem of_mem_takeWhile {α} (p : α → Bool) (l : List α) : ∀ c ∈ l.takeWhile p, p c = true := by
  induction l with
  | nil => intro c hc; cases hc
  | cons x xs ih =>
    intro c hc
    simp only [List.takeWhile_cons] at hc
    split at hc
    · rename_i hx
      simp only [List.mem_cons] at hc
      rcases hc with rfl | hc
      · exact hx
      · exact ih c hc
    · cases hc

theorem takeWhile_subset {α} (p : α → Bool) (l : List α) : ∀ c ∈ l.takeWhile p, c ∈ l := by
  intro c hc
  exact (List.takeWhile_sublist p).subset hc

/-! ### `afterNL` / `lineStart` -/

theorem afterNL_le (x : Str) (n : Nat) : afterNL x n ≤ x.length := by
  fun_induction afterNL x n with
  | case1 => omega
  | case2 => simp
  | case3 c cs n ih1 ih2 =>
    simp only [List.length_cons]
    split <;> omega

theorem countNL_take_afterNL (x : Str) (n : Nat) (h : n ≤ countNL x) : countNL (x.take (afterNL x n)) = n := by
  fun_induction afterNL x n with
  | case1 => simp
  | case2 => simp at h
  | case3 c cs n ih1 ih2 =>
    simp only [countNL_cons] at h
    by_cases hc : c = '\n'
    · simp only [hc, if_true] at h ⊢
      rw [show 1 + afterNL cs n = afterNL cs n + 1 by omega, List.take_succ_cons, countNL_cons]
      simp only [if_true]
      have := ih1 (by omega)
      omega
    · simp only [hc, if_false] at h ⊢
      rw [show 1 + afterNL cs (n + 1) = afterNL cs (n + 1) + 1 by omega, List.take_succ_cons, countNL_cons]
      simp only [hc, if_false]
      have := ih2 (by omega)
      omega

theorem slice_take (s : Str) (o m n : Nat) (h : m ≤ n) : slice s o (o + m) = (slice s o (o + n)).take m := by
  simp only [slice, Nat.add_sub_cancel_left, List.take_take, Nat.min_eq_left h]

/-- **the line algebra**: inside a code string `raw` located at offset `o` of `s`, the start of the line after
    `n` newlines lies `n` lines below `o` -/
theorem lineOf_in_code (s : Str) (o : Nat) (raw : Str) (n : Nat)
    (hloc : slice s o (o + raw.length) = raw) (hn : n ≤ countNL raw) :
    lineOf s (o + afterNL raw n) = lineOf s o + n := by
  rw [lineOf_add s o (o + afterNL raw n) (by omega), slice_take s o (afterNL raw n) raw.length (afterNL_le raw n), hloc,
    countNL_take_afterNL raw n hn]

/-- a code string that starts on the node's first line: no newline between the node's start `p` and `o` -/
theorem lineOf_same_line (s : Str) (p o : Nat) (hpo : p ≤ o) (h : countNL (slice s p o) = 0) : lineOf s o = lineOf s p := by
  rw [lineOf_add s p o hpo, h]; rfl

theorem line_algebra (s : Str) (p o : Nat) (raw : Str) (j : Nat) (hpo : p ≤ o) (hfirst : countNL (slice s p o) = 0)
    (hloc : slice s o (o + raw.length) = raw) (hj1 : 1 ≤ j) (hj : j ≤ countNL raw + 1) :
    lineOf s (o + lineStart raw j) = lineOf s p + (j - 1) := by
  unfold lineStart
  rw [lineOf_in_code s o raw (j - 1) hloc (by omega), lineOf_same_line s p o hpo hfirst]

/-! ### leading blank lines -/

theorem lines_ne_nil (x : Str) : ∃ l ls, lines x = l :: ls := by
  induction x with
  | nil => exact ⟨[], [], rfl⟩
  | cons c cs ih =>
    obtain ⟨l, ls, h⟩ := ih
    simp only [lines]
    split
    · exact ⟨[], _, rfl⟩
    · rw [h]; exact ⟨c :: l, ls, rfl⟩

/-- the newlines `lstrip()` removes are the whitespace-only lines before the first line with code:
    the character-level count of `PythonCode` and the line-level specification agree -/
theorem leadingNL_eq_leadingBlankLines (x : Str) (h : HasCode x) : countNL (wsPrefix x) = leadingBlankLines x := by
  unfold wsPrefix leadingBlankLines
  induction x with
  | nil => obtain ⟨c, hc, _⟩ := h; cases hc
  | cons c cs ih =>
    by_cases hws : isPySpace c = true
    · have hcs : HasCode cs := by
        obtain ⟨d, hd, hpd⟩ := h
        simp only [List.mem_cons] at hd
        rcases hd with rfl | hd
        · rw [hws] at hpd; cases hpd
        · exact ⟨d, hd, hpd⟩
      have ih' := ih hcs
      simp only [List.takeWhile_cons, hws, if_true, countNL_cons]
      by_cases hnl : c = '\n'
      · simp only [hnl, if_true, lines]
        simp only [List.takeWhile_cons, isBlankLine, List.all_nil, if_true, List.length_cons]
        omega
      · obtain ⟨l, ls, hl⟩ := lines_ne_nil cs
        have hb : isBlankLine (c :: l) = isBlankLine l := by simp [isBlankLine, hws]
        simp only [hnl, if_false, lines, hl, Nat.zero_add]
        rw [ih', hl]
        simp only [List.takeWhile_cons, hb]
        split <;> rfl
    · have hne : c ≠ '\n' := by
        intro e; rw [e, isPySpace_nl] at hws; exact hws rfl
      obtain ⟨l, ls, hl⟩ := lines_ne_nil cs
      simp only [List.takeWhile_cons, hws, lines, hne, if_false, hl, isBlankLine, List.all_cons]
      simp

theorem leadingBlankLines_zero_of_head {c : Char} {r : Str} (hc : isPySpace c = false) : leadingBlankLines (c :: r) = 0 := by
  have := leadingNL_eq_leadingBlankLines (c :: r) ⟨c, by simp, hc⟩
  rw [← this]
  simp [wsPrefix, List.takeWhile_cons, hc]

/-! ### `PythonCode`'s offset -/

theorem take_len_sub_lstrip (code : Str) : code.take (code.length - (lstripPy code).length) = wsPrefix code := by
  unfold lstripPy wsPrefix
  have h := List.takeWhile_append_dropWhile (p := isPySpace) (l := code)
  have hlen : code.length = (code.takeWhile isPySpace).length + (code.dropWhile isPySpace).length := by
    rw [← List.length_append, h]
  rw [show code.length - (code.dropWhile isPySpace).length = (code.takeWhile isPySpace).length by omega]
  generalize code.takeWhile isPySpace = tw at h ⊢
  generalize code.dropWhile isPySpace = dw at h
  subst h
  simp

theorem take_wsPrefix_length (code : Str) : code.take (wsPrefix code).length = wsPrefix code := by
  unfold wsPrefix
  have h := List.takeWhile_append_dropWhile (p := isPySpace) (l := code)
  generalize code.takeWhile isPySpace = tw at h ⊢
  generalize code.dropWhile isPySpace = dw at h
  subst h
  simp

theorem pythonCode_offset (code : Str) (off : Int) : (pythonCode code off).offset = off + (countNL (wsPrefix code) : Nat) := by
  simp only [pythonCode, take_len_sub_lstrip]

theorem pythonCode_offset_of_head (c : Char) (r : Str) (off : Int) (hc : isPySpace c = false) :
    (pythonCode (c :: r) off).offset = off := by
  rw [pythonCode_offset]
  simp [wsPrefix, List.takeWhile_cons, hc]

/-! ### CRLF replacement, rstrip -/

theorem countNL_wsPrefix_replaceCRLF (c : Str) : countNL (wsPrefix (replaceCRLF c)) = countNL (wsPrefix c) := by
  unfold wsPrefix
  induction c with
  | nil => simp [replaceCRLF]
  | cons a t ih =>
    simp only [replaceCRLF]
    split
    · rename_i h
      rw [ih, h.1]
      simp only [List.takeWhile_cons, isPySpace_cr, if_true, countNL_cons]
      simp
    · simp only [List.takeWhile_cons]
      split
      · simp only [countNL_cons, ih]
      · rfl

theorem mem_replaceCRLF {x : Str} {c : Char} (hc : c ∈ x) (hne : c ≠ '\r') : c ∈ replaceCRLF x := by
  induction x with
  | nil => cases hc
  | cons a t ih =>
    simp only [replaceCRLF]
    simp only [List.mem_cons] at hc
    split
    · rename_i h
      rcases hc with rfl | hc
      · exact absurd h.1 hne
      · exact ih hc
    · rcases hc with rfl | hc
      · simp
      · simp [ih hc]

theorem hasCode_replaceCRLF {x : Str} (h : HasCode x) : HasCode (replaceCRLF x) := by
  obtain ⟨c, hc, hp⟩ := h
  refine ⟨c, mem_replaceCRLF hc ?_, hp⟩
  intro e; rw [e, isPySpace_cr] at hp; cases hp

theorem rstrip_decomp (x : Str) : x = rstripPy x ++ (x.reverse.takeWhile isPySpace).reverse := by
  unfold rstripPy
  rw [← List.reverse_append, List.takeWhile_append_dropWhile, List.reverse_reverse]

theorem hasCode_rstrip {x : Str} (h : HasCode x) : HasCode (rstripPy x) := by
  obtain ⟨c, hc, hp⟩ := h
  rw [rstrip_decomp x, List.mem_append] at hc
  rcases hc with hc | hc
  · exact ⟨c, hc, hp⟩
  · rw [List.mem_reverse] at hc
    have := of_mem_takeWhile _ _ c hc
    rw [hp] at this; cases this

theorem wsPrefix_rstrip {x : Str} (h : HasCode x) : wsPrefix (rstripPy x) = wsPrefix x := by
  have hr := hasCode_rstrip h
  unfold wsPrefix
  conv => rhs; rw [rstrip_decomp x]
  rw [takeWhile_append_of_exists isPySpace _ _ hr]

end MakoModel.ErrPos
