import MakoModel.Basic.Wire
import MakoModel.ErrPos.Model
import MakoModel.Lexer.Drv
/-!
Driver handler of the `ErrPos` area: `errpos <sub-op> …`

* `errpos call <label> <c>`              – the parser call made for constructor string `c`:
                                            `call <offset> <code>` | `frag-notpartial` | `frag-unsupported <kw>`
* `errpos line <label> <L> <raw> <k>`    – `reportedLine`: `<int>` | `none`
* `errpos true <s> <o> <label> <n> <k>`  – specification for `raw = s[o, o+n)`:
                                            `<trueLine> <rawLineOf> <leadingBlankLines> <lineOf s o>`
* `errpos node <s> <i> <label> <k> <raw>` – whole chain: lex `s` (code as it is in /repo), take the `i`-th node token,
                                            derive the constructor string from the token (`expr filter block ctl`) or from
                                            `raw` (attribute labels), answer
                                            `ok S <lineno> <pos> <offset> <code>` (SyntaxException of `pyparser.parse`)
                                            | `ok C <lineno> <pos> frag-notpartial|frag-unsupported` | `none`
* `errpos tok <s> <i>`                   – `<K> <start> <stop> <lineno> <pos> <lineOf start> <colOf start>` of the `i`-th node token
* `errpos tokat <s> <off>`               – the node token that starts at offset `off` (same answer + its index)
* `errpos sites`                         – the regenerated raise sites with the fault class the model assigns:
                                            `file;function;message prefix;coordinates;class` (encoded), space separated
* `errpos struct <s>`                    – lexer-level outcome: `ok` | `fuel` |
                                            `error <kind> <lineno> <pos> <faultStart|none> <line of it> <col of it>`
-/
namespace MakoModel.ErrPos.Drv
open MakoModel.Wire MakoModel.Lexer MakoModel.Basic MakoModel.ErrPos

def decLabel : String → Option Label
  | "expr" => some .expr
  | "filter" => some (.filter 0)
  | "block" => some .block
  | "ctl" => some .ctl
  | "sigdef" => some .sigDef
  | "sigargs" => some .sigArgs
  | "attrexpr" => some .attrExpr
  | "callexpr" => some .callExpr
  | "dummyargs" => some .dummyArgs
  | "arglist" => some .argList
  | _ => none

def encCall (lb : Label) (c : Str) : String :=
  match lb with
  | .ctl =>
    match pythonFragment c with
    | .notPartial => "frag-notpartial"
    | .unsupported kw => s!"frag-unsupported {encStr kw}"
    | .call _ p => s!"call {p.offset} {encStr p.code}"
  | _ =>
    match pyCallOf lb c with
    | some p => s!"call {p.offset} {encStr p.code}"
    | none => "none"

def nodeTok (s : Str) (i : Nat) : Option Token :=
  ((lex Cfg.current s).toks.filter (·.payload.isNode))[i]?

/-- constructor string of the label, from the token when the lexer model carries it -/
def ctorOf (t : Token) (lb : Label) (raw : Str) : Option Str :=
  match lb, t.payload with
  | .expr, .expr text _ => some text
  | .filter _, .expr _ esc => some esc
  | .block, .code r _ => some r
  | .ctl, .ctl _ false text => some text
  | .expr, _ | .filter _, _ | .block, _ | .ctl, _ => none
  | lb, .tagOpen _ _ _ => some (ctorString lb raw)
  | _, _ => none

/-- the label of a filter list with the `escapes_lineno_offset` the lexer computes for the expression token `t`:
    the newlines between `${` and the first filter (the stripped filter text ends where the whitespace before `}`
    begins; an empty filter list counts everything up to `}`) -/
def filterLabel (s : Str) (t : Token) : Label :=
  match t.payload with
  | .expr _ esc =>
    let inner := slice s t.start (t.stop - 1)                     -- `${` … up to the closing `}`
    let q := if esc.isEmpty then inner.length else (rstripPy inner).length - esc.length
    .filter (countNL (inner.take q))
  | _ => .filter 0

def handle : Handler
  | ["call", lb, c] => do
    let lb ← decLabel lb; let c ← decStr c
    pure (encCall lb c)
  | ["line", lb, l, raw, k] => do
    let lb ← decLabel lb; let l ← l.toNat?; let raw ← decStr raw; let k ← k.toNat?
    pure (match reportedLine lb l raw k with | some x => toString x | none => "none")
  | ["true", s, o, lb, n, k] => do
    let s ← decStr s; let o ← o.toNat?; let lb ← decLabel lb; let n ← n.toNat?; let k ← k.toNat?
    let raw := slice s o (o + n)
    pure s!"{trueLine s o lb raw k} {rawLineOf lb raw k} {leadingBlankLines raw} {lineOf s o}"
  | ["node", s, i, lb, k, raw] => do
    let s ← decStr s; let i ← i.toNat?; let lb ← decLabel lb; let k ← k.toNat?; let raw ← decStr raw
    pure (match nodeTok s i with
      | none => "none"
      | some t =>
        let lb := match lb with | .filter _ => filterLabel s t | l => l
        match ctorOf t lb raw with
        | none => "none"
        | some c =>
          match lb, pythonFragment c with
          | .ctl, .notPartial => s!"ok C {t.lineno} {t.pos} frag-notpartial"
          | .ctl, .unsupported _ => s!"ok C {t.lineno} {t.pos} frag-unsupported"
          | _, _ =>
            match pyCallOf lb c with
            | none => "none"
            | some p => s!"ok S {adjustLineno t.lineno p.offset k} {t.pos} {p.offset} {encStr p.code}")
  | ["tok", s, i] => do
    let s ← decStr s; let i ← i.toNat?
    pure (match nodeTok s i with
      | none => "none"
      | some t =>
        let kd := ((Lexer.Drv.encPayload t.payload).splitOn " ").headD ""
        s!"{kd} {t.start} {t.stop} {t.lineno} {t.pos} {lineOf s t.start} {colOf s t.start}")
  | ["tokat", s, off] => do
    let s ← decStr s; let off ← off.toNat?
    let nodes := (lex Cfg.current s).toks.filter (·.payload.isNode)
    pure (match nodes.findIdx? (·.start == off) with
      | none => "none"
      | some i =>
        match nodes[i]? with
        | none => "none"
        | some t =>
          let kd := ((Lexer.Drv.encPayload t.payload).splitOn " ").headD ""
          s!"{kd} {t.start} {t.stop} {t.lineno} {t.pos} {lineOf s t.start} {colOf s t.start} {i}")
  | ["sites"] =>
    pure (" ".intercalate (Generated.ErrPos.raiseSites.map fun s =>
      s!"{encStr s.1.toList};{encStr s.2.1.toList};{encStr s.2.2.1.toList};{encStr s.2.2.2.toList};{encStr ((siteClass s).getD "?").toList}"))
  | ["struct", s] => do
    let s ← decStr s
    let r := lex Cfg.current s
    pure (match r.outcome with
      | .ok => "ok"
      | .outOfFuel => "fuel"
      | .error k l c =>
        match faultStart r with
        | some p => s!"error {Lexer.Drv.encErr k} {l} {c} {p} {lineOf s p} {colOf s p}"
        | none => s!"error {Lexer.Drv.encErr k} {l} {c} none 0 0")
  | _ => none

end MakoModel.ErrPos.Drv
