import MakoModel.ErrPos.Model
import MakoModel.Lexer.LemmasLoop
/-!
Where the lexer model reports its errors: every `Outcome.error k l c` of `lex` carries the line and column
(`lineOf`, `colOf`) of a source offset `p` with `ErrSite s k p` – the start of the construct the failing matcher
matched at, with the two defective cases named in `ErrSite` (`expected` after a filter bar; `unclosedTag` at the
end of the source).  The loop invariant of C01 (`Inv`) is extended by `CtlOkL`: every frame of the control stack
carries the coordinates of the `% keyword` line that opened it.
-/
namespace MakoModel.ErrPos
open MakoModel.Basic MakoModel.Lexer

variable {cfg : Cfg}

/-- the reported coordinates are those of offset `p`, and `p` is the site of the error kind -/
def At (s : Str) (k : ErrKind) (l c : Nat) : Prop :=
  ∃ p, p ≤ s.length ∧ l = lineOf s p ∧ c = colOf s p ∧ ErrSite s k p

def CtlOkL (s : Str) (fs : List CtlFrame) : Prop :=
  ∀ f ∈ fs, At s .unterminatedControl f.lineno f.pos

/-- contract of one matcher application, error side and control-stack side -/
def EOk (s : Str) : MRes → Prop
  | .err k l c _ => At s k l c
  | .yes st' => CtlOkL s st'.ctlStack
  | .fell st' => CtlOkL s st'.ctlStack
  | _ => True

/-! ### `parse_until_text` -/

theorem parseUntilLoop_fail (s : Str) (watch : Bool) (terms : List Str) (sp sl sc : Nat) (fuel : Nat) (st : State)
    (br pa bk : Int) : ∀ l c st', parseUntilLoop s watch terms sp sl sc fuel st br pa bk = .fail l c st' → l = sl ∧ c = sc := by
  fun_induction parseUntilLoop s watch terms sp sl sc fuel st br pa bk with
  | case1 => intro l c st' h; cases h
  | case2 fuel st br pa bk rest k hk ih => exact ih
  | case3 fuel st br pa bk rest _ k hk ih => exact ih
  | case4 => intro l c st' h; cases h
  | case5 fuel st br pa bk rest _ _ t ht st1 hw ih => exact ih
  | case6 fuel st br pa bk rest _ _ _ n hn g ih => exact ih
  | case7 => intro l c st' h; cases h; exact ⟨rfl, rfl⟩

theorem parseUntil_fail {s : Str} {watch : Bool} {terms : List Str} {st st' : State} {l c : Nat}
    (h : parseUntil s watch terms st = .fail l c st') : l = st.matchedLineno ∧ c = st.matchedCharpos :=
  parseUntilLoop_fail s watch terms _ _ _ _ st 0 0 0 l c st' h

/-- when `parse_until_text` returns, the last match is the terminator: `matched_lineno/charpos` are its position -/
theorem parseUntilLoop_found_at (s : Str) (watch : Bool) (terms : List Str) (hterms : ∀ t ∈ terms, 0 < t.length)
    (sp sl sc : Nat) (fuel : Nat) (st : State) (br pa bk : Int) :
    ∀ st' text term, st.pos ≤ s.length → st.lineno = lineOf s st.pos →
      parseUntilLoop s watch terms sp sl sc fuel st br pa bk = .found st' text term →
      ∃ q, q + term.length = st'.pos ∧ q ≤ s.length ∧ st'.matchedLineno = lineOf s q ∧ st'.matchedCharpos = colOf s q
        ∧ hasPrefix term (s.drop q) = true := by
  fun_induction parseUntilLoop s watch terms sp sl sc fuel st br pa bk with
  | case1 => intro st' text term _ _ h; cases h
  | case2 fuel st br pa bk rest k hk ih =>
    intro st' text term hp hl h
    have hr := rxHashComment_range hk
    have hlt := drop_length_pos hr.1 hr.2
    have hs := advance_stepped s st (st.pos + k) hl (by omega)
      (by have := hr.2; simp only [rest, List.length_drop] at this; omega) hlt
    exact ih st' text term hs.pos_le hs.lineno h
  | case3 fuel st br pa bk rest _ k hk ih =>
    intro st' text term hp hl h
    have hr := rxString_range hk
    have hlt := drop_length_pos hr.1 hr.2
    have hs := advance_stepped s st (st.pos + k) hl (by omega)
      (by have := hr.2; simp only [rest, List.length_drop] at this; omega) hlt
    exact ih st' text term hs.pos_le hs.lineno h
  | case4 fuel st br pa bk rest _ _ t ht st1 hw =>
    intro st' text term hp hl h
    simp only [PURes.found.injEq] at h
    obtain ⟨rfl, _, rfl⟩ := h
    have hm := matchTerm_spec ht
    have htl := hterms t hm.1
    have hpl := hasPrefix_length hm.2
    have hlt := drop_length_pos htl hpl
    have hs := advance_stepped s st (st.pos + t.length) hl (by omega)
      (by simp only [rest, List.length_drop] at hpl; omega) hlt
    have hpos := advance_pos_of_lt s st (st.pos + t.length) (by omega)
    exact ⟨st.pos, by rw [hpos], hp, hs.mline, hs.mcol, hm.2⟩
  | case5 fuel st br pa bk rest _ _ t ht st1 hw ih =>
    intro st' text term hp hl h
    have hm := matchTerm_spec ht
    have htl := hterms t hm.1
    have hpl := hasPrefix_length hm.2
    have hlt := drop_length_pos htl hpl
    have hs : Stepped s st st1 := advance_stepped s st (st.pos + t.length) hl (by omega)
      (by simp only [rest, List.length_drop] at hpl; omega) hlt
    exact ih st' text term hs.pos_le hs.lineno h
  | case6 fuel st br pa bk rest _ _ _ n hn g ih =>
    intro st' text term hp hl h
    have hr := rxUntilSpecial_lt hn
    have hlt : st.pos < s.length := by simp only [rest, List.length_drop] at hr; omega
    have hs := advance_stepped s st (st.pos + n) hl (by omega)
      (by simp only [rest, List.length_drop] at hr; omega) hlt
    exact ih st' text term hs.pos_le hs.lineno h
  | case7 => intro st' text term _ _ h; cases h

theorem hasPrefix_bar {s : Str} {q : Nat} (h : hasPrefix (lit "|") (s.drop q) = true) : s[q]? = some '|' := by
  obtain ⟨t, ht⟩ := hasPrefix_iff.mp h
  have : (s.drop q)[0]? = some '|' := by rw [ht]; rfl
  simpa using this

/-! ### the matchers -/

theorem ctlOk_of_eq {s : Str} {a b : List CtlFrame} (h : CtlOkL s a) (e : b = a) : CtlOkL s b := e ▸ h

theorem matchExpression_eok (s : Str) (st : State) (h : Inv cfg s st) (hc : CtlOkL s st.ctlStack) :
    EOk s (matchExpression s st) := by
  unfold matchExpression
  simp only
  split
  · rename_i hp
    have hlen : 2 ≤ (s.drop st.pos).length := hasPrefix_length hp
    simp only [List.length_drop] at hlen
    have hs := advance_stepped s st (st.pos + 2) h.lineno (by omega) (by omega) (by omega)
    split
    · trivial
    · rename_i l c st' hf
      have := parseUntil_fail hf
      exact ⟨st.pos, h.pos_le, by rw [this.1, hs.mline], by rw [this.2, hs.mcol], Or.inl hp⟩
    · rename_i st2 text term h1
      have m1 := parseUntil_found terms_e1 hs.pos_le hs.lineno h1
      split
      · split
        · trivial
        · rename_i hterm _ l c st' hf
          have hf' := parseUntil_fail hf
          obtain ⟨q, hq1, hq2, hq3, hq4, hq5⟩ :=
            parseUntilLoop_found_at s true _ terms_e1 _ _ _ _ _ 0 0 0 st2 text term hs.pos_le hs.lineno h1
          rw [hterm] at hq5
          exact ⟨q, hq2, by rw [hf'.1, hq3], by rw [hf'.2, hq4], Or.inr (Or.inr (hasPrefix_bar hq5))⟩
        · rename_i st3 esc _ h2
          have m2 := parseUntil_found terms_e2 m1.1.pos_le m1.1.lineno h2
          exact ctlOk_of_eq hc (by show st3.ctlStack = st.ctlStack; rw [m2.1.ctls, m1.1.ctls, hs.ctls])
      · exact ctlOk_of_eq hc (by show st2.ctlStack = st.ctlStack; rw [m1.1.ctls, hs.ctls])
  · trivial

theorem matchPythonBlock_eok (s : Str) (st : State) (h : Inv cfg s st) (hc : CtlOkL s st.ctlStack) :
    EOk s (matchPythonBlock s st) := by
  unfold matchPythonBlock
  simp only
  split
  · rename_i hp
    have hlen : 2 ≤ (s.drop st.pos).length := hasPrefix_length hp
    simp only [List.length_drop] at hlen
    have h3 : ((s.drop st.pos).drop 2).head? = some '!' → 3 ≤ s.length - st.pos := by
      intro hh
      cases hd : (s.drop st.pos).drop 2 with
      | nil => rw [hd] at hh; simp at hh
      | cons c t =>
        have := congrArg List.length hd
        simp only [List.length_drop, List.length_cons] at this
        omega
    have hs : Stepped s st (advance s st (st.pos + if ((s.drop st.pos).drop 2).head? = some '!' then 3 else 2)) := by
      apply advance_stepped s st _ h.lineno
      · omega
      · split
        · rename_i hh; have := h3 hh; omega
        · omega
      · omega
    split
    · trivial
    · rename_i l c st' hf
      have := parseUntil_fail hf
      exact ⟨st.pos, h.pos_le, by rw [this.1, hs.mline], by rw [this.2, hs.mcol], Or.inr (Or.inl hp)⟩
    · rename_i st2 text term h1
      have m1 := parseUntil_found terms_pb hs.pos_le hs.lineno h1
      exact ctlOk_of_eq hc (by show st2.ctlStack = st.ctlStack; rw [m1.1.ctls, hs.ctls])
  · trivial

theorem matchComment_eok (s : Str) (st : State) (hc : CtlOkL s st.ctlStack) : EOk s (matchComment s st) := by
  unfold matchComment
  simp only
  split
  · split
    · trivial
    · exact hc
  · trivial

theorem matchPercent_eok (s : Str) (st : State) (hc : CtlOkL s st.ctlStack) : EOk s (matchPercent s st) := by
  unfold matchPercent
  simp only
  split
  · split
    · exact hc
    · trivial
  · trivial

theorem matchText_eok (cfg : Cfg) (s : Str) (st : State) (hc : CtlOkL s st.ctlStack) : EOk s (matchText cfg s st) := by
  unfold matchText
  simp only
  split
  · exact hc
  · split
    · split
      · split <;> exact hc
      · exact hc
    · exact hc

theorem matchTagEnd_eok (s : Str) (st : State) (hl : st.lineno = lineOf s st.pos) (hp : st.pos ≤ s.length)
    (hc : CtlOkL s st.ctlStack) : EOk s (matchTagEnd s st) := by
  unfold matchTagEnd
  simp only
  split
  · trivial
  · rename_i kw n hn
    have hsite : ErrSite s .closingWithoutOpening st.pos ∧ ErrSite s .closingMismatch st.pos := by
      simp only [ErrSite, hn, Option.isSome_some, and_self]
    split
    · exact ⟨st.pos, hp, hl, rfl, hsite.1⟩
    · split
      · exact ⟨st.pos, hp, hl, rfl, hsite.2⟩
      · exact hc

theorem matchControlLine_eok (s : Str) (st : State) (h : Inv cfg s st) (hc : CtlOkL s st.ctlStack) :
    EOk s (matchControlLine s st) := by
  unfold matchControlLine
  simp only
  split
  · rename_i hbol
    split
    · trivial
    · rename_i m hm
      have hr := rxControlLine_range hm
      simp only [List.length_drop] at hr
      have hlt : st.pos < s.length := by omega
      split
      · rename_i hpct
        have hsite : atLineStart s st.pos = true ∧ ∃ m', rxControlLine (s.drop st.pos) = some m' ∧ m'.isPercent = true :=
          ⟨hbol, m, hm, hpct⟩
        split
        · exact ⟨st.pos, h.pos_le, h.lineno, rfl, hsite⟩
        · rename_i isend kw hkw
          split
          · rename_i hend
            split
            · exact ⟨st.pos, h.pos_le, h.lineno, rfl, hsite⟩
            · rename_i top restStack hstack
              split
              · exact ⟨st.pos, h.pos_le, h.lineno, rfl, hsite⟩
              · -- pop
                intro f hf
                have : st.ctlStack = top :: restStack := hstack
                exact hc f (by rw [this]; simp [hf])
          · rename_i hend
            have hend' : isend = false := by simpa using hend
            split
            · rename_i hprim
              -- push a frame at the coordinates of this line
              intro f hf
              simp only [push, List.mem_cons] at hf
              rcases hf with rfl | hf
              · refine ⟨st.pos, h.pos_le, h.lineno, rfl, hbol, m, kw, hm, hpct, ?_, hprim⟩
                rw [hkw, hend']
              · exact hc f hf
            · split
              · exact hc
              · split
                · exact hc
                · exact ⟨st.pos, h.pos_le, h.lineno, rfl, hsite⟩
      · exact hc
  · trivial

/-- the states `textTagBody` can hand to `match_tag_end` satisfy the line invariant -/
theorem textTagBody_eok (cfg : Cfg) (s : Str) (st st3 : State) (inv3 : Inv cfg s st3)
    (hm3 : st3.matchedLineno = lineOf s st.pos ∧ st3.matchedCharpos = colOf s st.pos) (hst : st.pos ≤ s.length)
    (hsite : ErrSite s .unclosedTag st.pos) (hc : CtlOkL s st3.ctlStack) :
    EOk s (textTagBody cfg s st3) := by
  unfold textTagBody
  simp only
  split
  · exact ⟨st.pos, hst, hm3.1, hm3.2, hsite⟩
  · rename_i n hn
    have hsub := findSub_le hn
    have hpre := findSub_prefix hn
    have h8 : (lit "</%text>").length = 8 := rfl
    simp only [List.length_drop, h8] at hsub
    have hs4 := advance_stepped s st3 (st3.pos + n) inv3.lineno (by omega) (by omega) (by omega)
    -- whatever the final state `st7` is, it has the control stack of `st3` and a correct `lineno`
    have key : ∀ st7 : State, st7.ctlStack = st3.ctlStack → st7.lineno = lineOf s st7.pos → st7.pos ≤ s.length →
        EOk s (match matchTagEnd s st7 with | .no => .fell st7 | r => r) := by
      intro st7 e1 e2 e3
      have hc7 : CtlOkL s st7.ctlStack := ctlOk_of_eq hc e1
      have := matchTagEnd_eok s st7 e2 e3 hc7
      split
      · exact hc7
      · rename_i r hr
        exact this
    by_cases hn0 : n = 0
    · subst hn0
      have hpos4 : (advance s st3 (st3.pos + 0)).pos = st3.pos + 1 := by
        simp only [advance]; split <;> omega
      have hnl : (advance s st3 (st3.pos + 0)).lineno = lineOf s st3.pos := by
        simp only [advance, Nat.add_zero, if_true]
        rw [slice_add]
        obtain ⟨u, hu⟩ := hasPrefix_iff.mp hpre
        simp only [List.drop_zero] at hu
        rw [hu, inv3.lineno]
        simp [lit, countNL]
      by_cases hsb : cfg.textTagStepBack = true
      · simp only [hsb, and_self, if_true, Bool.not_true, Bool.false_eq_true, and_false, if_false]
        apply key
        · rfl
        · exact hnl
        · show st3.pos ≤ s.length; omega
      · simp only [Bool.not_eq_true] at hsb
        simp only [hsb, Bool.false_eq_true, and_false, if_false, Bool.not_false, and_self, if_true]
        apply key
        · rfl
        · exact hs4.lineno
        · exact hs4.pos_le
    · simp only [hn0, false_and, if_false]
      apply key
      · rfl
      · exact hs4.lineno
      · exact hs4.pos_le

theorem matchTagStart_eok (cfg : Cfg) (s : Str) (st : State) (h : Inv cfg s st) (hc : CtlOkL s st.ctlStack) :
    EOk s (matchTagStart cfg s st) := by
  unfold matchTagStart
  simp only
  split
  · trivial
  · rename_i m hm
    have hr := rxTagStart_range hm
    simp only [List.length_drop] at hr
    have hs := advance_stepped s st (st.pos + m.len) h.lineno (by omega) (by omega) (by omega)
    have inv2 := Inv.push_here h hs (.tagOpen m.keyword m.attrs m.selfClose) (by unfold Faithful; trivial)
    split
    · exact hc
    · split
      · rename_i hkw
        refine textTagBody_eok cfg s st _ (Inv.of_tags inv2 _) ⟨hs.mline, hs.mcol⟩ h.pos_le ?_ hc
        exact Or.inr ⟨m, hm, hkw⟩
      · exact hc

/-! ### the cascade and the loop -/

theorem matchers_eok (cfg : Cfg) (s : Str) :
    ∀ m ∈ matchers cfg s, ∀ st, Inv cfg s st → CtlOkL s st.ctlStack → EOk s (m st) := by
  intro m hm st hinv hc
  simp only [matchers, List.mem_cons, List.not_mem_nil, or_false] at hm
  rcases hm with rfl | rfl | rfl | rfl | rfl | rfl | rfl | rfl
  · exact matchExpression_eok s st hinv hc
  · exact matchControlLine_eok s st hinv hc
  · exact matchComment_eok s st hc
  · exact matchTagStart_eok cfg s st hinv hc
  · exact matchTagEnd_eok s st hinv.lineno hinv.pos_le hc
  · exact matchPythonBlock_eok s st hinv hc
  · exact matchPercent_eok s st hc
  · exact matchText_eok cfg s st hc

/-- what one pass through the cascade guarantees on the error / control-stack side -/
def SOk (s : Str) : StepRes → Prop
  | .cont st' => CtlOkL s st'.ctlStack
  | .err k l c _ => At s k l c
  | _ => True

theorem runMatchers_eok (s : Str) (ms : List (State → MRes))
    (hms : ∀ m ∈ ms, ∀ st, Inv cfg s st → st.pos < s.length → MOk cfg s st (m st))
    (hes : ∀ m ∈ ms, ∀ st, Inv cfg s st → CtlOkL s st.ctlStack → EOk s (m st)) :
    ∀ st : State, Inv cfg s st → st.pos < s.length → CtlOkL s st.ctlStack → SOk s (runMatchers s ms st) := by
  induction ms with
  | nil =>
    intro st _ _ _
    simp only [runMatchers]
    split <;> trivial
  | cons m ms ih =>
    intro st hinv hlt hc
    have hm := hms m (by simp) st hinv hlt
    have he := hes m (by simp) st hinv hc
    have ih' := ih (fun m' hm' => hms m' (by simp [hm'])) (fun m' hm' => hes m' (by simp [hm']))
    simp only [runMatchers]
    cases hr : m st with
    | no => exact ih' st hinv hlt hc
    | fell st' =>
      rw [hr] at hm he
      exact ih' st' hm.1 hm.2.2 he
    | yes st' => rw [hr] at he; exact he
    | err k l c st' => rw [hr] at he; exact he
    | outOfFuel => trivial

theorem finish_site (s : Str) (st : State) (it : Nat) (hml : st.matchedLineno = lineOf s s.length)
    (hmc : st.matchedCharpos = colOf s s.length) (hc : CtlOkL s st.ctlStack) :
    ∀ k l c, (finish st it).outcome = .error k l c → At s k l c := by
  intro k l c h
  unfold finish at h
  split at h
  · simp only [Outcome.error.injEq] at h
    obtain ⟨rfl, rfl, rfl⟩ := h
    exact ⟨s.length, Nat.le_refl _, hml, hmc, Or.inl rfl⟩
  · split at h
    · rename_i top rest hstack
      simp only [Outcome.error.injEq] at h
      obtain ⟨rfl, rfl, rfl⟩ := h
      exact hc top (by rw [hstack]; simp)
    · cases h

theorem lexLoop_site (cfg : Cfg) (s : Str) :
    ∀ (fuel : Nat) (st : State) (it : Nat), Inv cfg s st → CtlOkL s st.ctlStack →
      ∀ k l c, (lexLoop cfg s fuel st it).outcome = .error k l c → At s k l c := by
  intro fuel
  induction fuel with
  | zero => intro st it _ _ k l c h; simp [lexLoop] at h
  | succ fuel ih =>
    intro st it hinv hc k l c h
    simp only [lexLoop] at h
    have hple := hinv.pos_le
    split at h
    · omega
    · split at h
      · rename_i st' hend
        unfold matchEnd at hend
        split at hend
        · rename_i hge
          cases hend
          have hp : st.pos = s.length := by omega
          refine finish_site s _ _ ?_ ?_ ?_ k l c h
          · show st.lineno = lineOf s s.length
            rw [hinv.lineno, hp]
          · show colOf s st.pos = colOf s s.length
            rw [hp]
          · exact hc
        · cases hend
      · rename_i hend
        have hlt : st.pos < s.length := by
          unfold matchEnd at hend
          split at hend
          · cases hend
          · omega
        have hstep := runMatchers_ok s (matchers cfg s) (matchers_ok cfg s) st st hinv hlt (Nat.le_refl _)
        have hsok := runMatchers_eok s (matchers cfg s) (matchers_ok cfg s) (matchers_eok cfg s) st hinv hlt hc
        split at h
        · rename_i st' hr
          rw [hr] at hstep hsok
          exact ih st' (it + 1) hstep.1 hsok k l c h
        · rename_i st' hr
          rw [hr] at hstep; exact absurd hstep (by simp [StepOk])
        · rename_i k' l' c' st' hr
          rw [hr] at hsok
          simp only [Outcome.error.injEq] at h
          obtain ⟨rfl, rfl, rfl⟩ := h
          exact hsok
        · rename_i st' hr
          exact absurd hr (runMatchers_no_assertion cfg s st st')
        · cases h

theorem initState_ctl (s : Str) : (initState s).ctlStack = [] := by
  unfold initState
  simp only
  split <;> rfl

/-- **every error of the lexer model is reported at the position of its site** -/
theorem lex_error_site (cfg : Cfg) (s : Str) (k : ErrKind) (l c : Nat) (h : (lex cfg s).outcome = .error k l c) :
    At s k l c := by
  refine lexLoop_site cfg s _ _ _ (initState_inv s) ?_ k l c h
  rw [initState_ctl]; intro f hf; cases hf

end MakoModel.ErrPos
