import MakoModel.Codegen.Refine
import MakoModel.Control.Model
/-!
# Helper lemmas for C03 on the target semantics: `pass`, `return`, `elif`, the loop context per iteration
-/
namespace MakoModel.Control
open MakoModel.Target MakoModel.Codegen

/-! ## `pass` -/

/-- `pass` is `skip`: a suite that starts with it runs exactly as without it (one unit of fuel aside) -/
theorem exec_pass_first (c : Cfg) (n : Nat) (s : Stmt) (l : Loc) (σ : St) :
    exec c (n + 2) (.seq .skip s) l σ = exec c (n + 1) s l σ := by
  simp [exec]

/-- … and one that ends with it -/
theorem exec_pass_last (c : Cfg) (n : Nat) (s : Stmt) (l : Loc) (σ : St) :
    exec c (n + 2) (.seq s .skip) l σ = exec c (n + 1) s l σ := by
  have h : ∀ l1 σ1, exec c (n + 1) .skip l1 σ1 = (.normal, l1, σ1) := by intro l1 σ1; rw [exec]
  conv => lhs; rw [exec]
  generalize exec c (n + 1) s l σ = r
  obtain ⟨o, l1, σ1⟩ := r
  cases o <;> simp [h]

/-! ## `if / elif / else` -/

/-- `% if c1` t1 `% elif c2` t2 … `% else` e `% endif`: Python's (and `ast`'s) reading – the `elif` is an `if` in the
    `else` branch -/
def elifChain : List (Expr × Tmpl) → Tmpl → Tmpl
  | [], e => e
  | (c, t) :: cs, e => .ite c t (elifChain cs e)

theorem ctl_elifChain : ∀ (cs : List (Expr × Tmpl)) (e : Tmpl), (∀ p ∈ cs, PureE p.1 = true ∧ Ctl p.2 = true) →
    Ctl e = true → Ctl (elifChain cs e) = true
  | [], _, _, he => he
  | (c, t) :: cs, e, h, he => by
    have h0 := h (c, t) (by simp)
    have := ctl_elifChain cs e (fun p hp => h p (by simp [hp])) he
    simp [elifChain, Ctl, h0.1, h0.2, this]

/-- the generated code of a chain is the nested `if … else: if …` -/
theorem stmts_elifChain (sc : Scope) : ∀ (cs : List (Expr × Tmpl)) (e : Tmpl),
    stmts sc (elifChain cs e) = cs.foldr (fun p acc => Stmt.ite p.1 (stmts sc p.2) acc) (stmts sc e)
  | [], _ => rfl
  | (c, t) :: cs, e => by simp [elifChain, stmts, stmts_elifChain sc cs e]

/-! ## `return` -/

theorem stmts_seq_ret (sc : Scope) (a b : Tmpl) :
    stmts sc (.seq a (.seq .ret b)) = .seq (stmts sc a) (.seq (.ret emptyStr) (stmts sc b)) := by
  simp [stmts]

/-- `a; return; b`: runs `a`; when `a` ends normally the outcome is `return ''` in the state `a` left – `b` is
    never run, nothing is undone -/
theorem exec_seq_ret (c : Cfg) {n : Nat} {A B : Stmt} {l : Loc} {σ : St} {o : Outcome} {l' : Loc} {σ' : St}
    (he : exec c n (.seq A (.seq (.ret emptyStr) B)) l σ = (o, l', σ')) (ho : o ≠ .timeout) :
    ∃ m o1, exec c m A l σ = (o1, l', σ') ∧ o1 ≠ .timeout ∧
      ((o1 = .normal ∧ o = .ret []) ∨ (o1 ≠ .normal ∧ o = o1)) := by
  obtain ⟨n1, rfl⟩ := exec_pos c he ho
  obtain ⟨o1, l1, σ1, h1, hcase⟩ := exec_seq_inv c he
  rcases hcase with ⟨rfl, h2⟩ | ⟨hne, rfl, rfl, rfl⟩
  · obtain ⟨n2, rfl⟩ := exec_pos c h2 ho
    obtain ⟨o2, l2, σ2, h3, hc2⟩ := exec_seq_inv c h2
    have hto2 : o2 ≠ .timeout := by
      rcases hc2 with ⟨rfl, _⟩ | ⟨_, rfl, _, _⟩
      · simp
      · exact ho
    obtain ⟨n3, rfl⟩ := exec_pos c h3 hto2
    simp only [exec, emptyStr] at h3
    rcases n3 with _ | n4
    · simp only [eval, Prod.mk.injEq] at h3; exact absurd h3.1.symm hto2
    simp only [eval, Prod.mk.injEq] at h3
    obtain ⟨rfl, rfl, rfl⟩ := h3
    rcases hc2 with ⟨h, _⟩ | ⟨_, rfl, rfl, rfl⟩
    · cases h
    · exact ⟨_, _, h1, by simp, .inl ⟨rfl, rfl⟩⟩
  · exact ⟨_, _, h1, ho, .inr ⟨hne, rfl⟩⟩

/-! ## the loop context, iteration by iteration -/

/-- `IterAt c x body vs l σ i rem l' σ'`: the loop `for x in loop: body` over the remaining items `vs`, started in
    `(l, σ)`, reaches its iteration number `i` (counting from this point) in `(l', σ')` with `rem` still to go:
    the `i` bodies before it ended normally or by `continue`, and after each the context's index advanced – this
    is `forIter` (with `ctx = true`) unrolled `i` times. -/
inductive IterAt (c : Cfg) (x : Name) (body : Stmt) : List Str → Loc → St → Nat → List Str → Loc → St → Prop
  | here (vs : List Str) (l : Loc) (σ : St) : IterAt c x body vs l σ 0 vs l σ
  | next (n : Nat) (v : Str) (vs : List Str) (l : Loc) (σ : St) (o : Outcome) (l1 : Loc) (σ1 : St) (i : Nat)
      (rem : List Str) (l' : Loc) (σ' : St) :
      exec c n body { l with vars := (x, v) :: l.vars } σ = (o, l1, σ1) → (o = .normal ∨ o = .cont) →
      IterAt c x body vs l1 { σ1 with loops := bumpTop σ1.loops } i rem l' σ' →
      IterAt c x body (v :: vs) l σ (i + 1) rem l' σ'

/-- one unrolling of `forIter` is one `IterAt.next` -/
theorem forIter_unroll (c : Cfg) (n : Nat) (x : Name) (v : Str) (vs : List Str) (body : Stmt) (l : Loc) (σ : St)
    (o : Outcome) (l1 : Loc) (σ1 : St) (h : exec c n body { l with vars := (x, v) :: l.vars } σ = (o, l1, σ1))
    (ho : o = .normal ∨ o = .cont) :
    forIter c (n + 1) x (v :: vs) body true l σ = forIter c n x vs body true l1 { σ1 with loops := bumpTop σ1.loops } := by
  rcases ho with rfl | rfl <;> simp [forIter, h]

/-- in iteration `i` the top loop context is the one pushed by `_enter`, its index is `i`, the contexts below it
    are untouched, and the items still to come are the items from `i` on -/
theorem iterAt_loops (c : Cfg) (hc : CfgOK c) (x : Name) (body : Stmt) (hws : WS body) :
    ∀ (vs : List Str) (l : Loc) (σ : St) (i : Nat) (rem : List Str) (l' : Loc) (σ' : St),
    IterAt c x body vs l σ i rem l' σ' →
    ∀ (b : Nat) (top : Str) (rest : List (Nat × Str)) (its : List Str) (j : Nat) (r : List Target.LoopCtx),
      LocOK l → StOK σ → σ.bufs = (b, top) :: rest → l.writer = b → σ.loops = ⟨its, j⟩ :: r →
      σ'.loops = ⟨its, j + i⟩ :: r ∧ rem = vs.drop i ∧ (∃ top', σ'.bufs = (b, top') :: rest) ∧
        LocOK l' ∧ StOK σ' ∧ l'.writer = b := by
  intro vs l σ i rem l' σ' h
  induction h with
  | here vs l σ =>
    intro b top rest its j r hl hσ hb hw hlp
    exact ⟨by simpa using hlp, by simp, ⟨top, hb⟩, hl, hσ, hw⟩
  | next n v vs l σ o l1 σ1 i rem l' σ' hx ho _ ih =>
    intro b top rest its j r hl hσ hb hw hlp
    have hto : o ≠ .timeout := by rcases ho with rfl | rfl <;> simp
    have hl0 : LocOK { l with vars := (x, v) :: l.vars } := ⟨hl.funs, hl.caller, hl.lexc⟩
    obtain ⟨bal, hl1, hw1⟩ := (all_good c hc n).exec body _ σ b top rest hws hl0 hσ hb hw o l1 σ1 hx hto
    obtain ⟨w, hbw⟩ := bal.bufs
    have hlp1 : ({ σ1 with loops := bumpTop σ1.loops } : St).loops = ⟨its, j + 1⟩ :: r := by
      simp [bal.loops, hlp, bumpTop]
    have hσ1 : StOK { σ1 with loops := bumpTop σ1.loops } := bal.ok.of_eq rfl rfl
    obtain ⟨h1, h2, h3, h4, h5, h6⟩ := ih b (top ++ w) rest its (j + 1) r hl1 hσ1 hbw hw1 hlp1
    exact ⟨by rw [h1]; congr 2; omega, by simpa using h2, h3, h4, h5, h6⟩

/-- the model of `LoopContext` for a loop stack entry of the target semantics -/
def ctxOf (lc : Target.LoopCtx) : LoopCtx := ⟨lc.items.length, lc.index⟩

/-- the enclosing loop context (`LoopContext.parent`) -/
def parentOf (loops : List Target.LoopCtx) : Option Target.LoopCtx := parentOfStack loops

end MakoModel.Control
