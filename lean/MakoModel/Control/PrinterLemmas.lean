import MakoModel.Control.Printer
/-!
# The printer writes a structured program with the indentation of its structure (helper lemmas for C03)

`run_emit`: induction over the program – unbounded nesting – with the printer state generalised.
`parse_layout`: the offside-rule reader inverts `layout`.
-/
namespace MakoModel.Control

theorem run_append (σ : PS) (a b : List Ev) : run σ (a ++ b) = run (run σ a) b := by
  simp [run, List.foldl_append]

theorem run_cons (σ : PS) (a : Ev) (b : List Ev) : run σ (a :: b) = run (stepEv σ a) b := rfl

theorem run_wl (σ : PS) (a : Option Str) (b : List Ev) : run σ (.wl a :: b) = run (step σ a) b := rfl

theorem run_blk (d : Nat) (st : List (Option Str)) (out : List (Nat × Str)) (e : Bool) (t : Str) (b : List Ev) :
    run ⟨d, st, out, false, e⟩ (.blk t :: b) = run ⟨d, st, out ++ [(d, t)], false, false⟩ b := rfl

theorem flagAfter_append (e : Bool) (a b : List Ev) : flagAfter e (a ++ b) = flagAfter (flagAfter e a) b := by
  simp [flagAfter, List.foldl_append]

theorem flagAfter_cons (e : Bool) (a : Ev) (b : List Ev) : flagAfter e (a :: b) = flagAfter (flagAfterEv e a) b := rfl

theorem run_nil (σ : PS) : run σ [] = σ := rfl

theorem isUnindentor_false {st : List (Option Str)} {s : Str} (h : reUnindentor s = false) :
    isUnindentor st s = false := by
  cases st with
  | nil => rfl
  | cons t r => cases t <;> simp [isUnindentor, h]

/-- a simple line is written at the current level and changes nothing -/
theorem step_line {d : Nat} {st : List (Option Str)} {out : List (Nat × Str)} {e : Bool} {s : Str}
    (h : LineOk s = true) :
    step ⟨d, st, out, false, e⟩ (some s) = ⟨d, st, out ++ [(d, s)], false, false⟩ := by
  simp only [LineOk, Bool.and_eq_true, Bool.or_eq_true, Option.isNone_iff_eq_none, Bool.not_eq_true'] at h
  obtain ⟨h1, h2⟩ := h
  have hd : (!isComment (some s) && (!hasText (some s) || isUnindentor st s) && decide (d > 0)) = false := by
    rcases h1 with h1 | ⟨h1, h3⟩
    · simp [h1]
    · simp [h1, isUnindentor_false h3]
  simp [step, dedentStep, hd, h2]

/-- the `indent_detail` entry a header pushes is a keyword exactly when the header is in `_re_compound` -/
theorem opens_isSome {h : Str} {top : Option Str} (ho : opens h = some top) : top.isSome = isCompound h := by
  unfold opens at ho
  split at ho
  · split at ho
    · rename_i k hk; cases ho; simp [isCompound, hk]
    · rename_i hk
      split at ho
      · cases ho; simp [isCompound, hk]
      · cases ho
  · cases ho

/-- a header that is no continuation clause: written at the current level, opens the next -/
theorem step_header {d : Nat} {st : List (Option Str)} {out : List (Nat × Str)} {e : Bool} {h : Str}
    {top : Option Str} (hh : HeaderOk h = true) (hc : isCont h = false) (ho : opens h = some top) :
    step ⟨d, st, out, false, e⟩ (some h) = ⟨d + 1, top :: st, out ++ [(d, h)], false, true⟩ := by
  simp only [HeaderOk, Bool.and_eq_true, Bool.not_eq_true'] at hh
  have hd : (!isComment (some h) && (!hasText (some h) || isUnindentor st h) && decide (d > 0)) = false := by
    simp [hh.1.1, isUnindentor_false hc]
  simp [step, dedentStep, hd, ho]

/-- a continuation clause after a suite opened by a `_re_compound` keyword: unindents, is written, indents -/
theorem step_cont {d : Nat} {st : List (Option Str)} {out : List (Nat × Str)} {e : Bool} {h : Str}
    {top : Option Str} {k : Str} (hh : HeaderOk h = true) (hc : isCont h = true) (ho : opens h = some top) :
    step ⟨d + 1, some k :: st, out, false, e⟩ (some h) = ⟨d + 1, top :: st, out ++ [(d, h)], false, true⟩ := by
  simp only [HeaderOk, Bool.and_eq_true, Bool.not_eq_true'] at hh
  have hu : isUnindentor (some k :: st) h = true := by simpa [isUnindentor, isCont] using hc
  simp [step, dedentStep, hh.1.2, hu, ho]

/-- the dedent marker `None` -/
theorem step_none {d : Nat} {st : List (Option Str)} {out : List (Nat × Str)} {e : Bool} {t : Option Str} :
    step ⟨d + 1, t :: st, out, false, e⟩ none = ⟨d, st, out, false, e⟩ := by
  simp [step, dedentStep, isComment, hasText]

/-- what follows a suite: the next clause, or `None` and the rest -/
def emitAfter (r : Prog) : List Ev := if startsCont r then emit r else .wl none :: emit r

theorem emit_comp (h : Str) (b r : Prog) : emit (.comp h b r) = .wl (some h) :: (emit b ++ emitAfter r) := rfl

theorem HeaderOk_opens {h : Str} (hh : HeaderOk h = true) : ∃ top, opens h = some top := by
  simp only [HeaderOk, Bool.and_eq_true] at hh
  exact Option.isSome_iff_exists.mp hh.2

/-- **The printer follows the structure.**  From any state, the emission of a good program is written with
    the program's own indentation, and the state is restored; after a suite (`emitAfter`) the level opened by
    its header is closed – by the `None` marker or by the continuation clause itself. -/
theorem run_emit : ∀ (P : Prog) (prev : Option Bool) (d : Nat) (st : List (Option Str)) (out : List (Nat × Str))
    (e : Bool), good prev P = true →
    (startsCont P = false →
      run ⟨d, st, out, false, e⟩ (emit P) = ⟨d, st, out ++ layout d P, false, flagAfter e (emit P)⟩) ∧
    (∀ top : Option Str, prev = some top.isSome →
      run ⟨d + 1, top :: st, out, false, e⟩ (emitAfter P) =
        ⟨d, st, out ++ layout d P, false, flagAfter e (emitAfter P)⟩) := by
  intro P
  induction P with
  | nil =>
    intro prev d st out e _
    refine ⟨fun _ => by simp [emit, layout, run_nil, flagAfter], fun top _ => ?_⟩
    simp [emitAfter, startsCont, emit, layout, run_wl, run_nil, step_none, flagAfter, flagAfterEv]
  | line raw s r ih =>
    intro prev d st out e hg
    simp only [good, Bool.and_eq_true] at hg
    have hr : startsCont r = false := by
      cases r with
      | comp h b r' =>
        have := hg.2
        simp only [good, Bool.and_eq_true, Bool.or_eq_true, Bool.not_eq_true', beq_iff_eq] at this
        rcases this.1.1.2 with h1 | h1
        · exact h1
        · cases h1
      | _ => rfl
    have main : ∀ d st out e, run ⟨d, st, out, false, e⟩ (emit (.line raw s r)) =
        ⟨d, st, out ++ layout d (.line raw s r), false, flagAfter e (emit (.line raw s r))⟩ := by
      intro d st out e
      cases raw with
      | true =>
        simp only [emit, if_true]
        rw [run_blk, (ih none d st _ false hg.2).1 hr]
        simp [layout, flagAfter_cons, flagAfterEv]
      | false =>
        simp only [Bool.false_or] at hg
        have hop : (opens s).isSome = false := by
          have := hg.1
          simp only [LineOk, Bool.and_eq_true, Option.isNone_iff_eq_none] at this
          simp [this.2]
        simp only [emit, Bool.false_eq_true, if_false]
        rw [run_wl, step_line hg.1, (ih none d st _ false hg.2).1 hr]
        simp [layout, flagAfter_cons, flagAfterEv, hop]
    refine ⟨fun _ => main d st out e, fun top _ => ?_⟩
    simp only [emitAfter, startsCont, Bool.false_eq_true, if_false, run_wl, step_none]
    rw [main d st out e]
    simp [flagAfter_cons, flagAfterEv]
  | comp h b r ihb ihr =>
    intro prev d st out e hg
    simp only [good, Bool.and_eq_true, Bool.or_eq_true, Bool.not_eq_true', beq_iff_eq] at hg
    obtain ⟨⟨⟨hh, hcp⟩, hgb⟩, hgr⟩ := hg
    obtain ⟨top', ho⟩ := HeaderOk_opens hh
    have hop : (opens h).isSome = true := by simp [ho]
    have hb0 : startsCont b = false := by
      cases b with
      | comp h2 b2 r2 =>
        simp only [good, Bool.and_eq_true, Bool.or_eq_true, Bool.not_eq_true', beq_iff_eq] at hgb
        rcases hgb.1.1.2 with h1 | h1
        · exact h1
        · cases h1
      | _ => rfl
    -- after the header has been written at level `d`
    have tail : ∀ out', run ⟨d + 1, top' :: st, out', false, true⟩ (emit b ++ emitAfter r) =
        ⟨d, st, out' ++ (layout (d + 1) b ++ layout d r), false, flagAfter true (emit b ++ emitAfter r)⟩ := by
      intro out'
      rw [run_append, (ihb none (d + 1) (top' :: st) out' true hgb).1 hb0,
        (ihr (some (isCompound h)) d st _ _ hgr).2 top' (by rw [opens_isSome ho])]
      simp [flagAfter_append]
    have fl : ∀ e', flagAfter e' (emit (.comp h b r)) = flagAfter true (emit b ++ emitAfter r) := by
      intro e'
      rw [emit_comp, flagAfter_cons]
      simp [flagAfterEv, hop]
    refine ⟨fun hs => ?_, fun top ht => ?_⟩
    · have hc : isCont h = false := hs
      rw [fl, emit_comp, run_wl, step_header hh hc ho, tail]
      simp [layout]
    · by_cases hc : isCont h = true
      · have hp : prev = some true := by
          rcases hcp with h1 | h1
          · rw [hc] at h1; cases h1
          · exact h1
        rw [hp] at ht
        have : top.isSome = true := by simpa using ht.symm
        obtain ⟨k, rfl⟩ := Option.isSome_iff_exists.mp this
        have he : emitAfter (.comp h b r) = emit (.comp h b r) := by simp [emitAfter, startsCont, hc]
        rw [he, fl, emit_comp, run_wl, step_cont hh hc ho, tail]
        simp [layout]
      · have hc' : isCont h = false := by simpa using hc
        have he : emitAfter (.comp h b r) = .wl none :: emit (.comp h b r) := by simp [emitAfter, startsCont, hc']
        rw [he, flagAfter_cons, fl, run_wl, step_none, emit_comp, run_wl, step_header hh hc' ho, tail]
        simp [layout]

/-- from the initial state -/
theorem printed_layout (P : Prog) (hg : good none P = true) :
    printed P = ⟨0, [], layout 0 P, false, flagAfter false (emit P)⟩ := by
  have hs : startsCont P = false := by
    cases P with
    | comp h b r =>
      simp only [good, Bool.and_eq_true, Bool.or_eq_true, Bool.not_eq_true', beq_iff_eq] at hg
      rcases hg.1.1.2 with h1 | h1
      · exact h1
      · cases h1
    | _ => rfl
  have := (run_emit P none 0 [] [] false hg).1 hs
  simpa [printed, PS.init] using this

/-- the flag the printer keeps is a function of the calls: after any error-free run, `suite_is_empty` is
    `flagAfter` of the calls -/
theorem stepEv_err (σ : PS) (ev : Ev) (h : σ.err = true) : stepEv σ ev = σ := by
  cases ev <;> simp [stepEv, step, h]

theorem run_err (σ : PS) (evs : List Ev) (h : σ.err = true) : run σ evs = σ := by
  induction evs with
  | nil => rfl
  | cons ev evs ih => rw [run_cons, stepEv_err σ ev h, ih]

theorem dedentStep_empty (σ : PS) (line : Option Str) : (dedentStep σ line).empty = σ.empty := by
  unfold dedentStep
  simp only
  generalize (!isComment line && (!hasText line || (match line with | some s => isUnindentor σ.detail s | none => false)) &&
    decide (σ.indent > 0)) = b
  cases b
  · rfl
  · cases hdt : σ.detail <;> simp [hdt]

theorem stepEv_empty (σ : PS) (ev : Ev) (h : (stepEv σ ev).err = false) :
    (stepEv σ ev).empty = flagAfterEv σ.empty ev := by
  have h0 : σ.err = false := by
    cases he : σ.err with
    | false => rfl
    | true => rw [stepEv_err σ ev he] at h; rw [he] at h; cases h
  cases ev with
  | blk t => simp [stepEv, h0, flagAfterEv]
  | wl l =>
    have hd := dedentStep_empty σ l
    simp only [stepEv, step, h0, Bool.false_eq_true, if_false] at h ⊢
    generalize dedentStep σ l = σ1 at h hd ⊢
    cases he : σ1.err with
    | true => simp [he] at h
    | false =>
      simp only [he, Bool.false_eq_true, if_false]
      cases l with
      | none => simpa [flagAfterEv] using hd
      | some s => cases ho : opens s <;> simp [flagAfterEv, ho]

theorem run_empty : ∀ (evs : List Ev) (σ : PS), (run σ evs).err = false →
    (run σ evs).empty = flagAfter σ.empty evs
  | [], _, _ => rfl
  | ev :: evs, σ, h => by
    rw [run_cons] at h ⊢
    have h1 : (stepEv σ ev).err = false := by
      cases he : (stepEv σ ev).err with
      | false => rfl
      | true => rw [run_err _ evs he] at h; rw [he] at h; cases h
    rw [run_empty evs _ h, stepEv_empty σ ev h1, flagAfter_cons]

/-! ## reading the layout back -/

/-- the next line after the items at depth `d` is shallower -/
def Stops (d : Nat) (rest : List (Nat × Str)) : Prop := ∀ p ∈ rest.head?, p.1 < d

theorem layout_head_depth (d : Nat) (P : Prog) : ∀ p ∈ (layout d P).head?, p.1 = d := by
  cases P <;> simp [layout]

theorem layout_ne_nil (d : Nat) {P : Prog} (h : P ≠ .nil) : layout d P ≠ [] := by
  cases P <;> simp_all [layout]

theorem unraw_ne_nil {P : Prog} (h : P ≠ .nil) : unraw P ≠ .nil := by
  cases P <;> simp_all [unraw]

theorem parse_layout : ∀ (P : Prog) (d : Nat) (rest : List (Nat × Str)) (fuel : Nat),
    suitesNonEmpty P = true → Stops d rest → (layout d P).length + rest.length < fuel →
    parseAt fuel d (layout d P ++ rest) = some (unraw P, rest) := by
  intro P
  induction P with
  | nil =>
    intro d rest fuel _ hs hf
    cases fuel with
    | zero => omega
    | succ fuel =>
      cases rest with
      | nil => simp [layout, parseAt, unraw]
      | cons p rest =>
        obtain ⟨d', s⟩ := p
        have : d' < d := hs (d', s) (by simp)
        simp [layout, parseAt, this, unraw]
  | line raw s r ih =>
    intro d rest fuel hne hs hf
    cases fuel with
    | zero => omega
    | succ fuel =>
      simp only [suitesNonEmpty] at hne
      simp only [layout, List.cons_append, List.length_cons] at hf ⊢
      have hrec := ih d rest fuel hne hs (by omega)
      -- the line that follows is at depth `d` (next item) or shallower (end of the block)
      generalize hL : layout d r ++ rest = L at hrec
      cases L with
      | nil =>
        simp only [parseAt, Nat.lt_irrefl, if_false, if_true, unraw]
        cases fuel with
        | zero => omega
        | succ f =>
          simp only [parseAt, Option.some.injEq, Prod.mk.injEq] at hrec
          obtain ⟨h1, rfl⟩ := hrec
          rw [← h1]
      | cons q L' =>
        obtain ⟨d2, s2⟩ := q
        have hd2 : d2 ≠ d + 1 := by
          cases hr : layout d r with
          | nil =>
            rw [hr] at hL
            simp only [List.nil_append] at hL
            have := hs (d2, s2) (by rw [hL]; simp)
            simp only at this
            omega
          | cons q2 L2 =>
            rw [hr] at hL
            simp only [List.cons_append, List.cons.injEq] at hL
            have := layout_head_depth d r q2 (by rw [hr]; simp)
            rw [hL.1] at this
            simp only at this
            omega
        simp only [parseAt, Nat.lt_irrefl, if_false, if_true, hd2, hrec, unraw]
  | comp h b r ihb ihr =>
    intro d rest fuel hne hs hf
    cases fuel with
    | zero => omega
    | succ fuel =>
      simp only [suitesNonEmpty, Bool.and_eq_true, bne_iff_ne, ne_eq] at hne
      obtain ⟨⟨hbn, hb⟩, hr⟩ := hne
      simp only [layout, List.cons_append, List.length_cons, List.length_append, List.append_assoc] at hf ⊢
      -- the suite is not empty: the next line is one level deeper
      have hstop : Stops (d + 1) (layout d r ++ rest) := by
        intro p hp
        cases hr' : layout d r with
        | nil =>
          rw [hr'] at hp
          have := hs p (by simpa using hp)
          omega
        | cons q2 L2 =>
          rw [hr'] at hp
          simp only [List.cons_append, List.head?_cons, Option.mem_def, Option.some.injEq] at hp
          have := layout_head_depth d r q2 (by rw [hr']; simp)
          subst hp
          omega
      have h1 := ihb (d + 1) (layout d r ++ rest) fuel hb hstop (by simp only [List.length_append]; omega)
      have h2 := ihr d rest fuel hr hs (by omega)
      cases hbl : layout (d + 1) b with
      | nil => exact absurd hbl (layout_ne_nil (d + 1) hbn)
      | cons q L =>
        have hq := layout_head_depth (d + 1) b q (by rw [hbl]; simp)
        obtain ⟨dq, sq⟩ := q
        simp only at hq
        subst hq
        rw [hbl] at h1
        simp only [List.cons_append] at h1 ⊢
        simp only [parseAt, Nat.lt_irrefl, if_false, if_true, h1, h2, unraw]

/-- `parseIndent` inverts `layout` on programs without empty suites -/
theorem parseIndent_layout (P : Prog) (hne : suitesNonEmpty P = true) :
    parseIndent (layout 0 P) = some (unraw P) := by
  have := parse_layout P 0 [] ((layout 0 P).length + 1) hne (by intro p hp; simp at hp) (by simp)
  simp only [List.append_nil] at this
  simp [parseIndent, this]

end MakoModel.Control
