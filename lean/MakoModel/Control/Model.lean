import MakoModel.Control.Printer
/-!
# L2/L3 (control-line part): nesting of control lines, the auto-`pass` rule, loop mangling

What `mako/lexer.py` (`match_control_line`, `append_node`) and `mako/codegen.py` (`visitControlLine`,
`mangle_mako_loop`, `LoopVariable`, the `loop` part of `write_variable_declares`) do with `%` lines, modelled
**as written**:

* `lexCtl`: the control-line regex at the start of a line – leading blanks, `%` (not `%%`) or `##`, blanks, the
  text up to the end of the line (backslash-newline continues the line);
* `CT` / `Terns`: a body with properly nested control structures (primary line, body, ternary lines with their
  bodies, end line) – the nesting the lexer's `control_line` stack enforces;
* `kinds`, `primaryChildren`, `ternaryChildren`: the `nodes` lists `append_node` builds for a control line (the
  innermost open primary gets every node up to its end line, its last open ternary likewise; a nested primary
  contributes only its own line to the enclosing lists; a tag contributes itself *and* – a lexer quirk – the
  nodes inside it);
* `passRule`: the four-way disjunction of `visitControlLine` over that list, literally;
* `emitCT`: the `writeline` calls of `visitControlLine` for a body, incl. `mangle_mako_loop` (`loop =
  __M_loop._enter(…)`, `try:`, `for … in loop:`) and the `finally: loop = __M_loop._exit()` of the end line;
* `structOf`: the structured target program those calls are meant to produce;
* `LoopContext` attributes as functions of the loop stack of `Target/Model.lean`;
* `declares`: the part of `write_variable_declares` that decides between `loop = __M_loop = runtime.LoopStack()`
  and an ordinary `context.get`.
-/
namespace MakoModel.Control
open MakoModel.Basic

/-! ## the control-line regex -/

/-- `(?:\r?\n|\Z)` -/
def ctlEnd : Str → Bool
  | [] => true
  | '\n' :: _ => true
  | '\r' :: '\n' :: _ => true
  | _ => false

/-- `((?:(?:\\\r?\n)|[^\r\n])*)(?:\r?\n|\Z)`: the text of the line.  The star is greedy and each round tries
    backslash-newline first (it is part of the text), then any character but CR / LF; when the rest cannot be
    matched the engine backs out of the last choice - e.g. in `\⏎` followed by a lone CR the backslash is taken as an
    ordinary character and the newline ends the line.  `none`: no way to reach the end of a line. -/
def ctlMatchF : Nat → Str → Option Str
  | 0, _ => none
  | _ + 1, [] => some []
  | n + 1, c :: r =>
    -- first alternative: backslash-newline, then the rest of the line
    let a1 : Option Str :=
      if c == '\\' then
        match r with
        | '\n' :: r' => (ctlMatchF n r').map fun t => '\\' :: '\n' :: t
        | '\r' :: '\n' :: r' => (ctlMatchF n r').map fun t => '\\' :: '\r' :: '\n' :: t
        | _ => none
      else none
    match a1 with
    | some t => some t
    | none =>
      if c == '\r' || c == '\n' then (if ctlEnd (c :: r) then some [] else none)
      else (ctlMatchF n r).map fun t => c :: t

def ctlMatch (s : Str) : Option Str := ctlMatchF (s.length + 1) s

/-- `[\t ]*(text)(?:\r?\n|\Z)` after the operator -/
def lexRest (isComment : Bool) (r : Str) : Option (Bool × Str) :=
  (ctlMatch (r.dropWhile isBlank)).map fun t => (isComment, t)

/-- `match_control_line` at the start of a line: `[\t ]*(%(?!%)|##)[\t ]*(text)(?:\r?\n|\Z)`.
    `some (isComment, text)`; `none`: the line is not a control line. -/
def lexCtl (s : Str) : Option (Bool × Str) :=
  match s.dropWhile isBlank with
  | '%' :: r => if r.head? == some '%' then none else lexRest false r
  | '#' :: '#' :: r => lexRest true r
  | _ => none

/-! ## nodes -/

/-- what the auto-`pass` rule distinguishes in a child node -/
inductive CKind
  | comment                            -- `parsetree.Comment` (`##` line or `<%doc>`)
  | ctl (kw : Str) (isend : Bool)      -- `parsetree.ControlLine`
  | other                              -- anything else
  deriving DecidableEq, Repr, Inhabited

/-- a control line that is not an end line -/
structure Hdr where
  /-- `node.keyword` -/
  kw : Str
  /-- `node.text` -/
  text : Str
  /-- `'loop' in node.undeclared_identifiers()` -/
  loopRef : Bool
  /-- groups 1 and 2 of `_FOR_LOOP.match(node.text)` (a parameter: the regex itself is not modelled) -/
  forParts : Option (Str × Str)
  deriving DecidableEq, Repr, Inhabited

inductive Leaf
  /-- a comment -/
  | comment
  /-- a node whose visit writes one simple line through `writeline` (text, `${}`, `<%include/>`, a block call);
      `loopRef`: `LoopVariable` finds `loop` in it or below it; `inner`: the nodes inside it when it is a tag (the
      lexer hangs them under the enclosing control line as well) -/
  | stmt (line : Str) (loopRef : Bool) (inner : List CKind)
  /-- `<% %>`: written through `write_indented_block`; `store = some names`: the block sits in the body of the
      template, which assigns variables – `visitCode` then writes the two lines that copy them into `__M_locals` -/
  | block (text : Str) (loopRef : Bool) (store : Option Str)
  /-- a node that writes nothing in place: `<%def>`, `<%! %>`, `<%namespace>`, `<%page>`, `<%inherit>`, an empty
      `<%text>` -/
  | silent (loopRef : Bool) (inner : List CKind)
  deriving DecidableEq, Repr, Inhabited

mutual
/-- a body -/
inductive CT
  | nil
  | leaf (k : Leaf) (rest : CT)
  /-- `% kw …:` body (ternary lines with bodies) `% endkw`, then the rest of the enclosing body -/
  | ctl (hdr : Hdr) (body : CT) (terns : Terns) (rest : CT)
  deriving Repr
inductive Terns
  | nil
  | cons (hdr : Hdr) (body : CT) (more : Terns)
  deriving Repr
end

instance : Inhabited CT := ⟨.nil⟩

/-! ## `append_node`: the children lists -/

def Leaf.kinds : Leaf → List CKind
  | .comment => [.comment]
  | .stmt _ _ inner => .other :: inner
  | .block _ _ _ => [.other]
  | .silent _ inner => .other :: inner

/-- the nodes a body contributes to the `nodes` list of the control line it belongs to -/
def kinds : CT → List CKind
  | .nil => []
  | .leaf k rest => k.kinds ++ kinds rest
  | .ctl hdr _ _ rest => .ctl hdr.kw false :: kinds rest

/-- the ternary lines and their bodies, as they are appended to the primary line -/
def ternKinds : Terns → List CKind
  | .nil => []
  | .cons hdr body more => .ctl hdr.kw false :: (kinds body ++ ternKinds more)

/-- `nodes` of a primary control line with keyword `kw` -/
def primaryChildren (kw : Str) (body : CT) (terns : Terns) : List CKind :=
  kinds body ++ ternKinds terns ++ [.ctl kw true]

/-- `nodes` of a ternary line of a primary with keyword `kw`: its own body, and the end line when it is the last -/
def ternaryChildren (kw : Str) (body : CT) (last : Bool) : List CKind :=
  kinds body ++ (if last then [.ctl kw true] else [])

/-! ## `visitControlLine`: the auto-`pass` rule -/

/-- `ControlLine.is_ternary`: the table of `mako/parsetree.py` -/
def isTernaryOf (node kw : Str) : Bool :=
  if node == "if".toList then kw == "else".toList || kw == "elif".toList
  else if node == "try".toList then kw == "except".toList || kw == "finally".toList
  else if node == "for".toList then kw == "else".toList
  else false

/-- `_search_for_control_line()` (its `None` is `false`) -/
def searchForControlLine : List CKind → Bool
  | [] => false
  | .comment :: r => searchForControlLine r
  | .ctl _ _ :: _ => true
  | .other :: _ => false

def CKind.isCommentOrCtl : CKind → Bool
  | .other => false
  | _ => true

/-- `(node.is_ternary(c.keyword) or c.isend) for c in children if isinstance(c, ControlLine)` -/
def CKind.ternaryOrEnd (node : Str) : CKind → Bool
  | .ctl kw isend => isTernaryOf node kw || isend
  | _ => true

/-- the condition under which `visitControlLine` writes `pass`, for a control line with keyword `node` and
    children `cs` -/
def passRule (node : Str) (cs : List CKind) : Bool :=
  cs.isEmpty
    || (cs.all CKind.isCommentOrCtl && cs.all (CKind.ternaryOrEnd node))
    || searchForControlLine cs

/-! ## `LoopVariable` -/

def Leaf.loopRef : Leaf → Bool
  | .comment => false
  | .stmt _ r _ => r
  | .block _ r _ => r
  | .silent r _ => r

mutual
/-- `LoopVariable` over the children of a control line: any header (primary **or ternary**), any expression or
    code block, at any depth -/
def detects : CT → Bool
  | .nil => false
  | .leaf k rest => k.loopRef || detects rest
  | .ctl hdr body terns rest => hdr.loopRef || detects body || detectsT terns || detects rest
def detectsT : Terns → Bool
  | .nil => false
  | .cons hdr body more => hdr.loopRef || detects body || detectsT more
end

/-- does `mangle_mako_loop` give this primary line a loop context? -/
def hasLoopContext (enableLoop : Bool) (hdr : Hdr) (body : CT) (terns : Terns) : Bool :=
  enableLoop && hdr.kw == "for".toList && (hdr.loopRef || detects body || detectsT terns)

/-! ## emission -/

def enterLine (iter : Str) : Str := "loop = __M_loop._enter(".toList ++ iter ++ [')']
def forLoopLine (target : Str) : Str := "for ".toList ++ target ++ " in loop:".toList
def exitLine : Str := "loop = __M_loop._exit()".toList
def tryLine : Str := "try:".toList
def finallyLine : Str := "finally:".toList
def passLine : Str := "pass".toList

/-- the text written for the primary line -/
def primaryText (lc : Bool) (hdr : Hdr) : Str :=
  if lc then
    match hdr.forParts with
    | some (target, _) => forLoopLine target
    | none => hdr.text      -- the real code raises SyntaxError("Couldn't apply loop context")
  else hdr.text

def loopPrologue (lc : Bool) (hdr : Hdr) : List Ev :=
  if lc then
    match hdr.forParts with
    | some (_, iter) => [.wl (some (enterLine iter)), .wl (some tryLine)]
    | none => []
  else []

def storeLine1 : Str := "__M_locals_builtin_stored = __M_locals_builtin()".toList
def storeLine2 (names : Str) : Str :=
  "__M_locals.update(__M_dict_builtin([(__M_key, __M_locals_builtin_stored[__M_key]) for __M_key in [".toList ++ names ++
    "] if __M_key in __M_locals_builtin_stored]))".toList

def Leaf.emit : Leaf → List Ev
  | .comment => []
  | .stmt l _ _ => [.wl (some l)]
  | .block t _ none => [.blk t]
  | .block t _ (some names) => [.blk t, .wl (some storeLine1), .wl (some (storeLine2 names))]
  | .silent _ _ => []

def passEv (b : Bool) : List Ev := if b then [.wl (some passLine)] else []

/-- `if … self.printer.suite_is_empty: self.printer.writeline("pass")` at a ternary or end line (since /repo
    6d51f05): `hdr` is the header of the clause that is being closed, `suite` the printer calls made since -/
def fillEv (hdr : Str) (suite : List Ev) : List Ev := passEv (flagAfter (opens hdr).isSome suite)

mutual
/-- the printer calls of the visitor over a body -/
def emitCT (el : Bool) : CT → List Ev
  | .nil => []
  | .leaf k rest => k.emit ++ emitCT el rest
  | .ctl hdr body terns rest =>
    let lc := hasLoopContext el hdr body terns
    let suite := passEv (passRule hdr.kw (primaryChildren hdr.kw body terns)) ++ emitCT el body
    loopPrologue lc hdr ++ [.wl (some (primaryText lc hdr))] ++ suite ++ fillEv (primaryText lc hdr) suite ++
      emitTerns el hdr.kw terns ++
      -- the end line
      [.wl none] ++ (if lc then [.wl (some finallyLine), .wl (some exitLine), .wl none] else []) ++
      emitCT el rest
def emitTerns (el : Bool) (kw : Str) : Terns → List Ev
  | .nil => []
  | .cons hdr body more =>
    let suite := passEv (passRule hdr.kw (ternaryChildren kw body (match more with | .nil => true | _ => false))) ++
      emitCT el body
    [.wl (some hdr.text)] ++ suite ++ fillEv hdr.text suite ++ emitTerns el kw more
end

/-! ## the structured program the visitor means to write -/

def passProg (b : Bool) (p : Prog) : Prog := if b then .line false passLine p else p

/-- a suite in which nothing was written gets a `pass` when its clause is closed -/
def fillProg : Prog → Prog
  | .nil => .line false passLine .nil
  | p => p

def Leaf.prog (k : Leaf) (rest : Prog) : Prog :=
  match k with
  | .comment => rest
  | .stmt l _ _ => .line false l rest
  | .block t _ none => .line true t rest
  | .block t _ (some names) => .line true t (.line false storeLine1 (.line false (storeLine2 names) rest))
  | .silent _ _ => rest

mutual
def structOf (el : Bool) : CT → Prog
  | .nil => .nil
  | .leaf k rest => k.prog (structOf el rest)
  | .ctl hdr body terns rest =>
    let lc := hasLoopContext el hdr body terns
    let suite := fillProg (passProg (passRule hdr.kw (primaryChildren hdr.kw body terns)) (structOf el body))
    if lc then
      match hdr.forParts with
      | some (target, iter) =>
        .line false (enterLine iter)
          (.comp tryLine (.comp (forLoopLine target) suite (structTerns el hdr.kw terns .nil))
            (.comp finallyLine (.line false exitLine .nil) (structOf el rest)))
      | none => .nil      -- the real code raises SyntaxError("Couldn't apply loop context")
    else .comp hdr.text suite (structTerns el hdr.kw terns (structOf el rest))
def structTerns (el : Bool) (kw : Str) : Terns → Prog → Prog
  | .nil, k => k
  | .cons hdr body more, k =>
    .comp hdr.text
      (fillProg (passProg (passRule hdr.kw (ternaryChildren kw body (match more with | .nil => true | _ => false)))
        (structOf el body)))
      (structTerns el kw more k)
end

/-! ## well-formed templates -/

/-- only comments -/
def allComments : CT → Bool
  | .nil => true
  | .leaf .comment rest => allComments rest
  | _ => false

/-- the first node that is not a comment -/
def firstReal : CT → Option CKind
  | .nil => none
  | .leaf .comment rest => firstReal rest
  | .leaf _ _ => some .other
  | .ctl hdr _ _ _ => some (.ctl hdr.kw false)

/-! ## `LoopContext` -/

structure LoopCtx where
  /-- `len(self._iterable)` -/
  len : Nat
  /-- `self.index` -/
  index : Nat
  deriving DecidableEq, Repr, Inhabited

namespace LoopCtx
/-- `len(self) - self.index - 1` (a Python `int`) -/
def reverseIndex (c : LoopCtx) : Int := (c.len : Int) - c.index - 1
def first (c : LoopCtx) : Bool := c.index == 0
/-- `self.index == len(self) - 1` -/
def last (c : LoopCtx) : Bool := (c.index : Int) == (c.len : Int) - 1
def odd (c : LoopCtx) : Bool := c.index % 2 != 0
def even (c : LoopCtx) : Bool := !c.odd
/-- `cycle(*values)`: `none` is the `ValueError` for no values -/
def cycle {α} (c : LoopCtx) (values : List α) : Option α :=
  if values.isEmpty then none else values[c.index % values.length]?
end LoopCtx

/-- `LoopContext.parent` as `LoopStack._push` sets it (`new.parent = self.stack[-1]` only `if self.stack`), for a
    loop stack with the innermost context first: the context below – `none` (Python `None`) for the outermost
    loop -/
def parentOfStack {α : Type} (stack : List α) : Option α := stack.tail.head?

/-- the chain `loop.parent, loop.parent.parent, …` up to `None` -/
def parentChain {α : Type} (stack : List α) : List α := stack.tail

/-! ## `write_variable_declares`: `loop` -/

def declLine (name : Str) : Str :=
  name ++ " = context.get('".toList ++ name ++ "', UNDEFINED)".toList
def loopStackLine : Str := "loop = __M_loop = runtime.LoopStack()".toList
def loopName : Str := "loop".toList

/-- `self.compiler.enable_loop or eval(pagetag.attributes.get("enable_loop", "False"))` -/
def effEnableLoop (template : Bool) (page : Option Bool) : Bool := template || page.getD false

/-- the lines written for the names `toWrite` (already sorted; no defs, no namespaces among them) -/
def declares (enableLoop : Bool) (toWrite : List Str) : List Str :=
  if enableLoop then
    (if toWrite.contains loopName then [loopStackLine] else []) ++
      (toWrite.filter (· != loopName)).map declLine
  else toWrite.map declLine

end MakoModel.Control
