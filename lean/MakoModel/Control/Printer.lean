import MakoModel.Basic.Unicode
/-!
# L4 (indentation part): `mako.pygen.PythonPrinter.writeline`

C12 models the *line accounting* of the printer (`Printer/Model.lean`); this file models what C12 leaves out:
the **indent / unindent state machine** of `writeline`.

* the six regexes of `PythonPrinter.__init__` as deterministic predicates on `List Char` (the argument for
  determinism stands beside each; each is validated against CPython's `re` exhaustively over a token alphabet by
  `harness/props/C03.py`, stream `corr.regex`);
* `step`: one call of `writeline(line)` (`none` = the dedent marker `None`), state `indent`, `indent_detail`
  (`_is_unindentor` looks at the top of that stack), and the lines written, each with the indentation level it
  was written at;
* `Prog`: a structured target program (simple lines, compound statements = header + suite); `emit`: its flat
  emission the way `mako/codegen.py` drives the printer (a `None` after a suite unless the next line is a
  continuation clause `else/elif/except/finally`, which unindents by itself); `layout`: the indentation the
  program *ought* to be written with; `parseIndent`: reading a flat, indented line sequence back into a
  structured program by the offside rule (a line followed by a deeper line owns it as its suite).
-/
namespace MakoModel.Control
open MakoModel.Basic

abbrev Str := List Char

/-! ## the regexes -/

/-- `^\s*` : `\s*` is greedy and no pattern below continues with a whitespace character, so the only useful
    split is the maximal one -/
def lskip (s : Str) : Str := s.dropWhile isSpace

/-- does `s` start with the literal `k`? -/
def startsWith : Str → Str → Bool
  | _, [] => true
  | [], _ :: _ => false
  | c :: cs, k :: ks => c == k && startsWith cs ks

/-- first keyword of the list that is a prefix of `s` (regex alternation `(a|b|…)`: first alternative that
    matches; no keyword of the tables below is a prefix of another, so the order is immaterial) -/
def firstKw (s : Str) : List Str → Option Str
  | [] => none
  | k :: ks => if startsWith s k then some k else firstKw s ks

def compoundKws : List Str :=
  ["if".toList, "try".toList, "elif".toList, "while".toList, "for".toList, "with".toList, "except".toList]
def indentKws : List Str :=
  ["def".toList, "class".toList, "else".toList, "elif".toList, "except".toList, "finally".toList]
def unindentKws : List Str := ["else".toList, "elif".toList, "except".toList, "finally".toList]

/-- `_re_space_comment = ^\s*#` (`match`) -/
def reSpaceComment (s : Str) : Bool := (lskip s).head? == some '#'

/-- `_re_space = ^\s*$` (`match`): `$` is the end or the position before a final newline, which `\s*` can
    consume as well – the line is whitespace only -/
def reSpace (s : Str) : Bool := s.all isSpace

/-- `_re_compound = ^\s*(if|try|elif|while|for|with|except)` (`match`; `except` since /repo 1cb10d7): the keyword is a *prefix* (there is no `\b`) -/
def reCompound (s : Str) : Option Str := firstKw (lskip s) compoundKws

/-- `_re_indent_keyword = ^\s*(def|class|else|elif|except|finally)` (`match`) -/
def reIndentKeyword (s : Str) : Bool := (firstKw (lskip s) indentKws).isSome

/-- the text up to the first newline (what `.*` can run over) -/
def firstLine (s : Str) : Str := s.takeWhile (· != '\n')

/-- `_re_unindentor = ^\s*(else|elif|except|finally).*\:` (`match`, `re.S` since /repo b56b26e): a colon
    anywhere after the keyword – also on a continuation line -/
def reUnindentor (s : Str) : Bool :=
  match firstKw (lskip s) unindentKws with
  | none => false
  | some k => ((lskip s).drop k.length).contains ':'

/-- what may follow the colon of `_re_indent`: `\s*(?:#.*)?$` with `re.S` (since /repo e8c0e60; before:
    `[ \t]*(?:#.*)?$` without it).  `\s*` is greedy; what follows it is `#`, after which `.*` runs to the end of the
    string (`.` matches newlines now) where `$` holds, or `$` itself: the end, or – after giving one newline back –
    the position before a final newline.  Either way: the rest is whitespace only, or its first non-whitespace
    character is `#`. -/
def tailOk (r : Str) : Bool :=
  let r1 := r.dropWhile isSpace
  r1.isEmpty || r1.head? == some '#'

/-- `_re_indent = :\s*(?:#.*)?$` (`search`, `re.S`): some colon is followed by whitespace, an optional comment
    and the end of the string -/
def reIndent : Str → Bool
  | [] => false
  | c :: cs => (c == ':' && tailOk cs) || reIndent cs

/-! ## `writeline` -/

/-- `hastext`: not `None`, not a whitespace-only line, not a comment line -/
def hasText (line : Option Str) : Bool :=
  match line with
  | none => false
  | some s => !(reSpaceComment s || reSpace s)

/-- `is_comment = line and len(line) and line[0] == "#"` -/
def isComment (line : Option Str) : Bool :=
  match line with
  | some (c :: _) => c == '#'
  | _ => false

structure PS where
  /-- `self.indent` -/
  indent : Nat
  /-- `self.indent_detail` (top first): the compound keyword that opened the level, `none` for `def/class/else/…` -/
  detail : List (Option Str)
  /-- the lines written to the stream, with the value of `indent` they were indented by -/
  out : List (Nat × Str)
  /-- `MakoException("Too many whitespace closures")` was raised -/
  err : Bool
  /-- `self.suite_is_empty` (since /repo 6d51f05): the last thing written is a line that opened a level -/
  empty : Bool
  deriving DecidableEq, Repr

def PS.init : PS := ⟨0, [], [], false, false⟩

/-- `_is_unindentor(line)` -/
def isUnindentor (detail : List (Option Str)) (s : Str) : Bool :=
  match detail with
  | [] => false
  | none :: _ => false
  | some _ :: _ => reUnindentor s

/-- does the printed line open an indentation level, and with which `indent_detail` entry? -/
def opens (s : Str) : Option (Option Str) :=
  if reIndent s then
    match reCompound s with
    | some k => some (some k)
    | none => if reIndentKeyword s then some none else none
  else none

/-- the first half of `writeline`: "see if this line should decrease the indentation level" -/
def dedentStep (σ : PS) (line : Option Str) : PS :=
  let dedent : Bool := !isComment line &&
    (!hasText line || (match line with | some s => isUnindentor σ.detail s | none => false)) && decide (σ.indent > 0)
  if dedent then
    match σ.detail with
    | [] => { σ with indent := σ.indent - 1, err := true }
    | _ :: d => { σ with indent := σ.indent - 1, detail := d }
  else σ

/-- one call of `PythonPrinter.writeline(line)` -/
def step (σ : PS) (line : Option Str) : PS :=
  if σ.err then σ else
  let σ1 := dedentStep σ line
  if σ1.err then σ1 else
  match line with
  | none => σ1
  | some s =>
    let σ2 := { σ1 with out := σ1.out ++ [(σ1.indent, s)] }
    match opens s with
    | some d => { σ2 with indent := σ2.indent + 1, detail := d :: σ2.detail, empty := true }
    | none => { σ2 with empty := false }

/-- a printer call: `writeline(line)` or `write_indented_block(text)` -/
inductive Ev
  | wl (line : Option Str)
  | blk (text : Str)
  deriving DecidableEq, Repr, Inhabited

/-- `write_indented_block` buffers the block; the next `writeline` (or `close`) flushes it *before* it looks at
    its own line, re-margined to the indentation level current at that moment – which is the level at the time of
    the `write_indented_block` call, no `writeline` having happened in between.  The block appears in `out` as
    one entry; it leaves `indent` and `indent_detail` alone. -/
def stepEv (σ : PS) : Ev → PS
  | .wl l => step σ l
  | .blk t => if σ.err then σ else { σ with out := σ.out ++ [(σ.indent, t)], empty := false }

def run (σ : PS) (ls : List Ev) : PS := ls.foldl stepEv σ

/-- `suite_is_empty` after a printer call, as a function of the call alone: a written line sets it (to "this
    line opened a level"), a block clears it, `None` leaves it -/
def flagAfterEv (e : Bool) : Ev → Bool
  | .wl none => e
  | .wl (some s) => (opens s).isSome
  | .blk _ => false

def flagAfter (e : Bool) (evs : List Ev) : Bool := evs.foldl flagAfterEv e

/-! ## structured programs -/

/-- a block of statements: simple lines and compound statements (header line + suite), in order.  A statement
    with several clauses (`if/elif/else`, `try/except`, `for/else`) is a run of consecutive `comp`s whose later
    headers are continuation clauses. -/
inductive Prog
  | nil
  /-- a simple statement; `raw`: a `<% %>` block, written through `write_indented_block` -/
  | line (raw : Bool) (s : Str) (rest : Prog)
  | comp (hdr : Str) (suite : Prog) (rest : Prog)
  deriving DecidableEq, Repr, Inhabited

/-- a continuation clause: `else… / elif… / except… / finally…` with a colon -/
def isCont (h : Str) : Bool := reUnindentor h

def isCompound (h : Str) : Bool := (reCompound h).isSome

def startsCont : Prog → Bool
  | .comp h _ _ => isCont h
  | _ => false

/-- the flat emission: what `mako/codegen.py` hands to `writeline`, line by line; the suite of a compound
    statement is closed by a `None` unless a continuation clause follows -/
def emit : Prog → List Ev
  | .nil => []
  | .line raw s r => (if raw then .blk s else .wl (some s)) :: emit r
  | .comp h b r => .wl (some h) :: (emit b ++ (if startsCont r then emit r else .wl none :: emit r))

/-- the indentation the program ought to have -/
def layout (d : Nat) : Prog → List (Nat × Str)
  | .nil => []
  | .line _ s r => (d, s) :: layout d r
  | .comp h b r => (d, h) :: (layout (d + 1) b ++ layout d r)

/-- a simple line leaves the indentation alone: it is a comment in column 0, or it has text, is no unindentor
    and opens nothing -/
def LineOk (s : Str) : Bool :=
  (isComment (some s) || (hasText (some s) && !reUnindentor s)) && (opens s).isNone

/-- a header line: it has text, is not a column-0 comment and opens a level (`_re_indent` and one of the two
    keyword tables) -/
def HeaderOk (h : Str) : Bool :=
  hasText (some h) && !isComment (some h) && (opens h).isSome

/-- `good prev P`: every simple line is `LineOk`, every header `HeaderOk`, and a continuation clause occurs only
    directly after the suite of a header whose keyword is in `_re_compound` = `if try elif while for with except`
    (`prev = some true`).  The headers of the printer's tables that are *not* in `_re_compound` are `else`,
    `finally`, `def`, `class` – in Python no clause can follow any of them (`else` and `finally` are final
    clauses), so this is Python's own grammar, not a restriction on the programs.
    (`prev`: `none` at the start of a suite or after a simple line, `some c` after a compound statement whose
    last header was (`c = true`) / was not in `_re_compound`.) -/
def good : Option Bool → Prog → Bool
  | _, .nil => true
  | _, .line raw s r => (raw || LineOk s) && good none r
  | prev, .comp h b r =>
    HeaderOk h && (!isCont h || prev == some true) && good none b && good (some (isCompound h)) r

/-- no empty suite (Python rejects one; the auto-`pass` rule of `visitControlLine` is there to avoid them) -/
def suitesNonEmpty : Prog → Bool
  | .nil => true
  | .line _ _ r => suitesNonEmpty r
  | .comp _ b r => b != .nil && suitesNonEmpty b && suitesNonEmpty r

/-- forget which simple lines came from `<% %>` blocks (the written text does not say) -/
def unraw : Prog → Prog
  | .nil => .nil
  | .line _ s r => .line false s (unraw r)
  | .comp h b r => .comp h (unraw b) (unraw r)

/-! ## reading indentation back -/

/-- items at depth `d`, up to the first shallower line.  `none`: inconsistent indentation (a line deeper than
    its context allows) or out of fuel. -/
def parseAt : Nat → Nat → List (Nat × Str) → Option (Prog × List (Nat × Str))
  | 0, _, _ => none
  | _ + 1, _, [] => some (.nil, [])
  | fuel + 1, d, (d', s) :: rest =>
    if d' < d then some (.nil, (d', s) :: rest)
    else if d' = d then
      match rest with
      | [] => some (.line false s .nil, [])
      | (d'', _) :: _ =>
        if d'' = d + 1 then
          match parseAt fuel (d + 1) rest with
          | none => none
          | some (b, rest1) =>
            match parseAt fuel d rest1 with
            | none => none
            | some (r, rest2) => some (.comp s b r, rest2)
        else
          match parseAt fuel d rest with
          | none => none
          | some (r, rest1) => some (.line false s r, rest1)
    else none

/-- the structured program a flat, indented line sequence denotes -/
def parseIndent (ls : List (Nat × Str)) : Option Prog :=
  match parseAt (ls.length + 1) 0 ls with
  | some (p, []) => some p
  | _ => none

/-- the printer run on the emission of a program, from the initial state -/
def printed (P : Prog) : PS := run PS.init (emit P)

end MakoModel.Control
