import MakoModel.Control.PrinterLemmas
import MakoModel.Control.Model
/-!
# Helper lemmas for C03: the auto-`pass` rule, emission = emission of the structured program, margins
-/
namespace MakoModel.Control
open MakoModel.Basic

/-! ## the auto-`pass` rule -/

theorem allComments_firstReal : ∀ b : CT, allComments b = true ↔ firstReal b = none
  | .nil => by simp [allComments, firstReal]
  | .leaf .comment rest => by simpa [allComments, firstReal] using allComments_firstReal rest
  | .leaf (.stmt _ _ _) _ => by simp [allComments, firstReal]
  | .leaf (.block _ _ _) _ => by simp [allComments, firstReal]
  | .leaf (.silent _ _) _ => by simp [allComments, firstReal]
  | .ctl _ _ _ _ => by simp [allComments, firstReal]

/-- what the three parts of the rule see of a body: its comments are transparent, and the first node that is not
    a comment decides -/
theorem search_kinds : ∀ (b : CT) (t : List CKind),
    searchForControlLine (kinds b ++ t) =
      match firstReal b with
      | none => searchForControlLine t
      | some (.ctl _ _) => true
      | some _ => false
  | .nil, t => by simp [kinds, firstReal]
  | .leaf .comment rest, t => by
    simpa [kinds, Leaf.kinds, firstReal, searchForControlLine] using search_kinds rest t
  | .leaf (.stmt _ _ _) _, t => by simp [kinds, Leaf.kinds, firstReal, searchForControlLine]
  | .leaf (.block _ _ _) _, t => by simp [kinds, Leaf.kinds, firstReal, searchForControlLine]
  | .leaf (.silent _ _) _, t => by simp [kinds, Leaf.kinds, firstReal, searchForControlLine]
  | .ctl _ _ _ _, t => by simp [kinds, firstReal, searchForControlLine]

theorem all_kinds_comments : ∀ (b : CT), allComments b = true → ∀ (p : CKind → Bool), p .comment = true →
    (kinds b).all p = true
  | .nil, _, _, _ => by simp [kinds]
  | .leaf .comment rest, h, p, hp => by
    simp only [allComments] at h
    simp [kinds, Leaf.kinds, hp, all_kinds_comments rest h p hp]
  | .leaf (.stmt _ _ _) _, h, _, _ => by simp [allComments] at h
  | .leaf (.block _ _ _) _, h, _, _ => by simp [allComments] at h
  | .leaf (.silent _ _) _, h, _, _ => by simp [allComments] at h
  | .ctl _ _ _ _, h, _, _ => by simp [allComments] at h

theorem all_other : ∀ (b : CT) (t : List CKind), firstReal b = some .other →
    (kinds b ++ t).all CKind.isCommentOrCtl = false
  | .nil, _, h => by simp [firstReal] at h
  | .leaf .comment rest, t, h => by
    simp only [firstReal] at h
    simp [kinds, Leaf.kinds, CKind.isCommentOrCtl, all_other rest t h]
  | .leaf (.stmt _ _ _) _, _, _ => by simp [kinds, Leaf.kinds, CKind.isCommentOrCtl]
  | .leaf (.block _ _ _) _, _, _ => by simp [kinds, Leaf.kinds, CKind.isCommentOrCtl]
  | .leaf (.silent _ _) _, _, _ => by simp [kinds, Leaf.kinds, CKind.isCommentOrCtl]
  | .ctl _ _ _ _, _, h => by simp [firstReal] at h

/-- a node that is neither a comment nor a control line comes first: no part of the rule fires, whatever
    follows (in particular whatever the lexer hung under the control line from inside a tag) -/
theorem passRule_other (node : Str) (b : CT) (t : List CKind) (h : firstReal b = some .other) :
    passRule node (kinds b ++ t) = false := by
  have hs := search_kinds b t
  rw [h] at hs
  have hne : (kinds b ++ t).isEmpty = false := by
    cases b with
    | nil => simp [firstReal] at h
    | leaf k rest =>
      cases k <;> simp [kinds, Leaf.kinds]
    | ctl hdr body terns rest => simp [kinds]
  have hall := all_other b t h
  simp [passRule, hne, hall, hs]

theorem passRule_ctl (node : Str) (b : CT) (t : List CKind) (kw : Str) (e : Bool)
    (h : firstReal b = some (.ctl kw e)) : passRule node (kinds b ++ t) = true := by
  have hs := search_kinds b t
  rw [h] at hs
  simp [passRule, hs]

theorem firstReal_cases : ∀ b : CT,
    firstReal b = none ∨ firstReal b = some .other ∨ ∃ kw, firstReal b = some (.ctl kw false)
  | .nil => .inl rfl
  | .leaf .comment rest => by simpa [firstReal] using firstReal_cases rest
  | .leaf (.stmt _ _ _) _ => .inr (.inl rfl)
  | .leaf (.block _ _ _) _ => .inr (.inl rfl)
  | .leaf (.silent _ _) _ => .inr (.inl rfl)
  | .ctl hdr _ _ _ => .inr (.inr ⟨hdr.kw, rfl⟩)

/-- primary line, comment-only (or empty) first body: the next child is a ternary or the end line -/
theorem passRule_primary_comments (kw : Str) (body : CT) (terns : Terns) (h : allComments body = true) :
    passRule kw (primaryChildren kw body terns) = true := by
  have hs := search_kinds body (ternKinds terns ++ [.ctl kw true])
  rw [(allComments_firstReal body).mp h] at hs
  have : searchForControlLine (ternKinds terns ++ [.ctl kw true]) = true := by
    cases terns <;> simp [ternKinds, searchForControlLine]
  simp only [primaryChildren, List.append_assoc, passRule, hs, this, Bool.or_true]

/-- ternary line with a comment-only (or empty) body -/
theorem passRule_ternary_comments (node kw : Str) (body : CT) (last : Bool) (h : allComments body = true) :
    passRule node (ternaryChildren kw body last) = true := by
  cases last with
  | true =>
    have hs := search_kinds body [.ctl kw true]
    rw [(allComments_firstReal body).mp h] at hs
    simp [ternaryChildren, passRule, hs, searchForControlLine]
  | false =>
    have h1 := all_kinds_comments body h CKind.isCommentOrCtl rfl
    have h2 := all_kinds_comments body h (CKind.ternaryOrEnd node) rfl
    simp [ternaryChildren, passRule, h1, h2]

/-- the rule in one line, for the three kinds of control line: `pass` is written iff the body is empty or
    comment-only, or its first node that is not a comment is a nested control line -/
def passExpected (body : CT) : Bool :=
  match firstReal body with
  | none => true
  | some (.ctl _ _) => true
  | some _ => false

theorem passRule_primary (kw : Str) (body : CT) (terns : Terns) :
    passRule kw (primaryChildren kw body terns) = passExpected body := by
  rcases firstReal_cases body with h | h | ⟨k, h⟩
  · rw [passRule_primary_comments kw body terns ((allComments_firstReal body).mpr h)]; simp [passExpected, h]
  · simp only [primaryChildren, List.append_assoc]
    rw [passRule_other kw body _ h]; simp [passExpected, h]
  · simp only [primaryChildren, List.append_assoc]
    rw [passRule_ctl kw body _ k false h]; simp [passExpected, h]

theorem passRule_ternary (node kw : Str) (body : CT) (last : Bool) :
    passRule node (ternaryChildren kw body last) = passExpected body := by
  rcases firstReal_cases body with h | h | ⟨k, h⟩
  · rw [passRule_ternary_comments node kw body last ((allComments_firstReal body).mpr h)]; simp [passExpected, h]
  · simp only [ternaryChildren]
    rw [passRule_other node body _ h]; simp [passExpected, h]
  · simp only [ternaryChildren]
    rw [passRule_ctl node body _ k false h]; simp [passExpected, h]

/-! ## suites are not empty -/

theorem fillProg_ne_nil (p : Prog) : fillProg p ≠ .nil := by
  cases p <;> simp [fillProg]

theorem suitesNonEmpty_fillProg {p : Prog} (h : suitesNonEmpty p = true) : suitesNonEmpty (fillProg p) = true := by
  cases p <;> simpa [fillProg, suitesNonEmpty] using h

-- `forOk`: for every primary line with a loop context `_FOR_LOOP` matched (otherwise the real generator raises)
mutual
def forOk (el : Bool) : CT → Bool
  | .nil => true
  | .leaf _ rest => forOk el rest
  | .ctl hdr body terns rest =>
    (!hasLoopContext el hdr body terns || hdr.forParts.isSome) && forOk el body && forOkT el terns && forOk el rest
def forOkT (el : Bool) : Terns → Bool
  | .nil => true
  | .cons _ body more => forOk el body && forOkT el more
end

theorem suitesNonEmpty_passProg {b : Bool} {p : Prog} (h : suitesNonEmpty p = true) :
    suitesNonEmpty (passProg b p) = true := by
  cases b <;> simp [passProg, suitesNonEmpty, h]

mutual
theorem suites_structOf (el : Bool) : ∀ t : CT, forOk el t = true → suitesNonEmpty (structOf el t) = true
  | .nil, _ => rfl
  | .leaf k rest, hf => by
    simp only [forOk] at hf
    have := suites_structOf el rest hf
    cases k with
    | block t lr st => cases st <;> simpa [structOf, Leaf.prog, suitesNonEmpty] using this
    | comment => simpa [structOf, Leaf.prog, suitesNonEmpty] using this
    | stmt _ _ _ => simpa [structOf, Leaf.prog, suitesNonEmpty] using this
    | silent _ _ => simpa [structOf, Leaf.prog, suitesNonEmpty] using this
  | .ctl hdr body terns rest, hf => by
    simp only [forOk, Bool.and_eq_true, Bool.or_eq_true, Bool.not_eq_true'] at hf
    obtain ⟨⟨⟨hfp, hfb⟩, hft⟩, hfr⟩ := hf
    have hb := suites_structOf el body hfb
    have hr := suites_structOf el rest hfr
    have hsb : ∀ b, suitesNonEmpty (fillProg (passProg b (structOf el body))) = true :=
      fun _ => suitesNonEmpty_fillProg (suitesNonEmpty_passProg hb)
    have hne : ∀ b, fillProg (passProg b (structOf el body)) ≠ .nil := fun _ => fillProg_ne_nil _
    simp only [structOf]
    split
    · rename_i hlc
      have : hdr.forParts.isSome = true := by
        rcases hfp with h | h
        · rw [hlc] at h; cases h
        · exact h
      obtain ⟨⟨target, iter⟩, hp⟩ := Option.isSome_iff_exists.mp this
      have ht := suites_structTerns el hdr.kw terns .nil hft rfl
      simp [hp, suitesNonEmpty, hne, hsb, ht, hr]
    · have ht := suites_structTerns el hdr.kw terns _ hft hr
      simp [suitesNonEmpty, hne, hsb, ht]
theorem suites_structTerns (el : Bool) (kw : Str) : ∀ (ts : Terns) (k : Prog),
    forOkT el ts = true → suitesNonEmpty k = true → suitesNonEmpty (structTerns el kw ts k) = true
  | .nil, _, _, hk => hk
  | .cons hdr body more, k, hf, hk => by
    simp only [forOkT, Bool.and_eq_true] at hf
    have hb := suites_structOf el body hf.1
    have h2 : ∀ b, suitesNonEmpty (fillProg (passProg b (structOf el body))) = true :=
      fun _ => suitesNonEmpty_fillProg (suitesNonEmpty_passProg hb)
    have h1 : ∀ b, fillProg (passProg b (structOf el body)) ≠ .nil := fun _ => fillProg_ne_nil _
    have h3 := suites_structTerns el kw more k hf.2 hk
    simp [structTerns, suitesNonEmpty, h1, h2, h3]
end

/-! ## the visitor's printer calls are the emission of the structured program -/

/-- shape conditions on the lines of a template: simple lines are `LineOk`; headers are `HeaderOk`; a primary
    line is no continuation clause, a ternary line is one and follows only a header that is in `_re_compound`
    (i.e. not an `% else:` - Python's grammar) -/
def Leaf.ok : Leaf → Bool
  | .stmt l _ _ => LineOk l
  | _ => true

mutual
def ctOk (el : Bool) : CT → Bool
  | .nil => true
  | .leaf k rest => k.ok && ctOk el rest
  | .ctl hdr body terns rest =>
    let lc := hasLoopContext el hdr body terns
    (!lc || hdr.forParts.isSome) &&
      HeaderOk (primaryText lc hdr) && !isCont (primaryText lc hdr) &&
      ctOk el body && ternsOk el (isCompound (primaryText lc hdr)) terns && ctOk el rest &&
      (!lc || LineOk (enterLine (hdr.forParts.getD ([], [])).2))
def ternsOk (el : Bool) (prevCompound : Bool) : Terns → Bool
  | .nil => true
  | .cons hdr body more =>
    HeaderOk hdr.text && isCont hdr.text && prevCompound && ctOk el body &&
      ternsOk el (isCompound hdr.text) more
end

theorem startsCont_leaf_prog (k : Leaf) (p : Prog) (h : startsCont p = false) : startsCont (k.prog p) = false := by
  cases k with
  | comment => exact h
  | silent _ _ => exact h
  | stmt _ _ _ => rfl
  | block _ _ st => cases st <;> rfl

theorem startsCont_structOf (el : Bool) : ∀ t : CT, ctOk el t = true → startsCont (structOf el t) = false
  | .nil, _ => rfl
  | .leaf k rest, h => by
    simp only [ctOk, Bool.and_eq_true] at h
    simpa [structOf] using startsCont_leaf_prog k _ (startsCont_structOf el rest h.2)
  | .ctl hdr body terns rest, h => by
    simp only [ctOk, Bool.and_eq_true, Bool.or_eq_true, Bool.not_eq_true'] at h
    obtain ⟨⟨⟨⟨⟨⟨hfp, _⟩, hnc⟩, _⟩, _⟩, _⟩, _⟩ := h
    simp only [structOf]
    split
    · rename_i hlc
      have : hdr.forParts.isSome = true := by
        rcases hfp with h | h
        · rw [hlc] at h; cases h
        · exact h
      obtain ⟨⟨target, iter⟩, hp⟩ := Option.isSome_iff_exists.mp this
      simp [hp, startsCont]
    · rename_i hlc
      have hlc' : hasLoopContext el hdr body terns = false := by simpa using hlc
      simpa [startsCont, primaryText, hlc'] using hnc

theorem emitAfter_noCont {p : Prog} (h : startsCont p = false) : emitAfter p = .wl none :: emit p := by
  simp [emitAfter, h]

theorem emit_passProg (b : Bool) (p : Prog) : emit (passProg b p) = passEv b ++ emit p := by
  cases b <;> simp [passProg, passEv, emit]

theorem emit_leaf_prog (k : Leaf) (p : Prog) : emit (k.prog p) = k.emit ++ emit p := by
  cases k with
  | block t lr st => cases st <;> simp [Leaf.prog, Leaf.emit, emit]
  | comment => simp [Leaf.prog, Leaf.emit]
  | stmt _ _ _ => simp [Leaf.prog, Leaf.emit, emit]
  | silent _ _ => simp [Leaf.prog, Leaf.emit]

theorem finally_isCont : isCont finallyLine = true := by decide
theorem try_notCont : isCont tryLine = false := by decide

theorem emit_line_wl (s : Str) (r : Prog) : emit (.line false s r) = .wl (some s) :: emit r := rfl
theorem emitAfter_nil : emitAfter .nil = [.wl none] := rfl

theorem lskip_cons_of_not_space {c : Char} {r : Str} (h : isSpace c = false) : lskip (c :: r) = c :: r := by
  simp [lskip, List.dropWhile, h]

/-- a line whose first character is no whitespace, no `#` and not the first letter of any keyword of the
    printer's tables is a simple line: whatever follows, it is never taken for a compound statement and never
    unindents -/
theorem lineOk_of_head (c : Char) (r : Str) (hs : isSpace c = false)
    (h : c ≠ '#' ∧ c ≠ 'i' ∧ c ≠ 't' ∧ c ≠ 'e' ∧ c ≠ 'w' ∧ c ≠ 'f' ∧ c ≠ 'd' ∧ c ≠ 'c') : LineOk (c :: r) = true := by
  obtain ⟨h0, h1, h2, h3, h4, h5, h6, h7⟩ := h
  have b0 : (c == '#') = false := by simpa using h0
  have b1 : (c == 'i') = false := by simpa using h1
  have b2 : (c == 't') = false := by simpa using h2
  have b3 : (c == 'e') = false := by simpa using h3
  have b4 : (c == 'w') = false := by simpa using h4
  have b5 : (c == 'f') = false := by simpa using h5
  have b6 : (c == 'd') = false := by simpa using h6
  have b7 : (c == 'c') = false := by simpa using h7
  have hc : reCompound (c :: r) = none := by
    simp [reCompound, lskip_cons_of_not_space hs, firstKw, compoundKws, startsWith, b1, b2, b3, b4, b5]
  have hk : reIndentKeyword (c :: r) = false := by
    simp [reIndentKeyword, lskip_cons_of_not_space hs, firstKw, indentKws, startsWith, b3, b5, b6, b7]
  have hu : reUnindentor (c :: r) = false := by
    simp [reUnindentor, lskip_cons_of_not_space hs, firstKw, unindentKws, startsWith, b3, b5]
  have ht : hasText (some (c :: r)) = true := by
    simp [hasText, reSpaceComment, reSpace, lskip_cons_of_not_space hs, hs, h0]
  have ho : opens (c :: r) = none := by
    unfold opens; split <;> simp [hc, hk]
  simp [LineOk, ht, hu, ho]

/-- a line that starts with `__M_…` (every `__M_writer(…)` call, whatever its argument text – repr of template
    text, a user expression with colons, comments, several physical lines) is never taken for a compound
    statement, never unindents -/
theorem mline_ok (rest : Str) : LineOk ('_' :: '_' :: 'M' :: '_' :: rest) = true :=
  lineOk_of_head '_' _ (by decide) (by decide)

/-! ## … and that program is `good` -/

theorem good_prev {p : Prog} (a b : Option Bool) (h : startsCont p = false) : good a p = good b p := by
  cases p with
  | nil => rfl
  | line raw s r => rfl
  | comp hd bd r =>
    have : isCont hd = false := h
    simp [good, this]

theorem good_passProg {b : Bool} {p : Prog} (h : good none p = true) : good none (passProg b p) = true := by
  cases b
  · simpa [passProg] using h
  · have : LineOk passLine = true := by decide
    simp [passProg, good, this, h]

theorem good_fillProg {p : Prog} (h : good none p = true) : good none (fillProg p) = true := by
  cases p with
  | nil =>
    have : LineOk passLine = true := by decide
    simp [fillProg, good, this]
  | line _ _ _ => simpa [fillProg] using h
  | comp _ _ _ => simpa [fillProg] using h

theorem good_leaf_prog (k : Leaf) (p : Prog) (hk : k.ok = true) (h : good none p = true) : good none (k.prog p) = true := by
  cases k with
  | stmt l _ _ => simpa [Leaf.prog, good, h, Leaf.ok] using hk
  | block t _ st =>
    cases st with
    | none => simp [Leaf.prog, good, h]
    | some names =>
      have h1 : LineOk storeLine1 = true := by decide
      have h2 : LineOk (storeLine2 names) = true := by
        have e : storeLine2 names = '_' :: '_' :: 'M' :: '_' :: ("locals.update(__M_dict_builtin([(__M_key, __M_locals_builtin_stored[__M_key]) for __M_key in [".toList ++ names ++
          "] if __M_key in __M_locals_builtin_stored]))".toList) := rfl
        rw [e]; exact mline_ok _
      simp [Leaf.prog, good, h, h1, h2]
  | comment => simpa [Leaf.prog] using h
  | silent _ _ => simpa [Leaf.prog] using h

theorem good_comp (prev : Option Bool) (h : Str) (b r : Prog) : good prev (.comp h b r) =
    (HeaderOk h && (!isCont h || prev == some true) && good none b && good (some (isCompound h)) r) := rfl
theorem good_line (prev : Option Bool) (raw : Bool) (s : Str) (r : Prog) :
    good prev (.line raw s r) = ((raw || LineOk s) && good none r) := rfl

theorem try_headerOk : HeaderOk tryLine = true := by decide
theorem finally_headerOk : HeaderOk finallyLine = true := by decide
theorem try_compound : isCompound tryLine = true := by decide
theorem exit_lineOk : LineOk exitLine = true := by decide

mutual
theorem good_structOf (el : Bool) : ∀ t : CT, ctOk el t = true → good none (structOf el t) = true
  | .nil, _ => rfl
  | .leaf k rest, h => by
    simp only [ctOk, Bool.and_eq_true] at h
    simpa [structOf] using good_leaf_prog k _ h.1 (good_structOf el rest h.2)
  | .ctl hdr body terns rest, h => by
    simp only [ctOk, Bool.and_eq_true, Bool.or_eq_true, Bool.not_eq_true'] at h
    obtain ⟨⟨⟨⟨⟨⟨hfp, hh⟩, hnc⟩, hb⟩, ht⟩, hr⟩, hent⟩ := h
    have gb : ∀ b, good none (fillProg (passProg b (structOf el body))) = true :=
      fun _ => good_fillProg (good_passProg (good_structOf el body hb))
    have gr := good_structOf el rest hr
    have sr := startsCont_structOf el rest hr
    simp only [structOf]
    split
    · rename_i hlc
      have : hdr.forParts.isSome = true := by
        rcases hfp with h | h
        · rw [hlc] at h; cases h
        · exact h
      obtain ⟨⟨target, iter⟩, hp⟩ := Option.isSome_iff_exists.mp this
      simp only [hp, hlc, primaryText, if_true] at hh hnc ht hent ⊢
      have hent' : LineOk (enterLine iter) = true := by
        rcases hent with h | h
        · cases h
        · simpa [Option.getD] using h
      have gt := good_structTerns el hdr.kw terns .nil _ ht rfl rfl
      have gfin : good (some (isCompound tryLine)) (.comp finallyLine (.line false exitLine .nil) (structOf el rest)) = true := by
        rw [good_comp, good_line, good_prev _ none sr, gr]
        simp [finally_headerOk, finally_isCont, try_compound, exit_lineOk, good]
      have gfor : good none (.comp (forLoopLine target)
          (fillProg (passProg (passRule hdr.kw (primaryChildren hdr.kw body terns)) (structOf el body)))
          (structTerns el hdr.kw terns .nil)) = true := by
        rw [good_comp, gb, gt]; simp [hh, hnc]
      rw [good_line, good_comp, gfor, gfin]
      simp [hent', try_headerOk, try_notCont]
    · rename_i hlc
      have hlc' : hasLoopContext el hdr body terns = false := by simpa using hlc
      simp only [hlc', primaryText, Bool.false_eq_true, if_false] at hh hnc ht
      have gt := good_structTerns el hdr.kw terns (structOf el rest) _ ht gr sr
      rw [good_comp, gb, gt]; simp [hh, hnc]
theorem good_structTerns (el : Bool) (kw : Str) : ∀ (ts : Terns) (k : Prog) (pc : Bool),
    ternsOk el pc ts = true → good none k = true → startsCont k = false →
    good (some pc) (structTerns el kw ts k) = true
  | .nil, k, pc, _, hk, hs => by simpa [structTerns] using (good_prev (some pc) none hs).trans hk
  | .cons hdr body more, k, pc, h, hk, hs => by
    simp only [ternsOk, Bool.and_eq_true] at h
    obtain ⟨⟨⟨⟨hh, hc⟩, hpc⟩, hb⟩, hm⟩ := h
    have gb : ∀ b, good none (fillProg (passProg b (structOf el body))) = true :=
      fun _ => good_fillProg (good_passProg (good_structOf el body hb))
    have gm := good_structTerns el kw more k _ hm hk hs
    subst hpc
    simp only [structTerns]
    rw [good_comp, gb, gm]; simp [hh, hc]
end

/-! ## the flag the visitor consults, and the emission -/

/-- every simple line of the program leaves `suite_is_empty` cleared -/
def quiet : Prog → Bool
  | .nil => true
  | .line raw s r => (raw || (opens s).isNone) && quiet r
  | .comp _ b r => quiet b && quiet r

theorem quiet_of_good : ∀ (p : Prog) (prev : Option Bool), good prev p = true → quiet p = true
  | .nil, _, _ => rfl
  | .line raw s r, _, h => by
    simp only [good, Bool.and_eq_true, Bool.or_eq_true] at h
    have hr := quiet_of_good r none h.2
    rcases h.1 with h1 | h1
    · simp [quiet, h1, hr]
    · simp only [LineOk, Bool.and_eq_true] at h1
      simp [quiet, h1.2, hr]
  | .comp hd b r, _, h => by
    simp only [good, Bool.and_eq_true] at h
    simp [quiet, quiet_of_good b none h.1.2, quiet_of_good r _ h.2]

/-- after the emission of a program with quiet lines and no empty suite the flag is cleared - unless the
    program is empty, which leaves the flag as it was -/
theorem flag_emit : ∀ (p : Prog), quiet p = true → suitesNonEmpty p = true → ∀ e : Bool,
    flagAfter e (emit p) = (match p with | .nil => e | _ => false)
  | .nil, _, _, _ => rfl
  | .line raw s r, hq, hs, e => by
    simp only [quiet, Bool.and_eq_true, Bool.or_eq_true, Option.isNone_iff_eq_none] at hq
    simp only [suitesNonEmpty] at hs
    have ih := flag_emit r hq.2 hs
    have h1 : flagAfterEv e (if raw = true then Ev.blk s else Ev.wl (some s)) = false := by
      cases raw with
      | true => rfl
      | false =>
        rcases hq.1 with h | h
        · cases h
        · simp [flagAfterEv, h]
    simp only [emit, flagAfter_cons, h1, ih]
    cases r <;> rfl
  | .comp h b r, hq, hs, e => by
    simp only [quiet, Bool.and_eq_true] at hq
    simp only [suitesNonEmpty, Bool.and_eq_true, bne_iff_ne, ne_eq] at hs
    obtain ⟨⟨hbn, hsb⟩, hsr⟩ := hs
    have ihb := flag_emit b hq.1 hsb
    have ihr := flag_emit r hq.2 hsr
    have hb' : ∀ e', flagAfter e' (emit b) = false := by
      intro e'
      rw [ihb]
      cases b with
      | nil => exact absurd rfl hbn
      | line _ _ _ => rfl
      | comp _ _ _ => rfl
    rw [emit_comp, flagAfter_cons, flagAfter_append, hb']
    unfold emitAfter
    split
    · rw [ihr]; cases r <;> rfl
    · rw [flagAfter_cons, ihr]; cases r <;> rfl

def isNilProg : Prog → Bool
  | .nil => true
  | _ => false

theorem emit_fillProg (p : Prog) : emit (fillProg p) = emit p ++ passEv (isNilProg p) := by
  cases p <;> simp [fillProg, isNilProg, passEv, emit]

/-- at a ternary / end line, after a header that opened a level, the printer's flag says exactly whether the
    suite written so far is empty -/
theorem fillEv_emit {hdr : Str} {p : Prog} (hh : HeaderOk hdr = true) (hq : quiet p = true)
    (hs : suitesNonEmpty p = true) : fillEv hdr (emit p) = passEv (isNilProg p) := by
  have ho : (opens hdr).isSome = true := by
    simp only [HeaderOk, Bool.and_eq_true] at hh; exact hh.2
  rw [fillEv, ho, flag_emit p hq hs]
  cases p <;> rfl

theorem quiet_passProg {b : Bool} {p : Prog} (h : quiet p = true) : quiet (passProg b p) = true := by
  cases b
  · simpa [passProg] using h
  · have : (opens passLine).isNone = true := by decide
    simp [passProg, quiet, this, h]

mutual
theorem emit_structOf (el : Bool) : ∀ t : CT, ctOk el t = true → forOk el t = true →
    emit (structOf el t) = emitCT el t
  | .nil, _, _ => rfl
  | .leaf k rest, h, hf => by
    simp only [ctOk, Bool.and_eq_true] at h
    simp only [forOk] at hf
    simp [structOf, emitCT, emit_leaf_prog, emit_structOf el rest h.2 hf]
  | .ctl hdr body terns rest, h, hf => by
    simp only [forOk, Bool.and_eq_true, Bool.or_eq_true, Bool.not_eq_true'] at hf
    obtain ⟨⟨⟨_, hfb⟩, hft⟩, hfr⟩ := hf
    simp only [ctOk, Bool.and_eq_true, Bool.or_eq_true, Bool.not_eq_true'] at h
    obtain ⟨⟨⟨⟨⟨⟨hfp, hh⟩, hnc⟩, hb⟩, ht⟩, hr⟩, _⟩ := h
    have eb := emit_structOf el body hb hfb
    have er := emit_structOf el rest hr hfr
    have sr := startsCont_structOf el rest hr
    -- the suite as the visitor writes it, and the flag at its end
    have hq : ∀ b, quiet (passProg b (structOf el body)) = true :=
      fun _ => quiet_passProg (quiet_of_good _ none (good_structOf el body hb))
    have hsn : ∀ b, suitesNonEmpty (passProg b (structOf el body)) = true :=
      fun _ => suitesNonEmpty_passProg (suites_structOf el body hfb)
    have suite : ∀ b, emit (fillProg (passProg b (structOf el body))) =
        (passEv b ++ emitCT el body) ++ fillEv (primaryText (hasLoopContext el hdr body terns) hdr)
          (passEv b ++ emitCT el body) := by
      intro b
      rw [emit_fillProg, ← fillEv_emit hh (hq b) (hsn b), emit_passProg, eb]
    simp only [structOf, emitCT]
    split
    · rename_i hlc
      have : hdr.forParts.isSome = true := by
        rcases hfp with h | h
        · rw [hlc] at h; cases h
        · exact h
      obtain ⟨⟨target, iter⟩, hp⟩ := Option.isSome_iff_exists.mp this
      have et := emitAfter_structTerns el hdr.kw terns .nil _ ht hft
      simp only [hp, hlc, primaryText, loopPrologue, if_true] at suite ⊢
      have e1 : emitAfter (.comp finallyLine (.line false exitLine .nil) (structOf el rest)) =
          .wl (some finallyLine) :: .wl (some exitLine) :: .wl none :: emitCT el rest := by
        have : emitAfter (.comp finallyLine (.line false exitLine .nil) (structOf el rest)) =
            emit (.comp finallyLine (.line false exitLine .nil) (structOf el rest)) := by
          simp [emitAfter, startsCont, finally_isCont]
        rw [this, emit_comp, emit_line_wl, emitAfter_noCont sr, er]
        rfl
      rw [emit_line_wl, emit_comp, emit_comp, suite, et, e1, emitAfter_nil]
      simp
    · rename_i hlc
      have hlc' : hasLoopContext el hdr body terns = false := by simpa using hlc
      have et := emitAfter_structTerns el hdr.kw terns (structOf el rest) _ ht hft
      simp only [hlc', primaryText, loopPrologue, Bool.false_eq_true, if_false] at suite ⊢
      rw [emit_comp, suite, et, emitAfter_noCont sr, er]
      simp
theorem emitAfter_structTerns (el : Bool) (kw : Str) : ∀ (ts : Terns) (k : Prog) (pc : Bool),
    ternsOk el pc ts = true → forOkT el ts = true →
    emitAfter (structTerns el kw ts k) = emitTerns el kw ts ++ emitAfter k
  | .nil, k, _, _, _ => by simp [structTerns, emitTerns]
  | .cons hdr body more, k, pc, h, hf => by
    simp only [forOkT, Bool.and_eq_true] at hf
    simp only [ternsOk, Bool.and_eq_true] at h
    obtain ⟨⟨⟨⟨hh, hc⟩, _⟩, hb⟩, hm⟩ := h
    have eb := emit_structOf el body hb hf.1
    have em := emitAfter_structTerns el kw more k _ hm hf.2
    have hq : ∀ b, quiet (passProg b (structOf el body)) = true :=
      fun _ => quiet_passProg (quiet_of_good _ none (good_structOf el body hb))
    have hsn : ∀ b, suitesNonEmpty (passProg b (structOf el body)) = true :=
      fun _ => suitesNonEmpty_passProg (suites_structOf el body hf.1)
    have suite : ∀ b, emit (fillProg (passProg b (structOf el body))) =
        (passEv b ++ emitCT el body) ++ fillEv hdr.text (passEv b ++ emitCT el body) := by
      intro b
      rw [emit_fillProg, ← fillEv_emit hh (hq b) (hsn b), emit_passProg, eb]
    have : emitAfter (structTerns el kw (.cons hdr body more) k) = emit (structTerns el kw (.cons hdr body more) k) := by
      simp [emitAfter, structTerns, startsCont, hc]
    rw [this]
    simp only [structTerns, emitTerns]
    rw [emit_comp, suite, em]
    simp
end

/-! ## lines the generator itself writes -/

theorem reIndent_snoc_colon : ∀ x : Str, reIndent (x ++ [':']) = true
  | [] => by decide
  | c :: cs => by simp [reIndent, reIndent_snoc_colon cs]

theorem reIndent_append (a : Str) {b : Str} (h : reIndent b = true) : reIndent (a ++ b) = true := by
  induction a with
  | nil => simpa using h
  | cons c cs ih => simp [reIndent, ih]

/-- `for <target> in loop:` is a header in `_re_compound` and no continuation clause, for every target text -/
theorem forLoopLine_ok (target : Str) :
    HeaderOk (forLoopLine target) = true ∧ isCont (forLoopLine target) = false ∧
      isCompound (forLoopLine target) = true := by
  have hf : isSpace 'f' = false := by decide
  have e : forLoopLine target = 'f' :: 'o' :: 'r' :: ' ' :: (target ++ " in loop:".toList) := by
    simp [forLoopLine]
  have hi : reIndent (forLoopLine target) = true := by
    have : forLoopLine target = ("for ".toList ++ target ++ " in loop".toList) ++ [':'] := by simp [forLoopLine]
    rw [this]; exact reIndent_snoc_colon _
  have hc : reCompound (forLoopLine target) = some "for".toList := by
    rw [e]; simp [reCompound, lskip_cons_of_not_space hf, firstKw, compoundKws, startsWith]
  have hu : reUnindentor (forLoopLine target) = false := by
    rw [e]; simp [reUnindentor, lskip_cons_of_not_space hf, firstKw, unindentKws, startsWith]
  refine ⟨?_, hu, by simp [isCompound, hc]⟩
  have ht : hasText (some (forLoopLine target)) = true := by
    rw [e]; simp [hasText, reSpaceComment, reSpace, lskip_cons_of_not_space hf, hf]
  have hm : isComment (some (forLoopLine target)) = false := by rw [e]; simp [isComment]
  unfold HeaderOk opens
  rw [ht, hm, hi, hc]; rfl

/-- `loop = __M_loop._enter(<iterable>)` is a simple line, whatever the iterable text -/
theorem enterLine_ok (iter : Str) : LineOk (enterLine iter) = true := by
  have e : enterLine iter = 'l' :: ("oop = __M_loop._enter(".toList ++ iter ++ [')']) := rfl
  rw [e]
  exact lineOk_of_head 'l' _ (by decide) (by decide)

/-- no colon, no `#`: `_re_indent` cannot match -/
theorem reIndent_no_colon : ∀ s : Str, s.contains ':' = false → reIndent s = false
  | [], _ => rfl
  | c :: cs, h => by
    simp only [List.contains_cons, Bool.or_eq_false_iff, beq_eq_false_iff_ne, ne_eq] at h
    have hc : (c == ':') = false := by
      simp only [beq_eq_false_iff_ne, ne_eq]; exact fun e => h.1 e.symm
    simp [reIndent, hc, reIndent_no_colon cs h.2]

theorem firstLine_contains (s : Str) (c : Char) (h : s.contains c = false) : (firstLine s).contains c = false := by
  induction s with
  | nil => rfl
  | cons d ds ih =>
    simp only [List.contains_cons, Bool.or_eq_false_iff] at h
    simp only [firstLine, List.takeWhile]
    split
    · simp only [List.contains_cons, Bool.or_eq_false_iff]
      exact ⟨h.1, ih h.2⟩
    · rfl

theorem contains_drop (s : Str) (n : Nat) (c : Char) (h : s.contains c = false) : (s.drop n).contains c = false := by
  induction s generalizing n with
  | nil => simp
  | cons d ds ih =>
    simp only [List.contains_cons, Bool.or_eq_false_iff] at h
    cases n with
    | zero => simpa using And.intro h.1 h.2
    | succ n => simpa using ih n h.2

theorem contains_dropWhile (s : Str) (p : Char → Bool) (c : Char) (h : s.contains c = false) :
    (s.dropWhile p).contains c = false := by
  induction s with
  | nil => simp
  | cons d ds ih =>
    have h' := h
    simp only [List.contains_cons, Bool.or_eq_false_iff] at h
    simp only [List.dropWhile]
    split
    · exact ih h.2
    · exact h'

/-- a declaration line `NAME = context.get('NAME', UNDEFINED)`: whatever the name is (`format`, `iffy`, `classes`,
    `else_` … all start with a keyword of the printer's tables) it contains no colon, so it neither opens a level
    nor unindents – provided it has text (the name is not blank) -/
theorem no_colon_lineOk (s : Str) (hc : s.contains ':' = false) (ht : hasText (some s) = true) : LineOk s = true := by
  have hi := reIndent_no_colon s hc
  have ho : opens s = none := by simp [opens, hi]
  have hu : reUnindentor s = false := by
    unfold reUnindentor
    split
    · rfl
    · rename_i k _
      exact contains_drop _ _ _ (contains_dropWhile s isSpace ':' hc)
  simp [LineOk, ht, hu, ho]

/-! ## margins -/

theorem dropWhile_blank_append (ws s : Str) (h : ws.all isBlank = true) :
    (ws ++ s).dropWhile isBlank = s.dropWhile isBlank := by
  induction ws with
  | nil => rfl
  | cons c cs ih =>
    simp only [List.all_cons, Bool.and_eq_true] at h
    simp [h.1, ih h.2]

/-- the whitespace before `%` (or `##`) does not matter -/
theorem lexCtl_margin (ws s : Str) (h : ws.all isBlank = true) : lexCtl (ws ++ s) = lexCtl s := by
  simp [lexCtl, dropWhile_blank_append ws s h]

theorem lexRest_blank (cm : Bool) (ws r : Str) (h : ws.all isBlank = true) : lexRest cm (ws ++ r) = lexRest cm r := by
  simp [lexRest, dropWhile_blank_append ws r h]

/-- nor does the whitespace between `%` and the keyword -/
theorem lexCtl_after_percent (ws r : Str) (h : ws.all isBlank = true) (hr : r.head? ≠ some '%') :
    lexCtl ('%' :: (ws ++ r)) = lexCtl ('%' :: r) := by
  have hb : isBlank '%' = false := by decide
  have e1 : ∀ x : Str, lexCtl ('%' :: x) = if x.head? == some '%' then none else lexRest false x := by
    intro x; simp [lexCtl, List.dropWhile, hb]
  rw [e1, e1, lexRest_blank false ws r h]
  have h2 : (r.head? == some '%') = false := by simpa using hr
  have h1 : ((ws ++ r).head? == some '%') = false := by
    cases ws with
    | nil => simpa using hr
    | cons w ws' =>
      simp only [List.all_cons, Bool.and_eq_true] at h
      have : w ≠ '%' := by
        intro e; rw [e] at h; exact absurd h.1 (by decide)
      simpa using this
  rw [h1, h2]

end MakoModel.Control
