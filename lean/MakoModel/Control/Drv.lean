import MakoModel.Basic.Wire
import MakoModel.Control.Fragment
/-!
Driver handler `ctl` (C03):

    ctl re <str>                  the six printer regexes on a line:
                                  spaceComment space indent compound(kw|none) indentKeyword unindentor
    ctl print <W<line>|N|B<text>>*  printer calls (`N` = `writeline(None)`, `B…` = `write_indented_block`):
                                  `err indent suite_is_empty detail… | d1 d2 …` (indent level of every written entry)
    ctl lex <str>                 the control-line regex at a line start: `none` | `<0|1 comment> <text>`
    ctl frag <str>                `PythonFragment`: `<kw|none> <HeaderOk>`
    ctl gen <el> CT               printer calls of the visitor + what the printer makes of them:
                                  `<ev>* | err | <d>:<line>*`
    ctl kids CT                   the `nodes` list of every control line that is not an end line, in document
                                  order, `;`-separated; kinds `c` (comment) `o` (other) `l<kw>:<isend>`
    ctl loop <len> <index> <nvals>  LoopContext: `index first last even odd reverse_index cycle-index|none`
    ctl parents <depth>           loop stack of that depth: `<length of the parent chain> <parent is None> <chain…>`
    ctl decl <el> <name>*         lines of write_variable_declares for plain names

    CT    ::= nil | c CT | s <line> <loopRef> <n> K* CT | b <text> <loopRef> (0 | 1 <names>) CT | q <loopRef> <n> K* CT
            | ctl HDR CT TERNS CT
    TERNS ::= tn | tc HDR CT TERNS
    HDR   ::= <kw> <text> <loopRef> (0 | 1 <target> <iter>)
    K     ::= kc | ko | kl <kw> <isend>
-/
namespace MakoModel.Control.Drv
open MakoModel.Wire MakoModel.Control

abbrev P (α : Type) := List String → Option (α × List String)

def pLine (f : String) : Option Ev :=
  if f == "N" then some (.wl none)
  else if f.startsWith "B" then (decStr (f.drop 1).toString).map .blk
  else if f.startsWith "W" then (decStr (f.drop 1).toString).map (fun s => .wl (some s))
  else none

def showDetail (d : Option Str) : String :=
  match d with
  | none => "none"
  | some k => String.ofList k

def pNat : P Nat
  | t :: r => t.toNat?.map (·, r)
  | [] => none

def pBool : P Bool
  | "1" :: r => some (true, r)
  | "0" :: r => some (false, r)
  | _ => none

def pStr : P Str
  | t :: r => (decStr t).map (·, r)
  | [] => none

def pKind : P CKind
  | "kc" :: r => some (.comment, r)
  | "ko" :: r => some (.other, r)
  | "kl" :: r => do
    let (kw, r) ← pStr r
    let (e, r) ← pBool r
    pure (.ctl kw e, r)
  | _ => none

def pMany {α} (p : P α) : Nat → P (List α)
  | 0, ts => some ([], ts)
  | n + 1, ts => do
    let (a, r) ← p ts
    let (as, r2) ← pMany p n r
    pure (a :: as, r2)

def pHdr : P Hdr := fun ts => do
  let (kw, r) ← pStr ts
  let (text, r) ← pStr r
  let (lr, r) ← pBool r
  let (hp, r) ← pBool r
  if hp then
    let (tg, r) ← pStr r
    let (it, r) ← pStr r
    pure (⟨kw, text, lr, some (tg, it)⟩, r)
  else pure (⟨kw, text, lr, none⟩, r)

mutual
def pCT : Nat → P CT
  | 0, _ => none
  | fuel + 1, ts =>
    match ts with
    | "nil" :: r => some (.nil, r)
    | "c" :: r => do
      let (rest, r) ← pCT fuel r
      pure (.leaf .comment rest, r)
    | "s" :: r => do
      let (line, r) ← pStr r
      let (lr, r) ← pBool r
      let (n, r) ← pNat r
      let (ks, r) ← pMany pKind n r
      let (rest, r) ← pCT fuel r
      pure (.leaf (.stmt line lr ks) rest, r)
    | "b" :: r => do
      let (text, r) ← pStr r
      let (lr, r) ← pBool r
      let (st, r) ← pBool r
      if st then
        let (names, r) ← pStr r
        let (rest, r) ← pCT fuel r
        pure (.leaf (.block text lr (some names)) rest, r)
      else
      let (rest, r) ← pCT fuel r
      pure (.leaf (.block text lr none) rest, r)
    | "q" :: r => do
      let (lr, r) ← pBool r
      let (n, r) ← pNat r
      let (ks, r) ← pMany pKind n r
      let (rest, r) ← pCT fuel r
      pure (.leaf (.silent lr ks) rest, r)
    | "ctl" :: r => do
      let (hdr, r) ← pHdr r
      let (body, r) ← pCT fuel r
      let (terns, r) ← pTerns fuel r
      let (rest, r) ← pCT fuel r
      pure (.ctl hdr body terns rest, r)
    | _ => none
def pTerns : Nat → P Terns
  | 0, _ => none
  | fuel + 1, ts =>
    match ts with
    | "tn" :: r => some (.nil, r)
    | "tc" :: r => do
      let (hdr, r) ← pHdr r
      let (body, r) ← pCT fuel r
      let (more, r) ← pTerns fuel r
      pure (.cons hdr body more, r)
    | _ => none
end

def showEv : Ev → String
  | .wl none => "N"
  | .wl (some s) => "W" ++ encStr s
  | .blk t => "B" ++ encStr t

def showKind : CKind → String
  | .comment => "c"
  | .other => "o"
  | .ctl kw e => "l" ++ String.ofList kw ++ ":" ++ encBool e

mutual
/-- the children lists, in document order of the control lines -/
def kidsOf : CT → List (List CKind)
  | .nil => []
  | .leaf _ rest => kidsOf rest
  | .ctl hdr body terns rest =>
    primaryChildren hdr.kw body terns :: (kidsOf body ++ kidsT hdr.kw terns ++ kidsOf rest)
def kidsT (kw : Str) : Terns → List (List CKind)
  | .nil => []
  | .cons _ body more =>
    ternaryChildren kw body (match more with | .nil => true | _ => false) :: (kidsOf body ++ kidsT kw more)
end

def handle : Handler
  | ["re", s] => do
    let s ← decStr s
    pure (" ".intercalate [encBool (reSpaceComment s), encBool (reSpace s), encBool (reIndent s),
      (match reCompound s with | some k => String.ofList k | none => "none"),
      encBool (reIndentKeyword s), encBool (reUnindentor s)])
  | "print" :: ls => do
    let ls ← ls.mapM pLine
    let σ := run PS.init ls
    pure (" ".intercalate ([encBool σ.err, toString σ.indent, encBool σ.empty] ++ σ.detail.map showDetail ++ ["|"] ++
      σ.out.map (fun p => toString p.1)))
  | ["lex", s] => do
    let s ← decStr s
    pure (match lexCtl s with
      | none => "none"
      | some (c, t) => encBool c ++ " " ++ encStr t)
  | ["frag", s] => do
    let s ← decStr s
    pure ((match fragmentAdmits s with | none => "none" | some k => String.ofList k) ++ " " ++ encBool (HeaderOk s))
  | "gen" :: el :: ts => do
    let el ← decBool el
    let (t, r) ← pCT (ts.length + 1) ts
    if !r.isEmpty then none else
    let evs := emitCT el t
    let σ := run PS.init evs
    pure (" ".intercalate (evs.map showEv ++ ["|", encBool σ.err, "|"] ++
      σ.out.map (fun p => toString p.1 ++ ":" ++ encStr p.2)))
  | "kids" :: ts => do
    let (t, r) ← pCT (ts.length + 1) ts
    if !r.isEmpty then none else
    pure (";".intercalate ((kidsOf t).map fun ks => " ".intercalate (ks.map showKind)))
  | ["loop", len, idx, nv] => do
    let len ← len.toNat?
    let idx ← idx.toNat?
    let nv ← nv.toNat?
    let c : LoopCtx := ⟨len, idx⟩
    pure (" ".intercalate [toString c.index, encBool c.first, encBool c.last, encBool c.even, encBool c.odd,
      toString c.reverseIndex,
      (match c.cycle (List.range nv) with | none => "none" | some i => toString i)])
  | ["parents", d] => do
    let d ← d.toNat?
    let stack := (List.range d).reverse      -- innermost first
    pure (toString (parentChain stack).length ++ " " ++ encBool (parentOfStack stack).isNone ++ " " ++
      " ".intercalate ((parentChain stack).map toString))
  | "decl" :: el :: names => do
    let el ← decBool el
    let names ← names.mapM decStr
    pure (encList (declares el names))
  | _ => none

end MakoModel.Control.Drv
