import MakoModel.Basic.Wire
import MakoModel.Control.Printer
/-!
Driver handler `ctl` (C03):

    ctl re <str>                       the six printer regexes on a line:
                                       spaceComment space indent compound(kw|none) indentKeyword unindentor
    ctl print <line|N>*                `writeline` over a line sequence (`N` = `None`): `err indent detail… | d1 d2 …`
                                       (indent level of every written line)
-/
namespace MakoModel.Control.Drv
open MakoModel.Wire MakoModel.Control

def pLine (f : String) : Option (Option Str) :=
  if f == "N" then some none else (decStr f).map some

def showDetail (d : Option Str) : String :=
  match d with
  | none => "none"
  | some k => String.ofList k

def handle : Handler
  | ["re", s] => do
    let s ← decStr s
    pure (" ".intercalate [encBool (reSpaceComment s), encBool (reSpace s), encBool (reIndent s),
      (match reCompound s with | some k => String.ofList k | none => "none"),
      encBool (reIndentKeyword s), encBool (reUnindentor s)])
  | "print" :: ls => do
    let ls ← ls.mapM pLine
    let σ := run PS.init ls
    pure (" ".intercalate ([encBool σ.err, toString σ.indent] ++ σ.detail.map showDetail ++ ["|"] ++
      σ.out.map (fun p => toString p.1)))
  | _ => none

end MakoModel.Control.Drv
