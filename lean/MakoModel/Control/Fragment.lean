import MakoModel.Control.Lemmas
/-!
# `mako.ast.PythonFragment`: which control-line texts mako admits, and that the printer treats them as headers

`fragmentAdmits` models the shape test of `PythonFragment.__init__`:
`re.match(r"^(\w+)(?:\s+(.*?))?:\s*(#|$)", code.strip(), re.S)` followed by the keyword table
(`for if while try elif else except with`; everything else – `finally` included – is "Unsupported control keyword").
The Python parse of the completed statement that follows is outside the model.

Determinism of the transcription: `(\w+)` is the maximal word run (a shorter one would have to be followed by
`\s` or `:`, but is followed by a word character); either the colon follows it directly, or at least one
whitespace character does and *some* later colon (the lazy `.*?` tries them left to right) is followed by
whitespace and then `#` or the end of the stripped text.
-/
namespace MakoModel.Control
open MakoModel.Basic

/-- `\s*(#|$)` after a colon (`$`: the text is stripped, so only the very end) -/
def fragTail (r : Str) : Bool :=
  let r1 := r.dropWhile isSpace
  r1.isEmpty || r1.head? == some '#'

/-- some colon of the text is followed by `fragTail` -/
def fragColon : Str → Bool
  | [] => false
  | c :: cs => (c == ':' && fragTail cs) || fragColon cs

def rstrip (s : Str) : Str := (s.reverse.dropWhile isPySpace).reverse
/-- `str.strip()` -/
def strip (s : Str) : Str := rstrip (s.dropWhile isPySpace)

def fragKws : List Str :=
  ["for".toList, "if".toList, "while".toList, "try".toList, "elif".toList, "else".toList, "except".toList,
   "with".toList]

/-- the keyword under which `PythonFragment` accepts the text, `none`: `CompileException` -/
def fragmentAdmits (code : Str) : Option Str :=
  let c := strip code
  let kw := c.takeWhile isWord
  let rest := c.dropWhile isWord
  if fragKws.contains kw &&
      ((rest.head? == some ':' && fragTail rest.tail) || (rest.head?.any isSpace && fragColon rest.tail))
  then some kw else none

/-! ### list facts -/

theorem mem_takeWhile_p {p : Char → Bool} : ∀ {l : Str} {c : Char}, c ∈ l.takeWhile p → p c = true
  | [], _, h => by simp at h
  | d :: ds, c, h => by
    simp only [List.takeWhile] at h
    split at h
    · rename_i hd
      rcases List.mem_cons.mp h with rfl | h
      · exact hd
      · exact mem_takeWhile_p h
    · simp at h

theorem rstrip_split (s : Str) : ∃ tr, s = rstrip s ++ tr ∧ tr.all isPySpace = true := by
  refine ⟨(s.reverse.takeWhile isPySpace).reverse, ?_, ?_⟩
  · have := List.takeWhile_append_dropWhile (p := isPySpace) (l := s.reverse)
    have h2 := congrArg List.reverse this
    simp only [List.reverse_append, List.reverse_reverse] at h2
    exact h2.symm
  · simp only [List.all_reverse, List.all_eq_true]
    intro c hc
    exact mem_takeWhile_p hc

theorem strip_split (s : Str) : ∃ ld tr, s = ld ++ strip s ++ tr ∧ ld.all isPySpace = true ∧ tr.all isPySpace = true := by
  obtain ⟨tr, h1, h2⟩ := rstrip_split (s.dropWhile isPySpace)
  refine ⟨s.takeWhile isPySpace, tr, ?_, ?_, h2⟩
  · have := List.takeWhile_append_dropWhile (p := isPySpace) (l := s)
    rw [List.append_assoc, ← show s.dropWhile isPySpace = strip s ++ tr from h1]
    exact this.symm
  · simp only [List.all_eq_true]
    intro c hc
    exact mem_takeWhile_p hc

theorem fragColon_split : ∀ s : Str, fragColon s = true → ∃ a r, s = a ++ ':' :: r ∧ fragTail r = true
  | [], h => by simp [fragColon] at h
  | c :: cs, h => by
    simp only [fragColon, Bool.or_eq_true, Bool.and_eq_true, beq_iff_eq] at h
    rcases h with ⟨rfl, h⟩ | h
    · exact ⟨[], cs, rfl, h⟩
    · obtain ⟨a, r, e, hr⟩ := fragColon_split cs h
      exact ⟨c :: a, r, by simp [e], hr⟩

theorem reIndent_of_split (a r : Str) (h : tailOk r = true) : reIndent (a ++ ':' :: r) = true :=
  reIndent_append a (by simp [reIndent, h])

theorem dropWhile_all {p : Char → Bool} : ∀ l : Str, l.all p = true → l.dropWhile p = []
  | [], _ => rfl
  | c :: cs, h => by
    simp only [List.all_cons, Bool.and_eq_true] at h
    simp [List.dropWhile, h.1, dropWhile_all cs h.2]

theorem dropWhile_congr {p q : Char → Bool} : ∀ l : Str, (∀ c ∈ l, p c = q c) → l.dropWhile p = l.dropWhile q
  | [], _ => rfl
  | c :: cs, h => by
    have hc := h c (by simp)
    have ih := dropWhile_congr cs (fun d hd => h d (by simp [hd]))
    simp only [List.dropWhile, hc]
    split <;> simp [ih]

theorem dropWhile_append_of_ne {p : Char → Bool} : ∀ (l m : Str) (c : Char) (y : Str),
    l.dropWhile p = c :: y → (l ++ m).dropWhile p = c :: (y ++ m)
  | [], _, _, _, h => by simp at h
  | d :: ds, m, c, y, h => by
    simp only [List.dropWhile] at h
    simp only [List.cons_append, List.dropWhile]
    split
    · rename_i hd
      simp only [hd] at h
      exact dropWhile_append_of_ne ds m c y h
    · rename_i hd
      simp only [hd] at h
      simp only [List.cons.injEq] at h
      obtain ⟨rfl, rfl⟩ := h
      rfl

/-- `str.strip()` and the regex class `\s` agree on what whitespace is (a side condition on the two regenerated
    tables: should CPython ever tell them apart, this obligation breaks) -/
theorem pySpace_eq_space : Generated.Unicode.isspaceRanges = Generated.Unicode.spaceRanges := by decide

theorem isPySpace_isSpace (c : Char) : isPySpace c = isSpace c := by
  simp [isPySpace, isSpace, pySpace_eq_space]

theorem all_dropWhile_nil {p : Char → Bool} : ∀ l : Str, l.dropWhile p = [] → l.all p = true
  | [], _ => rfl
  | c :: cs, h => by
    simp only [List.dropWhile] at h
    split at h
    · rename_i hc; simp [hc, all_dropWhile_nil cs h]
    · cases h

/-- what `PythonFragment` accepts after a colon, `_re_indent` accepts too, with the stripped trailing whitespace
    put back -/
theorem tailOk_of_fragTail (r tr : Str) (htr : tr.all isSpace = true) (h : fragTail r = true) :
    tailOk (r ++ tr) = true := by
  simp only [fragTail, Bool.or_eq_true, List.isEmpty_iff, beq_iff_eq] at h
  rcases h with h | h
  · have : (r ++ tr).dropWhile isSpace = [] :=
      dropWhile_all _ (by simp [List.all_append, all_dropWhile_nil r h, htr])
    simp [tailOk, this]
  · cases hd : r.dropWhile isSpace with
    | nil => rw [hd] at h; simp at h
    | cons c y =>
      rw [hd] at h
      simp only [List.head?_cons, Option.some.injEq] at h
      subst h
      simp [tailOk, dropWhile_append_of_ne r tr '#' y hd]

theorem startsWith_append (k x : Str) : startsWith (k ++ x) k = true := by
  induction k with
  | nil => cases x <;> rfl
  | cons c cs ih => simp [startsWith, ih]

theorem firstKw_isSome {s : Str} : ∀ {ks : List Str} {k : Str}, k ∈ ks → startsWith s k = true → (firstKw s ks).isSome = true
  | [], _, h, _ => by cases h
  | k0 :: ks, k, h, hs => by
    simp only [firstKw]
    split
    · rfl
    · rcases List.mem_cons.mp h with rfl | h
      · simp_all
      · exact firstKw_isSome h hs

theorem firstKw_some {s : Str} : ∀ {ks : List Str} {k : Str}, firstKw s ks = some k → k ∈ ks ∧ startsWith s k = true
  | [], _, h => by simp [firstKw] at h
  | k0 :: ks, k, h => by
    simp only [firstKw] at h
    split at h
    · rename_i hs
      cases h
      exact ⟨by simp, hs⟩
    · obtain ⟨h1, h2⟩ := firstKw_some h
      exact ⟨by simp [h1], h2⟩

/-- a header that is not in `_re_compound` starts with `def`, `class`, `else` or `finally` - the headers after
    which Python allows no further clause -/
theorem header_not_compound {h : Str} (hh : HeaderOk h = true) (hc : isCompound h = false) :
    ∃ k, k ∈ ["def".toList, "class".toList, "else".toList, "finally".toList] ∧ startsWith (lskip h) k = true := by
  simp only [HeaderOk, Bool.and_eq_true] at hh
  have hr : reCompound h = none := by simpa [isCompound] using hc
  have ho := hh.2
  unfold opens at ho
  split at ho
  · rw [hr] at ho
    simp only at ho
    split at ho
    · rename_i hk
      simp only [reIndentKeyword] at hk
      obtain ⟨k, hk'⟩ := Option.isSome_iff_exists.mp hk
      obtain ⟨hm, hs⟩ := firstKw_some hk'
      simp only [indentKws, List.mem_cons, List.not_mem_nil, or_false] at hm
      have notc : ∀ k', k' ∈ compoundKws → startsWith (lskip h) k' = true → False := by
        intro k' hk1 hk2
        have := firstKw_isSome hk1 hk2
        simp only [reCompound] at hr
        rw [hr] at this
        cases this
      rcases hm with rfl | rfl | rfl | rfl | rfl | rfl
      · exact ⟨_, by simp, hs⟩
      · exact ⟨_, by simp, hs⟩
      · exact ⟨_, by simp, hs⟩
      · exact absurd hs (fun h' => notc _ (by decide) h')
      · exact absurd hs (fun h' => notc _ (by decide) h')
      · exact ⟨_, by simp, hs⟩
    · cases ho
  · cases ho

theorem fragKw_facts {kw : Str} (h : kw ∈ fragKws) :
    (kw ∈ compoundKws ∨ kw ∈ indentKws) ∧ ∃ c y, kw = c :: y ∧ isSpace c = false ∧ c ≠ '#' := by
  simp only [fragKws, List.mem_cons, List.not_mem_nil, or_false] at h
  rcases h with rfl | rfl | rfl | rfl | rfl | rfl | rfl | rfl
  · exact ⟨.inl (by decide), 'f', "or".toList, rfl, by decide, by decide⟩
  · exact ⟨.inl (by decide), 'i', "f".toList, rfl, by decide, by decide⟩
  · exact ⟨.inl (by decide), 'w', "hile".toList, rfl, by decide, by decide⟩
  · exact ⟨.inl (by decide), 't', "ry".toList, rfl, by decide, by decide⟩
  · exact ⟨.inl (by decide), 'e', "lif".toList, rfl, by decide, by decide⟩
  · exact ⟨.inr (by decide), 'e', "lse".toList, rfl, by decide, by decide⟩
  · exact ⟨.inr (by decide), 'e', "xcept".toList, rfl, by decide, by decide⟩
  · exact ⟨.inl (by decide), 'w', "ith".toList, rfl, by decide, by decide⟩

theorem dropWhile_space_prefix (l x : Str) (hl : l.all isSpace = true) : (l ++ x).dropWhile isSpace = x.dropWhile isSpace := by
  induction l with
  | nil => rfl
  | cons c cs ih =>
    simp only [List.all_cons, Bool.and_eq_true] at hl
    simp [hl.1, ih hl.2]

/-- **What `PythonFragment` admits is a header for the printer** – every admitted text. -/
theorem fragment_headerOk_core (t kw : Str) (ha : fragmentAdmits t = some kw) : HeaderOk t = true := by
  obtain ⟨ld, tr, ht, hld, htr⟩ := strip_split t
  have hlds : ld.all isSpace = true := by
    simp only [List.all_eq_true] at hld ⊢; intro c hc; rw [← isPySpace_isSpace]; exact hld c hc
  have htrs : tr.all isSpace = true := by
    simp only [List.all_eq_true] at htr ⊢; intro c hc; rw [← isPySpace_isSpace]; exact htr c hc
  unfold fragmentAdmits at ha
  simp only at ha
  split at ha
  case isFalse => cases ha
  rename_i hcond
  simp only [Bool.and_eq_true, Bool.or_eq_true, List.contains_iff_mem, beq_iff_eq] at hcond
  obtain ⟨hk, hcol⟩ := hcond
  have hc : strip t = (strip t).takeWhile isWord ++ (strip t).dropWhile isWord :=
    (List.takeWhile_append_dropWhile (p := isWord) (l := strip t)).symm
  generalize (strip t).takeWhile isWord = k at hk hc
  generalize (strip t).dropWhile isWord = rest at hcol hc
  rw [hc] at ht
  obtain ⟨hkw, c0, y, rfl, hs0, hh0⟩ := fragKw_facts hk
  have hsplit : ∃ a r, rest = a ++ ':' :: r ∧ fragTail r = true := by
    rcases hcol with ⟨h1, h2⟩ | ⟨_, h2⟩
    · cases rest with
      | nil => simp at h1
      | cons d ds =>
        simp only [List.head?_cons, Option.some.injEq] at h1
        subst h1
        exact ⟨[], ds, rfl, by simpa using h2⟩
    · obtain ⟨a, r, e, hr⟩ := fragColon_split rest.tail h2
      cases rest with
      | nil => simp at e
      | cons d ds => exact ⟨d :: a, r, by simpa using e, hr⟩
  obtain ⟨a, r, rfl, hr⟩ := hsplit
  have hi : reIndent t = true := by
    have : t = (ld ++ c0 :: y ++ a) ++ ':' :: (r ++ tr) := by rw [ht]; simp
    rw [this]
    exact reIndent_of_split _ _ (tailOk_of_fragTail r tr htrs hr)
  have hl : lskip t = c0 :: y ++ (a ++ ':' :: r ++ tr) := by
    rw [ht]
    simp only [lskip, List.append_assoc]
    rw [dropWhile_space_prefix ld _ hlds]
    simp [hs0]
  have hsw : ∀ ks, c0 :: y ∈ ks → (firstKw (lskip t) ks).isSome = true := by
    intro ks hm
    rw [hl]
    exact firstKw_isSome hm (startsWith_append _ _)
  have ho : (opens t).isSome = true := by
    unfold opens
    rw [hi]
    simp only [if_true]
    cases hrc : reCompound t with
    | some k' => rfl
    | none =>
      rcases hkw with h | h
      · have := hsw compoundKws h
        simp only [reCompound] at hrc
        rw [hrc] at this; cases this
      · have := hsw indentKws h
        simp [reIndentKeyword, this]
  have htx : hasText (some t) = true := by
    have h1 : reSpaceComment t = false := by
      simp only [reSpaceComment, hl]
      simpa using hh0
    have h2 : reSpace t = false := by
      simp only [reSpace, List.all_eq_false]
      exact ⟨c0, by rw [ht]; simp, by simp [hs0]⟩
    simp [hasText, h1, h2]
  have hcm : isComment (some t) = false := by
    rw [ht]
    cases ld with
    | nil => simpa [isComment] using hh0
    | cons d ds =>
      simp only [List.all_cons, Bool.and_eq_true] at hlds
      have : d ≠ '#' := by
        intro e; rw [e] at hlds; exact absurd hlds.1 (by decide)
      simpa [isComment] using this
  simp [HeaderOk, htx, hcm, ho]

end MakoModel.Control
