import MakoModel.Path.Below
import MakoModel.Path.Idem
import MakoModel.Path.HistoryLemmas
import MakoModel.Generated.PathCfg
/-!
# C09 – template lookup never escapes its configured directories

Property theorems only (helper lemmas live in `MakoModel/Path/*.lean`).

Reading of the property on the model (`MakoModel/Path/Model.lean`, tied to /repo by `corr_C09`):
* `TemplateLookup.__init__` stores `normpath d0` for every configured directory `d0`;
* `get_template uri` probes and loads `uriToSrc (normpath d0) uri`;
* `Template.__init__` (reached from `_load` before any read of the file) rejects the URI unless
  `templateCheck uri`;
* `<%include>`, `<%inherit>`, `<%namespace>` and the `Namespace` API first rewrite the URI with
  `adjustUri` and then go through the same `get_template`;
* the lookup as a state machine (`MakoModel/Path/History.lean`): `_collection` keyed by the URI as spelled,
  `_check` on a hit, the directories probed in order on a miss, `has_template` = "`get_template` succeeds", and a
  file system whose set of regular files changes arbitrarily between calls.

`Below d p` says: the *string* `p` is `d`, or `d` + `/` + one or more ordinary name components
(no `..`, `.`, empty or slash-containing component) – the usual "real path starts with the root" test,
here for all strings.
-/
namespace MakoModel.C09
open MakoModel.Path

/-- A URI that passes the check of `Template.__init__` normalises – on its own, in relative mode –
to ordinary names only: no `..` survives. (All strings.) -/
theorem check_gives_names (uri : List Char) (h : templateCheck uri = true) :
    ∀ c ∈ run false [] (splitSlash (relPart uri)), NameComp c := by
  have hu := relPart_head uri
  have h' : dotdot.isPrefixOf (normpath (relPart uri)) = false := by
    simpa [templateCheck, uNorm] using h
  generalize relPart uri = u at *
  have hst : StackOK false (run false [] (splitSlash u)) :=
    run_stackOK false [] _ (mem_splitSlash_noslash u) (stackOK_nil false)
  obtain ⟨names, j, hR, _, hn⟩ := hst
  cases j with
  | zero => rw [hR]; simpa using hn
  | succ j =>
    exfalso
    have hune : u ≠ [] := by
      intro e; subst e
      simp [splitSlash, run, step] at hR
    have hnorm : normpath u = build 0 (run false [] (splitSlash u)).reverse := by
      have := normpath_eq_build u hune
      rw [initialSlashes_of_head u hu] at this
      simpa using this
    have hrev : (run false [] (splitSlash u)).reverse
        = dotdot :: (List.replicate j dotdot ++ names.reverse) := by
      rw [hR, List.reverse_append, List.reverse_replicate, List.replicate_succ]; rfl
    have hpre : dotdot.isPrefixOf (normpath u) = true := by
      rw [hnorm, hrev]
      cases hrest : (List.replicate j dotdot ++ names.reverse) with
      | nil => simp [build, joinSlash, dotdot, List.isPrefixOf]
      | cons c cs => simp [build, joinSlash, dotdot, List.isPrefixOf]
    rw [hpre] at h'
    contradiction

/-- **lookup_contained.** For every URI string and every configured directory `d0` (stored as
`normpath d0`): if the URI passes `Template.__init__`'s check, the file `get_template` resolves it to is
the directory itself or lies below it – whatever mixture of `..`, `.`, empty segments, repeated or
leading slashes and backslashes the URI is spelled with. -/
theorem lookup_contained (d0 uri : List Char) (h : templateCheck uri = true) :
    Below (normpath d0) (uriToSrc (normpath d0) uri) :=
  below_of_clean d0 (relPart uri) (relPart_head uri) (check_gives_names uri h)

/-- **dirs_normalised.** What `TemplateLookup.__init__` stores for a configured directory is a fixed point of
`normpath`, whatever spelling (trailing slashes, dot segments, repeated slashes) it was given with. -/
theorem dirs_normalised (d0 : List Char) : normpath (normpath d0) = normpath d0 := normpath_idem d0

/-- `lookup_contained` for any directory that is its own normal form. -/
theorem lookup_contained_normalised (d uri : List Char) (hd : normpath d = d)
    (h : templateCheck uri = true) : Below d (uriToSrc d uri) := by
  have := lookup_contained d uri h
  rwa [hd] at this

example : normpath "/srv//t/./x/../".toList = "/srv/t".toList := by decide

/-- **include_contained.** The same for a URI produced by `adjust_uri` from any calling template URI
(`<%include>`, `<%inherit>`, `<%namespace>`, `get_namespace/get_template/include_file`), at any depth:
containment does not depend on how the URI string was produced. -/
theorem include_contained (d0 uri : List Char) (relativeto : Option (List Char)) (r : List Char)
    (_hadj : adjustUri uri relativeto = some r) (h : templateCheck r = true) :
    Below (normpath d0) (uriToSrc (normpath d0) r) :=
  lookup_contained d0 r h

/-- **rejected_or_contained.** Stated as the dichotomy the property uses: either the URI is rejected
(`TemplateLookupException` from `Template.__init__`) or the resolved file is in/below the root. -/
theorem rejected_or_contained (d0 uri : List Char) :
    templateCheck uri = false ∨ Below (normpath d0) (uriToSrc (normpath d0) uri) := by
  cases h : templateCheck uri with
  | false => exact Or.inl rfl
  | true => exact Or.inr (lookup_contained d0 uri h)

/-- **normpath_shape.** `posixpath.normpath` of any string is assembled from at most two leading slashes
and a stack of components that are ordinary names on top of `..`s, the latter only for relative paths. -/
theorem normpath_shape (p : List Char) :
    ∃ k D, k ≤ 2 ∧ normpath p = build k D ∧ StackOK (k != 0) D.reverse := by
  obtain ⟨k, D, hd, hk, hst⟩ := normpath_normDir p
  exact ⟨k, D, hk, hd, hst⟩

/-- **module_path_contained.** The module file of an accepted URI is placed below `module_directory`:
normalising `join(normpath(moddir), u_norm + ".py")` gives a path strictly below `normpath moddir`. -/
theorem module_path_contained (moddir uri : List Char) (h : templateCheck uri = true) :
    Below (normpath moddir) (normpath (modulePath moddir uri)) := by
  unfold modulePath
  have hnames := check_gives_names uri h
  have hu := relPart_head uri
  -- the components of `u_norm + ".py"`
  have hsplit : ∃ cs, cs ≠ [] ∧ CleanRel cs ∧ uNorm uri ++ ['.', 'p', 'y'] = joinSlash cs := by
    unfold uNorm
    generalize relPart uri = u at *
    by_cases hune : u = []
    · subst hune
      refine ⟨[['.', '.', 'p', 'y']], by simp, ?_, by simp [normpath_nil, dot, joinSlash]⟩
      intro c hc; simp at hc; subst hc
      simp [NameComp, dot, dotdot]
    · have hnorm := normpath_eq_build u hune
      rw [initialSlashes_of_head u hu] at hnorm
      simp only [bne_self_eq_false] at hnorm
      generalize hR : (run false [] (splitSlash u)).reverse = R at *
      have hRn : ∀ c ∈ R, NameComp c := by
        intro c hc; apply hnames
        have : c ∈ (run false [] (splitSlash u)).reverse := by rw [hR]; exact hc
        simpa using this
      rw [hnorm]
      clear hnorm hR hnames
      induction R with
      | nil =>
        refine ⟨[['.', '.', 'p', 'y']], by simp, ?_, by simp [build, dot, joinSlash]⟩
        intro c hc; simp at hc; subst hc
        simp [NameComp, dot, dotdot]
      | cons c R ih =>
        have hc := hRn c (by simp)
        cases R with
        | nil =>
          refine ⟨[c ++ ['.', 'p', 'y']], by simp, ?_, ?_⟩
          · intro x hx; simp at hx; subst hx
            obtain ⟨h1, h2, h3, h4⟩ := hc
            refine ⟨by simp, ?_, ?_, ?_⟩
            · cases c with
              | nil => contradiction
              | cons a as => simp [dot]
            · cases c with
              | nil => contradiction
              | cons a as => cases as <;> simp [dotdot]
            · simp [h4]
          · have : c ≠ [] := hc.1
            simp [build, joinSlash, this]
        | cons c2 R2 =>
          obtain ⟨cs, hcs1, hcs2, hcs3⟩ := ih (fun x hx => hRn x (by simp [hx]))
          have hb2 : build 0 (c2 :: R2) = joinSlash (c2 :: R2) := by
            obtain ⟨x, r, hxr, _⟩ := joinSlash_ne_nil (c2 :: R2) (by simp)
              (fun x hx => (hRn x (by simp [hx])).good)
            simp [build, hxr]
          have hb1 : build 0 (c :: c2 :: R2) = c ++ '/' :: joinSlash (c2 :: R2) := by
            have : c ≠ [] := hc.1
            simp [build, joinSlash_cons_cons, this]
          rw [hb2] at hcs3
          refine ⟨c :: cs, by simp, ?_, ?_⟩
          · intro x hx; simp at hx
            cases hx with
            | inl e => subst e; exact hc
            | inr e => exact hcs2 x e
          · rw [hb1]
            cases cs with
            | nil => contradiction
            | cons y ys => rw [joinSlash_cons_cons, ← hcs3]; simp
  obtain ⟨cs, hcs1, hcs2, hcs3⟩ := hsplit
  rw [hcs3]
  have hgood : ∀ c ∈ cs, GoodComp c := fun c hc => (hcs2 c hc).good
  obtain ⟨x, r, hxr, hx⟩ := joinSlash_ne_nil cs hcs1 hgood
  apply below_of_clean
  · rw [hxr]; simpa using hx
  · rw [splitSlash_joinSlash cs hcs1 (fun c hc => (hgood c hc).2), run_names false [] cs hcs2]
    intro c hc
    exact hcs2 c (by simpa using hc)

/-! ## The lookup over a history of calls and file-system changes -/

/-- **history_contained.** For every configuration (any number of directories, any spelling, `filesystem_checks`
on or off), every initial set of files, and every history of `get_template` / `has_template` calls interleaved with
arbitrary file creations and deletions – inside or outside the directories –: every template the lookup ever
returns (fresh, from the collection, or re-checked) has a file name that is, or lies below, one of the configured
directories. -/
theorem history_contained (c : LCfg) (files : List P) (ops : List Op) (src : P)
    (h : Out.served src ∈ runFrom c (LState.init files) ops) :
    ∃ d ∈ c.dirs, Below (normpath d) src := by
  obtain ⟨u, hcheck, d, hd, rfl⟩ := runFrom_served c ops _ (init_inv c files) src h
  exact ⟨d, hd, lookup_contained d u hcheck⟩

/-- **has_agrees_get.** `has_template` answers `True` exactly when `get_template` on the same state serves a
template, and leaves the same state behind: it is no existence oracle for files the lookup would refuse. -/
theorem has_agrees_get (c : LCfg) (st : LState) (uri : P) :
    (lstep c st (.has uri)).1 = (lstep c st (.get uri)).1 ∧
      ((lstep c st (.has uri)).2 = .answer true ↔ ∃ src, (lstep c st (.get uri)).2 = .served src) := by
  simp only [lstep]
  split
  · next st' src heq => simp [heq]
  · next st' o hne heq =>
    refine ⟨by simp [heq], ?_⟩
    constructor
    · intro h; simp at h
    · rintro ⟨src, hs⟩
      rw [heq] at hs
      simp only at hs
      subst hs
      exact (hne _ rfl).elim

/-- **has_true_contained.** Whenever `has_template` says `True`, the template `get_template` would hand out lies in
or below a configured directory (any reachable state: stated for every state satisfying the collection invariant,
which `runFrom_served`'s induction shows for all reachable ones). -/
theorem has_true_contained (c : LCfg) (st : LState) (uri : P) (hinv : CollInv c st)
    (h : (lstep c st (.has uri)).2 = .answer true) :
    ∃ src, (lstep c st (.get uri)).2 = .served src ∧ ∃ d ∈ c.dirs, Below (normpath d) src := by
  obtain ⟨src, hs⟩ := (has_agrees_get c st uri).2.mp h
  obtain ⟨hcheck, d, hd, rfl⟩ := (getTemplate_inv c st uri hinv).2 src hs
  exact ⟨_, hs, d, hd, lookup_contained d uri hcheck⟩

/-- a concrete history (kernel-evaluated): an outside file exists throughout; the escaping spelling is rejected,
`has_template` says no, the inside file is served, survives as a collection hit, and is dropped once deleted -/
example :
    runFrom { dirs := ["/srv/root/".toList], fsChecks := true }
      (LState.init ["/srv/secret.txt".toList, "/srv/root/index.html".toList])
      [.get "../secret.txt".toList, .has "/..\\secret.txt".toList, .get "//index.html".toList,
       .add "/srv/rootx/index.html".toList, .get "//index.html".toList,
       .del "/srv/root/index.html".toList, .get "//index.html".toList, .has "index.html".toList]
    = [.rejected, .answer false, .served "/srv/root/index.html".toList, .none,
       .served "/srv/root/index.html".toList, .none, .notFound, .answer false] := by decide

/-! ## Structure of the code the state machine stands for (regenerated from /repo on every run)

`tools/regen_pathcfg.py` reads `Template.__init__` and `mako/lookup.py` and emits the facts below as constants; each
theorem is a named obligation that stops checking when an edit changes the structure. -/

open MakoModel.Generated in
/-- **uri_check_unconditional_and_first.** The URI check of `Template.__init__` is a statement of its own at the top
level of the constructor – under no condition on `module_filename`, `module_directory` or any other option – and it
comes before every statement that compiles, reads or loads anything: the model's `getTemplate` may apply
`templateCheck` to every construction and no content is read for a rejected URI. -/
theorem uri_check_unconditional_and_first :
    PathCfg.uriCheckTopLevel = true ∧ PathCfg.uriCheckBeforeCompile = true := by decide

open MakoModel.Generated in
/-- **has_template_is_get_template.** `has_template` is "`get_template` succeeds" (not overridden by
`TemplateLookup`), which is what `lstep … (.has uri)` models. -/
theorem has_template_is_get_template : PathCfg.hasTemplateViaGet = true := by decide

open MakoModel.Generated in
/-- **lookup_returns_only_loaded_templates.** `get_template`, `_check` and `_load` return nothing but collection
entries of the requested URI and templates constructed – with `uri=uri`, hence through the URI check – for it. -/
theorem lookup_returns_only_loaded_templates :
    PathCfg.lookupTemplatesCarryUri = true ∧ PathCfg.getTemplateReturns = true ∧ PathCfg.loadReturns = true := by
  decide

open MakoModel.Generated in
/-- **temporary_files_beside_module.** The module writer creates its temporary file in the directory of the module
file itself (`tempfile.mkstemp(dir=os.path.dirname(outputpath))`), which `module_path_contained` places below
`module_directory`: together with the audit of every write-open in the oracle, "generated module files are created
only beneath module_directory" also covers the files that exist only between write and move. -/
theorem temporary_files_beside_module : PathCfg.tempBesideModule = true := by decide

/-! ## Non-vacuity and sanity: concrete instances (kernel evaluation of the model) -/

/-- an accepted URI with `..`, repeated slashes and a backslash; resolves inside the root -/
example : templateCheck "/sub//..\\./a../x.html".toList = true
    ∧ uriToSrc "/srv/t".toList "/sub//..\\./a../x.html".toList = "/srv/t/a../x.html".toList := by decide

/-- a URI that would escape is exactly one the check rejects -/
example : templateCheck "sub/../../rootx/evil.html".toList = false
    ∧ uriToSrc "/srv/root".toList "sub/../../rootx/evil.html".toList = "/srv/rootx/evil.html".toList := by decide

/-- `Below` is not trivially true: the sibling whose name has the root as a string prefix is not below it -/
example : ¬ Below "/srv/root".toList "/srv/rootx/evil.html".toList := by
  intro h
  cases h with
  | inl h => exact absurd h (by decide)
  | inr h =>
    obtain ⟨cs, _, _, h⟩ := h
    have : dirPrefix "/srv/root".toList = "/srv/root/".toList := by decide
    rw [this] at h
    have h9 := congrArg (fun l => l.take 10) h
    simp at h9

end MakoModel.C09
