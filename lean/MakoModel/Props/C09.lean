import MakoModel.Path.Model
namespace MakoModel.C09
open MakoModel.Path

theorem placeholder : run false [] [] = [] := rfl

end MakoModel.C09
