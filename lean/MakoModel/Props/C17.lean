import MakoModel.Cache.Examples
/-!
# C17 – cached sections run once per key and replay their exact output

Model: `MakoModel/Cache/Model.lean` (the generated wrapper of `write_cache_decorator`, `Cache._ctx_get_or_create`,
`_get_cache_kw` with the `_def_regions` memo, `invalidate_*`, an abstract back end obeying the `CacheImpl` contract).
Specification monitor: `MakoModel/Cache/Spec.lean` (`replay` and the five checks `evRuns`, `evReplay`, `evCreation`,
`evFresh`, `evOwn`).  Side conditions on the regenerated constants (`Cache/Lemmas.lean`, `gen_*`, by `decide`) act through
the build of this module: `gen_regen_ok`, `gen_prefix_slice`, `gen_key_attr_excluded`, `gen_key_attr_has_prefix`,
`gen_merge_order`, `gen_defname_kw`, `gen_inv_body`, `gen_inv_def`, `gen_disabled_bypasses`, `gen_cache_id`, `gen_names`,
`gen_inline_passes_buffered`, `gen_beaker_defines_set`, `gen_context_added_to_copy`, `gen_beaker_starttime`,
`gen_block_result_written`, `gen_decorator_fetches_writer`, `gen_local_is_declaring_template`.

Inheritance: a section uses the cache of the template that DECLARES it (`Hdr.home`, `eff`); the call tree of an
inheriting template is its base's body with its own body at `${next.body()}`.  Call sites: `Site` (`capture` included).

History-level theorems quantify over **every** world (back end, list of templates) and **every** history
`List Op`; they are proved by induction over the history and over the call tree, through the invariants of
`MakoModel/Cache/Invariants.lean`.  Local theorems quantify over every state (reachable or not), every
section header, scope and body.

OPEN – recorded defects (the model has them, as the code has):
* F5      cache id = module name = `re.sub(r"\W","_",uri)` is not injective  → `no_cross_template_service_*`
* F17.1   an `invalidate_body/def/closure` issued before the callable's first render freezes the callable's
          `_def_regions` entry to the Template's `cache_args` alone                → `args_every_render_*`

The `starttime` contract (entries older than the asking template's compile stamp are absent) is part of the model; it is
what protects a template that replaces another one under the same cache id, see the section on `starttime` below.
-/
namespace MakoModel.C17
open MakoModel.Cache MakoModel.Generated.Cache
variable {R : Type} [DecidableEq R]
set_option linter.unusedSectionVars false

/-! ## the four cases of one invocation -/

/-- An uncached section runs its body and delivers the body's content through its filter. -/
theorem uncached_runs_body (P : Params R) (env : Env) (h : Hdr) (arg : Option Expr) (site : Site) (body rest : Items)
    (st : St R) (hc : h.cached = false) :
    run P env (.inv h arg site body rest) st =
      let b := run P (scope P h env arg) body st
      let r := run P env rest b.2
      (deliver h site (sectionValue P (scope P h env arg) h body st) ++ r.1, r.2) :=
  run_inv_uncached P env h arg site body rest st hc

example : (exPage false).cached = false := rfl

/-- **hit**: caching enabled and the back end holds `v` under the section's key – `visible`: stored, and (when the
    implementation honours `starttime`) not before the template was compiled: `v` is delivered, the body is not
    executed – the result is the same for every body – and the store is untouched. -/
theorem hit_serves_stored_value (P : Params R) (env : Env) (h : Hdr) (arg : Option Expr) (site : Site)
    (body rest : Items) (st : St R) (v : Str) (hc : h.cached = true) (hen : st.enabled (eff P h).tid = true)
    (hs : visible P.be st (eff P h).tid (backendKey P st h (scope P h env arg)) = some v) :
    run P env (.inv h arg site body rest) st =
      let st1 := (afterCall P st h (scope P h env arg)).emit
        (.enter (eff P h).tid (fname h) (backendKey P st h (scope P h env arg)) (.hit v))
      let r := run P env rest st1
      (deliver h site v ++ r.1, r.2) :=
  run_inv_hit P env h arg site body rest st v hc hen hs

theorem hit_ignores_body (P : Params R) (env : Env) (h : Hdr) (arg : Option Expr) (site : Site)
    (body body' rest : Items) (st : St R) (v : Str) (hc : h.cached = true) (hen : st.enabled (eff P h).tid = true)
    (hs : visible P.be st (eff P h).tid (backendKey P st h (scope P h env arg)) = some v) :
    run P env (.inv h arg site body rest) st = run P env (.inv h arg site body' rest) st := by
  rw [run_inv_hit P env h arg site body rest st v hc hen hs, run_inv_hit P env h arg site body' rest st v hc hen hs]

/-- **miss**: caching enabled and nothing under the key: the body runs (in the section's scope, from the state in
    which the call was recorded), what is delivered *and stored under the key* is exactly the value of the
    uncached section at that moment, and the ghost event `created` records value, callable, section (header and body),
    scope, render context and the store / flags / memos the creation function started from. -/
theorem miss_creates_uncached_output (P : Params R) (env : Env) (h : Hdr) (arg : Option Expr) (site : Site)
    (body rest : Items) (st : St R) (hc : h.cached = true) (hen : st.enabled (eff P h).tid = true)
    (hs : visible P.be st (eff P h).tid (backendKey P st h (scope P h env arg)) = none) :
    run P env (.inv h arg site body rest) st =
      let env' := scope P h env arg
      let K := backendKey P st h env'
      let st0 := (afterCall P st h env').emit (.enter (eff P h).tid (fname h) K .miss)
      let v := sectionValue P env' h body st0
      let r := run P env rest (((run P env' body st0).2.put K v).emit
        (.created (eff P h).tid (fname h) K v ⟨P.tid, h, body, env', P.ctx, st0.snap⟩))
      (deliver h site v ++ r.1, r.2) :=
  run_inv_miss P env h arg site body rest st hc hen hs

/-- **disabled**: `cache_enabled = False`: the body runs every time, the back end is neither asked nor told. -/
theorem disabled_runs_every_time (P : Params R) (env : Env) (h : Hdr) (arg : Option Expr) (site : Site)
    (body rest : Items) (st : St R) (hc : h.cached = true) (hen : st.enabled (eff P h).tid = false) :
    run P env (.inv h arg site body rest) st =
      let st0 := st.emit (.bypass (eff P h).tid (fname h))
      let b := run P (scope P h env arg) body st0
      let r := run P env rest b.2
      (deliver h site (sectionValue P (scope P h env arg) h body st0) ++ r.1, r.2) :=
  run_inv_disabled P env h arg site body rest st hc hen

/-- instances of the hypotheses of the four theorems above: the first render of `exW`'s template 0 misses, the
    second one hits, and with caching switched off the body runs on every render -/
example :
    ticksOf (runHist exW [.render 0 (ctx "1")]).trace = ["page".toList] ∧
    ticksOf (runHist exW [.render 0 (ctx "1"), .render 0 (ctx "2")]).trace = ["page".toList] ∧
    responses exW (St.init exW) [.render 0 (ctx "1"), .render 0 (ctx "2")] =
      [.out "first 1".toList, .out "first 1".toList] ∧
    ticksOf (runHist exW [.setEnabled 0 false, .render 0 (ctx "1"), .render 0 (ctx "2")]).trace =
      ["page".toList, "page".toList] ∧
    responses exW (St.init exW) [.setEnabled 0 false, .render 0 (ctx "1"), .render 0 (ctx "2")] =
      [.unit, .out "first 1".toList, .out "first 2".toList] := by decide +kernel

/-! ## all histories: the monitor accepts -/

/-- **body_runs_iff_missing.**  In the trace of every history of every world, every decision of a cached wrapper
    agrees with the specification state replayed from the events before it: it bypassed the back end iff
    `cache_enabled` was false; otherwise it served a stored value (`hit`: body not run, see
    `hit_serves_stored_value`) iff the back end held one under the section's key, and ran the body (`miss`, see
    `miss_creates_uncached_output`) iff it held none – where "held" means: put there by a completed creation or a
    `set`, not removed by an `invalidate…` since, and – on a back end that honours `starttime` – not older than the
    asking template's compile stamp (`Spec.visible`). -/
theorem body_runs_iff_missing (w : World R) (hist : List Op) :
    traceAll w (evRuns w.be) (runHist w hist).trace = true :=
  (runHist_sync w hist).runs

/-- **replays_creation_output.**  In every history, whatever a cached section serves is exactly the value of the
    entry the specification state holds under its key – i.e. the value `v` of the last `created … v env` (which, by
    `miss_creates_uncached_output`, is the uncached section's output in scope `env` at that moment) or of the last
    `set` on that key; later renders in other contexts do not change it. -/
theorem replays_creation_output (w : World R) (hist : List Op) :
    traceAll w evReplay (runHist w hist).trace = true :=
  (runHist_sync w hist).rep

/-- a render's output and the store / flags / memos it leaves depend on the store / flags / memos it starts from only
    (not on the trace): the snapshot recorded with a creation determines the uncached output "at that moment" -/
theorem output_depends_on_snapshot_only (P : Params R) (its : Items) (env : Env) (a b : St R)
    (h : a.snap = b.snap) :
    (run P env its a).1 = (run P env its b).1 ∧ (run P env its a).2.snap = (run P env its b).2.snap := by
  have h' : SnapEq a b := by
    simp only [St.snap, Snap.mk.injEq] at h
    exact ⟨h.1, h.2.1, h.2.2.1, h.2.2.2.1, h.2.2.2.2.1, h.2.2.2.2.2⟩
  have := run_snap P its env a b h'
  exact ⟨this.1, by simp [St.snap, this.2.store, this.2.times, this.2.stamp, this.2.clock, this.2.enabled, this.2.regions]⟩

example : (St.init exW).snap = (St.init exW).snap.toSt.snap := rfl

/-- **replays_creation_output_trace.**  For every world and every history, at every hit in the trace: the value served
    under key `K` is the value of the entry the replayed specification state holds under `K`; that entry was put by the
    LAST `created` or `set` event on `K` not followed by an invalidation of `K`; and when it was a `created` event with
    record `c`, the value equals `sectionValue` – the output of the **uncached** section `c.h` with body `c.body` through
    its filter – evaluated in the scope `c.env` and render context `c.ctx` of that creation, from the store / flags /
    memos `c.pre` in force when the back end called the creation function, in the render of template `c.rtid`; the entry
    itself is owned by the template that DECLARES the section (`Hdr.home`), which under `<%inherit>` need not be the rendered one
    (see `evCreation` in `Cache/Spec.lean`).  Renders in other contexts between the creation and the hit do not matter. -/
theorem replays_creation_output_trace (w : World R) (hist : List Op) :
    traceAllP w (evCreation w) (runHist w hist).trace :=
  (runFrom_prov w hist _ (prov_init w)).chk

/-- every entry of the replayed specification store that a creation function put holds the uncached output recorded
    with it – after every history -/
theorem entries_hold_creation_output (w : World R) (hist : List Op) :
    ProvOK w (replay w (runHist w hist).trace) :=
  (runFrom_prov w hist _ (prov_init w)).prov

/-- the model's store *is* the replayed specification store, and `cache_enabled` the replayed flags, after every history -/
theorem store_is_replayed_spec (w : World R) (hist : List Op) :
    (∀ K, (runHist w hist).store K = ((replay w (runHist w hist).trace).store K).map (·.val)) ∧
    (∀ t, (runHist w hist).enabled t = (replay w (runHist w hist).trace).enabled t) :=
  ⟨(runHist_sync w hist).store, (runHist_sync w hist).enabled⟩

/-- a cached page that is hit is the whole response -/
theorem render_replays_page (w : World R) (st : St R) (t : Nat) (tm : Tmpl) (c : Env) (v : Str)
    (ht : w.tmpls[t]? = some tm) (hk : tm.page.kind = .page) (hc : tm.page.cached = true)
    (hb : tm.page.buffered = false) (hhome : tm.page.home = none) (hen : st.enabled t = true)
    (hs : visible w.be st t (backendKey ⟨w.be, tm, t, c⟩ st tm.page c) = some v) :
    (step w st (.render t c)).1 = .out v := by
  have hsc : scope (⟨w.be, tm, t, c⟩ : Params R) tm.page c none = c := by
    simp [scope, hk, isInline]
  have heff : eff (⟨w.be, tm, t, c⟩ : Params R) tm.page = ⟨w.be, tm, t, c⟩ := by simp [eff, hhome]
  have := run_inv_hit ⟨w.be, tm, t, c⟩ c tm.page none .plain tm.body .nil st v hc (by rw [heff]; exact hen)
    (by rw [hsc, heff]; exact hs)
  simp only [step, ht, this]
  simp [run, deliver, isCall, hk, returnsValue, hb]

example : (exTm "/a-b.html" "first ").page.kind = .page ∧ (exTm "/a-b.html" "first ").page.cached = true ∧
    (exTm "/a-b.html" "first ").page.buffered = false ∧ (exTm "/a-b.html" "first ").page.home = none ∧
    visible exW.be (runHist exW [.render 0 (ctx "1")]) 0
      (backendKey ⟨exW.be, exTm "/a-b.html" "first ", 0, ctx "2"⟩ (runHist exW [.render 0 (ctx "1")])
        (exTm "/a-b.html" "first ").page (ctx "2")) = some "first 1".toList := by decide +kernel

/-! ## key selection -/

/-- **key_selection.**  The key is the value of `cache_key` evaluated in the section's scope when the attribute is
    present, else the callable's name: `render_body`, `render_<name>` (top-level def, named block), `<name>` (nested
    def), `__M_anon_<line>` (anonymous block). -/
theorem key_selection (h : Hdr) (env' : Env) :
    keyOf h env' =
      match aGet h.attrs "cache_key".toList with
      | some e => evalExpr env' e
      | none =>
        match h.kind with
        | .page => "render_body".toList
        | .topDef => "render_".toList ++ h.name
        | .namedBlock => "render_".toList ++ h.name
        | .nestedDef => h.name
        | .anonBlock => "__M_anon_".toList ++ Nat.toDigits 10 h.line := by
  have hn := gen_names
  unfold keyOf fname
  rw [hn.2.2.2.1, hn.1, hn.2.1, hn.2.2.1]
  cases aGet h.attrs "cache_key".toList with
  | some e => rfl
  | none => cases h.kind <;> rfl

/-- the scope in which key and arguments are evaluated contains the def's own argument -/
theorem scope_binds_argument (P : Params R) (h : Hdr) (env : Env) (p : Str) (a : Expr) (hp : h.param = some p) :
    aGet (scope P h env (some a)) p = some (evalExpr env a) := by
  simp [scope, hp, aGet]

example : exF.param = some "p".toList := rfl

/-- the back end is called with the selected key, under the template's cache id, before anything else happens -/
theorem backend_called_with_selected_key (P : Params R) (st : St R) (h : Hdr) (env' : Env) :
    (afterCall P st h env').trace =
      .call (eff P h).tid .goc (moduleId (eff P h).tm.uri) (keyOf h env') (sentKw P st h env') :: st.trace ∧
    backendKey P st h env' = (moduleId (eff P h).tm.uri, P.be.regionOf
      (getCacheKw (eff P h).tm.cacheArgs (st.regions (eff P h).tid) (fname h) (sectionKw (eff P h).tm.page h env')).1, keyOf h env') :=
  ⟨rfl, rfl⟩

/-! ## arguments -/

/-- **args_precedence.**  When a callable goes to the back end for the first time (no `_def_regions` entry yet), each
    keyword argument is the section's own `cache_<k>` if it has one, else the `<%page>` tag's, else the Template's
    `cache_args[k]`. -/
theorem args_precedence (P : Params R) (st : St R) (h : Hdr) (env' : Env) (k : Str)
    (hfirst : aGet (st.regions (eff P h).tid) (fname h) = none) :
    aGet (getCacheKw (eff P h).tm.cacheArgs (st.regions (eff P h).tid) (fname h) (sectionKw (eff P h).tm.page h env')).1 k =
      match aGetLast (evalArgs env' (cacheAttrs h.attrs)) k with
      | some v => some v
      | none =>
        match aGetLast (evalArgs env' (cacheAttrs (eff P h).tm.page.attrs)) k with
        | some v => some v
        | none => aGet (eff P h).tm.cacheArgs k := by
  rw [getCacheKw_fst, hfirst]
  simp only [ite_self]
  rw [aGet_aUpdate_nodup _ _ _ (nodup_sectionKw _ _ _)]
  unfold sectionKw
  rw [aGet_aUpdate, aGet_aUpdate]
  cases aGetLast (evalArgs env' (cacheAttrs h.attrs)) k with
  | some v => rfl
  | none =>
    cases aGetLast (evalArgs env' (cacheAttrs (eff P h).tm.page.attrs)) k with
    | some v => rfl
    | none => simp [aGet]

example : aGet ((St.init exWF).regions 0) (fname exF) = none := rfl

/-- on `exWF` (Template `type=tt, foo=tf, zed=tz`; page `cache_type="tp" cache_foo="pf"`; def `cache_type="ta"
    cache_timeout="30"`; `pass_context`) the back end receives, keys sorted: -/
example : gocArgs (runHist exWF [.render 0 (ctx "1")]).trace "render_f".toList =
    [[("type".toList, .str "ta".toList), ("foo".toList, .str "pf".toList), ("zed".toList, .str "tz".toList),
      ("timeout".toList, .int 30), ("context".toList, .ctx)]] := by decide +kernel

/-- `timeout` (`timeoutKey`, see `gen_names`) reaches the back end as an int -/
theorem timeout_is_int (env' : Env) (as : List (Str × Expr)) (v : ArgV)
    (h : aGetLast (evalArgs env' as) timeoutKey = some v) : ∃ n, v = .int n := by
  unfold aGetLast evalArgs at h
  rw [← List.map_reverse] at h
  generalize as.reverse = l at h
  induction l with
  | nil => simp [aGet] at h
  | cons p r ih =>
    obtain ⟨k0, e0⟩ := p
    by_cases hk : k0 = timeoutKey
    · subst hk
      simp only [List.map_cons, aGet, if_true] at h
      cases h
      exact ⟨parseNat (evalExpr env' e0), by rw [argVal, if_pos rfl]⟩
    · simp only [List.map_cons, aGet, hk, if_false] at h
      exact ih h

example : aGetLast (evalArgs [] (cacheAttrs exF.attrs)) timeoutKey = some (.int 30) := by decide +kernel

/-- the rendering context is added under `context` (`contextKw`, see `gen_names`) iff the implementation asks for it
    (`pass_context`), unless an argument of that name was given; nothing else is touched -/
theorem context_iff_pass_context (P : Params R) (st : St R) (h : Hdr) (env' : Env)
    (hno : aGet (getCacheKw (eff P h).tm.cacheArgs (st.regions (eff P h).tid) (fname h) (sectionKw (eff P h).tm.page h env')).1
      contextKw = none) :
    aGet (sentKw P st h env') contextKw = (if P.be.passContext then some .ctx else none) ∧
    ∀ k, k ≠ contextKw → aGet (sentKw P st h env') k =
      aGet (getCacheKw (eff P h).tm.cacheArgs (st.regions (eff P h).tid) (fname h) (sectionKw (eff P h).tm.page h env')).1 k := by
  unfold sentKw addCtx
  constructor
  · cases P.be.passContext with
    | false => simpa using hno
    | true => simp only [if_true, aGet_aSetDefault, hno]; simp
  · intro k hk
    cases P.be.passContext with
    | false => rfl
    | true =>
      simp only [if_true, aGet_aSetDefault]
      cases aGet (getCacheKw (eff P h).tm.cacheArgs (st.regions (eff P h).tid) (fname h) (sectionKw (eff P h).tm.page h env')).1 k with
      | some x => rfl
      | none => simp; intro e; exact absurd e.symm hk

example : aGet (getCacheKw exTmF.cacheArgs ((St.init exWF).regions 0) (fname exF) (sectionKw exTmF.page exF [])).1
    contextKw = none := by decide +kernel

/-- once a callable has a `_def_regions` entry, that entry is what the back end gets -/
theorem args_frozen (P : Params R) (st : St R) (h : Hdr) (env' : Env) (r : Kw) (hne : fname h ≠ [])
    (hm : aGet (st.regions (eff P h).tid) (fname h) = some r) :
    (getCacheKw (eff P h).tm.cacheArgs (st.regions (eff P h).tid) (fname h) (sectionKw (eff P h).tm.page h env')).1 = r := by
  rw [getCacheKw_fst, hm]; simp [hne]

example : fname exF ≠ [] ∧ (aGet ((runHist exWF [.render 0 (ctx "1")]).regions 0) (fname exF)).isSome = true := by
  decide +kernel

/-- … and that entry never changes again, whatever the rest of the history is -/
theorem regions_frozen (w : World R) (st : St R) (ops : List Op) (t : Nat) (d : Str) (r : Kw)
    (h : aGet (st.regions t) d = some r) : aGet ((runFrom w st ops).regions t) d = some r :=
  runFrom_regMono w ops st st (fun _ _ _ h => h) t d r h

/-
OPEN (F17.1) – every `_def_regions` entry is Template ⊕ page ⊕ section arguments of a section of that name:

theorem args_every_render (w : World R) (hist : List Op) : MemoFromRender w (runHist w hist)

It fails: `Cache.invalidate_def(name)` (and `invalidate_body`, `invalidate_closure`) goes through `_get_cache_kw`
with `__M_defname` but without the section's arguments; issued before the callable's first trip to the back end it
creates the entry from the Template's `cache_args` alone, and every later render of the section is then handed that
entry.  The guard of `args_every_render_partial` is exactly "no such early invalidation".
-/

/-- **args_every_render_partial** – guard (`noEarlyInvalidation`): no `invalidate_body/def/closure` is issued for a
    callable before that callable's first trip to the back end, i.e. while it has no `_def_regions` entry yet.  Then every
    entry – hence, by `args_frozen`, the arguments of every `get_or_create` of every render and of every later
    `invalidate_*` – is Template ⊕ page ⊕ section arguments of a section of that name of that template, evaluated in the
    scope of the section's first cached render. -/
theorem args_every_render_partial (w : World R) (hist : List Op)
    (hg : noEarlyInvalidation w (St.init w) hist = true) : MemoFromRender w (runHist w hist) :=
  runFrom_memo_late w hist _ hg (fun _ _ _ h => by simp [St.init, aGet] at h)

/-- the same from any state whose `_def_regions` entries already are such arguments (e.g. the state after a guarded
    history): the guard is evaluated from that state -/
theorem args_every_render_partial_from (w : World R) (st : St R) (ops : List Op)
    (hst : MemoFromRender w st) (hg : noEarlyInvalidation w st ops = true) : MemoFromRender w (runFrom w st ops) :=
  runFrom_memo_late w ops st hg hst

example : noEarlyInvalidation exWF (runHist exWF [.render 0 (ctx "1")]) [.invalidateDef 0 "f".toList, .render 0 (ctx "2")] = true := by
  decide +kernel

/-- the guard admits invalidations after the first render (and everything else) … -/
example : noEarlyInvalidation exWF (St.init exWF)
    [.render 0 (ctx "1"), .invalidateDef 0 "f".toList, .render 0 (ctx "2"), .invalidate 0 "k".toList [],
     .set 0 "k".toList "v".toList [], .invalidateDef 0 "f".toList, .setEnabled 0 false] = true := by decide +kernel

/-- … and rejects exactly the early one -/
example : noEarlyInvalidation exWF (St.init exWF) [.invalidateDef 0 "f".toList, .render 0 (ctx "1")] = false := by
  decide +kernel

/-- a history without any `invalidate_body/def/closure` satisfies the guard -/
theorem no_callable_invalidation_is_not_early (w : World R) (hist : List Op) (st : St R)
    (hg : ∀ op ∈ hist, op.isCallableInvalidation = false) : noEarlyInvalidation w st hist = true := by
  induction hist generalizing st with
  | nil => rfl
  | cons op ops ih =>
    simp only [noEarlyInvalidation, Bool.and_eq_true]
    refine ⟨?_, ih _ (fun o ho => hg o (by simp [ho]))⟩
    have := hg op (by simp)
    cases op <;> simp [Op.isCallableInvalidation] at this <;> simp [Op.invalidatedCallable]

example : ∀ op ∈ [Op.render 0 (ctx "1"), .invalidate 0 "k".toList [], .set 0 "k".toList "v".toList [], .get 0 "k".toList [],
    .setEnabled 0 false], op.isCallableInvalidation = false := by decide

/-- **args_every_render_counterexample**: `invalidate_def('f')` before the first render: the def's `cache_type="ta"`,
    `cache_timeout="30"` and the page's `cache_foo="pf"` never reach the back end (it gets the Template's `type=tt`,
    `foo=tf`), while without the early invalidation they do. -/
theorem args_every_render_counterexample :
    gocArgs (runHist exWF [.invalidateDef 0 "f".toList, .render 0 (ctx "1")]).trace "render_f".toList =
      [[("type".toList, .str "tt".toList), ("foo".toList, .str "tf".toList), ("zed".toList, .str "tz".toList),
        ("context".toList, .ctx)]] ∧
    gocArgs (runHist exWF [.render 0 (ctx "1")]).trace "render_f".toList =
      [[("type".toList, .str "ta".toList), ("foo".toList, .str "pf".toList), ("zed".toList, .str "tz".toList),
        ("timeout".toList, .int 30), ("context".toList, .ctx)]] ∧
    ¬ MemoFromRender exWF (runHist exWF [.invalidateDef 0 "f".toList]) := by
  refine ⟨by decide +kernel, by decide +kernel, ?_⟩
  intro hm
  have hreg : aGet ((runHist exWF [.invalidateDef 0 "f".toList]).regions 0) "render_f".toList = some exTmF.cacheArgs := by
    decide +kernel
  obtain ⟨t', tm', c, h, env, ht', hh, _, hf, hr⟩ := hm 0 "render_f".toList _ hreg
  have htm' : tm' = exTmF := by
    cases t' with
    | zero => simp [exWF] at ht'; exact ht'.symm
    | succ n => simp [exWF] at ht'
  subst htm'
  have hh' : h = exTmF.page ∨ h = exF := by
    simpa [Tmpl.tree, hdrs, exTmF, exFBody] using hh
  rcases hh' with rfl | rfl
  · exact absurd hf (by decide +kernel)
  · have heff : eff (⟨exWF.be, exTmF, t', c⟩ : Params (Option ArgV)) exF = ⟨exWF.be, exTmF, t', c⟩ := rfl
    rw [heff] at hr
    have : aGet (aUpdate exTmF.cacheArgs (sectionKw exTmF.page exF env)) "timeout".toList = some (.int 30) := by
      rw [aGet_aUpdate_nodup _ _ _ (nodup_sectionKw _ _ _)]
      unfold sectionKw
      rw [aGet_aUpdate]
      have : aGetLast (evalArgs env (cacheAttrs exF.attrs)) "timeout".toList = some (.int 30) := by
        have hc : cacheAttrs exF.attrs = [("type".toList, [.lit "ta".toList]), ("timeout".toList, [.lit "30".toList])] := by
          decide +kernel
        rw [hc]
        simp only [evalArgs, List.map_cons, List.map_nil, aGetLast, List.reverse_cons, List.reverse_nil, List.nil_append,
          List.cons_append]
        have e1 : argVal env "timeout".toList [.lit "30".toList] = .int 30 := by
          simp only [argVal, evalExpr, List.flatMap_cons, List.flatMap_nil, evalPart, List.append_nil]
          decide +kernel
        rw [e1]
        rfl
      rw [this]
    rw [← hr] at this
    exact absurd this (by decide +kernel)

/-! ## invalidation -/

/-- **invalidate_targets_key.**  `Cache.invalidate(key, **kw)` with `__M_defname = d` removes exactly the entry
    (cache id of the template, region selected by the arguments, `key`) – nothing else changes in the store – where
    the arguments are the callable's `_def_regions` entry when `d` has one, else `cache_args ⊕ kw`; the back end sees
    exactly those arguments. -/
theorem invalidate_targets_key (be : Backend R) (tm : Tmpl) (t : Nat) (st : St R) (key : Str) (kw : Kw) (d : Str) :
    let args := if d = [] then aUpdate tm.cacheArgs kw else
      match aGet (st.regions t) d with
      | some r => r
      | none => aUpdate tm.cacheArgs kw
    let st' := invalidateCore be tm t st key kw d
    (∀ K, st'.store K = if K = (moduleId tm.uri, be.regionOf args, key) then none else st.store K) ∧
    st'.trace = .call t .inv (moduleId tm.uri) key args :: st.trace ∧
    st'.enabled = st.enabled := by
  intro args st'
  refine ⟨fun K => ?_, ?_, rfl⟩
  · simp only [st', args, invalidateCore, del_store, emit_store, setRegions_store, getCacheKw_fst]; rfl
  · simp only [st', args, invalidateCore, del_trace, emit_trace, setRegions_trace, getCacheKw_fst]; rfl

/-- what the four programmatic invalidations address -/
theorem invalidate_ops (w : World R) (st : St R) (t : Nat) (tm : Tmpl) (ht : w.tmpls[t]? = some tm) (d k : Str) (kw : Kw) :
    (step w st (.invalidateBody t)).2 = invalidateCore w.be tm t st "render_body".toList [] "render_body".toList ∧
    (step w st (.invalidateDef t d)).2 =
      invalidateCore w.be tm t st ("render_".toList ++ d) [] ("render_".toList ++ d) ∧
    (step w st (.invalidateClosure t d)).2 = invalidateCore w.be tm t st d [] d ∧
    (step w st (.invalidate t k kw)).2 = invalidateCore w.be tm t st k kw [] := by
  have hn := gen_names
  have hb := gen_inv_body
  have hd := gen_inv_def
  refine ⟨?_, ?_, ?_, ?_⟩ <;> simp only [step, ht, hb.1, hb.2, hd.1, hd.2, hn.1, hn.2.1]

example : exW.tmpls[0]? = some (exTm "/a-b.html" "first ") := rfl

/-- Invalidating a callable by its name makes its next cached invocation (without `cache_key`) a miss, in whatever
    scope: invalidation and section agree on cache id, region (both read the callable's `_def_regions` entry) and key. -/
theorem invalidate_forces_miss (P : Params R) (st : St R) (h : Hdr) (env' : Env)
    (hk : aGet h.attrs cacheKeyAttr = none) (hne : fname h ≠ []) :
    let st' := invalidateCore P.be (eff P h).tm (eff P h).tid st (fname h) [] (fname h)
    st'.store (backendKey P st' h env') = none := by
  have hmemo := getCacheKw_memo (eff P h).tm.cacheArgs (st.regions (eff P h).tid) (fname h) [] hne
  simp only [invalidateCore, backendKey, del_store, del_regions, emit_regions, setRegions_regions, if_true]
  have h1 : (getCacheKw (eff P h).tm.cacheArgs (getCacheKw (eff P h).tm.cacheArgs (st.regions (eff P h).tid) (fname h) []).2 (fname h)
      (sectionKw (eff P h).tm.page h env')).1 = (getCacheKw (eff P h).tm.cacheArgs (st.regions (eff P h).tid) (fname h) []).1 := by
    rw [getCacheKw_fst, hmemo]; simp [hne]
  rw [h1]
  simp [keyOf, hk]

example : aGet exG.attrs cacheKeyAttr = none ∧ fname exG ≠ [] := by decide +kernel

/-- `invalidate_def(d)` addresses exactly the callable of the top-level def / named block `d`; `invalidate_closure(d)`
    the nested def `d`; `invalidate_body()` the page. -/
theorem invalidate_def_is_callable_name (h : Hdr) :
    (h.kind = .topDef ∨ h.kind = .namedBlock → fname h = invDefKeyPrefix ++ h.name ∧ fname h = invDefDefnamePrefix ++ h.name) ∧
    (h.kind = .nestedDef → fname h = h.name) ∧
    (h.kind = .page → fname h = invBodyKey ∧ fname h = invBodyDefname) := by
  have hb := gen_inv_body
  have hd := gen_inv_def
  refine ⟨?_, ?_, ?_⟩
  · rintro (hk | hk) <;> simp [fname, hk, hd.1, hd.2]
  · intro hk; simp [fname, hk]
  · intro hk; simp [fname, hk, hb.1, hb.2]

/-! ## delivery: cached × buffered × filtered -/

/-- **cached_delivers_like_uncached.**  A cached section hands its content over the way the uncached section does:
    returned iff `buffered` (then an expression filter at the call site applies to it; a block's call site writes it),
    written otherwise – for module-level callables and, since `write_inline_def` passes `buffered` on
    (`gen_inline_passes_buffered`, regenerated from `codegen.py`), for nested defs and anonymous blocks too; and what it
    writes goes to the buffer that is on top of the context's buffer stack when it is CALLED (under `capture`: into the
    captured text), because the decorator fetches the writer itself (`gen_decorator_fetches_writer`). -/
theorem cached_delivers_like_uncached (h : Hdr) (site : Site) (v : Str) :
    deliver h site v = deliver { h with cached := false } site v := by
  have hg := gen_inline_passes_buffered
  have hw := gen_decorator_fetches_writer
  cases hc : h.cached <;> simp [deliver, returnsValue, hc, hg, hw]

/-- `<%def name="g()" cached="True" buffered="True">` nested in a def, called as `${g() | wrapS}` with content `G`:
    `<G>` cached and uncached; a buffered anonymous block shows its content where it stands (/repo 248d875), cached or not -/
example :
    deliver exG .filtered "G".toList = "<G>".toList ∧
    deliver { exG with cached := false } .filtered "G".toList = "<G>".toList ∧
    deliver { exG with kind := .anonBlock } .plain "G".toList = "G".toList ∧
    deliver { exG with kind := .anonBlock, cached := false } .plain "G".toList = "G".toList ∧
    -- `${capture(g) | wrapS}` of the unbuffered cached nested def: what it writes goes to the buffer `capture` pushed
    deliver { exG with buffered := false } .capturedFiltered "G".toList = "<G>".toList ∧
    deliver { exG with buffered := false, cached := false } .capturedFiltered "G".toList = "<G>".toList ∧
    -- `capture` drops what a buffered callable returns
    deliver exG .captured "G".toList = [] := by decide +kernel

/-- the section's own filter is applied before the value is stored, so a hit replays the filtered text -/
theorem stored_value_is_filtered (P : Params R) (env' : Env) (h : Hdr) (body : Items) (st : St R) :
    sectionValue P env' h body st =
      if h.filtered then '[' :: (run P env' body st).1 ++ [']'] else (run P env' body st).1 := by
  simp [sectionValue, finish, wrapD]

/-! ## entries of one template are never served to another -/

/-
OPEN (F5) – what a template is served was put into the back end by that same template:

theorem no_cross_template_service (w : World R) (hist : List Op) : traceAll w evOwn (runHist w hist).trace = true

Entries are keyed by (cache id, region, key) and the cache id is the module name `re.sub(r"\W", "_", uri)`, which
maps `/a-b.html` and `/a_b.html` to the same id.
-/

/-- **no_cross_template_service_partial** – hypothesis: the module ids of the world's templates are pairwise distinct
    (and the call trees name the declaring template of an inherited section truthfully, `HomesOK`).  "The same template"
    is the template that DECLARES the section: under `<%inherit>` a base template's cached defs and blocks use the base's
    cache whichever child is rendered (`eff`; `gen_local_is_declaring_template`), so what a child's render is served from
    the base's sections was put there by the base's sections – in this or another child's render – and never by the
    child's own sections of the same name or line, nor the other way round. -/
theorem no_cross_template_service_partial (w : World R) (hist : List Op) (hd : IdsDistinct w) (hw : HomesOK w) :
    traceAll w evOwn (runHist w hist).trace = true :=
  (runFrom_own w hd hw hist _ (own_init w)).own

example : HomesOK exWDistinct := homesOK_of_b _ (by decide +kernel)

/-- an inheritance chain (`exWInherit`: two children of one base, all three declare a cached def `side`): the base's
    `side` runs once for both children and is re-created after `base.cache.invalidate_def('side')` – not after the same
    call on a child's cache –, each child's own `side` lives in that child's cache under the same key -/
example :
    HomesOK exWInherit ∧
    responses exWInherit (St.init exWInherit)
      [.render 1 [], .render 2 [], .invalidateDef 1 "side".toList, .render 2 [], .invalidateDef 0 "side".toList, .render 2 []] =
      [.out "[BC1B]".toList, .out "[BC2B]".toList, .unit, .out "[BC2B]".toList, .unit, .out "[BC2B]".toList] ∧
    ticksOf (runHist exWInherit
      [.render 1 [], .render 2 [], .invalidateDef 1 "side".toList, .render 2 [], .invalidateDef 0 "side".toList, .render 2 []]).trace =
      ["side of B".toList, "side of C1".toList, "side of C2".toList, "side of B".toList] ∧
    traceAll exWInherit evOwn (runHist exWInherit
      [.render 1 [], .render 2 [], .invalidateDef 0 "side".toList, .render 1 []]).trace = true :=
  ⟨homesOK_of_b _ (by decide +kernel), by decide +kernel, by decide +kernel, by decide +kernel⟩

example : IdsDistinct exWDistinct := by
  intro i j ti tj hi hj hc
  match i, j with
  | 0, 0 => rfl
  | 1, 1 => rfl
  | 0, 1 =>
    simp [exWDistinct] at hi hj; subst hi; subst hj
    exact absurd hc (by decide +kernel)
  | 1, 0 =>
    simp [exWDistinct] at hi hj; subst hi; subst hj
    exact absurd hc (by decide +kernel)
  | i + 2, _ => simp [exWDistinct] at hi
  | 0, j + 2 => simp [exWDistinct] at hj
  | 1, j + 2 => simp [exWDistinct] at hj

/-- **no_cross_template_service_counterexample**: `/a-b.html` and `/a_b.html` in one lookup sharing one back end,
    both with a cached page: both get the cache id `_a_b_html`; the second template's first render executes nothing
    and returns the first template's page. -/
theorem no_cross_template_service_counterexample :
    moduleId "/a-b.html".toList = "_a_b_html".toList ∧ moduleId "/a_b.html".toList = "_a_b_html".toList ∧
    responses exW (St.init exW) exHist = [.out "first 1".toList, .out "first 1".toList] ∧
    ticksOf (runHist exW exHist).trace = ["page".toList] ∧
    traceAll exW evOwn (runHist exW exHist).trace = false ∧
    responses exWDistinct (St.init exWDistinct) exHist = [.out "first 1".toList, .out "second 2".toList] := by
  decide +kernel

/-! ## `starttime`: a template that replaces another one under the same cache id is not served its predecessor's entries

`Cache.starttime` is the compile stamp of the template (`module._modified_time`); mako's Beaker implementation hands it to
Beaker on every call, with or without a timeout (`gen_beaker_starttime`, regenerated from `ext/beaker_cache.py`), and Beaker
treats older entries as absent.  This is the `honoursStarttime` part of the abstract back end's contract; the in-tree
reference back end of the harness implements it too, dogpile.cache's plugin does not.  It is also what bounds F5 on Beaker:
of two *live* templates with one cache id only entries stored after **both** were compiled are shared; a template compiled
later (a reload, a second `put_string`) starts clean.
-/

/-- an entry stored before the asking template's compile stamp is not served: the invocation is a miss (see
    `miss_creates_uncached_output`; the stale entry is overwritten) and `cache.get` finds nothing -/
theorem stale_entry_not_served (be : Backend R) (st : St R) (tid : Nat) (K : Key R)
    (hh : be.honoursStarttime = true) (hold : st.times K < st.stamp tid) : visible be st tid K = none := by
  unfold visible
  cases st.store K <;> simp [hh, hold]

example : exBe.honoursStarttime = true ∧
    (runHist exWTakeover [.render 0 (ctx "1"), .compile 1]).times (backendKey ⟨exBe, exTm "/p.html" "v2 ", 1, ctx "2"⟩
        (runHist exWTakeover [.render 0 (ctx "1"), .compile 1]) (exPage true) (ctx "2")) <
      (runHist exWTakeover [.render 0 (ctx "1"), .compile 1]).stamp 1 := by decide +kernel

/-- **served_entries_are_fresh.**  For every world whose back end honours `starttime` and every history: whatever is
    served was stored no earlier than the serving template was (last) compiled. -/
theorem served_entries_are_fresh (w : World R) (hist : List Op) :
    traceAll w (evFresh w.be) (runHist w hist).trace = true :=
  (runHist_sync w hist).fresh

/-- **recompiled_template_starts_clean.**  After any history, a template that is compiled *now* (the URI re-bound with
    `put_string`, a file reloaded by the lookup, …) finds nothing of what the back end holds – whoever put it there, under
    whatever cache id – when the back end honours `starttime`. -/
theorem recompiled_template_starts_clean (w : World R) (hist : List Op) (t : Nat) (tm : Tmpl) (K : Key R)
    (ht : w.tmpls[t]? = some tm) (hh : w.be.honoursStarttime = true) :
    visible w.be (runHist w (hist ++ [.compile t])) t K = none := by
  have happ : ∀ (ops : List Op) (st0 : St R),
      runFrom w st0 (ops ++ [.compile t]) = (step w (runFrom w st0 ops) (.compile t)).2 := by
    intro ops
    induction ops with
    | nil => intro st0; rfl
    | cons op ops ih => intro st0; simpa [runFrom] using ih _
  have hrun : runHist w (hist ++ [.compile t]) = (step w (runHist w hist) (.compile t)).2 := happ hist _
  have hsync := runHist_sync w hist
  rw [hrun]
  simp only [step, ht]
  unfold visible
  cases hs : (runHist w hist).store K with
  | none => simp [hs]
  | some v =>
    have := hsync.past K v hs
    simp [hs, hh, this]

example : exWTakeover.tmpls[1]? = some (exTm "/p.html" "v2 ") ∧ exWTakeover.be.honoursStarttime = true := ⟨rfl, rfl⟩

/-- `put_string` twice on one URI (index 1 replaces index 0): with `starttime` honoured the second template runs its own
    body and renders its own text; a back end that ignores `starttime` serves it the first template's page -/
example :
    responses exWTakeover (St.init exWTakeover) [.render 0 (ctx "1"), .compile 1, .render 1 (ctx "2"), .render 1 (ctx "3")] =
      [.out "v1 1".toList, .unit, .out "v2 2".toList, .out "v2 2".toList] ∧
    ticksOf (runHist exWTakeover [.render 0 (ctx "1"), .compile 1, .render 1 (ctx "2"), .render 1 (ctx "3")]).trace =
      ["page".toList, "page".toList] ∧
    responses exWTakeoverNoStart (St.init exWTakeoverNoStart) [.render 0 (ctx "1"), .compile 1, .render 1 (ctx "2")] =
      [.out "v1 1".toList, .unit, .out "v1 1".toList] := by decide +kernel

/-! ## `cache.set` / `cache.get` -/

/-- **set_then_get.**  What `cache.set(k, v, **kw)` puts, `cache.get(k, **kw)` returns (the `CacheImpl` contract; mako's
    own Beaker implementation has `set` – `gen_beaker_defines_set`, regenerated from `ext/beaker_cache.py`). -/
theorem set_then_get (w : World R) (st : St R) (t : Nat) (tm : Tmpl) (k v : Str) (kw : Kw)
    (ht : w.tmpls[t]? = some tm) (hle : st.stamp t ≤ st.clock) :
    (step w (step w st (.set t k v kw)).2 (.get t k kw)).1 = .got (some v) := by
  simp [step, ht, visible]
  omega

/-- the hypothesis of `set_then_get` holds after every history: no template is stamped in the future -/
theorem stamps_le_clock (w : World R) (hist : List Op) (t : Nat) :
    (runHist w hist).stamp t ≤ (runHist w hist).clock :=
  (runHist_sync w hist).le t

example : exW.tmpls[0]? = some (exTm "/a-b.html" "first ") := rfl

/-- … and a `get` after `invalidate` finds nothing -/
theorem invalidate_then_get (w : World R) (st : St R) (t : Nat) (tm : Tmpl) (k : Str) (kw : Kw)
    (ht : w.tmpls[t]? = some tm) :
    (step w (step w st (.invalidate t k kw)).2 (.get t k kw)).1 = .got none := by
  simp [step, ht, invalidateCore, getCacheKw, visible]

/-- a value put with `set` under a section's key is what the section then serves (a `set` is an entry like any other) -/
example : responses exW (St.init exW) [.set 0 "render_body".toList "SET".toList [], .render 0 (ctx "1")] =
    [.unit, .out "SET".toList] := by decide +kernel

end MakoModel.C17
