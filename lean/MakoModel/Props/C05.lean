import MakoModel.Codegen.CallsCor
import MakoModel.Codegen.AttrsLemmas2
import MakoModel.Codegen.Deco
import MakoModel.Codegen.AttrsDefaults
/-!
# C05 – defs write at the call site; buffering, capture and calls with content

Models: `Target/Model.lean` (target language, buffer stack, caller stack, `nextcaller`), `Codegen/Model.lean`
(`write_render_callable`, `write_def_finish`, `visitCallTag` as structured code), `Codegen/Spec.lean` (the
specification renderer: **no stacks** – output is a returned value, a buffered def *is* the string its content
renders to, `caller` is an argument: a def gets the namespace handed over at its call, the content of a `<%call>`
gets the `caller` of the scope it is written in), `Codegen/Attrs.lean` (`Tag._parse_attributes`,
`CallNamespaceTag`, `get_argument_expressions`), `Codegen/AttrsDefaults.lean` (the defaults of a signature are printed back
from their syntax trees: the signature model composed with C19's printer model `PyExpr/Print.lean`).  Helper lemmas: `Codegen/Calls*.lean`, `Codegen/AttrsLemmas*.lean`.

`GoodAll ts` (`Codegen/Calls.lean`, decidable) is the guard of the refinement.  Covered, at any nesting depth: text,
`${expr | filters}` with def calls by name, `capture(f, …)`, `caller.x(…)`, concatenations and calls as arguments of
calls; `% if / for / while / try`, `loop`, `<%text filter>`, `return / break / continue`; **`<%def>`s – top-level,
nested in other defs, and written inside a `<%call>` (reached as `caller.name(…)` or by name from the call's content):
directly or below a control line of the content (the defs of a *nested* `<%call>` belong to that call's own `ccall`
only) – with any combination of `buffered` / `filter=` / `decorator=`;
`<%call>` with a body and body arguments, in loops, in defs, in other call bodies; `caller.body(…)` evaluated any number
of times; `<%block>`s rendered in place – named blocks of the template body (module-level callables) and anonymous or
named blocks in defs and loops (closures) – with `buffered` / `filter=` like defs (the block's place writes what the
callable returns: a buffered block shows its content, after `buffer_filters`), entered
without content (`caller` is empty inside), sharing the loop stack of the scope they are written in; `<%include>` of
another template of the set (its body as a callable of its own module; its named blocks and defs are that module's).**
In the structured template block names are ≥ `blockBase` (a block is not callable by a name of the template).

NOT covered (named by the guard):
* `cached=` – the replacement callable `write_cache_decorator` writes looks its `__M_<name>` up by name when it is
  called; the refinement's closure relation (`ClosRel`) pairs every name of the target with a callable of the
  specification, which has no second callable for the inner name: it needs an invariant "wrapper and inner are bound
  together in every reachable scope", threaded through all lemmas about `ClosRel`.  (The reduction itself is easy: the
  inner callable is the code of the same def with `buffered` instead of `cached`.)
* a `<%block>` with defs or blocks inside, directly in the content of a `<%call>` (mako writes it into `ccall` *and*
  hoists its closures into `body()`), or reading the `loop` of a `% for` around it (the guard decides "a loop is
  active" per callable; a block's closure is written before the loop is entered), and `cached=` blocks.
* two callables of the same name in one scope (Python keeps the last definition, the model the first).
For those the frame-level theorems of C13 hold and the behaviour is compared on every run.  The flag `cv` of the guard
only marks defs written inside a `<%call>` that do not mention `caller` (their `caller` variable is the enclosing
`ccall` parameter); it excludes nothing a template can contain.

OPEN – statements that are false of mako's code, each kept with a `…_counterexample` theorem and a recorded finding:
* F-C05-2: `<% return %>` inside a buffering def loses the def's content (guard flag `buf`;
  `def_call_refines_spec_counterexample_return`);
* F-C05-1b: `caller.x()` / a def call inside the argument list of a `<%call expr>` – a def called by name while the
  caller is pending takes it for its own (guard flag `inCE`; `def_call_refines_spec_counterexample_pending_leak`);
* F-C05-attr-braces: the split regex of `Tag._parse_attributes` mishandles `{` … `}` and quoted `}` inside `${…}`
  (guard `wf` of `attr_concat_order`; `attr_concat_order_counterexample`);
* F-C05-sig-barestar: `get_argument_expressions` drops a bare `*` (guard of `signature_reemitted_partial`;
  `signature_reemitted_counterexample`).
Recorded by the Lean-free oracle only (no statement of this file is false because of it): F-C05-6 – a def whose default
mentions a name cannot be called by name from a scope in which its own name sorts before that name
(`write_variable_declares` writes callables and `name = context.get(…)` lines in one alphabetical pass).

All theorems quantify over every template set, every crash point `k`, every fuel and every start state related
to the specification's arguments (`RelC` / `RelW`; true of the initial state, preserved by every execution).
`≠ .timeout` excludes only the model's out-of-fuel artefact.
-/
namespace MakoModel.C05
open MakoModel.Target MakoModel.Codegen MakoModel.Codegen.Calls

/-! ## the refinement -/

/-- **Refinement, whole render.**  For every guarded template set, every crash point and every combination of
    `error_handler` / `format_exceptions`: `Template.render()` of the generated module produces the output of
    `Spec.render` and the same kind of result.

    PARTIAL – guard `GoodAll` (see the header).  OPEN: the unguarded statement; it is false of the model because it
    is false of mako (`def_call_refines_spec_counterexample_*`). -/
theorem def_call_refines_spec_partial (ts : List (Tmpl × Option Bool)) (k : Nat) (t : Tmpl) (ieh : Option Bool)
    (hG : GoodAll ((t, ieh) :: ts)) (o : Opts) (fuel : Nat)
    (hr : (render (progOf ((t, ieh) :: ts) k) o fuel).1 ≠ .timeout) :
    ∃ m0, ∀ m, m0 ≤ m →
      (Spec.render ⟨(t, ieh) :: ts, k⟩ o m).2 = (render (progOf ((t, ieh) :: ts) k) o fuel).2.1 ∧
      SameKind (render (progOf ((t, ieh) :: ts) k) o fuel).1 (Spec.render ⟨(t, ieh) :: ts, k⟩ o m).1 :=
  render_refines ts k t ieh hG o fuel hr

/-- non-vacuous: the sample (a buffered+filtered def used inside a concatenation, a def with a nested buffered def that
    calls a filter-only def between two `caller.body(…)`, a decorated def, a `<%call>` with a body argument in a loop, `capture`) is guarded;
    both renderers give the same text – also with crash point 5 (inside the first call body) -/
example : GoodAll [(sampleCalls, none)] ∧
    (render (progOf [(sampleCalls, none)] 99) ⟨none, false⟩ 200).2.1
      = "ap1([q])(<i0(2(f))d1.3.0>2(f){n}<z0(2(f))d1.3.0>)(<j0(2(f))d1.3.0>2(f){n}<z0(2(f))d1.3.0>)e".toList ∧
    (Spec.render ⟨[(sampleCalls, none)], 99⟩ ⟨none, false⟩ 200).2
      = "ap1([q])(<i0(2(f))d1.3.0>2(f){n}<z0(2(f))d1.3.0>)(<j0(2(f))d1.3.0>2(f){n}<z0(2(f))d1.3.0>)e".toList ∧
    (render (progOf [(sampleCalls, none)] 5) ⟨none, false⟩ 200).2.1 = "ap1([q])(<i0(2(f))d1.3.0>".toList ∧
    (render (progOf [(sampleCalls, none)] 99) ⟨none, false⟩ 200).1 ≠ .timeout := by
  refine ⟨?_, by decide +kernel, by decide +kernel, by decide +kernel, by decide +kernel⟩
  intro p hp
  simp only [List.mem_singleton] at hp
  subst hp
  decide

/-- non-vacuous for defs written inside a `<%call>`: `d5` (filtered) is reached through `caller.d5('a')`, `d6` is called
    with content from inside the call body and uses the caller of *its own* call -/
example : GoodAll [(sampleNested, none)] ∧
    (render (progOf [(sampleNested, none)] 99) ⟨none, false⟩ 200).2.1 = "{[2(na)|Bi:OWN]}".toList ∧
    (Spec.render ⟨[(sampleNested, none)], 99⟩ ⟨none, false⟩ 200).2 = "{[2(na)|Bi:OWN]}".toList := by
  refine ⟨?_, by decide +kernel, by decide +kernel⟩
  intro p hp
  simp only [List.mem_singleton] at hp
  subst hp
  decide

/-- non-vacuous for the defs of a `<%call>` below a control line and in a nested `<%call>`: `d5` (under `% if`) is
    reached as `caller.d5('a')` by the callee and by name from the content, `d7` (a def of the inner `<%call>`) is
    reached by the *inner* callee as `caller.d7()` and by name from the inner content; crash point 1 is the filter of
    the second `d5` call -/
example : GoodAll [(sampleDeep, none)] ∧
    (render (progOf [(sampleDeep, none)] 99) ⟨none, false⟩ 200).2.1 = "[2(na)|X(s:Is)B2(nb)]".toList ∧
    (Spec.render ⟨[(sampleDeep, none)], 99⟩ ⟨none, false⟩ 200).2 = "[2(na)|X(s:Is)B2(nb)]".toList ∧
    (render (progOf [(sampleDeep, none)] 1) ⟨none, false⟩ 200).2.1 = "[2(na)|X(s:Is)B".toList ∧
    (Spec.render ⟨[(sampleDeep, none)], 1⟩ ⟨none, false⟩ 200).2 = "[2(na)|X(s:Is)B".toList := by
  refine ⟨?_, by decide +kernel, by decide +kernel, by decide +kernel, by decide +kernel⟩
  intro p hp
  simp only [List.mem_singleton] at hp
  subst hp
  decide

/-- regression example for the repaired defect F-C05-5 (/repo 4a9e6c6): a def of a *nested* `<%call>` is not exported
    to the enclosing call – the outer callee's `caller.d7()` fails (`excNoCaller` after `[`) in the generated code and
    in the specification alike, and the template is inside the guard (before the repair it rendered `[inner|(x)]`) -/
example : GoodAll [(quirkOuterExport, none)] ∧
    (render (progOf [(quirkOuterExport, none)] 99) ⟨none, false⟩ 200).1 = .exc excNoCaller ∧
    (render (progOf [(quirkOuterExport, none)] 99) ⟨none, false⟩ 200).2.1 = "[".toList ∧
    (Spec.render ⟨[(quirkOuterExport, none)], 99⟩ ⟨none, false⟩ 200).2 = "[".toList := by
  refine ⟨?_, by decide +kernel, by decide +kernel, by decide +kernel⟩
  intro p hp
  simp only [List.mem_singleton] at hp
  subst hp
  decide

/-- non-vacuous for `<%block>` and `<%include>`: a named block of the template body, an anonymous block in a loop
    (with a loop of its own), an anonymous block in a def, and an included template with a named block of the same
    name and a buffered block (whose content is written where the block stands: `z`, /repo 248d875); with crash point 0
    the filter of the first block fails and its content is lost -/
example : GoodAll [(sampleBlocks, none), (sampleIncluded, none)] ∧
    (render (progOf [(sampleBlocks, none), (sampleIncluded, none)] 99) ⟨none, false⟩ 200).2.1
      = "a2(x[q])2(0u1i)2(0u1j)IkzJ(2(2.3.0))".toList ∧
    (Spec.render ⟨[(sampleBlocks, none), (sampleIncluded, none)], 99⟩ ⟨none, false⟩ 200).2
      = "a2(x[q])2(0u1i)2(0u1j)IkzJ(2(2.3.0))".toList ∧
    (render (progOf [(sampleBlocks, none), (sampleIncluded, none)] 0) ⟨none, false⟩ 200).2.1 = "a".toList ∧
    (Spec.render ⟨[(sampleBlocks, none), (sampleIncluded, none)], 0⟩ ⟨none, false⟩ 200).2 = "a".toList ∧
    (render (progOf [(sampleBlocks, none), (sampleIncluded, none)] 99) ⟨none, false⟩ 200).1 ≠ .timeout := by
  refine ⟨?_, by decide +kernel, by decide +kernel, by decide +kernel, by decide +kernel, by decide +kernel⟩
  intro p hp
  simp only [List.mem_cons, List.mem_nil_iff, or_false] at hp
  rcases hp with rfl | rfl <;> decide

/-- **Refinement, any construct in any scope**: the statements the generator emits for a guarded sub-template
    append to the buffer on top exactly what `Spec.snodes` returns, with the same outcome, counter and variables,
    and keep the locals that denote `caller`, the closures and the module. -/
theorem def_call_refines_spec_construct_partial (ts : List (Tmpl × Option Bool)) (k : Nat) (hG : GoodAll ts)
    (t : Tmpl) (sc : Scope) (inLoop buffering cv cb : Bool) (hg : Good sc inLoop buffering cv cb t = true)
    (fuel : Nat) (l : Loc) (σ : St) (E : Spec.Env) (hR : RelC cv l σ E) (hn : σ.next = [])
    (hil : inLoop = true → E.loops ≠ []) (hl : LocOK l) (hσ : StOK σ) (i : Nat) (topc : Str)
    (rest : List (Nat × Str)) (hb : σ.bufs = (i, topc) :: rest) (hw : l.writer = i) (o : Outcome) (l' : Loc) (σ' : St)
    (he : exec (progOf ts k) fuel (stmts sc t) l σ = (o, l', σ')) (ho : o ≠ .timeout) :
    ∃ out vars', σ'.bufs = (i, topc ++ out) :: rest ∧
      (∃ m0, ∀ m, m0 ≤ m → Spec.snodes ⟨ts, k⟩ m t E σ.cnt = ⟨conv o, out, σ'.cnt, vars'⟩) ∧
      (∀ x, lookup x l'.vars = lookup x vars') ∧ Keep l l' :=
  have h := (rc_all ts k hG fuel).stmt t sc inLoop buffering cv cb l σ E i topc rest o l' σ' hg hR hn hil hl hσ hb hw he ho
  let ⟨out, vars', h1, h2, h3, h4, _⟩ := h
  ⟨out, vars', h1, h2, h3, h4⟩

/-- non-vacuous: guard and state relation hold for a `<%call>` with body in a loop, from the initial state -/
example : Good (mainScope sampleCalls) false false true false sampleCalls = true ∧
    RelC true { Loc.init 0 with caller := [] } { St.init with frames := [[]] }
      { vars := [], defs := [], caller := [], loops := [], nb := 1, nf := 1, mod := 0 } :=
  ⟨by decide, ⟨fun _ => rfl, ⟨[], rfl⟩, rfl, rfl, fun _ _ => by simp [Loc.init, lookup, OptRel], rfl,
    fun _ => ⟨[], rfl, NSRel.nil⟩, NSRel.nil⟩⟩

/-- **Refinement, expressions**: evaluating a guarded expression – def calls by name (also inside concatenations
    and argument lists), `capture`, `caller.x(…)` – appends what `Spec.seval` calls "text written", yields the same
    value or exception, and leaves the caller stack, the loop stack and `nextcaller` exactly as they were. -/
theorem def_call_refines_spec_expression_partial (ts : List (Tmpl × Option Bool)) (k : Nat) (hG : GoodAll ts)
    (e : Expr) (inLoop inCallExpr cv : Bool) (hg : GoodE inLoop inCallExpr cv e = true)
    (fuel : Nat) (l : Loc) (σ : St) (E : Spec.Env) (pend : Spec.SNS) (hR : RelC cv l σ E) (hN : NSRel σ.next pend)
    (hce : inCallExpr = false → σ.next = []) (hil : inLoop = true → E.loops ≠ []) (hl : LocOK l) (hσ : StOK σ)
    (i : Nat) (topc : Str) (rest : List (Nat × Str)) (hb : σ.bufs = (i, topc) :: rest) (r : VRes) (σ' : St)
    (he : eval (progOf ts k) fuel e l σ = (r, σ')) (hr : r ≠ .timeout) :
    ∃ out, σ'.bufs = (i, topc ++ out) :: rest ∧ σ'.frames = σ.frames ∧ σ'.loops = σ.loops ∧ σ'.next = σ.next ∧
      ∃ m0, ∀ m, m0 ≤ m → Spec.seval ⟨ts, k⟩ m e E pend σ.cnt = ⟨convV r, out, σ'.cnt⟩ :=
  let ⟨out, h1, p, h3⟩ := (rc_all ts k hG fuel).eval e inLoop inCallExpr cv l σ E pend i topc rest r σ' hg hR hN hce hil hl hσ
    hb he hr
  ⟨out, h1, p.1, p.2.1, p.2.2, h3⟩

example : GoodE false false true (.cat (.lit ['p']) (.call 1 [.capture 3 []])) = true := by decide

/-- the unguarded refinement is false of the model, because it is false of mako (finding F-C05-2 / C13's quirk):
    `<% return %>` in a buffered def loses the content written before it -/
theorem def_call_refines_spec_counterexample_return :
    GoodAll [(quirkTmpl, none)] = False ∧
    (render (progOf [(quirkTmpl, none)] 99) ⟨none, false⟩ 100).2.1 = "[]".toList ∧
    (Spec.render ⟨[(quirkTmpl, none)], 99⟩ ⟨none, false⟩ 100).2 = "[x]".toList := by
  refine ⟨?_, by decide +kernel, by decide +kernel⟩
  refine propext ⟨fun h => ?_, False.elim⟩
  have := h (quirkTmpl, none) List.mem_cons_self
  revert this
  decide

/-- … and `caller.x()` inside the argument list of a `<%call expr>` (what remains of finding F-C05-1): while the
    arguments are evaluated the caller is pending, and a def called by name in the meantime – here `d2()` from the
    content that `caller.body()` renders – takes it for its own (`(F)`), where the specification (and the
    documentation: `d2` is called without content) has no caller (exception 2) -/
theorem def_call_refines_spec_counterexample_pending_leak :
    GoodTop quirkLeak = false ∧
    (render (progOf [(quirkLeak, none)] 99) ⟨none, false⟩ 200).1 = .val [] ∧
    (render (progOf [(quirkLeak, none)] 99) ⟨none, false⟩ 200).2.1 = "{O(F)[F]}".toList ∧
    (Spec.render ⟨[(quirkLeak, none)], 99⟩ ⟨none, false⟩ 200).1 = .exc excNoCaller ∧
    (Spec.render ⟨[(quirkLeak, none)], 99⟩ ⟨none, false⟩ 200).2 = "{O(".toList := by
  refine ⟨by decide, by decide +kernel, by decide +kernel, by decide +kernel, by decide +kernel⟩

/-- regression (repaired F-C05-1, /repo 555117c): a `<%call>` run while an outer call with content is still collecting
    its arguments saves the pending caller and puts it back – the outer callee finds its `caller`; both renderers
    agree on the former witness -/
example : (render (progOf [(quirkCallExpr, none)] 99) ⟨none, false⟩ 200).2.1 = "{O(B)[F]}".toList ∧
    (Spec.render ⟨[(quirkCallExpr, none)], 99⟩ ⟨none, false⟩ 200).2 = "{O(B)[F]}".toList := by
  refine ⟨by decide +kernel, by decide +kernel⟩

/-- regression (repaired F-C05-3, /repo 0522f73): a def written inside a `<%call>` that uses `caller` takes the caller
    of its own call, whether or not the enclosing def mentions `caller`: the former witness is now inside the guard and
    both renderers agree (`d5` is called without content: no caller) -/
example : GoodTop quirkNested = true ∧
    (render (progOf [(quirkNested, none)] 99) ⟨none, false⟩ 200).1 = .exc excNoCaller ∧
    (render (progOf [(quirkNested, none)] 99) ⟨none, false⟩ 200).2.1 = "{T|[i".toList ∧
    (Spec.render ⟨[(quirkNested, none)], 99⟩ ⟨none, false⟩ 200).2 = "{T|[i".toList := by
  refine ⟨by decide, by decide +kernel, by decide +kernel, by decide +kernel⟩

/-! ## one call: value, text written, buffers -/

/-- **A def writes at the call site and returns `''`.**  The render callable generated for a top-level def that is
    neither buffered nor filtered (decorated or not), called from any state with arguments `vs`: when it returns, its
    value is `''`, and the buffer that was on top *at the call* has grown by exactly the text `Spec.snodes` renders for
    the def's content (parameters bound to `vs`, `caller` = the namespace pending at the call); lower buffers, caller
    stack, loop stack and `nextcaller` are as before. -/
theorem def_writes_at_call_site_returns_empty (ts : List (Tmpl × Option Bool)) (k : Nat) (hG : GoodAll ts)
    (ps : List Name) (fl : DefFlags) (body : Tmpl) (hc : fl.cached = false) (hbf : fl.buffered = false)
    (hf : fl.filters = []) (hnd : nodupB (declNames body) = true)
    (hg : Good (defScope body) false false true false body = true)
    (own : Bool) (mod : Nat) (clex : NS) (vs : List Str) (l : Loc) (σ : St) (E : Spec.Env) (pend : Spec.SNS) (i : Nat)
    (topc : Str) (rest : List (Nat × Str)) (hR : RelW l σ E) (hN : NSRel σ.next pend) (hl : LocOK l) (hlex : NSOK clex)
    (hσ : StOK σ) (hb : σ.bufs = (i, topc) :: rest) (n : Nat) (v : Str) (σ' : St)
    (he : invoke (progOf ts k) n ⟨⟨ps, ⟨own, fl.deco, false⟩, renderCallable false fl body⟩, clex, mod⟩ vs l σ
            = (.val v, σ')) :
    v = [] ∧ σ'.frames = σ.frames ∧ σ'.loops = σ.loops ∧ σ'.next = σ.next ∧
    ∃ bound m0, zipArgs ps vs = some bound ∧ ∀ m, m0 ≤ m →
      σ'.bufs = (i, topc ++ (Spec.snodes ⟨ts, k⟩ m body (innerEnv (defSF ps fl body mod) [] bound E pend)
                              (if fl.deco then σ.cnt + 1 else σ.cnt)).out) :: rest := by
  have hib : Spec.isBuffering fl = false := by simp [Spec.isBuffering, hbf, hc, hf]
  obtain ⟨p, bound, m0, hz, h⟩ := invoke_def_val ts k hG ps fl body hc hnd (by rw [hib]; exact hg) own mod clex vs l σ E pend i
    topc rest hR hN hl hlex hσ hb n v σ' he
  obtain ⟨_, content, c2, hfc, hv, _⟩ := h m0 (Nat.le_refl _)
  refine ⟨by simpa [hbf] using hv, p.1, p.2.1, p.2.2, bound, m0, hz, fun m hm => ?_⟩
  obtain ⟨_, content, c2, hfc, _, hbufs⟩ := h m hm
  simp only [hf, Spec.filterContent, Prod.mk.injEq, Spec.SV.val.injEq] at hfc
  simpa [hbf, hfc.1] using hbufs

/-- non-vacuous: def `d2` of the sample called with a pending `caller`-less state writes `(`, then fails for want of
    a caller; the plain def `d` below returns `''` and writes `xy` into the buffer on top -/
example : ∃ σ', invoke (progOf [] 99) 50
      ⟨⟨[1], ⟨false, false, false⟩, renderCallable false noFlags (.seq (.text ['x']) (.expr (.var 1) []))⟩, [], 0⟩ [['y']]
      (Loc.init 0) St.init = (.val [], σ') ∧ σ'.bufs = [(0, ['x', 'y'])] ∧
      Good (defScope (.seq (.text ['x']) (.expr (.var 1) []))) false false true false (.seq (.text ['x']) (.expr (.var 1) [])) = true :=
  ⟨_, rfl, by decide, by decide⟩

/-- **A buffered def returns its content (after the filters) and writes nothing.**  `fl.filters` is the def's
    `filter=` list followed by the template's `buffer_filters` (`withBufferFilters`, as `write_def_finish` applies
    them): the buffer stack is *exactly* as before the call, and the value is the filter functions applied, each once
    and in order, to the whole text the content renders to. -/
theorem buffered_returns_content (ts : List (Tmpl × Option Bool)) (k : Nat) (hG : GoodAll ts)
    (ps : List Name) (fl : DefFlags) (body : Tmpl) (hc : fl.cached = false) (hbf : fl.buffered = true)
    (hnd : nodupB (declNames body) = true) (hg : Good (defScope body) false true true false body = true)
    (own : Bool) (mod : Nat) (clex : NS) (vs : List Str) (l : Loc) (σ : St) (E : Spec.Env) (pend : Spec.SNS) (i : Nat)
    (topc : Str) (rest : List (Nat × Str)) (hR : RelW l σ E) (hN : NSRel σ.next pend) (hl : LocOK l) (hlex : NSOK clex)
    (hσ : StOK σ) (hb : σ.bufs = (i, topc) :: rest) (n : Nat) (v : Str) (σ' : St)
    (he : invoke (progOf ts k) n ⟨⟨ps, ⟨own, fl.deco, false⟩, renderCallable false fl body⟩, clex, mod⟩ vs l σ
            = (.val v, σ')) :
    σ'.bufs = σ.bufs ∧ σ'.frames = σ.frames ∧ σ'.loops = σ.loops ∧ σ'.next = σ.next ∧
    ∃ bound m0, zipArgs ps vs = some bound ∧ ∀ m, m0 ≤ m →
      v = fl.filters.foldl (fun acc f => wrap f acc)
            (Spec.snodes ⟨ts, k⟩ m body (innerEnv (defSF ps fl body mod) [] bound E pend)
              (if fl.deco then σ.cnt + 1 else σ.cnt)).out := by
  have hib : Spec.isBuffering fl = true := by simp [Spec.isBuffering, hbf]
  obtain ⟨p, bound, m0, hz, h⟩ := invoke_def_val ts k hG ps fl body hc hnd (by rw [hib]; exact hg) own mod clex vs l σ E pend i
    topc rest hR hN hl hlex hσ hb n v σ' he
  obtain ⟨_, content, c2, _, _, hbufs⟩ := h m0 (Nat.le_refl _)
  refine ⟨by simpa [hbf, hb] using hbufs, p.1, p.2.1, p.2.2, bound, m0, hz, fun m hm => ?_⟩
  obtain ⟨_, content, c2, hfc, hv, _⟩ := h m hm
  obtain ⟨h1, _⟩ := filterContent_val k _ _ _ _ _ hfc
  simpa [hbf, h1] using hv

/-- the sample's `d1('q')`: buffered, `filter="flt1"`: value `1([q])`, output untouched; with `buffer_filters=[7]` the
    generator sees the filter list `[1, 7]` -/
example : ∃ σ', invoke (progOf [(sampleCalls, none)] 99) 50
      ⟨⟨[1], ⟨false, false, false⟩, renderCallable false flBuf1 (.seq (.text ['[']) (.seq (.expr (.var 1) []) (.text [']'])))⟩,
        [], 0⟩ [['q']] (Loc.init 0) St.init = (.val "1([q])".toList, σ') ∧ σ'.bufs = St.init.bufs :=
  ⟨_, rfl, by decide⟩
example : withBufferFilters [7] (.def_ 1 [1] flBuf1 (.text ['c'])) =
    .def_ 1 [1] { flBuf1 with filters := [1, 7] } (.text ['c']) := rfl

/-- **`filter=` passes the whole content through the filters, once.**  A filtered (not buffered) def: the buffer on
    top at the call grows by `fN(…f1(content)…)` – every function applied exactly once, to everything the content
    rendered – and the def returns `''`. -/
theorem filter_applied_once_to_whole_content (ts : List (Tmpl × Option Bool)) (k : Nat) (hG : GoodAll ts)
    (ps : List Name) (fl : DefFlags) (body : Tmpl) (hc : fl.cached = false) (hbf : fl.buffered = false)
    (hf : fl.filters ≠ []) (hnd : nodupB (declNames body) = true)
    (hg : Good (defScope body) false true true false body = true)
    (own : Bool) (mod : Nat) (clex : NS) (vs : List Str) (l : Loc) (σ : St) (E : Spec.Env) (pend : Spec.SNS) (i : Nat)
    (topc : Str) (rest : List (Nat × Str)) (hR : RelW l σ E) (hN : NSRel σ.next pend) (hl : LocOK l) (hlex : NSOK clex)
    (hσ : StOK σ) (hb : σ.bufs = (i, topc) :: rest) (n : Nat) (v : Str) (σ' : St)
    (he : invoke (progOf ts k) n ⟨⟨ps, ⟨own, fl.deco, false⟩, renderCallable false fl body⟩, clex, mod⟩ vs l σ
            = (.val v, σ')) :
    v = [] ∧ σ'.frames = σ.frames ∧ σ'.loops = σ.loops ∧ σ'.next = σ.next ∧
    ∃ bound m0, zipArgs ps vs = some bound ∧ ∀ m, m0 ≤ m →
      σ'.bufs = (i, topc ++ fl.filters.foldl (fun acc f => wrap f acc)
          (Spec.snodes ⟨ts, k⟩ m body (innerEnv (defSF ps fl body mod) [] bound E pend)
            (if fl.deco then σ.cnt + 1 else σ.cnt)).out) :: rest := by
  have hib : Spec.isBuffering fl = true := by
    cases hfl : fl.filters with
    | nil => exact absurd hfl hf
    | cons a r => simp [Spec.isBuffering, hfl]
  obtain ⟨p, bound, m0, hz, h⟩ := invoke_def_val ts k hG ps fl body hc hnd (by rw [hib]; exact hg) own mod clex vs l σ E pend i
    topc rest hR hN hl hlex hσ hb n v σ' he
  obtain ⟨_, content, c2, _, hv, _⟩ := h m0 (Nat.le_refl _)
  refine ⟨by simpa [hbf] using hv, p.1, p.2.1, p.2.2, bound, m0, hz, fun m hm => ?_⟩
  obtain ⟨_, content, c2, hfc, _, hbufs⟩ := h m hm
  obtain ⟨h1, _⟩ := filterContent_val k _ _ _ _ _ hfc
  simpa [hbf, h1] using hbufs

example : ∃ σ', invoke (progOf [(sampleCalls, none)] 99) 50
      ⟨⟨[], ⟨false, false, false⟩, renderCallable false flFilt2 (.text ['f'])⟩, [], 0⟩ [] (Loc.init 0) St.init
        = (.val [], σ') ∧ σ'.bufs = [(0, "2(f)".toList)] ∧ flFilt2.filters ≠ [] :=
  ⟨_, rfl, by decide, by decide⟩

/-- **`capture(f, …)` returns what `f` would have written and leaves the output untouched**: the buffer on top holds
    only what evaluating the *arguments* wrote; the value is the text `Spec.sinvoke` reports as written by the call
    (the callable's own return value is dropped). -/
theorem capture_returns_and_leaves_output (ts : List (Tmpl × Option Bool)) (k : Nat) (hG : GoodAll ts) (f : Name)
    (args : List Expr) (inLoop inCallExpr cv : Bool) (l : Loc) (σ : St) (E : Spec.Env) (pend : Spec.SNS) (i : Nat)
    (topc : Str) (rest : List (Nat × Str)) (hg : GoodE inLoop inCallExpr cv (.capture f args) = true) (hR : RelC cv l σ E)
    (hN : NSRel σ.next pend) (hce : inCallExpr = false → σ.next = []) (hil : inLoop = true → E.loops ≠ [])
    (hl : LocOK l) (hσ : StOK σ) (hb : σ.bufs = (i, topc) :: rest) (n : Nat) (v : Str) (σ' : St)
    (he : eval (progOf ts k) n (.capture f args) l σ = (.val v, σ')) :
    ∃ oargs, σ'.bufs = (i, topc ++ oargs) :: rest ∧ σ'.frames = σ.frames ∧ σ'.loops = σ.loops ∧ σ'.next = σ.next ∧
      ∃ sf m0, Spec.resolveS ⟨ts, k⟩ E f = some sf ∧ ∀ m, m0 ≤ m → ∃ vs c1 v0,
        Spec.sargs ⟨ts, k⟩ m args E pend σ.cnt = ⟨.vals vs, oargs, c1⟩ ∧
        Spec.sinvoke ⟨ts, k⟩ m sf [] vs { E with nb := E.nb + 1 } pend c1 = ⟨.val v0, v, σ'.cnt⟩ :=
  let ⟨oargs, h1, p, h2⟩ := capture_val ts k hG f args inLoop inCallExpr cv l σ E pend i topc rest hg hR hN hce hil hl hσ hb n
    v σ' he
  ⟨oargs, h1, p.1, p.2.1, p.2.2, h2⟩

/-- `capture(d3)` of the sample: value `2(f)`, nothing written -/
example : ∃ σ', eval (progOf [(sampleCalls, none)] 99) 50 (.capture 3 []) (Loc.init 0) St.init = (.val "2(f)".toList, σ') ∧
    σ'.bufs = St.init.bufs := ⟨_, rfl, by decide⟩

/-! ## `decorator=` wraps the call -/

/-- **The def sees what the decorator passed, positional and keyword.**  `runtime._decorate_toplevel` (top-level defs)
    and `runtime._decorate_inline` (nested defs), modelled in `Codegen/Deco.lean` with the render callable observed
    (`Trace`: context, positionals, keywords of every entry): for EVERY decorator that calls what it wraps once per
    transformation `t ∈ ts` of the arguments it received (forwarding, replacing / adding / dropping keywords, permuting
    positionals, calling twice …), every context and all arguments, the render callable is entered exactly once per
    `t`, in order, with the context of the call and with `t args` – the positionals AND the keywords the decorator
    supplied, not those of the original call.  (In the refinement above a decorator is an evaluation point before and
    after the call; its argument handling is this theorem plus the streams `corr.deco` / `oracle.decorators`.) -/
theorem decorator_receives_and_forwards (ts : List (Deco.Args → Deco.Args)) (context : Nat) (args : Deco.Args) :
    Deco.decorateToplevel (Deco.wrapper ts) (fun c a => [(c, a)]) context args = ts.map (fun t => (context, t args)) ∧
    Deco.decorateInline context (Deco.wrapper ts) (fun a => [(context, a)]) args = ts.map (fun t => (context, t args)) :=
  ⟨Deco.toplevel_forwards ts context args, Deco.inline_forwards ts context args⟩

/-- the family `twice` of the harness (second call with other keyword values) on `f('x', k='y')` -/
example : Deco.decorateToplevel (Deco.wrapper (Deco.family "twice")) (fun c a => [(c, a)]) 7 ⟨[['x']], [(['k'], ['y'])]⟩ =
    [(7, ⟨[['x']], [(['k'], ['y'])]⟩), (7, ⟨[['x']], [(['k'], ['y', '2'])]⟩)] := by decide

/-! ## calls with content: `caller` -/

/-- **`caller.body(args)` runs in the calling scope, zero or more times.**  In a callee whose `caller` is the
    namespace a `<%call>` built (`E.caller = layer :: outer`, `layer` = its `body` and nested defs, `outer` = the
    `caller` of the scope the `<%call>` is written in – see `Spec.snodes`, case `call`), *every* evaluation of
    `caller.body(args)` renders the content of that `<%call>` with `caller := outer` and the body arguments bound on
    top of the variables in scope (`body_env_caller`), writes it to the buffer on top, returns `''`-or-value as the
    specification says, and leaves the caller stack and `nextcaller` as they were – so the next evaluation (or none)
    finds the same situation. -/
theorem caller_body_runs_in_calling_scope (ts : List (Tmpl × Option Bool)) (k : Nat) (hG : GoodAll ts)
    (args : List Expr) (inLoop : Bool) (l : Loc) (σ : St) (E : Spec.Env) (i : Nat) (topc : Str) (rest : List (Nat × Str))
    (hg : GoodE inLoop false true (.callerCall 0 args) = true) (hR : RelC true l σ E) (hn : σ.next = [])
    (hil : inLoop = true → E.loops ≠ []) (hl : LocOK l) (hσ : StOK σ) (hb : σ.bufs = (i, topc) :: rest)
    (bargs : List Name) (body : Tmpl) (bmod : Nat) (more : Spec.SLayer) (outer : Spec.SNS)
    (hE : E.caller = ((0, ⟨bargs, noFlags, body, .body, bmod⟩) :: more) :: outer)
    (n : Nat) (v : Str) (σ' : St)
    (he : eval (progOf ts k) n (.callerCall 0 args) l σ = (.val v, σ')) :
    (∃ out, σ'.bufs = (i, topc ++ out) :: rest ∧ σ'.frames = σ.frames ∧ σ'.next = σ.next ∧ ∃ m0, ∀ m, m0 ≤ m →
      ∃ vs oargs c1 obody,
        Spec.sargs ⟨ts, k⟩ m args E [] σ.cnt = ⟨.vals vs, oargs, c1⟩ ∧
        Spec.sinvoke ⟨ts, k⟩ m ⟨bargs, noFlags, body, .body, bmod⟩ outer vs
          { E with defs := ((0, ⟨bargs, noFlags, body, .body, bmod⟩) :: more) ++ E.defs } [] c1 = ⟨.val v, obody, σ'.cnt⟩ ∧
        out = oargs ++ obody) ∧
    ∀ bound E' pend, (innerEnv ⟨bargs, noFlags, body, .body, bmod⟩ outer bound E' pend).caller = outer ∧
      (innerEnv ⟨bargs, noFlags, body, .body, bmod⟩ outer bound E' pend).vars = bound ++ E'.vars :=
  let ⟨out, h1, p, h2⟩ := caller_body_val ts k hG args inLoop l σ E i topc rest hg hR hn hil hl hσ hb bargs body bmod more
    outer hE n v σ' he
  ⟨⟨out, h1, p.1, p.2.2, h2⟩, fun bound E' pend => body_env_caller bargs body bmod outer bound E' pend⟩

/-- non-vacuous, on the sample: inside `d2('i')` called with content, both `caller.body(…)` render the `<%call>`'s
    content with the argument bound to `v4` (first `i`, then `z`), around the filter-only `d3()` -/
example : (render (progOf [(sampleCalls, none)] 99) ⟨none, false⟩ 200).2.1
    = "ap1([q])(<i0(2(f))d1.3.0>2(f){n}<z0(2(f))d1.3.0>)(<j0(2(f))d1.3.0>2(f){n}<z0(2(f))d1.3.0>)e".toList := by decide +kernel

/-- **After a call, `caller` is what it was before** – for *every* construct of *every* template (no guard: nested
    calls, calls in loops, calls from other defs, blocks, includes, cached defs …), on every exit path: the caller
    stack is the same, the activation's own `caller` locals were never touched, so `caller` denotes the same
    namespace; and the pending `nextcaller` is exactly as before (a `<%call>` saves and restores it). -/
theorem caller_restored_after_call (ts : List (Tmpl × Option Bool)) (k : Nat) (sc : Scope) (t : Tmpl)
    (fuel : Nat) (l : Loc) (σ : St) (hl : LocOK l) (hσ : StOK σ) (i : Nat) (topc : Str) (rest : List (Nat × Str))
    (hb : σ.bufs = (i, topc) :: rest) (hw : l.writer = i) (o : Outcome) (l' : Loc) (σ' : St)
    (he : exec (progOf ts k) fuel (stmts sc t) l σ = (o, l', σ')) (ho : o ≠ .timeout) :
    callerView l' σ' = callerView l σ ∧ σ'.frames = σ.frames ∧ σ'.next = σ.next := by
  have g := (all_good _ (codegen_cfg_ok ts k) fuel).exec _ l σ i topc rest ((emits t).stmts sc) hl hσ hb hw o l' σ' he ho
  have kp := (exec_keeps_lex (progOf ts k) fuel).1 _ l σ _ l' σ' he
  exact ⟨by simp [callerView, kp.1, kp.2.1, g.1.frames], g.1.frames, g.1.next⟩

/-- … and for every *expression* (a def call, `capture`, `caller.x()`), from any state -/
theorem caller_restored_after_call_expression (ts : List (Tmpl × Option Bool)) (k : Nat) (e : Expr)
    (fuel : Nat) (l : Loc) (σ : St) (hl : LocOK l) (hσ : StOK σ) (hne : σ.bufs ≠ []) (r : VRes) (σ' : St)
    (he : eval (progOf ts k) fuel e l σ = (r, σ')) (hr : r ≠ .timeout) :
    callerView l σ' = callerView l σ ∧ σ'.frames = σ.frames ∧ σ'.next = σ.next := by
  obtain ⟨⟨i, topc⟩, rest, hb⟩ := List.exists_cons_of_ne_nil hne
  have g := (all_good _ (codegen_cfg_ok ts k) fuel).eval e l σ i topc rest hl hσ hb r σ' he hr
  exact ⟨by simp [callerView, g.frames], g.frames, g.next⟩

/-- non-vacuous: the whole `<%call>` loop of the sample, run from the state inside `render_body` -/
example : (exec (progOf [(sampleCalls, none)] 99) 200 (stmts (mainScope sampleCalls) sampleCalls)
      { Loc.init 0 with caller := [] } { St.init with frames := [[]] }).1 = .normal ∧
    (exec (progOf [(sampleCalls, none)] 99) 200 (stmts (mainScope sampleCalls) sampleCalls)
      { Loc.init 0 with caller := [] } { St.init with frames := [[]] }).2.2.frames.length = 1 ∧
    (exec (progOf [(sampleCalls, none)] 99) 200 (stmts (mainScope sampleCalls) sampleCalls)
      { Loc.init 0 with caller := [] } { St.init with frames := [[]] }).2.2.next.isEmpty = true :=
  ⟨by decide +kernel, by decide +kernel, by decide +kernel⟩

end MakoModel.C05

/-!
## attribute values become concatenations in source order; signatures are re-emitted

The model is `MakoModel/Codegen/Attrs.lean` (a transcription of
`Tag._parse_attributes`, `CallNamespaceTag.__init__`, `ParseFunc.visit_FunctionDef` and
`FunctionDecl.get_argument_expressions`, tied to /repo by the streams `corr.attrs`, `corr.nsexpr`, `corr.sig`),
helper lemmas are in `MakoModel/Codegen/AttrsLemmas*.lean`.

Reading of the property on the model:
* an attribute value is written by its author as a list of pieces – literal text and `${code}`; `render ps` is the
  text between the quotes; `parseAttr` is what `_parse_attributes` stores for it (the Python expression that the
  generated module evaluates), `attrCodes` the code strings it hands to `ast.PythonCode`;
* `Piece.show`: a literal piece should become the string literal `repr(text)`, an expression piece `(code)`;
* `evalTerms ρ`: the value of `t1 + t2 + …` when string literals are read back (`pyUnquote`) and every code `c`
  evaluates to the string `ρ c`;
* `parseFunc` is what `ParseFunc` stores for a Python signature, `getArgExprs … false` the parameter list written
  into `def f(…):` of the generated module, `getArgExprs … true` the argument list of the stub's call
  `render_f(context, …)`; `Spec.decl` / `Spec.asCall` are Python's own syntax for the same signature.
-/
namespace MakoModel.C05
open MakoModel.Codegen.Attrs

/-- **attr_concat_order.** For every list of pieces satisfying the guard `wf` (literal pieces non-empty, ASCII,
free of `{`, no two adjacent; expression codes non-empty, free of `{` and `}`; whitespace-only literals, `$`, `}`,
quotes, backslashes, newlines are all allowed), the stored expression is `show p1 + show p2 + …` in source
order – `a${x}b${y}` ↦ `'a' + (x) + 'b' + (y)` –, the codes handed to `ast.PythonCode` are the expression codes
(rstripped) in order, and under every assignment `ρ` of strings to the codes the concatenation evaluates to the
pieces' values concatenated in order. -/
theorem attr_concat_order (ps : List Piece) (hwf : wf ps = true) (hne : ps ≠ []) :
    parseAttr (render ps) = some (join plus (ps.map Piece.show)) ∧
    attrCodes (render ps) = (ps.filterMap Piece.code?).map rstrip ∧
    ∀ ρ : Str → Str, ∃ ts, attrTerms (render ps) = some ts ∧
      joinTerms ts = join plus (ps.map Piece.show) ∧
      evalTerms ρ ts = some (concat (ps.map (Piece.value ρ))) := by
  refine ⟨?_, attrCodes_render ps hwf, fun ρ => ⟨ps.map Piece.term, attrTerms_render ps hwf,
    joinTerms_pieces ps hne, evalTerms_pieces ρ ps (litsAscii_of_wf ps hwf)⟩⟩
  have h := parseAttr_render ps hwf
  cases ps with
  | nil => exact absurd rfl hne
  | cons p ps => simpa [Spec.attrText] using h

/-- the guard is satisfiable by a mixture with a whitespace-only literal between two expressions, a quote and a
trailing newline; and the statement then reads as the property says -/
example :
    let ps := [Piece.lit "it's ".toList, .ex "x".toList, .lit " ".toList, .ex " y ".toList, .lit "}$\n".toList]
    wf ps = true ∧ ps ≠ [] ∧ render ps = "it's ${x} ${ y }}$\n".toList ∧
    join plus (ps.map Piece.show) = "\"it's \" + (x) + ' ' + ( y ) + '}$\\n'".toList ∧
    (ps.filterMap Piece.code?).map rstrip = ["x".toList, " y".toList] := by decide

example : parseAttr "a${x}b${y}".toList = some "'a' + (x) + 'b' + (y)".toList := by decide

/-- **attr_concat_order_counterexample.** Outside the guard the statement fails on the model (and on the
implementation, oracle site `attr-value-received`): an expression containing braces followed by a later `}` –
`k="${ {1:2}[1] }-${y}"` – is ONE match of the split expression reaching the last `}`; the single code handed to
Python is ` {1:2}[1] }-${y` (a SyntaxException in the real code).  Likewise a literal `{` after an expression:
`${x}{${y}`. -/
theorem attr_concat_order_counterexample :
    let ps := [Piece.ex " {1:2}[1] ".toList, .lit "-".toList, .ex "y".toList]
    let qs := [Piece.ex "x".toList, .lit "{".toList, .ex "y".toList]
    parseAttr (render ps) = some "( {1:2}[1] }-${y)".toList ∧
    parseAttr (render ps) ≠ some (join plus (ps.map Piece.show)) ∧
    attrCodes (render ps) = [" {1:2}[1] }-${y".toList] ∧
    parseAttr (render qs) = some "(x}{${y)".toList ∧
    parseAttr (render qs) ≠ some (join plus (qs.map Piece.show)) := by decide

/-- **attr_pure_text.** A non-empty ASCII value without any `${…}` match is stored as exactly one string
literal, its `repr`. -/
theorem attr_pure_text (s : Str) (hne : s ≠ []) (hasc : isAscii s = true) (hnm : noMatch s = true) :
    parseAttr s = some (pyReprA s) ∧ attrCodes s = [] := by
  refine ⟨parseAttr_noMatch s hne hasc hnm, ?_⟩
  have hpc : pieceCode s = none := by
    cases hp : pieceCode s with
    | none => rfl
    | some g =>
      exfalso
      apply pieceCode_matchHere s g hp
      cases s with
      | nil => exact absurd rfl hne
      | cons c s =>
        simp [noMatch] at hnm
        cases hh : matchHere (c :: s) with
        | none => rfl
        | some v => simp [hh] at hnm
  simp [attrCodes, splitAttr, splitGo_noMatch s hnm, hpc]

example :
    let s := "it's $x {y} ${".toList
    s ≠ [] ∧ isAscii s = true ∧ noMatch s = true ∧ pyReprA s = "\"it's $x {y} ${\"".toList := by decide

/-- a value without `$` is pure text -/
example (s : Str) (h : '$' ∉ s) : noMatch s = true := noMatch_of_no_dollar s h

/-- **attr_empty.** `k=""` is stored as `''`. -/
theorem attr_empty : parseAttr [] = some ['\'', '\''] ∧ attrCodes [] = [] := by decide

/-- **attr_literal_roundtrip.** For every ASCII string, reading the string literal `repr` writes gives the string
back: the literal text of an attribute reaches the callee unchanged. -/
theorem attr_literal_roundtrip (s : Str) (h : isAscii s = true) :
    ∃ r, pyRepr s = some r ∧ pyUnquote r = some s :=
  ⟨pyReprA s, by simp [pyRepr, h], pyUnquote_pyReprA s h⟩

example :
    let s := "a'b\"c\\d\ne\x01\x7f".toList
    isAscii s = true ∧ pyRepr s = some "'a\\'b\"c\\\\d\\ne\\x01\\x7f'".toList := by decide

/-- **call_kwargs_from_attrs.** `<%ns:defname k1="…" k2="…" args="…">`: for all attribute lists (the lexer builds
a dict: keys are distinct) whose values are well-formed piece lists, the call expression is
`ns.defname(k1=<concatenation 1>,k2=<concatenation 2>)` – one keyword argument per attribute, in source order,
`args` left out. -/
theorem call_kwargs_from_attrs (ns defname : Str) (kvs : List (Str × List Piece))
    (h : ∀ kv ∈ kvs, wf kv.2 = true) :
    nsExpr ns defname (kvs.map fun kv => (kv.1, render kv.2)) =
      some (ns ++ '.' :: (defname ++ '(' ::
        (join [','] ((kvs.filter fun kv => kv.1 ≠ argsKey).map fun kv => kv.1 ++ '=' :: Spec.attrText kv.2)
          ++ [')']))) := by
  have e := filter_map_key kvs Spec.attrText
  simp only [nsExpr, parseAll_render kvs h, e]
  simp [kwText, List.map_map, Function.comp_def]

example :
    let kvs := [("k".toList, [Piece.lit "a".toList, .ex "x".toList]), ("args".toList, [.lit "a, b".toList]),
                ("k2".toList, [])]
    (∀ kv ∈ kvs, wf kv.2 = true) ∧
    nsExpr "self".toList "show".toList (kvs.map fun kv => (kv.1, render kv.2))
      = some "self.show(k='a' + (x),k2='')".toList := by decide

/-- **signature_reemitted_partial.** For every Python signature (`valid`: Python's own grammar rules) whose
keyword-only parameters come after a real `*name`, the parameter list written into the generated `def` is
Python's syntax for that signature: names, order, defaults, `*name`, keyword-only parameters with their defaults,
`**name`. -/
theorem signature_reemitted_partial (s : PySig) (hv : s.valid = true)
    (hk : s.kwonly ≠ [] → s.vararg.isSome = true) :
    getArgExprs (parseFunc s) false = some (Spec.decl s) := by
  rw [getArgExprs_parseFunc]
  simp only [PySig.valid, Bool.and_eq_true, Bool.or_eq_true, Bool.not_eq_true'] at hv
  obtain ⟨⟨hdt, hbare⟩, _⟩ := hv
  have hb : s.bareStar = false := by
    rcases hbare with hb | hb
    · exact hb
    · have h1 : s.kwonly ≠ [] := by
        intro e
        simp [e] at hb
      have h2 := hk h1
      cases hva : s.vararg with
      | none => simp [hva] at h2
      | some v => simp [hva] at hb
  rw [kwLoop_params, posLoop_params s.pos hdt]
  cases hva : s.vararg <;> cases hkw : s.kwarg <;> simp [Spec.decl, hva, hkw, hb, optList]

example :
    let s : PySig := { pos := [⟨"a".toList, none⟩, ⟨"b".toList, some "1".toList⟩], vararg := some "args".toList,
                       bareStar := false, kwonly := [⟨"c".toList, none⟩, ⟨"d".toList, some "2".toList⟩],
                       kwarg := some "kw".toList }
    s.valid = true ∧ (s.kwonly ≠ [] → s.vararg.isSome = true) ∧
    Spec.decl s = ["a".toList, "b=1".toList, "*args".toList, "c".toList, "d=2".toList, "**kw".toList] := by decide

/-- **signature_reemitted_counterexample.** With a BARE `*` the re-emission is not faithful: the valid signature
`def f(a, b=1, *, c)` is written as `a,b=1,c` – the `*` is lost, so the keyword-only parameter becomes positional
(and here the generated module does not even compile: "parameter without a default follows parameter with a
default").  Same witness on the implementation: oracle site `def-signature-binding`. -/
theorem signature_reemitted_counterexample :
    let s : PySig := { pos := [⟨"a".toList, none⟩, ⟨"b".toList, some "1".toList⟩], vararg := none,
                       bareStar := true, kwonly := [⟨"c".toList, none⟩], kwarg := none }
    s.valid = true ∧
    Spec.decl s = ["a".toList, "b=1".toList, "*".toList, "c".toList] ∧
    getArgExprs (parseFunc s) false = some ["a".toList, "b=1".toList, "c".toList] ∧
    getArgExprs (parseFunc s) false ≠ some (Spec.decl s) := by decide

/-- **signature_ascall.** For every signature (a bare `*` included) the `as_call=True` form passes positional
parameters positionally, then `*name`, every keyword-only parameter as `c=c`, then `**name`. -/
theorem signature_ascall (s : PySig) : getArgExprs (parseFunc s) true = some (Spec.asCall s) := by
  rw [getArgExprs_parseFunc, kwLoop_call, posLoop_call]
  cases hva : s.vararg <;> cases hkw : s.kwarg <;>
    simp [Spec.asCall, hva, hkw, optList, List.map_reverse, Function.comp_def]

example :
    let s : PySig := { pos := [⟨"a".toList, some "1".toList⟩], vararg := none, bareStar := true,
                       kwonly := [⟨"c".toList, none⟩], kwarg := some "kw".toList }
    Spec.asCall s = ["a".toList, "c=c".toList, "**kw".toList] := by decide

/-! ## default values: printed back from their syntax trees

`ParseFunc` keeps each default as an AST; `get_argument_expressions` writes `name=ExpressionGenerator(default).value()`.
`Codegen/AttrsDefaults.lean` composes the signature model with the printer model of `PyExpr/Print.lean` (C19's model of
`_ast_util.SourceGenerator`, compared with the real class on every run of C19 and, for defaults, of this check:
stream `corr.sig.defaults`). -/

/-- **signature_defaults_reprinted.**  For every signature whose defaults are expression trees: when the printer
writes all of them (`s.printed = some p`), `p` has the names of `s` and, for every defaulted parameter, the printed
tree as its default; and under the guard of `signature_reemitted_partial` the parameter list of the generated `def` is
Python's syntax for `p` – each default appears as `name=<printed tree>`, nothing of the template's own text.  When the
printer raises on a default, so does `get_argument_expressions`. -/
theorem signature_defaults_reprinted (s : ASig) :
    (∀ p, s.printed = some p →
      p.pos = s.pos.map (fun a => ⟨a.name, a.default.bind MakoModel.PyExpr.printStr⟩) ∧
      p.kwonly = s.kwonly.map (fun a => ⟨a.name, a.default.bind MakoModel.PyExpr.printStr⟩) ∧
      p.vararg = s.vararg ∧ p.bareStar = s.bareStar ∧ p.kwarg = s.kwarg ∧
      (p.valid = true → (p.kwonly ≠ [] → p.vararg.isSome = true) → s.decl false = some (Spec.decl p)) ∧
      s.decl true = some (Spec.asCall p)) ∧
    (s.printed = none → s.decl false = none ∧ s.decl true = none) := by
  refine ⟨fun p hp => ?_, fun h => by simp [ASig.decl, h]⟩
  have hp' := hp
  simp only [ASig.printed] at hp
  cases h1 : printedParams s.pos with
  | none => simp [h1] at hp
  | some pos =>
    cases h2 : printedParams s.kwonly with
    | none => simp [h1, h2] at hp
    | some kwonly =>
      simp [h1, h2] at hp
      subst hp
      refine ⟨printedParams_eq _ _ h1, printedParams_eq _ _ h2, rfl, rfl, rfl, fun hv hk => ?_, ?_⟩
      · simp only [ASig.decl, hp']; exact signature_reemitted_partial _ hv hk
      · simp only [ASig.decl, hp']; exact signature_ascall _

/-- **default_tuple_reemitted_as_tuple.**  A default that is (or contains) a tuple is written back as a tuple of the same
length: `(` items `, `-separated `)`, with the trailing comma exactly when there is one item – `(e,)` never becomes the
parenthesised expression `(e)`, `()` stays `()`. -/
theorem default_tuple_reemitted_as_tuple (es : List MakoModel.PyExpr.Expr) (te : List MakoModel.PyExpr.Toks)
    (h : MakoModel.PyExpr.printList es = some te) :
    MakoModel.PyExpr.printStr (.tuple es) =
      some (['('] ++ MakoModel.PyExpr.render (MakoModel.PyExpr.joinWith MakoModel.PyExpr.comma te) ++
        (if es.length = 1 then [','] else []) ++ [')']) ∧
    (∀ e, es = [e] → MakoModel.PyExpr.printStr (.tuple es) =
      (MakoModel.PyExpr.printStr e).map fun t => ['('] ++ t ++ [',', ')']) :=
  ⟨printStr_tuple es te h, fun e he => by subst he; exact printStr_tuple_one e⟩

/-- non-vacuous: `f(a, x=(1,))`, `f(a, *r, x=[(1,), (2, 3)], **kw)` and `f(a, *, x=())` – the second and third through
the whole chain tree → printed signature → parameter list; the keyword-only one after a bare `*` shows the recorded
F-C05-sig-barestar (the `*` is dropped) -/
example :
    let one : MakoModel.PyExpr.Expr := .tuple [.const .int "1".toList]
    let two : MakoModel.PyExpr.Expr := .tuple [.const .int "2".toList, .const .int "3".toList]
    (ASig.decl ⟨[⟨"a".toList, none⟩, ⟨"x".toList, some one⟩], none, false, [], none⟩ false
      = some ["a".toList, "x=(1,)".toList]) ∧
    (ASig.decl ⟨[⟨"a".toList, none⟩], some "r".toList, false, [⟨"x".toList, some (.list [one, two])⟩], some "kw".toList⟩ false
      = some ["a".toList, "*r".toList, "x=[(1,), (2, 3)]".toList, "**kw".toList]) ∧
    (ASig.decl ⟨[⟨"a".toList, none⟩], none, true, [⟨"x".toList, some (.tuple [])⟩], none⟩ false
      = some ["a".toList, "x=()".toList]) ∧
    (ASig.decl ⟨[⟨"a".toList, none⟩, ⟨"x".toList, some (.binOp one .mult (.const .int "3".toList))⟩], none, false, [], none⟩ false
      = some ["a".toList, "x=((1,) * 3)".toList]) := by decide +kernel

end MakoModel.C05
