import MakoModel.Encoding.Agree
import MakoModel.Encoding.NonExamples
/-!
# C18 – template text round-trips through input and output encodings

Every theorem is about the model `MakoModel/Encoding/Model.lean` (a transcription of `Lexer.decode_raw_stream`,
the preprocessor loop and the skip of the coding comment in `Lexer.parse`, `_compile_module_file`, the magic comment
and the `from __future__ import` line of `codegen.write_toplevel`,
`util.parse_encoding/read_python_file`, `ModuleInfo.source`, `runtime._render`, `FastEncodingBuffer.getvalue`)
and holds for **all** byte strings, texts, `input_encoding` values and **all codecs** satisfying the stated laws
(`AsciiCompatible`, `AsciiPrefix`, `RoundTrip`/`RoundTripOn`).  UTF-8, latin-1 and ascii are concrete codecs that
satisfy the laws (`MakoModel/Encoding/Codecs.lean`) and instantiate the `example`s.

The one defect of the implementation that remains (F-C18-2, recorded in `known_findings.json`) appears as a theorem
with its guard (`HeaderOk`) and a `…_counterexample` theorem; the full-strength statement is quoted in an `OPEN` comment.
F-C18-1, F-C18-3 and F-C18-4 were repaired in /repo; their theorems are stated at full strength and rest on the named
obligations `bom_compared_by_codec`, `source_strips_bom`, `names_written_ascii` about the regenerated constants.

Contents (30 theorems).
1. encoding decision – `encoding_precedence`, `encoding_precedence_str`, `comment_beats_input_encoding`,
   `input_encoding_beats_default`, `default_is_utf8`, `bom_means_utf8`;
2. BOM vs comment – `bom_conflict_raises`, `bom_conflict_iff`, `bom_agreeing_comment`,
   `bom_redundant_with_agreeing_comment` (registry coherence `Env.Coherent`);
3. errors – `undecodable_raises_compile_exception`, `decode_errors`, `decode_ok_iff`;
4. bytes compile as their decoded text – `bytes_compile_as_text`, `bytes_compile_as_text_ascii_prefix`,
   `bom_bytes_compile_as_text`; with preprocessors – `preprocessors_get_decoded_text`,
   `bytes_compile_as_text_preprocessed` (obligation `decode_precedes_preprocessors` on the regenerated statement order
   of `Lexer.parse`); the exact disagreement condition – `bytes_vs_text_disagree_iff`, `disagree_implies_not_headerOk`,
   `bytes_compile_as_text_counterexample` (F-C18-2);
4b. which codecs are spoken about – `utf16be_is_a_non_example`, `ascii_prefix_only_codecs` (the shift_jis situation);
5. module file – `module_file_written`, `module_file_starts_with_magic_comment` (obligation `magic_comment_first` on
   the regenerated statement order of `write_toplevel`: the coding comment is line 1 whatever `future_imports`),
   `module_file_roundtrip`;
6. `Template.source` – `source_is_decoded_text`;
7. output – `render_unicode_ignores_output_encoding`, `render_without_output_encoding`, `render_encoding`.
-/
namespace MakoModel.C18
open MakoModel.Encoding

def latin1Name : Name := ['l', 'a', 't', 'i', 'n', '-', '1']
def asciiName : Name := ['a', 's', 'c', 'i', 'i']
/-- an alias of utf-8 (`codecs.lookup("UTF-8").name == "utf-8"`) -/
def utf8Alias : Name := ['U', 'T', 'F', '-', '8']

/-- a small `codecs.lookup` for the examples -/
def env0 : Env where
  isUtf8 n := n = utf8Name ∨ n = utf8Alias
  codecOf n :=
    if n = utf8Name ∨ n = utf8Alias then some utf8Codec
    else if n = latin1Name then some latin1Codec
    else if n = asciiName then some asciiCodec
    else none

/-! ## 1. Which encoding is chosen: comment > input_encoding > default utf-8; a BOM means utf-8 -/

/-- The decision logic of the bytes branch, outright.  With a BOM: utf-8, whatever `input_encoding` says, and a
comment naming something the codec registry does not call utf-8 is an error.  Without: the comment, else
`input_encoding` (when it is a non-empty string), else utf-8. -/
theorem encoding_precedence (env : Env) (b : Bytes) (known : Option Name) :
    chooseBytes env b known =
      match stripBom b with
      | some r =>
        (match sniff r with
         | some n => if env.isUtf8 n then .ok (utf8Name, r) else .error (.bomConflict n)
         | none => .ok (utf8Name, r))
      | none =>
        (match sniff b with
         | some n => .ok (n, b)
         | none =>
           match known with
           | some (c :: cs) => .ok (c :: cs, b)
           | _ => .ok (utf8Name, b)) := by
  unfold chooseBytes bomAgrees
  rw [defaults_are_utf8.2.1, defaults_are_utf8.2.2.1, bom_compared_by_codec]
  cases stripBom b with
  | some r =>
    simp only
    cases sniff r with
    | some n => simp
    | none => rfl
  | none =>
    simp only
    cases sniff b with
    | some n => rfl
    | none => unfold orDefault; rcases known with _ | _ | _ <;> rfl

/-- … and of the str branch: the comment, else `input_encoding`, else utf-8; the text is returned as it is. -/
theorem encoding_precedence_str (env : Env) (t : Text) (raw : Bool) (known : Option Name) :
    decodeRawStream env (.str t) raw known =
      .ok ((match codingName t with
            | some n => n
            | none =>
              match known with
              | some (c :: cs) => c :: cs
              | _ => utf8Name), .str t) := by
  simp only [decodeRawStream, chooseStr, defaults_are_utf8.1]
  cases codingName t with
  | some n => rfl
  | none => rcases known with _ | _ | _ <;> rfl

/-- the comment takes precedence over `input_encoding` -/
theorem comment_beats_input_encoding (env : Env) (b : Bytes) (n : Name) (known : Option Name)
    (hb : stripBom b = none) (hs : sniff b = some n) : chooseBytes env b known = .ok (n, b) := by
  rw [encoding_precedence, hb, hs]

/-- `input_encoding` takes precedence over the default -/
theorem input_encoding_beats_default (env : Env) (b : Bytes) (c : Char) (cs : Name)
    (hb : stripBom b = none) (hs : sniff b = none) : chooseBytes env b (some (c :: cs)) = .ok (c :: cs, b) := by
  rw [encoding_precedence, hb, hs]

/-- UTF-8 is the default -/
theorem default_is_utf8 (env : Env) (b : Bytes) (hb : stripBom b = none) (hs : sniff b = none) :
    chooseBytes env b none = .ok (utf8Name, b) ∧ chooseBytes env b (some []) = .ok (utf8Name, b) := by
  constructor <;> rw [encoding_precedence, hb, hs]

/-- a BOM (without a conflicting comment) means utf-8, whatever `input_encoding` says; the BOM is dropped -/
theorem bom_means_utf8 (env : Env) (b r : Bytes) (known : Option Name) (hb : stripBom b = some r)
    (hs : sniff r = none ∨ ∃ n, sniff r = some n ∧ env.isUtf8 n = true) : chooseBytes env b known = .ok (utf8Name, r) := by
  rw [encoding_precedence, hb]
  rcases hs with hs | ⟨n, hs, hn⟩
  · simp [hs]
  · simp [hs, hn]

-- `# coding: latin-1\né` as latin-1 bytes, `input_encoding="ascii"`: latin-1 is chosen
example : stripBom (asciiBytes "# coding: latin-1\n".toList ++ [233]) = none ∧
    sniff (asciiBytes "# coding: latin-1\n".toList ++ [233]) = some latin1Name := by decide +kernel
-- `é` as latin-1 bytes: no BOM, no comment
example : stripBom [233] = none ∧ sniff [233] = none := by decide +kernel
-- BOM + `hi`
example : stripBom [0xEF, 0xBB, 0xBF, 104, 105] = some [104, 105] ∧ sniff [104, 105] = none := by decide +kernel

/-! ## 2. A BOM contradicted by the comment raises `CompileException` -/

theorem bom_conflict_raises (env : Env) (b r : Bytes) (n : Name) (raw : Bool) (known : Option Name)
    (hb : stripBom b = some r) (hs : sniff r = some n) (hn : env.isUtf8 n = false) :
    decodeRawStream env (.bytes b) raw known = .error (.bomConflict n) ∧
      (Err.bomConflict n).isCompileException = true := by
  simp [decodeRawStream, encoding_precedence, hb, hs, hn, Err.isCompileException]

-- BOM + `# coding: latin-1\n`
example : stripBom ([0xEF, 0xBB, 0xBF] ++ asciiBytes "# coding: latin-1\n".toList) =
      some (asciiBytes "# coding: latin-1\n".toList) ∧
    sniff (asciiBytes "# coding: latin-1\n".toList) = some latin1Name ∧ env0.isUtf8 latin1Name = false := by decide +kernel

/-- The conflict is raised exactly when the registry does not call the comment's name utf-8 ("a BOM *contradicted* by
the comment"). -/
theorem bom_conflict_iff (env : Env) (b r : Bytes) (n : Name) (raw : Bool) (known : Option Name)
    (hb : stripBom b = some r) (hs : sniff r = some n) :
    decodeRawStream env (.bytes b) raw known = .error (.bomConflict n) ↔ env.isUtf8 n = false := by
  constructor
  · intro h
    cases hn : env.isUtf8 n with
    | false => rfl
    | true =>
      simp only [decodeRawStream, encoding_precedence, hb, hs, hn, if_true] at h
      repeat' split at h
      all_goals (first | cases h | (injection h with h; cases h))
  · exact fun hn => (bom_conflict_raises env b r n raw known hb hs hn).1

/-- A BOM together with a comment that agrees with it – absent, or *any* name the codec registry maps to utf-8
(`utf-8`, `UTF-8`, `utf8`, `utf_8`, `U8`, …; F-C18-1 repaired) – compiles: the BOM is dropped and the rest is decoded
as utf-8. -/
theorem bom_agreeing_comment (env : Env) (c : Codec) (b r : Bytes) (t : Text) (known : Option Name)
    (hb : stripBom b = some r) (hs : sniff r = none ∨ ∃ n, sniff r = some n ∧ env.isUtf8 n = true)
    (hc : env.codecOf utf8Name = some c) (hd : c.dec r = some t) :
    decodeRawStream env (.bytes b) true known = .ok (utf8Name, .str t) := by
  simp [decodeRawStream, bom_means_utf8 env b r known hb hs, hc, hd]

-- BOM + `## coding: UTF-8\nhi`: `UTF-8` is an alias, the template compiles to `hi` behind the comment
example : stripBom ([0xEF, 0xBB, 0xBF] ++ asciiBytes "## coding: UTF-8\nhi".toList) =
      some (asciiBytes "## coding: UTF-8\nhi".toList) ∧
    sniff (asciiBytes "## coding: UTF-8\nhi".toList) = some utf8Alias ∧ env0.isUtf8 utf8Alias = true ∧
    lexStart env0 (.bytes ([0xEF, 0xBB, 0xBF] ++ asciiBytes "## coding: UTF-8\nhi".toList)) none =
      .ok ⟨utf8Name, "## coding: UTF-8\nhi".toList, 17⟩ := by decide +kernel

/-- What registry coherence (`Env.Coherent`: a name the registry calls utf-8 denotes the codec `"utf-8"` denotes) buys:
a BOM in front of a template whose comment names utf-8 by any alias is redundant – with the BOM (decoded as `"utf-8"`)
and without it (decoded by the comment's name) the lexer gets the same text. -/
theorem bom_redundant_with_agreeing_comment (env : Env) (hco : env.Coherent) (b r : Bytes) (n : Name) (c : Codec)
    (t : Text) (known : Option Name) (hb : stripBom b = some r) (hr : stripBom r = none) (hs : sniff r = some n)
    (hn : env.isUtf8 n = true) (hc : env.codecOf n = some c) (hd : c.dec r = some t) :
    decodeRawStream env (.bytes b) true known = .ok (utf8Name, .str t) ∧
    decodeRawStream env (.bytes r) true known = .ok (n, .str t) := by
  have hcu : env.codecOf utf8Name = some c := by
    have := hco n hn
    rw [defaults_are_utf8.2.2.1] at this
    rw [← this, hc]
  refine ⟨bom_agreeing_comment env c b r t known hb (Or.inr ⟨n, hs, hn⟩) hcu hd, ?_⟩
  simp [decodeRawStream, comment_beats_input_encoding env r n known hr hs, hc, hd]

-- `env0` is coherent; BOM + `## coding: UTF-8\nhi`
example : env0.Coherent ∧ env0.isUtf8 utf8Alias = true ∧ env0.codecOf utf8Alias = some utf8Codec ∧
    stripBom (asciiBytes "## coding: UTF-8\nhi".toList) = none := by
  refine ⟨?_, by decide, rfl, by decide +kernel⟩
  intro n hn
  have h : n = utf8Name ∨ n = utf8Alias := by simpa [env0] using hn
  rw [defaults_are_utf8.2.2.1]
  rcases h with rfl | rfl <;> rfl

/-! ## 3. Undecodable input raises `CompileException` -/

theorem undecodable_raises_compile_exception (env : Env) (b r : Bytes) (n : Name) (c : Codec) (known : Option Name)
    (h1 : chooseBytes env b known = .ok (n, r)) (h2 : env.codecOf n = some c) (h3 : c.dec r = none) :
    decodeRawStream env (.bytes b) true known = .error (.undecodable n) ∧
      (Err.undecodable n).isCompileException = true := by
  simp [decodeRawStream, h1, h2, h3, Err.isCompileException]

-- `ff` is not UTF-8
example : chooseBytes env0 [0xFF] none = .ok (utf8Name, [0xFF]) ∧ env0.codecOf utf8Name = some utf8Codec ∧
    utf8Codec.dec [0xFF] = none := by
  refine ⟨by decide +kernel, rfl, by decide +kernel⟩

/-- every way `decode_raw_stream` can fail: a `CompileException`, or the `LookupError` of a codec name that
`codecs.lookup` does not know (which mako does not catch) -/
theorem decode_errors (env : Env) (inp : Input) (raw : Bool) (known : Option Name) (e : Err)
    (h : decodeRawStream env inp raw known = .error e) :
    e.isCompileException = true ∨ ∃ n, e = .unknownCodec n := by
  cases inp with
  | str t => simp [decodeRawStream] at h
  | bytes b =>
    simp only [decodeRawStream] at h
    cases hc : chooseBytes env b known with
    | error e' =>
      rw [hc] at h
      injection h with h
      subst h
      left
      rw [encoding_precedence] at hc
      repeat' split at hc
      all_goals first
        | (cases hc; done)
        | (injection hc with hc; subst hc; rfl)
    | ok p =>
      obtain ⟨n, r⟩ := p
      cases raw with
      | false => simp [hc] at h
      | true =>
        cases hcd : env.codecOf n with
        | none => simp [hc, hcd] at h; subst h; exact Or.inr ⟨_, rfl⟩
        | some c =>
          cases hd : c.dec r with
          | none => simp [hc, hcd, hd] at h; subst h; exact Or.inl rfl
          | some t => simp [hc, hcd, hd] at h

-- the two kinds of failure: `ff` under utf-8 (CompileException), `x` under an unknown codec name (LookupError)
example : decodeRawStream env0 (.bytes [0xFF]) true none = .error (.undecodable utf8Name) ∧
    decodeRawStream env0 (.bytes [120]) true (some "nonsense".toList) = .error (.unknownCodec "nonsense".toList) := by
  decide +kernel

/-- decoding succeeds exactly when the chosen codec exists and decodes the (BOM-less) bytes; the text handed to the
lexer is that decoding -/
theorem decode_ok_iff (env : Env) (b : Bytes) (known : Option Name) (n : Name) (t : Text) :
    decodeRawStream env (.bytes b) true known = .ok (n, .str t) ↔
      ∃ r c, chooseBytes env b known = .ok (n, r) ∧ env.codecOf n = some c ∧ c.dec r = some t := by
  simp only [decodeRawStream]
  constructor
  · intro h
    cases hc : chooseBytes env b known with
    | error e' => rw [hc] at h; cases h
    | ok p =>
      obtain ⟨n', r⟩ := p
      cases hcd : env.codecOf n' with
      | none => simp [hc, hcd] at h
      | some c =>
        cases hd : c.dec r with
        | none => simp [hc, hcd, hd] at h
        | some t' =>
          simp [hc, hcd, hd] at h
          obtain ⟨rfl, rfl⟩ := h
          exact ⟨r, c, rfl, hcd, hd⟩
  · rintro ⟨r, c, h1, h2, h3⟩
    simp [h1, h2, h3]

/-! ## 4. A template given as bytes compiles as its decoded text -/

/-- For every strictly ASCII-compatible codec `c`, every text `t` in its repertoire that survives the round trip
(`RoundTripOn c t b`: `b` are its bytes) and whose declared/configured encoding is `c`
(`env.codecOf (chooseStr t known) = some c`: the comment of `t`, else `input_encoding`, else utf-8 names `c`):
`decode_raw_stream` returns for the bytes exactly what it returns for the text – the same encoding name and the
text `t` – and the lexer starts at the same position behind the coding comment.  Guards: `HeaderOk t` (the first line
is ASCII and decides the comment, or the first ASCII character is not `#`) and the bytes do not happen to start with
the three BOM bytes. -/
theorem bytes_compile_as_text (env : Env) (c : Codec) (hA : AsciiCompatible c) (t : Text) (b : Bytes)
    (hrt : RoundTripOn c t b) (hh : HeaderOk t) (hbom : stripBom b = none) (known : Option Name)
    (hdecl : env.codecOf (chooseStr t known) = some c) :
    decodeRawStream env (.bytes b) true known = decodeRawStream env (.str t) true known ∧
    lexStart env (.bytes b) known = lexStart env (.str t) known ∧
    lexStart env (.str t) known = .ok ⟨chooseStr t known, t, codingSkip t⟩ := by
  have hch := chooseBytes_of_agree env t b known hbom (sniff_agree c hA t b hrt.1 hh)
  have h1 : decodeRawStream env (.bytes b) true known = .ok (chooseStr t known, .str t) := by
    simp [decodeRawStream, hch, hdecl, hrt.2]
  have h2 : decodeRawStream env (.str t) true known = .ok (chooseStr t known, .str t) := rfl
  exact ⟨h1.trans h2.symm, by rw [lexStart_of_decode _ _ _ _ _ h1, lexStart_of_decode _ _ _ _ _ h2],
    lexStart_of_decode _ _ _ _ _ h2⟩

/-- The same under the weaker law `AsciiPrefix` (an ASCII prefix is encoded position-wise as itself – true of
shift_jis as well), for texts whose first line is ASCII and decisive; the BOM hypothesis is then automatic. -/
theorem bytes_compile_as_text_ascii_prefix (env : Env) (c : Codec) (hA : AsciiPrefix c) (L r : Text) (b : Bytes)
    (hL : DecisiveLine L) (hrt : RoundTripOn c (L ++ '\n' :: r) b) (known : Option Name)
    (hdecl : env.codecOf (chooseStr (L ++ '\n' :: r) known) = some c) :
    decodeRawStream env (.bytes b) true known = decodeRawStream env (.str (L ++ '\n' :: r)) true known ∧
    lexStart env (.bytes b) known =
      .ok ⟨chooseStr (L ++ '\n' :: r) known, L ++ '\n' :: r, if (lineName L).isSome then L.length + 1 else 0⟩ := by
  obtain ⟨hs, hbom⟩ := sniff_agree_line c hA L r b hL hrt.1
  have hch := chooseBytes_of_agree env (L ++ '\n' :: r) b known hbom hs
  have h1 : decodeRawStream env (.bytes b) true known =
      .ok (chooseStr (L ++ '\n' :: r) known, .str (L ++ '\n' :: r)) := by
    simp [decodeRawStream, hch, hdecl, hrt.2]
  exact ⟨h1, by rw [lexStart_of_decode _ _ _ _ _ h1, codingSkip_line L r hL]⟩

/-- With a UTF-8 BOM in front of the bytes: the BOM is dropped, the encoding is utf-8 whatever `input_encoding`
says, and the lexer gets the same text and start position as for the text `t` (whose comment, if any, names
utf-8 by any alias). -/
theorem bom_bytes_compile_as_text (env : Env) (c : Codec) (hA : AsciiCompatible c) (t : Text) (b : Bytes)
    (hrt : RoundTripOn c t b) (hh : HeaderOk t)
    (hcm : codingName t = none ∨ ∃ n, codingName t = some n ∧ env.isUtf8 n = true)
    (hutf : env.codecOf utf8Name = some c) (known : Option Name) :
    lexStart env (.bytes (Generated.Encoding.bom ++ b)) known = .ok ⟨utf8Name, t, codingSkip t⟩ ∧
    ∃ n, lexStart env (.str t) known = .ok ⟨n, t, codingSkip t⟩ := by
  have hch := chooseBytes_bom_of_agree env t _ b known (stripBom_bom_append b) (sniff_agree c hA t b hrt.1 hh) hcm
  have h1 : decodeRawStream env (.bytes (Generated.Encoding.bom ++ b)) true known = .ok (utf8Name, .str t) := by
    simp [decodeRawStream, hch, hutf, hrt.2]
  exact ⟨lexStart_of_decode _ _ _ _ _ h1, _, lexStart_of_decode env (.str t) known _ t rfl⟩

-- non-vacuity of the BOM variant: utf-8 text with a `utf-8` comment
example : AsciiCompatible utf8Codec ∧
    RoundTripOn utf8Codec "## coding: utf-8\né".toList (asciiBytes "## coding: utf-8\n".toList ++ [0xC3, 0xA9]) ∧
    HeaderOk "## coding: utf-8\né".toList ∧ codingName "## coding: utf-8\né".toList = some utf8Name ∧
    env0.isUtf8 utf8Name = true ∧ env0.codecOf utf8Name = some utf8Codec := by
  refine ⟨utf8_asciiCompatible, ⟨by decide +kernel, by decide +kernel⟩,
    Or.inl ⟨"## coding: utf-8".toList, "é".toList, rfl, by decide +kernel⟩, by decide +kernel, by decide, rfl⟩

/-- Preprocessors run on the *decoded text*: `Lexer.parse` decodes first (obligation `decode_precedes_preprocessors` on
its statement order), hands the `str` to the preprocessors in turn, and skips the coding comment on what they return. -/
theorem preprocessors_get_decoded_text (env : Env) (inp : Input) (known : Option Name) (pre : List (Text → Text)) :
    lexStartP env inp known pre =
      match decodeRawStream env inp true known with
      | .error e => .error e
      | .ok (n, .str t) => .ok ⟨n, applyAll pre t, codingSkip (applyAll pre t)⟩
      | .ok (n, .bytes _) => .error (.undecodable n) := by
  simp only [lexStartP, decode_precedes_preprocessors.1, decode_precedes_preprocessors.2, if_true]
  cases h : decodeRawStream env inp true known with
  | error e => rfl
  | ok p => obtain ⟨n, i⟩ := p; cases i <;> rfl

/-- … hence, under the hypotheses of `bytes_compile_as_text`, a template given as bytes and its decoded text give the
lexer the same input **for every list of preprocessors**. -/
theorem bytes_compile_as_text_preprocessed (env : Env) (c : Codec) (hA : AsciiCompatible c) (t : Text) (b : Bytes)
    (hrt : RoundTripOn c t b) (hh : HeaderOk t) (hbom : stripBom b = none) (known : Option Name)
    (hdecl : env.codecOf (chooseStr t known) = some c) (pre : List (Text → Text)) :
    lexStartP env (.bytes b) known pre = lexStartP env (.str t) known pre ∧
    lexStartP env (.str t) known pre = .ok ⟨chooseStr t known, applyAll pre t, codingSkip (applyAll pre t)⟩ := by
  rw [preprocessors_get_decoded_text, preprocessors_get_decoded_text,
    (bytes_compile_as_text env c hA t b hrt hh hbom known hdecl).1]
  exact ⟨rfl, rfl⟩

-- a preprocessor that changes the text (`a` ↦ `A`) on the utf-8 bytes of `é a`: it sees `é a`, the lexer gets `é A`
example : lexStartP env0 (.bytes [0xC3, 0xA9, 32, 97]) none [fun t => t.map fun ch => if ch = 'a' then 'A' else ch] =
    .ok ⟨utf8Name, "é A".toList, 0⟩ := by decide +kernel

/-- `## -*- coding: latin-1 -*-\nhé ${x}` -/
def sampleText : Text := "## -*- coding: latin-1 -*-\nhé ${x}".toList

-- non-vacuity: latin-1, a commented template with a non-ASCII character
example : AsciiCompatible latin1Codec ∧
    RoundTripOn latin1Codec sampleText (sampleText.map Char.toNat) ∧ HeaderOk sampleText ∧
    stripBom (sampleText.map Char.toNat) = none ∧
    env0.codecOf (chooseStr sampleText (some asciiName)) = some latin1Codec := by
  refine ⟨latin1_asciiCompatible, ⟨by decide +kernel, by decide +kernel⟩, Or.inl ⟨"## -*- coding: latin-1 -*-".toList, "hé ${x}".toList, rfl, by decide +kernel⟩,
    by decide +kernel, ?_⟩
  have : chooseStr sampleText (some asciiName) = latin1Name := by decide +kernel
  rw [this]; rfl

-- non-vacuity: utf-8, no comment, the text starts with a non-ASCII character, declared by the default
example : AsciiCompatible utf8Codec ∧
    RoundTripOn utf8Codec "é # x".toList [0xC3, 0xA9, 32, 35, 32, 120] ∧ HeaderOk "é # x".toList ∧
    env0.codecOf (chooseStr "é # x".toList none) = some utf8Codec := by
  refine ⟨utf8_asciiCompatible, ⟨by decide +kernel, by decide +kernel⟩, Or.inr (by decide +kernel), ?_⟩
  have : chooseStr "é # x".toList none = utf8Name := by decide +kernel
  rw [this]; rfl

-- non-vacuity of the weak law: it follows from the strict one, e.g. for utf-8
example : AsciiPrefix utf8Codec := asciiPrefix_of_asciiCompatible _ utf8_asciiCompatible

/-- **Exactly** when the bytes path and the text path of `decode_raw_stream` differ, for a text `t` with bytes `b` in
its declared codec (no hypothesis on the codec beyond the round trip of this text, no guard on `t`): they differ iff
the name found in `b.decode("utf-8", "ignore")` and the name found in `t` lead to different encoding names
(both falling back to `input_encoding`/utf-8).  So `HeaderOk` in `bytes_compile_as_text` is a sufficient *syntactic*
condition for the right-hand side to be false, and nothing but the sniffing decode can make the paths differ. -/
theorem bytes_vs_text_disagree_iff (env : Env) (c : Codec) (t : Text) (b : Bytes) (hrt : RoundTripOn c t b)
    (hbom : stripBom b = none) (known : Option Name) (hdecl : env.codecOf (chooseStr t known) = some c) :
    decodeRawStream env (.bytes b) true known ≠ decodeRawStream env (.str t) true known ↔
      (codingName (utf8Ignore b)).getD (orDefault known utf8Name) ≠ (codingName t).getD (orDefault known utf8Name) := by
  have hstr : decodeRawStream env (.str t) true known = .ok (chooseStr t known, .str t) := rfl
  have hct : chooseStr t known = (codingName t).getD (orDefault known utf8Name) := by
    simp only [chooseStr, defaults_are_utf8.1]; cases codingName t <;> rfl
  have hcb : chooseBytes env b known = .ok ((codingName (utf8Ignore b)).getD (orDefault known utf8Name), b) := by
    simp only [chooseBytes, hbom, sniff, defaults_are_utf8.2.1]; cases codingName (utf8Ignore b) <;> rfl
  constructor
  · intro hne heq
    apply hne
    rw [hstr, hct]
    rw [hct] at hdecl
    simp [decodeRawStream, hcb, heq, hdecl, hrt.2]
  · intro hne heq
    apply hne
    rw [hstr, hct] at heq
    simp only [decodeRawStream, hcb, if_true] at heq
    repeat' split at heq
    all_goals first
      | (cases heq; done)
      | (injection heq with heq; injection heq with h1 _)

/-- in particular (strictly ASCII-compatible codec): the paths can only differ outside `HeaderOk` -/
theorem disagree_implies_not_headerOk (env : Env) (c : Codec) (hA : AsciiCompatible c) (t : Text) (b : Bytes)
    (hrt : RoundTripOn c t b) (hbom : stripBom b = none) (known : Option Name)
    (hdecl : env.codecOf (chooseStr t known) = some c)
    (hne : decodeRawStream env (.bytes b) true known ≠ decodeRawStream env (.str t) true known) : ¬ HeaderOk t :=
  fun hh => hne (bytes_compile_as_text env c hA t b hrt hh hbom known hdecl).1

/- OPEN (finding F-C18-2): the full-strength statement is `bytes_compile_as_text` without `HeaderOk`.
   `decode_raw_stream` looks for the comment in `text.decode("utf-8", "ignore")`, which *drops* bytes that are not
   UTF-8: a `#…coding:` that is not at the start of the text moves to the start when the bytes before it are dropped,
   and non-ASCII characters next to the encoding name are dropped from it or merged into it. -/

/-- the model (like the code) compiles the latin-1 bytes of `é# coding: ascii\nx` (given `input_encoding="latin-1"`)
differently from the text: the bytes are decoded as *ascii* (and fail), the text has no coding comment -/
theorem bytes_compile_as_text_counterexample :
    let t : Text := "é# coding: ascii\nx".toList
    let b : Bytes := t.map Char.toNat
    AsciiCompatible latin1Codec ∧ RoundTripOn latin1Codec t b ∧ stripBom b = none ∧
    env0.codecOf (chooseStr t (some latin1Name)) = some latin1Codec ∧
    decodeRawStream env0 (.bytes b) true (some latin1Name) = .error (.undecodable asciiName) ∧
    decodeRawStream env0 (.str t) true (some latin1Name) = .ok (latin1Name, .str t) := by
  refine ⟨latin1_asciiCompatible, ⟨by decide +kernel, by decide +kernel⟩, by decide +kernel, ?_, by decide +kernel,
    by decide +kernel⟩
  have : chooseStr "é# coding: ascii\nx".toList (some latin1Name) = latin1Name := by decide +kernel
  rw [this]; rfl

/-! ## 4b. Which codecs the theorems speak about -/

/-- UTF-16-BE is no instance of anything above: it satisfies neither `AsciiPrefix` nor `AsciiCompatible`, the only two
codec laws under which a theorem of this file relates bytes and text (`'a'` is `00 61`). -/
theorem utf16be_is_a_non_example : ¬ AsciiPrefix utf16beCodec ∧ ¬ AsciiCompatible utf16beCodec :=
  ⟨utf16be_not_asciiPrefix, utf16be_not_asciiCompatible⟩

/-- The shift_jis situation, precisely: a stateless codec that writes ASCII as itself but uses an ASCII-range byte inside
the encoding of some non-ASCII character (shift_jis trail bytes 0x40–0x7E) satisfies `AsciiPrefix` and not
`AsciiCompatible`.  What applies to it: `bytes_compile_as_text_ascii_prefix` (texts whose first line is ASCII and
decisive), `module_file_written` (its hypotheses are `Charwise` + ASCII identity), `module_file_roundtrip` (`AsciiPrefix`
+ `RoundTrip` – for shift_jis on the repertoire without U+00A5/U+203E), `bytes_vs_text_disagree_iff` (no codec law), and
everything that does not mention a codec law; `bytes_compile_as_text`, `bom_bytes_compile_as_text` and
`disagree_implies_not_headerOk` (strict law) do not. -/
theorem ascii_prefix_only_codecs (c : Codec) (f : Char → Option Bytes) (hc : Charwise c f)
    (hf : ∀ ch, isAsciiChar ch = true → f ch = some [ch.toNat])
    (hlow : ∃ ch bs x, isAsciiChar ch = false ∧ f ch = some bs ∧ x ∈ bs ∧ x < 128) :
    AsciiPrefix c ∧ ¬ AsciiCompatible c := prefix_only c f hc hf hlow

-- instance: ASCII + `ソ` = 83 5C (the shift_jis bytes), `sjisCut`
example : AsciiPrefix sjisCut ∧ ¬ AsciiCompatible sjisCut := sjisCut_prefix_only

/-! ## 5. The module file: written with a magic comment, read back by the declared-encoding rule -/

/-- A module made of the magic comment, the `from __future__ import` line (any list of ASCII names), ASCII scaffolding,
`repr`s of and verbatim copies of strings whose characters the template's codec can encode (the characters of the
template), and the template's file name and uri – **arbitrary** strings, written with `%a` since the repair of F-C18-4
(`Piece.nameOf` has no payload) – is written successfully by `_compile_module_file`. -/
theorem module_file_written (env : Env) (c : Codec) (f : Char → Option Bytes) (hc : Charwise c f)
    (hf : ∀ ch, isAsciiChar ch = true → f ch = some [ch.toNat])
    (np : Char → Bool) (n : Name) (hn : IsCodecName n) (hcodec : env.codecOf n = some c)
    (future : List Name) (hfut : ∀ m ∈ future, isAsciiText m = true) (body : List Piece)
    (hw : ∀ p ∈ body, p.wellFormed = true) (hp : ∀ p ∈ body, ∀ ch ∈ p.payload, (f ch).isSome = true) :
    ∃ B, compileModuleFile env np (some n) future body = .ok B ∧
      c.enc (moduleText np (some n) true future body) = some B := by
  obtain ⟨x, xs, rfl⟩ := List.exists_cons_of_ne_nil hn.1
  have hsome : (c.enc (moduleText np (some (x :: xs)) true future body)).isSome = true := by
    rw [hc, encAll_isSome]
    intro ch hm
    rcases moduleText_chars np _ hn future hfut body hw ch hm with h | ⟨p, hpm, hch⟩
    · rw [hf ch h]; rfl
    · exact hp p hpm ch hch
  obtain ⟨B, hB⟩ := Option.isSome_iff_exists.1 hsome
  refine ⟨B, ?_, hB⟩
  simp [compileModuleFile, orDefault, hcodec, module_file_has_magic.1, hB]

/-- The coding comment is the **first line** of the module file whatever `future_imports` are (it is written before the
`from __future__ import` line: obligation `magic_comment_first` on the statement order of `write_toplevel`), so that
Python – which looks for the comment on line 2 only when line 1 is a comment too – and `parse_encoding` find it. -/
theorem module_file_starts_with_magic_comment (np : Char → Bool) (n : Name) (hn : IsCodecName n) (future : List Name)
    (body : List Piece) :
    ∃ rest, moduleText np (some n) Generated.Encoding.magicInModuleFile future body = magicLine n ++ '\n' :: rest := by
  rw [module_file_has_magic.1, moduleText_magic np n hn future body]
  exact ⟨futureLine future ++ body.flatMap (Piece.render np), by simp⟩

/-- The bytes written for the module (the module text starting with `# -*- coding:<name> -*-`, encoded with the
template's codec) are read back by `util.read_python_file` – encoding taken from the magic comment by
`parse_encoding`, then decoded – as exactly the generated text; for every list of future imports. -/
theorem module_file_roundtrip (env : Env) (c : Codec) (hA : AsciiPrefix c) (hR : RoundTrip c)
    (np : Char → Bool) (parses : Text → Bool) (n : Name) (hn : IsCodecName n) (hcodec : env.codecOf n = some c)
    (future : List Name) (body : List Piece) (B : Bytes)
    (hB : compileModuleFile env np (some n) future body = .ok B) :
    parseEncoding parses B = .ok (some n) ∧
    readPythonFile env parses B = .ok (.str (moduleText np (some n) true future body)) := by
  have henc : c.enc (moduleText np (some n) true future body) = some B := by
    obtain ⟨x, xs, rfl⟩ := List.exists_cons_of_ne_nil hn.1
    simp only [compileModuleFile, orDefault, hcodec, module_file_has_magic.1] at hB
    split at hB
    · cases hB
    · rename_i b hb; injection hB with hB; subst hB; exact hb
  have hdec := hR _ _ henc
  rw [moduleText_magic np n hn future body] at henc
  obtain ⟨B', _, rfl⟩ := hA.split (magicLine_ascii n hn) henc
  have hpe := parseEncoding_magic parses n hn B'
  exact ⟨hpe, by simp [readPythonFile, hpe, hcodec, hdec]⟩

-- non-vacuity: a latin-1 module with a `repr` and a verbatim piece
example : IsCodecName latin1Name ∧ env0.codecOf latin1Name = some latin1Codec ∧
    (∃ B, compileModuleFile env0 (fun _ => false) (some latin1Name) ["annotations".toList, "division".toList]
      [.scaffold "__M_writer(".toList, .reprOf "hé'".toList, .scaffold ")\n".toList, .code "x = 'ü'".toList] = .ok B) := by
  refine ⟨⟨by decide, by decide +kernel⟩, rfl, ?_⟩
  obtain ⟨f, hc, hf, _⟩ := latin1_asciiCompatible
  obtain ⟨B, hB, _⟩ := module_file_written env0 latin1Codec _ (byteCodec_charwise 256)
    (by intro ch h; have : ch.toNat < 128 := by simpa [isAsciiChar] using h
        simp [show ch.toNat < 256 by omega])
    (fun _ => false) latin1Name ⟨by decide, by decide +kernel⟩ rfl ["annotations".toList, "division".toList] (by decide)
    [.scaffold "__M_writer(".toList, .reprOf "hé'".toList, .scaffold ")\n".toList, .code "x = 'ü'".toList]
    (by decide +kernel) (by decide +kernel)
  exact ⟨B, hB⟩

-- non-vacuity of `module_file_roundtrip`: latin-1 satisfies both laws, and a module was written above
example : AsciiPrefix latin1Codec ∧ RoundTrip latin1Codec :=
  ⟨asciiPrefix_of_asciiCompatible _ latin1_asciiCompatible, latin1_roundTrip⟩

-- the file name `é.html` (not ASCII) in the module of an ascii template: written, since F-C18-4 was repaired
example : compileModuleFile env0 (fun _ => false) (some asciiName) ["division".toList]
      [.scaffold "_template_filename = ".toList, .nameOf "é.html".toList, .scaffold "\n".toList] =
    .ok (asciiBytes ("# -*- coding:ascii -*-\nfrom __future__ import division\n_template_filename = '\\xe9.html'\n".toList)) := by
  decide +kernel

/-! ## 6. `Template.source` -/

/-- `Template.source` of a template given as bytes (or read from a file) is the text the lexer got – with or without a
BOM (F-C18-3 repaired: `ModuleInfo.source` drops the BOM before decoding, as the lexer does). -/
theorem source_is_decoded_text (env : Env) (b : Bytes) (known : Option Name) (n : Name) (t : Text)
    (h : decodeRawStream env (.bytes b) true known = .ok (n, .str t)) :
    templateSource env (.bytes b) (some n) = .ok (.str t) := by
  obtain ⟨r, c, h1, h2, h3⟩ := (decode_ok_iff env b known n t).1 h
  obtain ⟨rfl, hn⟩ := chooseBytes_ok env b r known n h1
  obtain ⟨x, xs, rfl⟩ := List.exists_cons_of_ne_nil hn
  simp [templateSource, h2, h3, source_strips_bom]

-- `hé` as utf-8 bytes, without and with a BOM
example : decodeRawStream env0 (.bytes [104, 0xC3, 0xA9]) true none = .ok (utf8Name, .str "hé".toList) ∧
    decodeRawStream env0 (.bytes [0xEF, 0xBB, 0xBF, 104, 0xC3, 0xA9]) true none = .ok (utf8Name, .str "hé".toList) ∧
    templateSource env0 (.bytes [0xEF, 0xBB, 0xBF, 104, 0xC3, 0xA9]) (some utf8Name) = .ok (.str "hé".toList) := by
  decide +kernel

/-! ## 7. `render()` and `render_unicode()` -/

/-- `render_unicode()` returns the concatenation of what the template wrote, as `str`, whatever `output_encoding`
and `encoding_errors` are -/
theorem render_unicode_ignores_output_encoding (E : EncEnv) (cfg : RenderCfg) (writes : List Text) :
    render E cfg true writes = some (.str writes.flatten) := by
  simp [render, foldl_write, Buffer.getvalue]

/-- `render()` returns `str` – the same as `render_unicode()` – when no `output_encoding` is set (`None` or `""`) -/
theorem render_without_output_encoding (E : EncEnv) (errors : Name) (writes : List Text) :
    render E ⟨none, errors⟩ false writes = render E ⟨none, errors⟩ true writes ∧
    render E ⟨some [], errors⟩ false writes = render E ⟨some [], errors⟩ true writes ∧
    render E ⟨none, errors⟩ false writes = some (.str writes.flatten) := by
  simp [render, foldl_write, Buffer.getvalue]

/-- otherwise `render()` is exactly `render_unicode().encode(output_encoding, encoding_errors)` – one encode call on
the whole output, raising when that call raises -/
theorem render_encoding (E : EncEnv) (c : Char) (cs errors : Name) (writes : List Text) :
    render E ⟨some (c :: cs), errors⟩ false writes =
      match render E ⟨some (c :: cs), errors⟩ true writes with
      | some (.str u) => (E.encode (c :: cs) errors u).map .bytes
      | _ => none := by
  simp [render, foldl_write, Buffer.getvalue]

end MakoModel.C18
