import MakoModel.Control.Fragment
import MakoModel.Control.Semantics
/-!
# C03 – control lines and Python blocks execute with Python semantics; the `loop` object

Models: `Control/Printer.lean` (`PythonPrinter.writeline`: the six regexes, the indent / unindent state machine,
`None` markers, `write_indented_block`), `Control/Model.lean` (control-line regex, nesting and children lists of
`append_node`, the auto-`pass` rule of `visitControlLine` as written, `mangle_mako_loop` / `LoopVariable`,
`LoopContext`, the `loop` part of `write_variable_declares`), `Control/Fragment.lean` (`PythonFragment`), and –
for the *meaning* of the generated code – C13's target language, code generator and specification renderer
(`Target/`, `Codegen/`).

Which control forms mako admits (lexer ternary table + `PythonFragment` keyword table; both are modelled):
`if / elif* / else?`, `for / else?`, `while` (no `else`), `try / except+` (no `else`, **no `finally`**: the lexer
accepts `% finally:` as a ternary of `try` but `PythonFragment` rejects the keyword), `with`.

OPEN: one statement of the design is false of the code as it stands and appears as `_partial` + `_counterexample`:
`stop_rendering_keeps_output` (`return` inside a buffered or filtered def loses the content).  The split of a
mangled `% for` header by `_FOR_LOOP` is a parameter of the model (`Hdr.forParts`); since /repo 675f827 the trailing
comment is cut off before the match, so the parameter is the target / iterable of the statement itself.
-/
namespace MakoModel.C03
open MakoModel.Control MakoModel.Target MakoModel.Codegen MakoModel.Basic

abbrev Str := List Char

/-! ## the printer -/

/-- **The printer writes every structured program with the indentation of its structure.**  For every program
    `P` – any nesting depth – whose simple lines are `LineOk`, whose headers are `HeaderOk` and whose suites are not
    empty: running `writeline` / `write_indented_block` over the flat emission `emit P` (headers, lines, a `None`
    after a suite unless a continuation clause follows) raises nothing, ends in the initial state, and what it
    wrote, read back by the offside rule, is `P` again.

    Full strength since /repo 1cb10d7 (`except` in `_re_compound`; formerly finding F-C03-1).  The condition left
    inside `good` – a continuation clause (`else / elif / except / finally`) directly follows a suite whose header
    is in `_re_compound` = `if try elif while for with except` – excludes exactly the programs in which a clause
    follows an `else`, `finally`, `def` or `class` header (`continuation_after_final_clause`), which Python's
    grammar excludes as well: `else` and `finally` are final clauses. -/
theorem printer_adequate (P : Prog) (hg : good none P = true) (hne : suitesNonEmpty P = true) :
    printed P = ⟨0, [], layout 0 P, false, flagAfter false (emit P)⟩ ∧
      parseIndent (printed P).out = some (unraw P) := by
  have h := printed_layout P hg
  exact ⟨h, by rw [h]; exact parseIndent_layout P hne⟩

/-- `if x:` (`for a in b:` (block, `__M_writer`), `elif y:` …, `else:` …), `try: … finally: …`, nesting depth 3 -/
def sampleProg : Prog :=
  .comp "if x:".toList
    (.comp "for a in b: # c".toList (.line true "y = 1\nz = 2".toList (.line false "__M_writer(y)".toList .nil)) .nil)
    (.comp "elif y:".toList (.line false "pass".toList .nil)
      (.comp "else:".toList
        (.comp "try:".toList (.line false "__M_writer('a:')".toList .nil)
          (.comp "finally:".toList (.line false "loop = __M_loop._exit()".toList .nil) .nil))
        (.line false "return ''".toList .nil)))

example : good none sampleProg = true ∧ suitesNonEmpty sampleProg = true := by decide +kernel

/-- the headers after which `good` allows no continuation clause are those after which Python allows none -/
theorem continuation_after_final_clause (h : Str) (hh : HeaderOk h = true) (hc : isCompound h = false) :
    ∃ k, k ∈ ["def".toList, "class".toList, "else".toList, "finally".toList] ∧ startsWith (lskip h) k = true :=
  header_not_compound hh hc

example : HeaderOk "else: # c".toList = true ∧ isCompound "else: # c".toList = false := by decide +kernel

/-- `try:` / `except A:` / `except B:` / `except:` – several clauses (the witness of the former F-C03-1) -/
def threeExcepts : Prog :=
  .comp "try:".toList (.line false "__M_writer('a')".toList .nil)
    (.comp "except A:".toList (.line false "__M_writer('b')".toList .nil)
      (.comp "except B:".toList (.line false "__M_writer('c')".toList .nil)
        (.comp "except:".toList (.line false "__M_writer('d')".toList .nil) .nil)))

example : good none threeExcepts = true ∧ suitesNonEmpty threeExcepts = true ∧
    (printed threeExcepts).out.map (·.1) = [0, 1, 0, 1, 0, 1, 0, 1] := by decide +kernel

/-- **What `PythonFragment` admits, the printer treats as a header** (it has text, is no comment, matches
    `_re_indent` and one of the two keyword tables) – so the lines of `% if/elif/else/for/while/try/except/with`
    open a level.  Full strength – every admitted text – since /repo e8c0e60 gave `_re_indent` the `\s*` and `re.S`
    that `PythonFragment` uses (formerly finding F-C03-9; the guard "only blanks and tabs as whitespace" is gone).
    Uses the side condition `pySpace_eq_space`: `str.strip()` and `\s` agree on the regenerated tables. -/
theorem fragment_headerOk (t kw : Str) (ha : fragmentAdmits t = some kw) : HeaderOk t = true :=
  fragment_headerOk_core t kw ha

example : fragmentAdmits "elif x == ':' :  # c: d".toList = some "elif".toList := by decide +kernel

/-- regression (the witnesses of the former `fragment_headerOk_counterexample`): a form feed or a no-break space
    after the colon, a comment continued over a backslash-newline, leading whitespace – admitted, and headers -/
theorem fragment_headerOk_regression :
    fragmentAdmits "if x:\x0c".toList = some "if".toList ∧ HeaderOk "if x:\x0c".toList = true ∧
    fragmentAdmits "for a in b:\u00a0 ".toList = some "for".toList ∧ HeaderOk "for a in b:\u00a0 ".toList = true ∧
    fragmentAdmits "if x: # c \\\n d".toList = some "if".toList ∧ HeaderOk "if x: # c \\\n d".toList = true ∧
    HeaderOk " \telse :\n".toList = true := by
  decide +kernel

/-- `% finally:` is not admitted (the lexer's ternary table lists it, `PythonFragment` rejects it); nor is any
    keyword outside the table -/
theorem finally_not_admitted : fragmentAdmits "finally:".toList = none ∧ fragmentAdmits "match x:".toList = none ∧
    isTernaryOf "try".toList "finally".toList = true := by decide +kernel

/-- **No line the generator writes for output or declarations is mistaken for a compound statement or an
    unindentor**: (1) any line starting with `__M_` – every `__M_writer(…)` whatever its argument (repr of
    template text, a user expression with colons, `#`, several physical lines), `__M_caller = …`, … – and
    (2) any line without a colon that has text – every declaration `NAME = context.get('NAME', UNDEFINED)`, also
    for names that begin with a keyword of the printer's prefix tables (`format`, `iffy`, `classes`, `else_`) –
    is `LineOk`: written at the current level, `indent` and `indent_detail` unchanged. -/
theorem no_writer_line_matches_indent :
    (∀ rest : Str, LineOk ('_' :: '_' :: 'M' :: '_' :: rest) = true) ∧
    (∀ s : Str, s.contains ':' = false → hasText (some s) = true → LineOk s = true) :=
  ⟨mline_ok, no_colon_lineOk⟩

example : ("format = context.get('format', UNDEFINED)".toList).contains ':' = false ∧
    hasText (some "format = context.get('format', UNDEFINED)".toList) = true ∧
    reCompound "format = context.get('format', UNDEFINED)".toList = some "for".toList ∧
    declLine "format".toList = "format = context.get('format', UNDEFINED)".toList := by decide +kernel

/-! ## the auto-`pass` rule -/

/-- **The rule of `visitControlLine`, exactly** (the four-way disjunction over the `nodes` list that
    `append_node` built, for a primary line, a ternary line, the last ternary line): `pass` is written iff the
    body up to the next ternary / end line holds nothing but comments, or its first node that is not a comment is a
    nested control line.  Nodes the lexer hangs under the control line from inside a tag never matter. -/
theorem pass_rule_exact (kw : Str) (body : CT) (terns : Terns) (node : Str) (last : Bool) :
    passRule kw (primaryChildren kw body terns) = passExpected body ∧
    passRule node (ternaryChildren kw body last) = passExpected body :=
  ⟨passRule_primary kw body terns, passRule_ternary node kw body last⟩

/-- whenever the body of a control header contains nothing but comments (or nothing), a `pass` is written -/
theorem auto_pass_comment_only (kw : Str) (body : CT) (terns : Terns) (node : Str) (last : Bool)
    (h : allComments body = true) :
    passRule kw (primaryChildren kw body terns) = true ∧ passRule node (ternaryChildren kw body last) = true :=
  ⟨passRule_primary_comments kw body terns h, passRule_ternary_comments node kw body last h⟩

example : allComments (.leaf .comment (.leaf .comment .nil)) = true := rfl

/-- **Every generated suite is non-empty** (full strength since /repo 6d51f05; formerly findings F-C03-2a/2b).
    Now a property of visitor and printer together: at every ternary / end line the visitor writes `pass` when the
    printer's `suite_is_empty` flag is still set.  Stated over the emission sequence: for every template – any
    nesting, suites holding only `<%def>`s, `<%! %>` blocks, comments, or nothing – the printer calls `emitCT` are
    the emission of a structured program (`structOf`) in which **no suite is empty**; and the flag the visitor reads
    is, after any error-free run of the printer, the function `flagAfter` of the calls made so far that `emitCT`
    uses (`true` exactly when the last line written opened a level). -/
theorem auto_pass_sufficient (el : Bool) (t : CT) (hok : ctOk el t = true) (hf : forOk el t = true) :
    emitCT el t = emit (structOf el t) ∧ suitesNonEmpty (structOf el t) = true ∧
    ∀ (σ : PS) (evs : List Ev), (run σ evs).err = false → (run σ evs).empty = flagAfter σ.empty evs :=
  ⟨(emit_structOf el t hok hf).symm, suites_structOf el t hf, fun σ evs h => run_empty evs σ h⟩

/-- `% if x:` / `## c` / `% for a in b:` / `% else:` / text / `% endfor` / `% elif y:` / `% endif` -/
def sampleCT : CT :=
  .ctl ⟨"if".toList, "if x:".toList, false, none⟩
    (.leaf .comment
      (.ctl ⟨"for".toList, "for a in b:".toList, false, some ("a".toList, "b".toList)⟩ .nil
        (.cons ⟨"else".toList, "else:".toList, true, none⟩ (.leaf (.stmt "__M_writer('t')".toList false []) .nil) .nil)
        .nil))
    (.cons ⟨"elif".toList, "elif y:".toList, false, none⟩ .nil .nil)
    (.leaf (.block "z = 1".toList false (some "'z'".toList)) .nil)

example : forOk true sampleCT = true ∧ ctOk true sampleCT = true := by decide +kernel

/-- `% if x:` / `<%def name="d()">…</%def>` / `% elif y:` / `% endif`: both suites get their `pass` from the flag
    (the witness of the former F-C03-2a) -/
def defOnlySuite : CT :=
  .ctl ⟨"if".toList, "if x:".toList, false, none⟩ (.leaf (.silent false [.other]) .nil)
    (.cons ⟨"elif".toList, "elif y:".toList, false, none⟩ (.leaf (.silent false []) .nil) .nil) .nil

example : ctOk true defOnlySuite = true ∧ forOk true defOnlySuite = true ∧
    emitCT true defOnlySuite = [.wl (some "if x:".toList), .wl (some "pass".toList), .wl (some "elif y:".toList),
      .wl (some "pass".toList), .wl none] := by decide +kernel

/-- **An extra `pass` never changes the outcome** (the rule also writes `pass` in front of a nested control
    line): in the target semantics `pass` is `skip`, and a suite with a `skip` in front or at the end runs as the
    suite itself – same outcome, locals and state (one unit of fuel aside). -/
theorem pass_neutral (c : Cfg) (n : Nat) (s : Stmt) (l : Loc) (σ : St) :
    exec c (n + 2) (.seq .skip s) l σ = exec c (n + 1) s l σ ∧
    exec c (n + 2) (.seq s .skip) l σ = exec c (n + 1) s l σ :=
  ⟨exec_pass_first c n s l σ, exec_pass_last c n s l σ⟩

/-! ## margins; the whole control layer -/

/-- **The whitespace before `%` (and between `%` and the keyword) does not matter**: the control-line regex
    yields the same `(is comment, text)` – hence the same node, the same children lists, the same `emitCT`. -/
theorem margin_independent (ws ws2 s r : Str) (h : ws.all isBlank = true) (h2 : ws2.all isBlank = true)
    (hr : r.head? ≠ some '%') :
    lexCtl (ws ++ s) = lexCtl s ∧ lexCtl (ws ++ '%' :: (ws2 ++ r)) = lexCtl ('%' :: r) :=
  ⟨lexCtl_margin ws s h, by rw [lexCtl_margin _ _ h, lexCtl_after_percent ws2 r h2 hr]⟩

example : lexCtl " \t %  if x:\nfoo".toList = some (false, "if x:".toList) ∧
    lexCtl "%if x:\nfoo".toList = some (false, "if x:".toList) ∧ lexCtl "  ## c".toList = some (true, "c".toList) ∧
    lexCtl "  %% x".toList = none := by decide +kernel

/-- **The printer calls of `visitControlLine` produce the intended structure**, for every body with control
    structures at any depth, ternaries, comments, `<% %>` blocks, loops with and without loop context: the calls
    are the flat emission of `structOf t`, the printer writes it with that structure's indentation and ends in the
    state it started in, and the written lines read back as `structOf t`.

    Full strength (since /repo 1cb10d7 and 6d51f05).  `ctOk` holds the shape conditions: lines are `LineOk` /
    `HeaderOk`, and no ternary line follows an `% else:` – which is Python's grammar (mako's lexer would let
    `% if / % else / % elif` through; that is no Python statement); `forOk`: `_FOR_LOOP` matched every mangled
    `% for` (otherwise the real generator raises). -/
theorem codegen_indentation (el : Bool) (t : CT) (hok : ctOk el t = true) (hf : forOk el t = true) :
    run PS.init (emitCT el t) = ⟨0, [], layout 0 (structOf el t), false, flagAfter false (emitCT el t)⟩ ∧
      parseIndent (run PS.init (emitCT el t)).out = some (unraw (structOf el t)) := by
  have he := emit_structOf el t hok hf
  have h := printer_adequate (structOf el t) (good_structOf el t hok) (suites_structOf el t hf)
  simp only [printed, he] at h
  exact h

example : (run PS.init (emitCT true sampleCT)).out.map (·.1) = [0, 1, 1, 1, 2, 3, 2, 3, 1, 2, 0, 1, 0, 0, 0] := by decide +kernel

/-! ## meaning of the generated code -/

/-- **Executing the generated target for control structures is the specification** (`Spec.snodes`: a direct,
    stack-free reading of the template – `if` runs the first branch whose test is true, `for` the body per item
    in order with `break/continue`, `while` re-tests, `try` runs the handler after an exception with the text
    written before it kept), for every template of the control fragment at any nesting, every crash point, from
    every related state: same output appended to the current buffer, same outcome, same counter, same variables.
    `% elif` chains are covered through `elifChain` (Python's own reading: an `if` in the `else` branch).

    PARTIAL – guard `Ctl t` (C13's control fragment: text, `${expr | filters}` without calls, `if/elif/else`,
    `for` over a list, `while`, `try` with one catch-all `except`, `loop.index`, `<%text filter>`,
    `return/break/continue`).  `for … else`, typed / several `except` clauses and `with` have no counterpart in the
    shared target language; for them – and for bodies with defs, blocks, calls – the real renderer is compared on
    every run with the Lean pipeline where it applies and with a native-Python reference renderer everywhere. -/
theorem control_refines_python_partial (ts : List (Tmpl × Option Bool)) (k : Nat) (t : Tmpl) (sc : Scope)
    (hctl : Ctl t = true) (hlo : LoopOK sc t) (fuel : Nat) (l : Loc) (σ : St) (E : Spec.Env)
    (hR : Rel l σ E) (hl : LocOK l) (hσ : StOK σ) (i : Nat) (topc : Str) (rest : List (Nat × Str))
    (hb : σ.bufs = (i, topc) :: rest) (hw : l.writer = i) (o : Outcome) (l' : Loc) (σ' : St)
    (he : exec (progOf ts k) fuel (stmts sc t) l σ = (o, l', σ')) (ho : o ≠ .timeout) :
    ∃ out vars', σ'.bufs = (i, topc ++ out) :: rest ∧
      (∃ m0, ∀ m, m0 ≤ m → Spec.snodes ⟨ts, k⟩ m t E σ.cnt = ⟨conv o, out, σ'.cnt, vars'⟩) ∧
      ∀ x, lookup x l'.vars = lookup x vars' :=
  (ref_all (progOf ts k) ⟨ts, k⟩ (codegen_cfg_ok ts k) rfl fuel).stmt t sc l σ E i topc rest o l' σ' hctl hlo hR hl hσ
    hb hw he ho

/-- `% if v1:` a `% elif boom():` b `% elif v2:` c `% else:` d `% endif` inside a loop with `loop.index` -/
def sampleElif : Tmpl :=
  .for_ 1 [.lit ['p'], .lit []]
    (.seq (.expr .loopIndex [])
      (elifChain [(.var 1, .text ['a']), (.boom, .text ['b']), (.lit ['q'], .text ['c'])] (.text ['d'])))

example : Ctl sampleElif = true ∧ LoopOK ⟨true, false, false, true⟩ sampleElif ∧
    Rel (Loc.init 0) St.init { vars := [], defs := [], caller := [], loops := [], nb := 1, nf := 0, mod := 0 } :=
  ⟨by decide, .inl rfl, ⟨fun _ => rfl, rfl, rfl, rfl, rfl⟩⟩

example : (render (progOf [(sampleElif, none)] 99) ⟨none, false⟩ 100).2.1 = "0a1c".toList ∧
    (Spec.render ⟨[(sampleElif, none)], 99⟩ ⟨none, false⟩ 100).2 = "0a1c".toList := by decide +kernel

/-- an `elif` chain of control-fragment pieces is in the control fragment, and its generated code is the nested
    `if … else: if …` -/
theorem elif_is_nested_if (sc : Scope) (cs : List (Expr × Tmpl)) (e : Tmpl)
    (h : ∀ p ∈ cs, PureE p.1 = true ∧ Ctl p.2 = true) (he : Ctl e = true) :
    Ctl (elifChain cs e) = true ∧
    stmts sc (elifChain cs e) = cs.foldr (fun p acc => Stmt.ite p.1 (stmts sc p.2) acc) (stmts sc e) :=
  ⟨ctl_elifChain cs e h he, stmts_elifChain sc cs e⟩

example : ∀ p ∈ [((.var 1 : Expr), Tmpl.text ['a'])], PureE p.1 = true ∧ Ctl p.2 = true := by
  intro p hp; simp only [List.mem_singleton] at hp; subst hp; exact ⟨rfl, rfl⟩

/-- **`return` ends the body keeping the output so far.**  For `a` `<% return %>` `b` in any scope, from any
    related state: what the generated code appends to the current buffer is exactly what the specification says
    `a` writes – nothing is lost, `b` contributes nothing and is not evaluated (the counter is the one after `a`)
    – and the outcome is `return ''` (or whatever ended `a` early).

    PARTIAL – this is the statement for the *body* (`Ctl a`); at the level of the callable it holds for plain
    defs and `render_body` only.  OPEN (false, `stop_rendering_keeps_output_counterexample`): a def keeps its
    output on `return` whatever its flags. -/
theorem stop_rendering_keeps_output_partial (ts : List (Tmpl × Option Bool)) (k : Nat) (a b : Tmpl) (sc : Scope)
    (hctl : Ctl a = true) (hlo : LoopOK sc a) (fuel : Nat) (l : Loc) (σ : St) (E : Spec.Env)
    (hR : Rel l σ E) (hl : LocOK l) (hσ : StOK σ) (i : Nat) (topc : Str) (rest : List (Nat × Str))
    (hb : σ.bufs = (i, topc) :: rest) (hw : l.writer = i) (o : Outcome) (l' : Loc) (σ' : St)
    (he : exec (progOf ts k) fuel (stmts sc (.seq a (.seq .ret b))) l σ = (o, l', σ')) (ho : o ≠ .timeout) :
    ∃ out oa vars', σ'.bufs = (i, topc ++ out) :: rest ∧
      (∃ m0, ∀ m, m0 ≤ m → Spec.snodes ⟨ts, k⟩ m a E σ.cnt = ⟨oa, out, σ'.cnt, vars'⟩) ∧
      ((oa = .normal ∧ o = .ret []) ∨ (oa ≠ .normal ∧ conv o = oa)) := by
  rw [stmts_seq_ret] at he
  obtain ⟨m, o1, h1, hto, hcase⟩ := exec_seq_ret (progOf ts k) he ho
  obtain ⟨out, vars', hbufs, hev, _⟩ :=
    (ref_all (progOf ts k) ⟨ts, k⟩ (codegen_cfg_ok ts k) rfl m).stmt a sc l σ E i topc rest o1 l' σ' hctl hlo hR hl hσ
      hb hw h1 hto
  refine ⟨out, conv o1, vars', hbufs, hev, ?_⟩
  rcases hcase with ⟨rfl, rfl⟩ | ⟨hne, rfl⟩
  · exact .inl ⟨rfl, rfl⟩
  · refine .inr ⟨?_, rfl⟩
    cases o <;> simp [conv] at hne ⊢

/-- `x` `<% return %>` `y` as a whole template renders `x` -/
example : (render (progOf [(.seq (.text ['x']) (.seq .ret (.text ['y'])), none)] 99) ⟨none, false⟩ 100).2.1 = ['x'] ∧
    Ctl (.text ['x']) = true := by decide +kernel

/-- `<%def name="d1()" filter="flt1">x<% return %>y</%def>[${d1()}]` -/
def quirkFiltered : Tmpl :=
  .seq (.def_ 1 [] { buffered := false, filters := [1], cached := false, deco := false }
          (.seq (.text ['x']) (.seq .ret (.text ['y']))))
       (.seq (.text ['[']) (.seq (.expr (.call 1 []) []) (.text [']'])))

/-- in a **buffered** or **filtered** def the `return` sits inside the generated `try`; the `finally` pops the
    buffer, and the statement after the `finally` that would deliver its content (`return __M_buf.getvalue()` /
    `__M_writer(filter(__M_buf.getvalue()))`) is skipped: the def yields nothing, where the specification (and the
    documentation: "use the text you've accumulated so far") keeps `x` -/
theorem stop_rendering_keeps_output_counterexample :
    (render (progOf [(quirkTmpl, none)] 99) ⟨none, false⟩ 100).2.1 = "[]".toList ∧
    (Spec.render ⟨[(quirkTmpl, none)], 99⟩ ⟨none, false⟩ 100).2 = "[x]".toList ∧
    (render (progOf [(quirkFiltered, none)] 99) ⟨none, false⟩ 100).2.1 = "[]".toList ∧
    (Spec.render ⟨[(quirkFiltered, none)], 99⟩ ⟨none, false⟩ 100).2 = "[1(x)]".toList := by decide +kernel

/-! ## `loop` -/

/-- **In iteration `i` of the innermost `% for`** (reached after `i` bodies that ended normally or by
    `continue`; `IterAt` is the loop of the target semantics unrolled), started right after
    `loop = __M_loop._enter(vs)` on top of the enclosing contexts `outer`: the top `LoopContext` is the one of this
    loop, and `index = i`, `first ⇔ i = 0`, `last ⇔ i = n-1`, `reverse_index = n-i-1 (≥ 0)`, `odd/even` by the
    parity of `i`, `cycle(v…) = v[i mod |v|]`, `parent` = the top of the enclosing contexts – **`None` for the outermost
    loop** (`outer = []`), and the chain `parent, parent.parent, …` is exactly the enclosing contexts – and the
    items still to come are `vs[i:]` – whatever the body did (nested loops, caught exceptions, calls), for every
    body the generator emits. -/
theorem loop_context (ts : List (Tmpl × Option Bool)) (k : Nat) (sc : Scope) (x : Name) (body : Tmpl)
    (vs : List Str) (l : Loc) (σ : St) (hl : LocOK l) (hσ : StOK σ) (b : Nat) (topc : Str) (rest : List (Nat × Str))
    (hb : σ.bufs = (b, topc) :: rest) (hw : l.writer = b) (outer : List Target.LoopCtx)
    (hlp : σ.loops = ⟨vs, 0⟩ :: outer) (i : Nat) (rem : List Str) (l' : Loc) (σ' : St)
    (hI : IterAt (progOf ts k) x (stmts sc body) vs l σ i rem l' σ') :
    ∃ lc, σ'.loops = lc :: outer ∧ lc.items = vs ∧ rem = vs.drop i ∧
      (ctxOf lc).index = i ∧ (ctxOf lc).len = vs.length ∧
      (ctxOf lc).first = (i == 0) ∧ (ctxOf lc).last = (i + 1 == vs.length) ∧
      (ctxOf lc).reverseIndex = (vs.length : Int) - i - 1 ∧ (rem ≠ [] → 0 ≤ (ctxOf lc).reverseIndex) ∧
      (ctxOf lc).odd = (i % 2 == 1) ∧ (ctxOf lc).even = (i % 2 == 0) ∧
      (∀ (α : Type) (vals : List α), vals ≠ [] → (ctxOf lc).cycle vals = vals[i % vals.length]?) ∧
      parentOf σ'.loops = outer.head? ∧ (outer = [] → parentOf σ'.loops = none) ∧ parentChain σ'.loops = outer := by
  obtain ⟨h1, h2, _, _, _, _⟩ := iterAt_loops (progOf ts k) (codegen_cfg_ok ts k) x _ ((emits body).stmts sc) vs l σ i rem
    l' σ' hI b topc rest vs 0 outer hl hσ hb hw hlp
  simp only [Nat.zero_add] at h1
  refine ⟨⟨vs, i⟩, h1, rfl, h2, rfl, rfl, rfl, ?_, rfl, ?_, ?_, ?_, ?_, ?_, ?_, ?_⟩
  · simp only [ctxOf, LoopCtx.last]
    by_cases h : i + 1 = vs.length
    · simp only [h, beq_self_eq_true, beq_iff_eq]; omega
    · have : (i + 1 == vs.length) = false := by simpa using h
      rw [this]; simp only [beq_eq_false_iff_ne, ne_eq]; omega
  · intro hr
    have : i < vs.length := by
      rcases Nat.lt_or_ge i vs.length with hc | hc
      · exact hc
      · exact absurd (by rw [h2]; exact List.drop_eq_nil_of_le hc) hr
    simp only [ctxOf, LoopCtx.reverseIndex]; omega
  · simp only [ctxOf, LoopCtx.odd]
    rcases Nat.mod_two_eq_zero_or_one i with h | h <;> simp [h]
  · simp only [ctxOf, LoopCtx.even, LoopCtx.odd]
    rcases Nat.mod_two_eq_zero_or_one i with h | h <;> simp [h]
  · intro α vals hv
    cases vals with
    | nil => exact absurd rfl hv
    | cons v vt => simp [ctxOf, LoopCtx.cycle]
  · simp [parentOf, parentOfStack, h1]
  · intro ho; simp [parentOf, parentOfStack, h1, ho]
  · simp [parentChain, h1]

/-- non-vacuous: the second iteration of a loop with `loop.index` nested in another loop context -/
example : IterAt (progOf [] 99) 1 (stmts ⟨true, false, false, true⟩ (.expr .loopIndex [])) [['a'], ['b'], ['c']]
    (Loc.init 0) { St.init with loops := [⟨[['a'], ['b'], ['c']], 0⟩, ⟨[['z']], 0⟩] } 1 [['b'], ['c']]
    { Loc.init 0 with vars := [(1, ['a'])] }
    { St.init with bufs := [(0, ['0'])], loops := [⟨[['a'], ['b'], ['c']], 1⟩, ⟨[['z']], 0⟩] } :=
  .next 5 ['a'] [['b'], ['c']] (Loc.init 0) _ .normal { Loc.init 0 with vars := [(1, ['a'])] }
    { St.init with bufs := [(0, ['0'])], loops := [⟨[['a'], ['b'], ['c']], 0⟩, ⟨[['z']], 0⟩] } 0 _ _ _ rfl (.inl rfl)
    (.here _ _ _)

/-- **After the `for` construct the loop stack is what it was before it, on every outcome** – exhaustion,
    `break`, `return`, an exception at any evaluation point (instance of C13's balance theorem: the generated
    `try: … finally: loop = __M_loop._exit()`); `loop` denotes the enclosing context again. -/
theorem loop_reverts (ts : List (Tmpl × Option Bool)) (k : Nat) (sc : Scope) (x : Name) (items : List Expr)
    (body : Tmpl) (fuel : Nat) (l : Loc) (σ : St) (hl : LocOK l) (hσ : StOK σ) (i : Nat) (topc : Str)
    (rest : List (Nat × Str)) (hb : σ.bufs = (i, topc) :: rest) (hw : l.writer = i) (o : Outcome) (l' : Loc) (σ' : St)
    (he : exec (progOf ts k) fuel (stmts sc (.for_ x items body)) l σ = (o, l', σ')) (ho : o ≠ .timeout) :
    σ'.loops = σ.loops ∧ ∀ m, (eval (progOf ts k) m .loopIndex l' σ').1 = (eval (progOf ts k) m .loopIndex l σ).1 := by
  have g := (all_good _ (codegen_cfg_ok ts k) fuel).exec _ l σ i topc rest ((emits (.for_ x items body)).stmts sc) hl hσ hb
    hw o l' σ' he ho
  refine ⟨g.1.loops, fun m => ?_⟩
  cases m with
  | zero => simp [eval]
  | succ m => simp only [eval, g.1.loops]; split <;> rfl

/-- non-vacuous: the loop is left by an exception (crash point 1 = the second iteration), by `break`, by `return` -/
example : (exec (progOf [] 1) 50 (stmts ⟨true, false, false, true⟩
      (.for_ 1 [.lit ['a'], .lit ['b']] (.seq (.expr .loopIndex []) (.expr .boom [])))) (Loc.init 0) St.init).1 = .exc excBoom ∧
    (exec (progOf [] 9) 50 (stmts ⟨true, false, false, true⟩
      (.for_ 1 [.lit ['a'], .lit ['b']] (.seq (.expr .loopIndex []) .brk))) (Loc.init 0) St.init).1 = .normal ∧
    (exec (progOf [] 9) 50 (stmts ⟨true, false, false, true⟩
      (.for_ 1 [.lit ['a'], .lit ['b']] (.seq (.expr .loopIndex []) .ret))) (Loc.init 0) St.init).1 = .ret [] := by
  decide +kernel

/-- **With `enable_loop=False` and no `<%page enable_loop="True">`, `loop` is an ordinary name**: no `% for`
    gets a loop context (no `_enter` / `try` / `finally` lines, the header text is written as it stands), and
    `write_variable_declares` writes `loop = context.get('loop', UNDEFINED)` exactly as for any other undeclared
    name – no `LoopStack`.  With `enable_loop` on, `loop` is never fetched from the context. -/
theorem loop_disabled_is_plain_name (names : List Str) (hdr : Hdr) (body : CT) (terns : Terns) :
    effEnableLoop false none = false ∧ effEnableLoop false (some false) = false ∧
    effEnableLoop false (some true) = true ∧
    hasLoopContext false hdr body terns = false ∧
    loopPrologue (hasLoopContext false hdr body terns) hdr = [] ∧
    primaryText (hasLoopContext false hdr body terns) hdr = hdr.text ∧
    declares false names = names.map declLine ∧
    (loopName ∈ names → declLine loopName ∈ declares false names) ∧
    declLine loopName ∉ declares true names := by
  refine ⟨rfl, rfl, rfl, by simp [hasLoopContext], by simp [hasLoopContext, loopPrologue],
    by simp [hasLoopContext, primaryText], by simp [declares], ?_, ?_⟩
  · intro h; simp only [declares, Bool.false_eq_true, if_false]; exact List.mem_map.mpr ⟨_, h, rfl⟩
  · simp only [declares, if_true]
    intro h
    rcases List.mem_append.mp h with h | h
    · split at h
      · simp only [List.mem_singleton] at h
        revert h; decide +kernel
      · cases h
    · obtain ⟨n, hn, he⟩ := List.mem_map.mp h
      have hne : n ≠ loopName := by
        have := (List.mem_filter.mp hn).2
        simpa using this
      apply hne
      have : declLine n = declLine loopName := he
      simp only [declLine, List.append_assoc] at this
      have hlen := congrArg List.length this
      simp only [List.length_append] at hlen
      exact List.append_inj_left this (by omega)

example : declares false ["loop".toList, "x".toList] =
    ["loop = context.get('loop', UNDEFINED)".toList, "x = context.get('x', UNDEFINED)".toList] ∧
    declares true ["loop".toList, "x".toList] =
    ["loop = __M_loop = runtime.LoopStack()".toList, "x = context.get('x', UNDEFINED)".toList] := by decide +kernel

end MakoModel.C03
