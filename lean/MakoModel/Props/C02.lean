import MakoModel.Pipeline.LemmasFilter
import MakoModel.Pipeline.LemmasScan
import MakoModel.Pipeline.LemmasWellLexed
/-!
# C02 – expression substitution applies the filter pipeline in the documented order;
the expression scanner is never cut short

Model: `MakoModel/Pipeline/Model.lean` – transcription of `create_filter_callable`, `visitExpression`,
`write_def_finish`, `write_cache_decorator`, `visitCallTag`, the block call site of `visitBlockTag`
(mako/codegen.py), the key subtraction of `undeclared_identifiers` (mako/parsetree.py), `parse_until_text`,
`match_expression` and the `+1` rule of `match_reg` (mako/lexer.py).  Regenerated into `Generated/Pipeline.lean`:
`DEFAULT_ESCAPES`, the `Template` defaults of `default_filters` / `buffer_filters`, whether the call regex of
`create_filter_callable` ends with `$` (`callRegexAnchored`), the grouping facts of the argument re-emitter
(`selfParenthesisingVisitors`, `operandWrappedKinds`, `operandUsers`; mako/_ast_util.py), `str.isspace`.
Specification: `pipeline`, `nest`, `evalPipeline`, `Spec.wellLexed`, `Spec.firstTopLevel`.

OPEN (findings of this property on the current tree): none – every theorem below is proved in full strength,
there is no `_partial` / `_counterexample` pair and no entry for C02 in `known_findings.json`.
Recorded, but NOT a violation of the property (outside its quantifier): a filter entry that is neither a name nor
a call, e.g. `f(1).g`, is cut after the call by the unanchored regex (pinned `example` after `resolve_call`;
`fixes/F-C02-filter-tail.diff` is a candidate repair that is not applied).
-/
namespace MakoModel.C02
open MakoModel.Pipeline MakoModel.Generated.Pipeline

/-! ## the pipeline -/

/-- For ALL local filter lists and ALL configurations (default_filters, page expression_filter present or
not) the text emitted for `${tgt | fs}` is the documented composition `f_k(…f₁(tgt))` of
`pipeline cfg fs = D ++ P ++ fs` (with the two meanings of `n`), each entry resolved on its own. -/
theorem pipeline_order (fs : List Str) (tgt : Str) (cfg : Cfg) :
    createFilterCallable fs tgt true cfg = nest ((pipeline cfg fs).map resolve) tgt :=
  createFilterCallable_expr fs tgt cfg

/-- `visitExpression`'s "any filtering at all?" test never drops a non-empty pipeline (`escapes` is the raw
text after `|`, `fs` the arguments parsed from it: no text, no arguments). -/
theorem visit_expression_order (escapes : Str) (fs : List Str) (tgt : Str) (cfg : Cfg)
    (h : escapes = [] → fs = []) :
    visitExpression escapes fs tgt cfg = nest ((pipeline cfg fs).map resolve) tgt := by
  unfold visitExpression
  cases hpg : cfg.page with
  | none =>
    simp only []
    split
    · exact pipeline_order fs tgt cfg
    · rename_i hc
      simp at hc
      have hfs := h hc.1
      subst hfs
      simp [pipeline, hc.2, hpg, nName, dropN, nest]
  | some p =>
    simp only []
    split
    · exact pipeline_order fs tgt cfg
    · rename_i hc
      simp at hc
      have hfs := h hc.1.1
      subst hfs
      simp [pipeline, hc.1.2, hc.2, hpg, nName, dropN, nest]

example : visitExpression ['h'] [['h']] ['x'] ⟨[], none⟩ = "filters.html_escape(x)".toList := by decide

/-- `n` among the expression's own filters disables both D and P. -/
theorem n_local_disables_both (fs : List Str) (tgt : Str) (cfg : Cfg) (h : nName ∈ fs) :
    createFilterCallable fs tgt true cfg = nest ((dropN fs).map resolve) tgt := by
  rw [pipeline_order]; simp [pipeline, h]

example : nName ∈ [['f'], nName] ∧
    createFilterCallable [['f'], nName] ['x'] true ⟨[['s', 't', 'r']], some [['g']]⟩ = "f(x)".toList := by decide

/-- `n` in the page filter disables only D: the page filters and the local ones still apply, in that order. -/
theorem n_in_page_disables_default_only (fs p : List Str) (tgt : Str) (cfg : Cfg)
    (hfs : nName ∉ fs) (hpage : cfg.page = some p) (hp : nName ∈ p) :
    createFilterCallable fs tgt true cfg = nest ((dropN (p ++ fs)).map resolve) tgt := by
  rw [pipeline_order]; simp [pipeline, hfs, hpage, hp]

example : createFilterCallable [['f']] ['x'] true ⟨[['s', 't', 'r']], some [['g'], nName]⟩ = "f(g(x))".toList := by
  decide

/-- without `n` anywhere: D, then P, then the local filters. -/
theorem default_then_page_then_local (fs : List Str) (tgt : Str) (cfg : Cfg)
    (hfs : nName ∉ fs) (hp : nName ∉ cfg.page.getD []) (hd : nName ∉ cfg.default) :
    createFilterCallable fs tgt true cfg =
      nest (fs.map resolve) (nest ((cfg.page.getD []).map resolve) (nest (cfg.default.map resolve) tgt)) := by
  rw [pipeline_order]
  have ha : nName ∉ cfg.page.getD [] ++ fs := by simp [hfs, hp]
  by_cases hdn : cfg.default = []
  · simp [pipeline, hfs, hdn, dropN_of_not_mem ha, nest]
  · have hall : nName ∉ cfg.default ++ (cfg.page.getD [] ++ fs) := by simp [hfs, hp, hd]
    simp only [pipeline, hfs, if_false, hdn, ne_eq, not_false_eq_true, ha, and_self, if_true]
    rw [dropN_of_not_mem hall]
    simp [nest_append]

example : createFilterCallable [['f']] ['x'] true ⟨[['s', 't', 'r'], ['d']], some [['g'], ['h']]⟩
    = "f(filters.html_escape(g(d(str(x)))))".toList := by decide

/-- without configuration D is `str` (the regenerated default of `Template.__init__`), applied first. -/
theorem no_config_is_str (fs : List Str) (tgt : Str) (hfs : nName ∉ fs) :
    createFilterCallable fs tgt true ⟨templateDefaultFilters, none⟩ =
      nest (fs.map resolve) (wrap ['s', 't', 'r'] tgt) := by
  have h := default_then_page_then_local fs tgt ⟨templateDefaultFilters, none⟩ hfs (by simp) (by decide)
  rw [h]
  have : templateDefaultFilters.map resolve = [['s', 't', 'r']] := by decide
  simp [this, nest]

example : createFilterCallable [['u']] ['x'] true ⟨templateDefaultFilters, none⟩
    = "filters.url_escape(str(x))".toList := by decide

/-- `filter=` on defs, blocks and `<%text>` (`is_expression = False`): neither D nor P, whatever the
configuration. -/
theorem def_block_text_filters_skip_D_and_P (fs : List Str) (tgt : Str) (cfg : Cfg) :
    createFilterCallable fs tgt false cfg = nest ((dropN fs).map resolve) tgt ∧
    textTagExpr fs tgt cfg = nest ((dropN fs).map resolve) tgt ∧
    defFinishExpr fs [] false false tgt cfg = nest ((dropN fs).map resolve) tgt := by
  refine ⟨createFilterCallable_nonexpr fs tgt cfg, createFilterCallable_nonexpr fs tgt cfg, ?_⟩
  unfold defFinishExpr
  cases fs with
  | nil => simp [dropN, nest]
  | cons f fs => simp [createFilterCallable_nonexpr]

/-- a buffered (not cached) def returns `B(F(body))`: the def's own `filter=` first, then `buffer_filters`,
again without D and P. -/
theorem buffer_filters_after_def_filters (defArgs bufferFilters : List Str) (tgt : Str) (cfg : Cfg) :
    defFinishExpr defArgs bufferFilters true false tgt cfg =
      nest ((dropN bufferFilters).map resolve) (nest ((dropN defArgs).map resolve) tgt) := by
  unfold defFinishExpr
  cases defArgs with
  | nil => simp [createFilterCallable_nonexpr, dropN, nest]
  | cons f fs => simp [createFilterCallable_nonexpr]

example : defFinishExpr [['f']] [['g']] true false ['b'] ⟨[['s', 't', 'r']], some [['h']]⟩ = "g(f(b))".toList := by
  decide

/-- without configuration `buffer_filters` is empty (regenerated default of `Template.__init__`): a buffered def
returns just `F(body)` -/
theorem no_config_no_buffer_filters (defArgs : List Str) (tgt : Str) (cfg : Cfg) :
    defFinishExpr defArgs templateBufferFilters true false tgt cfg = nest ((dropN defArgs).map resolve) tgt := by
  have h : templateBufferFilters = [] := by decide
  rw [buffer_filters_after_def_filters, h]
  simp [dropN, nest]

/-- A `buffered="True"` block (named or anonymous), rendered in place.  The block function is finished by the same
`write_def_finish` as a buffered def, so it returns `B(F(body))` (`F(body)` without configuration); the block-specific
part is the call site of `visitBlockTag`, which writes `<call> or ''`: the text is the call followed by ` or ''`,
and on a str value Python's `v or ''` is `v` – what the block function returns is what appears at the block's
position (an unbuffered block has written its content itself and returns `''`). -/
theorem buffered_block_rendered_in_place (blockArgs bufferFilters : List Str) (tgt call : Str) (cfg : Cfg) :
    defFinishExpr blockArgs bufferFilters true false tgt cfg =
      nest ((dropN bufferFilters).map resolve) (nest ((dropN blockArgs).map resolve) tgt) ∧
    defFinishExpr blockArgs templateBufferFilters true false tgt cfg = nest ((dropN blockArgs).map resolve) tgt ∧
    blockCallSiteExpr call = call ++ " or ''".toList ∧
    (∀ v : Str, pyOrEmpty v = v) := by
  refine ⟨buffer_filters_after_def_filters blockArgs bufferFilters tgt cfg,
    no_config_no_buffer_filters blockArgs tgt cfg, by simp [blockCallSiteExpr], ?_⟩
  intro v
  unfold pyOrEmpty
  split <;> simp_all

example : blockCallSiteExpr "__M_anon_3()".toList = "__M_anon_3() or ''".toList := by decide

/-- a `cached="True"` def: the function whose result is cached ends with the def's own filters only, whether
buffered or not; `buffer_filters` are applied by the caching wrapper, outside the cache, and only when the def
is buffered – so `B(cached F(body))`, again without D and P. -/
theorem cached_def_buffer_filters_outside_cache (defArgs bufferFilters : List Str) (buffered : Bool)
    (tgt s : Str) (cfg : Cfg) :
    defFinishExpr defArgs bufferFilters buffered true tgt cfg = nest ((dropN defArgs).map resolve) tgt ∧
    cacheDecoratorExpr bufferFilters true s cfg = nest ((dropN bufferFilters).map resolve) s ∧
    cacheDecoratorExpr bufferFilters false s cfg = s := by
  refine ⟨?_, ?_, ?_⟩
  · unfold defFinishExpr
    cases defArgs with
    | nil => simp [dropN, nest]
    | cons f fs => simp [createFilterCallable_nonexpr]
  · simp [cacheDecoratorExpr, createFilterCallable_nonexpr]
  · simp [cacheDecoratorExpr]

example : defFinishExpr [['h']] [['g']] true true ['b'] ⟨[], none⟩ = "filters.html_escape(b)".toList ∧
    cacheDecoratorExpr [['g']] true ['c'] ⟨[], none⟩ = "g(c)".toList := by decide

/-- `<%call expr="e">` writes the value of `e` exactly like `${e}` with no local filters: through D and P
(the property text is silent about `<%call>`; this records what the code does). -/
theorem call_tag_is_plain_expression (e : Str) (cfg : Cfg) :
    callTagExpr e cfg = nest ((pipeline cfg []).map resolve) e ∧
    callTagExpr e cfg = createFilterCallable [] e true cfg :=
  ⟨pipeline_order [] e cfg, rfl⟩

example : callTagExpr "r()".toList ⟨[['s', 't', 'r']], some [['g']]⟩ = "g(str(r()))".toList := by decide

/-! ## the built-in names -/

/-- the documented flags and the functions they denote -/
def documented : List (Str × Str) :=
  [ (['h'], "filters.html_escape".toList),
    (['x'], "filters.xml_escape".toList),
    (['u'], "filters.url_escape".toList),
    (['t', 'r', 'i', 'm'], "filters.trim".toList),
    (['e', 'n', 't', 'i', 't', 'y'], "filters.html_entities_escape".toList),
    (['s', 't', 'r'], "str".toList),
    (['u', 'n', 'i', 'c', 'o', 'd', 'e'], "str".toList) ]

/-- every documented flag resolves to the documented callee (against the regenerated `DEFAULT_ESCAPES`),
with or without call arguments -/
theorem resolve_builtin :
    (∀ kv ∈ documented, resolve kv.1 = kv.2 ∧ resolve (kv.1 ++ "(1)".toList) = kv.2 ++ "(1)".toList) ∧
    -- and the table contains nothing else that would shadow a user callable: other keys map to themselves
    (∀ kv ∈ defaultEscapes, kv ∈ documented ∨ kv.1 = kv.2) := by
  decide

/-- `decode.<enc>` ↦ `filters.decode.<enc>` -/
theorem resolve_decode (enc : Str) (c : Char) (rest : Str) (he : enc = c :: rest) (hc : c ≠ '\n')
    (hp : '(' ∉ enc) : resolve (decodeDot ++ enc) = filtersDot ++ decodeDot ++ enc := by
  have hno : '(' ∉ decodeDot ++ enc := by
    intro h
    rcases List.mem_append.mp h with h | h
    · revert h; decide
    · exact hp h
  unfold resolve
  rw [splitCall_none_of_no_paren _ hno]
  subst he
  simp [locateEncode, isDecode, decodeDot, List.isPrefixOf, hc]

example : resolve "decode.utf8".toList = "filters.decode.utf8".toList := by decide

/-- any other name is emitted unchanged (it denotes the callable of that name visible to the template) -/
theorem resolve_other_name (name : Str) (hp : '(' ∉ name) (hd : isDecode name = false)
    (hl : lookupEscape name = none) : resolve name = name := by
  unfold resolve
  rw [splitCall_none_of_no_paren _ hp]
  simp [locateEncode, hd, hl]

example : '(' ∉ "my.f".toList ∧ isDecode "my.f".toList = false ∧ lookupEscape "my.f".toList = none := by decide

/-- a call `ident(args)` is split at its first parenthesis; only the identifier is looked up, the argument
text is kept verbatim; a user callable's call is emitted unchanged -/
theorem resolve_call (ident args : Str) (hne : ident ≠ []) (hp : '(' ∉ ident) (hn : '\n' ∉ ident)
    (hna : '\n' ∉ args) :
    resolve (ident ++ '(' :: args ++ [')']) = locateEncode ident ++ '(' :: args ++ [')'] ∧
    (isDecode ident = false → lookupEscape ident = none →
      resolve (ident ++ '(' :: args ++ [')']) = ident ++ '(' :: args ++ [')']) := by
  have h : resolve (ident ++ '(' :: args ++ [')']) = locateEncode ident ++ '(' :: args ++ [')'] := by
    unfold resolve
    rw [splitCall_call ident args hne hp hn hna]
    simp
  refine ⟨h, fun hd hl => ?_⟩
  rw [h]; simp [locateEncode, hd, hl]

example : resolve "g('a|b')".toList = "g('a|b')".toList ∧ resolve "trim(1)".toList = "filters.trim(1)".toList := by
  decide

/-- A filter written as a call denotes that callable with the arguments AS WRITTEN, although the argument text is
re-emitted from the parsed AST: on the regenerated facts about `SourceGenerator`, every kind of sub-expression that
binds more weakly than some context – binary, boolean, comparison and unary operations, conditional expressions,
lambdas – is written as one parenthesised group wherever it stands in an operand slot (its own visitor
parenthesises, or `visit_operand` does), and every visitor with operand slots (operators, `.attr`, `[...]`, calls,
`*args`, conditional expressions) writes them through `visit_operand`.  Removing the parentheses of one visitor
breaks this obligation.  (That this mechanism makes the printed text of EVERY argument AST well-parenthesised is
property C19's `print_well_parenthesised_partial` over the full printer model; C02 ties the printer to the code by
correspondence and by the oracle, which evaluates the argument text as written and compares what the filter
callable received.) -/
theorem filter_call_arguments_keep_grouping :
    (∀ k ∈ ArgKind.all, groupedInOperandSlot k = true) ∧ (∀ v ∈ operandParents, v ∈ operandUsers) := by
  decide

/-! ## the built-in names are not template variables -/

/-- the flag names the property lists (`decode` is the identifier of `decode.<encoding>`) -/
def flagNames : List Str :=
  [['h'], ['x'], ['u'], ['t', 'r', 'i', 'm'], ['e', 'n', 't', 'i', 't', 'y'], ['s', 't', 'r'],
   ['u', 'n', 'i', 'c', 'o', 'd', 'e'], ['n'], ['d', 'e', 'c', 'o', 'd', 'e']]

/-- The second role of the regenerated `DEFAULT_ESCAPES`: its keys are subtracted from the identifiers of a
filter list before those are demanded from the context.  Every flag the property lists is a key (checked
against the regenerated table – removing an entry breaks this obligation), hence for ALL filter lists no context
lookup is generated for a flag (no `NameError` under `strict_undefined`), `decode.<enc>` contributes exactly the
identifier `decode`, and every other identifier IS demanded from the context (it denotes the callable of that
name visible to the template). -/
theorem builtin_flags_are_not_context_names :
    (∀ k ∈ flagNames, isEscapeKey k = true) ∧
    (∀ (ids : List Str) (k : Str), k ∈ flagNames → k ∉ contextNames ids) ∧
    (∀ enc : Str, headIdent (decodeDot ++ enc) = ['d', 'e', 'c', 'o', 'd', 'e']) ∧
    (∀ (ids : List Str) (k : Str), k ∈ ids → isEscapeKey k = false → k ∈ contextNames ids) := by
  have hkeys : ∀ k ∈ flagNames, isEscapeKey k = true := by decide
  refine ⟨hkeys, ?_, ?_, ?_⟩
  · intro ids k hk hmem
    have := (List.mem_filter.mp hmem).2
    simp [hkeys k hk] at this
  · intro enc
    simp [headIdent, decodeDot, isIdentChar, List.takeWhile]
  · intro ids k hk hne
    exact List.mem_filter.mpr ⟨hk, by simp [hne]⟩

example : contextNames ["decode".toList, "f".toList, "h".toList, "ns".toList, "n".toList] = ["f".toList, "ns".toList] := by
  decide

/-! ## evaluation -/

/-- The emitted text is the rendering of the term `f_k(…f₁(target))`; evaluating that term call-by-value
over any value type feeds the value through `f₁, …, f_k` in this order – the value written is
`f_k(…f₁(v))` – and the call log shows every filter applied exactly once, left to right. -/
theorem eval_pipeline {V : Type} (env : Str → V → V) (v : V) (fs : List Str) (tgt : Str) :
    (nestTm fs).show tgt = nest fs tgt ∧
    (nestTm fs).run env v = (evalPipeline env fs v, pipelineLog env fs v) ∧
    (pipelineLog env fs v).map (·.1) = fs := by
  refine ⟨?_, ?_, pipelineLog_callees env fs v⟩
  · simpa [nestTm, Tm.show] using show_foldl fs .target tgt
  · simpa [nestTm, Tm.run] using run_foldl env v fs .target

/-! ## the scanner -/

/-- `Spec.firstTopLevel bar t = some k` already says that `t[0,k)` is well-lexed (every literal, comment and
bracket opened in it is closed in it), so `scan_expr_spec` / `scan_filters_spec` need no separate well-lexedness
hypothesis: the quantifier "for every well-lexed region followed by its first top-level terminator" is exactly
"for every `p, q` with `firstTopLevel (s.drop p) = some (q - p)`". -/
theorem first_top_level_region_well_lexed (bar : Bool) (s : Str) (p q : Nat)
    (hq : Spec.firstTopLevel bar (s.drop p) = some (q - p)) : Spec.wellLexed (slice s p q) = true :=
  firstTopLevel_wellLexed bar (s.drop p) (q - p) hq

/-- For ALL texts `s` and positions `p ≤ q`: if `s[q]` is the first `|` or `}` that the lexical specification
places outside string literals and comments at bracket depth 0 when reading from `p` (which implies that `s[p,q)`
is well-lexed, `first_top_level_region_well_lexed`), then the regex loop of `parse_until_text(True, "\|", "}")`
started at `p` returns exactly `(s[p,q), s[q])` and leaves `match_position = q + 1`: the expression is never cut
short and never extended. -/
theorem scan_expr_spec (s : Str) (p q : Nat) (hpq : p ≤ q)
    (hq : Spec.firstTopLevel true (s.drop p) = some (q - p)) :
    ∃ c, s[q]? = some c ∧ (c = '|' ∨ c = '}') ∧
      parseUntilText true exprTerms s p = .ok (slice s p q) [c] (q + 1) := by
  obtain ⟨c, h1, h2, h3⟩ := scan_spec_gen true s p q hpq hq
  refine ⟨c, h1, ?_, h3⟩
  simp only [Spec.isTerm, Bool.true_and, Bool.or_eq_true, beq_iff_eq] at h2
  rcases h2 with h | h
  · exact Or.inr h
  · exact Or.inl h

/-- the hypotheses are satisfiable by a non-trivial instance: `${d['}|'] + f({1: "#"}) # c|}⏎ |h}` -/
example :
    let s : Str := "${d['}|'] + f({1: \"#\"}) # c|}\n |h}".toList
    Spec.wellLexed (slice s 2 31) = true ∧ Spec.firstTopLevel true (s.drop 2) = some (31 - 2) ∧
      parseUntilText true exprTerms s 2 = .ok (slice s 2 31) ['|'] 32 := by
  decide

/-- the same for the filter part after `|` (terminator `}` only; `|` is an ordinary character there) -/
theorem scan_filters_spec (s : Str) (p q : Nat) (hpq : p ≤ q)
    (hq : Spec.firstTopLevel false (s.drop p) = some (q - p)) :
    s[q]? = some '}' ∧ parseUntilText true escTerms s p = .ok (slice s p q) ['}'] (q + 1) := by
  obtain ⟨c, h1, h2, h3⟩ := scan_spec_gen false s p q hpq hq
  simp only [Spec.isTerm, Bool.false_and, Bool.or_false, beq_iff_eq] at h2
  subst h2
  exact ⟨h1, h3⟩

example :
    let s : Str := "${x | f, g('}|')}".toList
    Spec.wellLexed (slice s 5 16) = true ∧ Spec.firstTopLevel false (s.drop 5) = some (16 - 5) ∧
      parseUntilText true escTerms s 5 = .ok (slice s 5 16) ['}'] 17 := by
  decide

/-- `match_expression` as a whole: with `${` at `p`, the expression text running to the first top-level `|`/`}`
at `q`, and (after `|`) the filter text running to the first top-level `}` at `q'`, the node appended is
`Expression(s[p+2,q) with CRLF→LF, s[q+1,q').strip())` and lexing resumes right after the closing brace. -/
theorem match_expression_spec (s : Str) (p q : Nat) (hpq : p + 2 ≤ q)
    (h0 : ['$', '{'].isPrefixOf (s.drop p) = true)
    (hq : Spec.firstTopLevel true (s.drop (p + 2)) = some (q - (p + 2))) :
    (s[q]? = some '}' →
      matchExpression s p = .node (replaceCRLF (slice s (p + 2) q)) [] (q + 1)) ∧
    (s[q]? = some '|' → ∀ q', q + 1 ≤ q' →
      Spec.firstTopLevel false (s.drop (q + 1)) = some (q' - (q + 1)) →
      matchExpression s p = .node (replaceCRLF (slice s (p + 2) q)) (strip (slice s (q + 1) q')) (q' + 1)) := by
  obtain ⟨c, hc, _, hscan⟩ := scan_spec_gen true s (p + 2) q hpq hq
  have hT : T true = exprTerms := rfl
  rw [hT] at hscan
  constructor
  · intro hb
    have : c = '}' := by rw [hc] at hb; exact Option.some.inj hb
    subst this
    unfold matchExpression
    simp [h0, hscan]
  · intro hb q' hq' hf
    have : c = '|' := by rw [hc] at hb; exact Option.some.inj hb
    subst this
    obtain ⟨c', _, hc't, hscan'⟩ := scan_spec_gen false s (q + 1) q' hq' hf
    have hT' : T false = escTerms := rfl
    rw [hT'] at hscan'
    unfold matchExpression
    simp [h0, hscan, hscan']

example :
    let s : Str := "a ${d['}|'] |h, f('}')} b".toList
    ['$', '{'].isPrefixOf (s.drop 2) = true ∧ Spec.firstTopLevel true (s.drop 4) = some (12 - 4) ∧ s[12]? = some '|' ∧
      Spec.firstTopLevel false (s.drop 13) = some (22 - 13) ∧
      matchExpression s 2 = .node "d['}|'] ".toList "h, f('}')".toList 23 := by
  decide

/-- NOT a violation of the property – outside its quantifier (the filters are flags, names, `n` and calls with
arguments; `f(1).g` is neither a name nor a call): the code generator keeps only what `(.+?)(\(.*\))` matches, so
text after the last `)` is dropped and `${x | f(1).g}` emits `f(1)(x)`.  `fixes/F-C02-filter-tail.diff` (anchor the
regex with `$`, the entry is then emitted unchanged) is a candidate repair that is NOT applied; `callRegexAnchored`
is regenerated from the source, so this example and `resolve_call` follow the code either way. -/
example : resolve "f(1).g".toList = (if callRegexAnchored then "f(1).g".toList else "f(1)".toList) := by decide

end MakoModel.C02
