import MakoModel.PyExpr.Model
import MakoModel.PyExpr.LemmasTotal
import MakoModel.PyExpr.LemmasComplete
import MakoModel.PyExpr.LemmasWrap
/-!
# C19 – embedded Python keeps its meaning through analysis and re-emission

Property theorems only (helper lemmas live in `MakoModel/PyExpr/Lemmas*.lean`).

Reading of the property on the model (`MakoModel/PyExpr/*.lean`, tied to /repo by the regenerated tables and
visitor inventories of `Generated/PyExpr.lean` and by the correspondence streams of `harness/props/C19.py`):

* `print e` is what `ExpressionGenerator(e).value()` computes (`none` = an exception escapes), as a token stream;
* `Spec.parts e` is the sequence of leaves of `e` in source order, written against the AST alone;
* `needsParens p k` is the (CPython-validated) statement that a bare expression of class `k` does not survive in
  slot `p`; `isWrapped t` says the token stream `t` is one parenthesised group;
* the step "complete ∧ well-parenthesised ⇒ CPython re-parses the text to `e`" is *not* a Lean theorem (it would
  need a model of CPython's parser); it is checked on every run by the harness stream
  `corr.guards-predict-roundtrip` on all generated expressions for which the guards below hold.

Every theorem quantifies over **all** expressions of the inductive type `Expr` (unbounded depth; proofs by
structural recursion over the mutual/nested syntax).

`OPEN` marks a full-strength statement that is false of the code as it stands: the `_partial` theorem carries an
explicit decidable guard, the `_counterexample` theorem shows the model violating the full statement on a witness
that the Python oracle reports on the implementation as well (see `known_findings.json`).
-/
namespace MakoModel.C19
open MakoModel.PyExpr

/-! ## Side conditions on the regenerated tables (re-checked by the kernel against what /repo says now) -/

/-- Wherever `BOOLOP_SYMBOLS`/`BINOP_SYMBOLS`/`CMPOP_SYMBOLS`/`UNARYOP_SYMBOLS` have an entry, it is Python's
spelling of that operator (two swapped entries break this). -/
theorem symbols_agree : SymbolsAgree where
  bool := by intro o; cases o <;> decide
  bin := by intro o; cases o <;> decide
  unary := by intro o; cases o <;> decide
  cmp := by intro o; cases o <;> decide

/-- Exactly these operator classes have no entry (today: `**` and `@`). -/
theorem operators_without_symbol :
    (BinOp.all.filter fun o => o.sym.isNone) = [.matMult, .pow]
    ∧ (BoolOp.all.filter fun o => o.sym.isNone) = []
    ∧ (UnaryOp.all.filter fun o => o.sym.isNone) = []
    ∧ (CmpOp.all.filter fun o => o.sym.isNone) = [] := by decide

/-- Exactly these expression classes have no `visit_*` in `SourceGenerator` (they go through `generic_visit`,
which writes only their children); `arg`/`comprehension` have one, `keyword`/`arguments` are handled inline. -/
theorem kinds_without_visitor :
    (Kind.exprKinds.filter fun k => !hasVisitor k) = [.joinedStr, .formattedValue, .namedExpr, .await, .yieldFrom]
    ∧ hasVisitor .arg = true ∧ hasVisitor .comprehension = true
    ∧ hasVisitor .keyword = false ∧ hasVisitor .arguments = false := by decide

/-- The visitors that parenthesise their own output, among those that exist. -/
theorem wrapping_visitors :
    (Kind.exprKinds.filter fun k => wraps k && hasVisitor k)
      = [.unaryOp, .binOp, .boolOp, .compare, .tuple, .generatorExp] := by decide

/-! ## `print_total` -/

/- OPEN  print_total : ∀ e : Expr, ∃ t, print e = some t
   false today: `**`, `@` have no table entry (`KeyError`), `f(**k)` (`TypeError`), `{**d}` and a bare `yield`
   (`AttributeError`). -/

/-- **print_total_partial.** For every expression in which every operator used has a table entry, every keyword
argument has a name, every dict entry a key and every `yield` a value, the re-emitter returns a text. -/
theorem print_total_partial (e : Expr) (h : totalGuard e = true) : ∃ t, print e = some t :=
  total_print e h

/-- the guard is satisfiable by a non-trivial expression: `f(a + 1, k=[b])[::c]` -/
example : totalGuard (.subscript (.call (.name ['f'] .load)
    [.binOp (.name ['a'] .load) .add (.const .int ['1'])] [.mk (some ['k']) (.list [.name ['b'] .load])])
    (.slice none none (some (.name ['c'] .load)))) = true := by decide

/-- the model raises on `a ** b`, `a @ b`, `f(**k)`, `{**d}`, `(yield)` -/
theorem print_total_counterexample :
    print (.binOp (.name ['a'] .load) .pow (.name ['b'] .load)) = none
    ∧ print (.binOp (.name ['a'] .load) .matMult (.name ['b'] .load)) = none
    ∧ print (.call (.name ['f'] .load) [] [.mk none (.name ['k'] .load)]) = none
    ∧ print (.dict [.mk none (.name ['d'] .load)]) = none
    ∧ print (.yield none) = none := by decide

/-! ## `print_complete` -/

/- OPEN  print_complete : ∀ e t, print e = some t → collect t = Spec.parts e
   false today: keyword-only and positional-only lambda parameters are dropped, `:=`, `await`, `yield from` and
   f-strings print only their children, `async for` loses `async`. -/

/-- **print_complete_partial.** Every leaf of the expression - identifiers, constants, attribute and keyword
names, parameter names, operators in Python's spelling, the keywords of each construct - is written, once, in
source order, whenever the printer does not raise, every class met has a visitor and none of the constructs known
to be dropped occurs (`completeGuard`). -/
theorem print_complete_partial (e : Expr) (t : Toks) (h : completeGuard e = true) (hp : print e = some t) :
    collect t = Spec.parts e :=
  collect_print symbols_agree e t h hp

/-- the guard is satisfiable: `lambda x, y=a, *z, **w: [i for i in x if i < y]` -/
example : completeGuard (.lambda (.mk [] [['x'], ['y']] (some ['z']) [] [] (some ['w']) [.name ['a'] .load])
    (.listComp (.name ['i'] .load) [.mk (.name ['i'] .store) (.name ['x'] .load)
      [.compare (.name ['i'] .load) [.lt] [.name ['y'] .load]] false])) = true := by decide

/-- `lambda *, k: k` is re-emitted as `lambda : k`; `(x := a)` as `xa` -/
theorem print_complete_counterexample :
    (print (.lambda (.mk [] [] none [['k']] [none] none []) (.name ['k'] .load))).map collect
        = some [['l', 'a', 'm', 'b', 'd', 'a'], ['k']]
    ∧ Spec.parts (.lambda (.mk [] [] none [['k']] [none] none []) (.name ['k'] .load))
        = [['l', 'a', 'm', 'b', 'd', 'a'], ['*'], ['k'], ['k']]
    ∧ (print (.namedExpr (.name ['x'] .store) (.name ['a'] .load))).map collect = some [['x'], ['a']]
    ∧ Spec.parts (.namedExpr (.name ['x'] .store) (.name ['a'] .load)) = [['x'], [':', '='], ['a']] := by decide

/-! ## `print_well_parenthesised` -/

/-- **print_balanced.** Whatever is printed has balanced brackets (all expressions, no guard). -/
theorem print_balanced (e : Expr) (t : Toks) (hp : print e = some t) : ∀ d, bal d t = some d :=
  bal_print e t hp

/- OPEN  print_well_parenthesised : ∀ e p c t, (p, c) ∈ e.children → needsParens p c.ck = true →
           print c = some t → isWrapped t = true
   false today: conditional expressions, lambdas, `yield` and decimal integer literals are written bare whatever
   the slot; a tuple containing a slice is parenthesised where it must not be. -/

/-- **print_well_parenthesised_partial.** For every node `e`, every child `c` sitting in a slot `p` in which a
bare expression of `c`'s class would not survive is printed as one parenthesised group - provided `c`'s class is one
of those whose visitor parenthesises (`slotOK`; which these are is `wrapping_visitors`). -/
theorem print_well_parenthesised_partial (e : Expr) (p : Pos) (c : Expr) (t : Toks)
    (_hc : (p, c) ∈ e.children) (hok : slotOK p c = true) (hn : needsParens p c.ck = true)
    (hp : print c = some t) : isWrapped t = true := by
  simp only [slotOK, hn, Bool.not_true, Bool.false_or, Bool.and_eq_true] at hok
  exact wrapped_print c t hok.1 hok.2 hp

/-- the same for the two places where mako pastes a re-emitted expression: a parameter default and the callee
of a filter call -/
theorem print_root_well_parenthesised_partial (p : Pos) (e : Expr) (t : Toks)
    (hok : slotOK p e = true) (hn : needsParens p e.ck = true) (hp : print e = some t) : isWrapped t = true := by
  simp only [slotOK, hn, Bool.not_true, Bool.false_or, Bool.and_eq_true] at hok
  exact wrapped_print e t hok.1 hok.2 hp

/-- non-trivial instance: in `(a + b) * c` the left operand needs parentheses and gets them -/
example : ((Pos.binLTerm, Expr.binOp (.name ['a'] .load) .add (.name ['b'] .load))
      ∈ (Expr.binOp (.binOp (.name ['a'] .load) .add (.name ['b'] .load)) .mult (.name ['c'] .load)).children)
    ∧ slotOK .binLTerm (.binOp (.name ['a'] .load) .add (.name ['b'] .load)) = true
    ∧ needsParens .binLTerm (Expr.binOp (.name ['a'] .load) .add (.name ['b'] .load)).ck = true :=
  ⟨by simp [Expr.children, binL, binR], by decide, by decide⟩

/-- `(a if b else c) + d` is re-emitted as `(a if b else c + d)`: the conditional expression is a child in a slot
where it needs parentheses, and it is printed bare. -/
theorem print_well_parenthesised_counterexample :
    let c := Expr.ifExp (.name ['b'] .load) (.name ['a'] .load) (.name ['c'] .load)
    (Pos.binLArith, c) ∈ (Expr.binOp c .add (.name ['d'] .load)).children
      ∧ needsParens .binLArith c.ck = true ∧ (print c).map isWrapped = some false :=
  ⟨by simp [Expr.children, binL, binR], by decide, by decide⟩

/-- `(lambda: a)(b)` is re-emitted as `lambda : a(b)`; the same bare lambda is what gets pasted in front of
`(…)` when a lambda is used as a filter (`rootFilter`). -/
theorem print_well_parenthesised_counterexample_lambda :
    let c := Expr.lambda (.mk [] [] none [] [] none []) (.name ['a'] .load)
    (Pos.callFunc, c) ∈ (Expr.call c [.name ['b'] .load] []).children
      ∧ needsParens .callFunc c.ck = true ∧ needsParens .rootFilter c.ck = true
      ∧ (print c).map isWrapped = some false :=
  ⟨by simp [Expr.children], by decide, by decide, by decide⟩

/-- `1 .real` is re-emitted as `1.real`. -/
theorem print_well_parenthesised_counterexample_int :
    let c := Expr.const .int ['1']
    (Pos.attrValue, c) ∈ (Expr.attribute c ['r', 'e', 'a', 'l']).children
      ∧ needsParens .attrValue c.ck = true ∧ (print c).map isWrapped = some false :=
  ⟨by simp [Expr.children], by decide, by decide⟩

end MakoModel.C19
