import MakoModel.PyExpr.Model
import MakoModel.PyExpr.LemmasTotal
import MakoModel.PyExpr.LemmasComplete
import MakoModel.PyExpr.LemmasWrap
import MakoModel.PyExpr.LemmasPlace
import MakoModel.PyExpr.LemmasWs
import MakoModel.PyExpr.LemmasIdent
import MakoModel.PyExpr.DefAttr
/-!
# C19 – embedded Python keeps its meaning through analysis and re-emission

Property theorems only (helper lemmas live in `MakoModel/PyExpr/Lemmas*.lean`).

Reading of the property on the model (`MakoModel/PyExpr/*.lean`, tied to /repo by the regenerated tables and
visitor inventories of `Generated/PyExpr.lean` and by the correspondence streams of `harness/props/C19.py`):

* `print e` is what `ExpressionGenerator(e).value()` computes (`none` = an exception escapes), as a token stream;
* `Spec.parts e` is the sequence of leaves of `e` in source order, written against the AST alone;
* `needsParens p k` is the (CPython-validated) statement that a bare expression of class `k` does not survive in
  slot `p`; `isWrapped t` says the token stream `t` is one parenthesised group;
* the step "complete ∧ well-parenthesised ⇒ CPython re-parses the text to `e`" is *not* a Lean theorem (it would
  need a model of CPython's parser); it is checked on every run by the harness stream
  `corr.guards-predict-roundtrip` on all generated expressions for which the guards below hold.

* `findIdentifiers b` is what `PythonCode(b)` computes (declared / undeclared), `fetched b` what
  `write_variable_declares` turns into context look-ups; `Spec.freeNames`/`Spec.boundNames` is Python's scoping
  (compared with `symtable` every run);
* `adjustWhitespace` / `flushLoop` are `pygen.adjust_whitespace` / `PythonPrinter._flush_adjusted_lines`;
  `Spec.multiFlags` is an independent tokenizer-level reading of "this line starts inside a string literal or after a
  backslash continuation", `Spec.remargin` / `Spec.reindent` / `Spec.roundtrip` what re-margining must do given that;
* `defTagDemands a reads` / `defTagDeclares a` are `DefTag.undeclared_identifiers()` / `.declared_identifiers()` of a
  def with signature `a` whose defaults, `filter=` arguments and expression attributes read the names `reads`,
  interpreted through the regenerated chain `DefTag` → `FunctionDecl.allargnames` → `ParseFunc`
  (`MakoModel/PyExpr/DefAttr.lean`).

The theorems, by section:

* side conditions on regenerated tables and inventories (by `decide`): `symbols_agree`, `symbols_total`,
  `kinds_without_visitor`, `wrapping_visitors`, `find_identifiers_inventory`, `fi_visitors`,
  `def_tag_knows_all_parameters`;
* printer: `print_total_partial`, `print_total_counterexample`; `print_complete_partial`,
  `print_complete_counterexample`; `print_balanced`; `print_well_parenthesised_partial`,
  `print_well_parenthesised_counterexample`, `print_well_parenthesised_counterexample_lambda`,
  `print_well_parenthesised_counterexample_int`; `print_places_operands` (exact shape of the printed parent at the
  fixed-arity `visit_operand` slots), `print_contains_operand_lists` (containment at the list-valued ones);
* re-margining, lexer side (`adjust_whitespace`): `adjust_ws_spec_partial`, `in_multi_line_spec_partial`,
  `adjust_ws_lines_preserved`, `adjust_ws_inside_untouched`, `adjust_ws_margin_removed`,
  `adjust_ws_spec_counterexample`, `adjust_ws_formfeed_counterexample` (F-C19-ws8);
* re-margining, printer side (`_flush_adjusted_lines` at any target indentation): `flush_adjusted_spec_partial`,
  `flush_adjusted_block_spec_partial`, `flush_lines_preserved`, `flush_inside_untouched`, `flush_margin_replaced`,
  `flush_adjusted_spec_counterexample`;
* both passes composed: `remargin_roundtrip`, `remargin_roundtrip_inside`, `remargin_roundtrip_code`;
* identifiers: `identifiers_exact_partial`, `identifiers_parameters_not_fetched`,
  `identifiers_exact_counterexample_missing`;
* a def's own parameters in its attributes: `def_attributes_never_demand_own_parameters`,
  `def_declares_only_parameters`, `def_attributes_posonly_regression`.

Every theorem quantifies over **all** expressions / statement blocks of the inductive types (unbounded depth; proofs
by structural recursion over the mutual/nested syntax) or over **all** texts / lists of lines.

What is OPEN today (each with a `_partial` theorem, a `_counterexample` theorem and recorded findings):
`print_total` (bare `yield`), `print_complete` (`:=`, `await`, `yield from`, f-strings, `async for`),
`print_well_parenthesised` (`yield`, decimal integer before `.attr`, slices in a tuple, a lambda / conditional
expression pasted as filter callee), `adjust_ws_spec` and `flush_adjusted_spec` (the two line state machines against
ordinary string literals, escapes, comments), `identifiers_exact` (comprehension variables, default values,
decorators, classes, nested-function locals, `del`).  Unguarded: `print_balanced`, `print_places_operands`,
`print_contains_operand_lists`, `def_attributes_never_demand_own_parameters` (since 266703c),
`def_declares_only_parameters`, the side conditions, and the theorems about `Spec.remargin` / `Spec.reindent` /
`Spec.roundtrip` themselves.

`OPEN` marks a full-strength statement that is false of the code as it stands: the `_partial` theorem carries an
explicit decidable guard, the `_counterexample` theorem shows the model violating the full statement on a witness
that the Python oracle reports on the implementation as well (see `known_findings.json`).
-/
namespace MakoModel.C19
open MakoModel.PyExpr

/-! ## Side conditions on the regenerated tables (re-checked by the kernel against what /repo says now) -/

/-- Wherever `BOOLOP_SYMBOLS`/`BINOP_SYMBOLS`/`CMPOP_SYMBOLS`/`UNARYOP_SYMBOLS` have an entry, it is Python's
spelling of that operator (two swapped entries break this). -/
theorem symbols_agree : SymbolsAgree where
  bool := by intro o; cases o <;> decide
  bin := by intro o; cases o <;> decide
  unary := by intro o; cases o <;> decide
  cmp := by intro o; cases o <;> decide

/-- Every operator class of the grammar has an entry (since 79438d0 also `**` and `@`): the `KeyError` of
`TABLE[type(op)]` cannot happen. -/
theorem symbols_total : SymbolsTotal where
  bool := by intro o; cases o <;> exact Option.isSome_iff_exists.mp (by decide)
  bin := by intro o; cases o <;> exact Option.isSome_iff_exists.mp (by decide)
  unary := by intro o; cases o <;> exact Option.isSome_iff_exists.mp (by decide)
  cmp := by intro o; cases o <;> exact Option.isSome_iff_exists.mp (by decide)

/-- Exactly these expression classes have no `visit_*` in `SourceGenerator` (they go through `generic_visit`,
which writes only their children); `arg`/`comprehension` have one, `keyword`/`arguments` are handled inline. -/
theorem kinds_without_visitor :
    (Kind.exprKinds.filter fun k => !hasVisitor k) = [.joinedStr, .formattedValue, .namedExpr, .await, .yieldFrom]
    ∧ hasVisitor .arg = true ∧ hasVisitor .comprehension = true
    ∧ hasVisitor .keyword = false ∧ hasVisitor .arguments = false := by decide

/-- The visitors that parenthesise their own output, among those that exist. -/
theorem wrapping_visitors :
    (Kind.exprKinds.filter fun k => wraps k && hasVisitor k)
      = [.unaryOp, .binOp, .boolOp, .compare, .tuple, .generatorExp] := by decide

/-! ## `print_total` -/

/- OPEN  print_total : ∀ e : Expr, ∃ t, print e = some t
   false today only for a bare `yield` (`visit_Yield` visits `None`: `AttributeError`).  Repaired: `**`/`@`
   (79438d0), `f(**k)` and `{**d}` (093862d). -/

/-- **print_total_partial.** For every expression without a bare `yield` the re-emitter returns a text
(every operator, every kind of argument, parameter and display included). -/
theorem print_total_partial (e : Expr) (h : totalGuard e = true) : ∃ t, print e = some t :=
  total_print symbols_total e h

/-- the guard is satisfiable by a non-trivial expression: `f(a ** 1, *b, **k)[::{**d}]` -/
example : totalGuard (.subscript (.call (.name ['f'] .load)
    [.binOp (.name ['a'] .load) .pow (.const .int ['1']), .starred (.name ['b'] .load)] [.mk none (.name ['k'] .load)])
    (.slice none none (some (.dict [.mk none (.name ['d'] .load)])))) = true := by decide

/-- the model raises on `(yield)`; `a ** b`, `a @ b`, `f(**k)`, `{**d}` are printed -/
theorem print_total_counterexample :
    print (.yield none) = none
    ∧ printStr (.binOp (.name ['a'] .load) .pow (.name ['b'] .load)) = some "(a ** b)".toList
    ∧ printStr (.binOp (.name ['a'] .load) .matMult (.name ['b'] .load)) = some "(a @ b)".toList
    ∧ printStr (.call (.name ['f'] .load) [] [.mk none (.name ['k'] .load)]) = some "f(**k)".toList
    ∧ printStr (.dict [.mk none (.name ['d'] .load)]) = some "{**d}".toList := by decide

/-! ## `print_complete` -/

/- OPEN  print_complete : ∀ e t, print e = some t → collect t = Spec.parts e
   false today: `:=`, `await`, `yield from` and f-strings print only their children (no visitor), `async for`
   loses `async`.  Repaired: keyword-only / positional-only lambda parameters (4cecce4). -/

/-- **print_complete_partial.** Every leaf of the expression - identifiers, constants, attribute and keyword
names, parameter names of every kind with `/` and `*`, operators in Python's spelling, the keywords of each
construct - is written, once, in source order, whenever every class met has a visitor, no comprehension clause is
`async` and no slice step is the *name* `None` (`completeGuard`). -/
theorem print_complete_partial (e : Expr) (t : Toks) (h : completeGuard e = true) (hp : print e = some t) :
    collect t = Spec.parts e :=
  collect_print symbols_agree e t h hp

/-- the guard is satisfiable: `lambda p, /, x, y=a, *z, k, **w: [i for i in x if i < y]` -/
example : completeGuard (.lambda (.mk [['p']] [['x'], ['y']] (some ['z']) [['k']] [none] (some ['w'])
      [.name ['a'] .load])
    (.listComp (.name ['i'] .load) [.mk (.name ['i'] .store) (.name ['x'] .load)
      [.compare (.name ['i'] .load) [.lt] [.name ['y'] .load]] false])) = true := by decide

/-- `(x := a)` is re-emitted as `xa`; `[x async for x in y]` loses `async`; `lambda *, k: k` is now complete -/
theorem print_complete_counterexample :
    (print (.namedExpr (.name ['x'] .store) (.name ['a'] .load))).map collect = some [['x'], ['a']]
    ∧ Spec.parts (.namedExpr (.name ['x'] .store) (.name ['a'] .load)) = [['x'], [':', '='], ['a']]
    ∧ (printStr (.listComp (.name ['x'] .load) [.mk (.name ['x'] .store) (.name ['y'] .load) [] true]))
        = some "[x for x in y]".toList
    ∧ printStr (.lambda (.mk [] [] none [['k']] [none] none []) (.name ['k'] .load)) = some "lambda *, k: k".toList
    := by decide

/-! ## `print_well_parenthesised` -/

/-- **print_balanced.** Whatever is printed has balanced brackets (all expressions, no guard). -/
theorem print_balanced (e : Expr) (t : Toks) (hp : print e = some t) : ∀ d, bal d t = some d :=
  bal_print e t hp

/- OPEN  print_well_parenthesised : ∀ p c t, needsParens p c.ck = true → print c = some t →
           isWrapped (inSlot p c t) = true
   (stated per slot `p` and occupant `c`, without a parent: every `(p, c) ∈ e.children` is such a pair, and so are
   the two root slots)
   false today: `yield` and decimal integer literals are written bare whatever the slot; a tuple containing a
   slice is parenthesised where it must not be; a lambda / conditional expression used as a *filter* is pasted bare in
   front of `(…)` by codegen.  Repaired: conditional expressions and lambdas as operands (359f1bb). -/

/-- **print_well_parenthesised_partial.** For every expression `c` and every slot `p` - a child slot of any
parent node (the pairs `(p, c)` of `Expr.children`; no parent appears in the statement) or one of the two places where mako pastes a re-emitted expression
(`rootDefault`, `rootFilter`) - in which a bare expression of `c`'s class would not survive: what stands in the slot
(`inSlot p c t`: `c`'s own text, parenthesised by the parent when the slot is written through `visit_operand` and `c`
is a conditional expression or lambda) is one parenthesised group - provided `slotOK p c`: `c`'s own visitor
parenthesises (`wrapping_visitors`), or `p` is a `visit_operand` slot and `c` a conditional expression / lambda.
That `inSlot p c t` is what the printed parent contains at `p` is `print_places_operands` /
`print_contains_operand_lists`. -/
theorem print_well_parenthesised_partial (p : Pos) (c : Expr) (t : Toks)
    (hok : slotOK p c = true) (hn : needsParens p c.ck = true) (hp : print c = some t) :
    isWrapped (inSlot p c t) = true :=
  wrapped_inSlot p c t hok hn hp

/-- non-trivial instances: in `(a + b) * c` the left operand needs parentheses and its visitor supplies them; in
`(a if b else c) + d` and `(lambda: a)(b)` the parent supplies them -/
example : ((Pos.binLTerm, Expr.binOp (.name ['a'] .load) .add (.name ['b'] .load))
      ∈ (Expr.binOp (.binOp (.name ['a'] .load) .add (.name ['b'] .load)) .mult (.name ['c'] .load)).children)
    ∧ slotOK .binLTerm (.binOp (.name ['a'] .load) .add (.name ['b'] .load)) = true
    ∧ needsParens .binLTerm (Expr.binOp (.name ['a'] .load) .add (.name ['b'] .load)).ck = true :=
  ⟨by simp [Expr.children, binL, binR], by decide, by decide⟩

example :
    let c := Expr.ifExp (.name ['b'] .load) (.name ['a'] .load) (.name ['c'] .load)
    (Pos.binLArith, c) ∈ (Expr.binOp c .add (.name ['d'] .load)).children
      ∧ needsParens .binLArith c.ck = true ∧ slotOK .binLArith c = true
      ∧ printStr (Expr.binOp c .add (.name ['d'] .load)) = some "((a if b else c) + d)".toList
      ∧ printStr (.call (.lambda (.mk [] [] none [] [] none []) (.name ['a'] .load)) [.name ['b'] .load] [])
          = some "(lambda : a)(b)".toList :=
  ⟨by simp [Expr.children, binL, binR], by decide, by decide, by decide, by decide⟩

/-- **print_places_operands.** What stands in the fixed-arity `visit_operand` slots of the printed parent really is
`inSlot` of the child: the printed text of an attribute access, a subscription, a call, a unary/binary operation,
a conditional expression and a starred element, in terms of the children's texts.  (For the list-valued
`visit_operand` slots - operands of `and`/`or`, comparators, comprehension iterables and conditions, `**d` entries -
see `print_contains_operand_lists`.) -/
theorem print_places_operands :
    (∀ v a T, hasVisitor .attribute = true → print (.attribute v a) = some T →
      ∃ t, print v = some t ∧ T = inSlot .attrValue v t ++ [.sep ['.'], .leaf a])
    ∧ (∀ v sl T, hasVisitor .subscript = true → print (.subscript v sl) = some T →
      ∃ t ts, print v = some t ∧ print sl = some ts ∧ T = inSlot .subValue v t ++ [.opn ['[']] ++ ts ++ [.cls [']']])
    ∧ (∀ f args kws T, hasVisitor .call = true → print (.call f args kws) = some T →
      ∃ t rest, print f = some t ∧ T = inSlot .callFunc f t ++ rest)
    ∧ (∀ op e T, hasVisitor .unaryOp = true → print (.unaryOp op e) = some T →
      ∃ s t, op.sym = some s ∧ print e = some t ∧
        T = [lpar, .leaf s] ++ (if s = ['n', 'o', 't'] then [sp] else [])
              ++ inSlot (if op = .not_ then .unaryNot else .unaryOther) e t ++ [rpar])
    ∧ (∀ l op r T, hasVisitor .binOp = true → print (.binOp l op r) = some T →
      ∃ s tl tr, op.sym = some s ∧ print l = some tl ∧ print r = some tr ∧
        T = [lpar] ++ inSlot (binL op) l tl ++ [sp, .leaf s, sp] ++ inSlot (binR op) r tr ++ [rpar])
    ∧ (∀ c b o T, hasVisitor .ifExp = true → print (.ifExp c b o) = some T →
      ∃ tb tc to, print b = some tb ∧ print c = some tc ∧ print o = some to ∧
        T = inSlot .ifBody b tb ++ [sp, .leaf ['i', 'f'], sp] ++ inSlot .ifTest c tc
              ++ [sp, .leaf ['e', 'l', 's', 'e'], sp] ++ inSlot .ifOrelse o to)
    ∧ (∀ v T, hasVisitor .starred = true → print (.starred v) = some T →
      ∃ t, print v = some t ∧ T = [.leaf ['*']] ++ inSlot .starredValue v t) := by
  refine ⟨?_, ?_, ?_, ?_, ?_, ?_, ?_⟩
  · intro v a T hv h
    simp only [print, hv, if_true, bind, Option.bind_eq_some_iff, pure, Option.some.injEq] at h
    obtain ⟨t, ht, rfl⟩ := h; exact ⟨t, ht, by simp [inSlot, operandSlot]⟩
  · intro v sl T hv h
    simp only [print, hv, if_true, bind, Option.bind_eq_some_iff, pure, Option.some.injEq] at h
    obtain ⟨t, ht, ts, hts, rfl⟩ := h; exact ⟨t, ts, ht, hts, by simp [inSlot, operandSlot]⟩
  · intro f args kws T hv h
    simp only [print, hv, if_true, bind, Option.bind_eq_some_iff, pure, Option.some.injEq] at h
    obtain ⟨t, ht, ta, _, tk, _, rfl⟩ := h
    exact ⟨t, _, ht, by simp only [inSlot, operandSlot, if_true, List.append_assoc]; rfl⟩
  · intro op e T hv h
    simp only [print, hv, if_true, bind, Option.bind_eq_some_iff, pure, Option.some.injEq] at h
    obtain ⟨s, hs, t, ht, rfl⟩ := h
    refine ⟨s, t, hs, ht, ?_⟩
    cases op <;> simp [inSlot, operandSlot]
  · intro l op r T hv h
    simp only [print, hv, if_true, bind, Option.bind_eq_some_iff, pure, Option.some.injEq] at h
    obtain ⟨tl, hl, s, hs, tr, hr, rfl⟩ := h
    refine ⟨s, tl, tr, hs, hl, hr, ?_⟩
    cases op <;> simp [inSlot, operandSlot, binL, binR]
  · intro c b o T hv h
    simp only [print, hv, if_true, bind, Option.bind_eq_some_iff, pure, Option.some.injEq] at h
    obtain ⟨tb, hb, tc, hc, to, ho, rfl⟩ := h
    exact ⟨tb, tc, to, hb, hc, ho, by simp [inSlot, operandSlot]⟩
  · intro v T hv h
    simp only [print, hv, if_true, bind, Option.bind_eq_some_iff, pure, Option.some.injEq] at h
    obtain ⟨t, ht, rfl⟩ := h; exact ⟨t, ht, by simp [inSlot, operandSlot]⟩

/-- **print_contains_operand_lists.** For the list-valued `visit_operand` slots (induction over the lists): the
printed text `T` of the parent *contains* `inSlot` of the child as a contiguous part (`<:+:`) - for every operand of
`and`/`or`, every comparator that is printed, the iterable and every condition of every comprehension clause, and
the value of every `**d` entry of a dict display.  This is containment, not position: that the part sits between the
right operator tokens is what the correspondence stream `corr.print` compares (string equality with the real
printer on every generated expression); for the fixed-arity slots `print_places_operands` gives the exact shape. -/
theorem print_contains_operand_lists :
    (∀ op vs T, hasVisitor .boolOp = true → print (.boolOp op vs) = some T → ∀ v ∈ vs,
      ∃ t, print v = some t ∧ inSlot (boolSlot op) v t <:+: T)
    ∧ (∀ l ops cs T, hasVisitor .compare = true → print (.compare l ops cs) = some T →
        (∃ t, print l = some t ∧ inSlot .cmpLeft l t <:+: T)
        ∧ ∀ c ∈ cs.take ops.length, ∃ t, print c = some t ∧ inSlot .cmpRight c t <:+: T)
    ∧ (∀ e gs T, hasVisitor .comprehension = true →
        (print (.listComp e gs) = some T ∨ print (.setComp e gs) = some T ∨ print (.generatorExp e gs) = some T) →
        ∀ tg it ifs a, Comp.mk tg it ifs a ∈ gs →
          (∃ ti, print it = some ti ∧ inSlot .compIter it ti <:+: T)
          ∧ ∀ c ∈ ifs, ∃ tc, print c = some tc ∧ inSlot .compIf c tc <:+: T)
    ∧ (∀ k v gs T, hasVisitor .comprehension = true → print (.dictComp k v gs) = some T →
        ∀ tg it ifs a, Comp.mk tg it ifs a ∈ gs →
          (∃ ti, print it = some ti ∧ inSlot .compIter it ti <:+: T)
          ∧ ∀ c ∈ ifs, ∃ tc, print c = some tc ∧ inSlot .compIf c tc <:+: T)
    ∧ (∀ items T, hasVisitor .dict = true → print (.dict items) = some T → ∀ v, DictItem.mk none v ∈ items →
        ∃ t, print v = some t ∧ inSlot .dictStar v t <:+: T) := by
  have hslot : ∀ (c : Expr) (t : Toks), inSlot .compIter c t = wrapOperand c t ∧ inSlot .compIf c t = wrapOperand c t
      ∧ inSlot .boolAnd c t = wrapOperand c t ∧ inSlot .boolOr c t = wrapOperand c t
      ∧ inSlot .cmpLeft c t = wrapOperand c t ∧ inSlot .cmpRight c t = wrapOperand c t
      ∧ inSlot .dictStar c t = wrapOperand c t := by
    intro c t; simp [inSlot, operandSlot]
  have hcomp : ∀ (gs : List Comp) (pre tg' post : Toks) (T : Toks), hasVisitor .comprehension = true →
      printComps gs = some tg' → T = pre ++ tg' ++ post →
      ∀ tg it ifs a, Comp.mk tg it ifs a ∈ gs →
        (∃ ti, print it = some ti ∧ inSlot .compIter it ti <:+: T)
        ∧ ∀ c ∈ ifs, ∃ tc, print c = some tc ∧ inSlot .compIf c tc <:+: T := by
    intro gs pre tg' post T hv hg hT tg it ifs a hm
    obtain ⟨⟨ti, hti, hin⟩, h2⟩ := printComps_mem hv gs tg' hg tg it ifs a hm
    subst hT
    refine ⟨⟨ti, hti, by rw [(hslot it ti).1]; exact infix_mid _ _ hin⟩, fun c hc => ?_⟩
    obtain ⟨tc, htc, hin'⟩ := h2 c hc
    exact ⟨tc, htc, by rw [(hslot c tc).2.1]; exact infix_mid _ _ hin'⟩
  refine ⟨?_, ?_, ?_, ?_, ?_⟩
  · intro op vs T hv h v hvs
    simp only [print, hv, if_true, bind, Option.bind_eq_some_iff, pure] at h
    obtain ⟨tv, htv, h⟩ := h
    obtain ⟨t, ht, hmem⟩ := printOps_mem vs tv htv v hvs
    refine ⟨t, ht, ?_⟩
    have hs : inSlot (boolSlot op) v t = wrapOperand v t := by
      cases op <;> simp [boolSlot, inSlot, operandSlot]
    rw [hs]
    split at h
    · simp only [Option.some.injEq] at h; subst h
      exact infix_mid _ _ (infix_flatten hmem)
    · simp only [Option.bind_eq_some_iff, Option.some.injEq] at h
      obtain ⟨s, _, rfl⟩ := h
      exact infix_mid _ _ (infix_joinWith hmem)
  · intro l ops cs T hv h
    simp only [print, hv, if_true, bind, Option.bind_eq_some_iff, pure, Option.some.injEq] at h
    obtain ⟨tl, hl, tc, hc, rfl⟩ := h
    refine ⟨⟨tl, hl, ?_⟩, fun c hcm => ?_⟩
    · rw [(hslot l tl).2.2.2.2.1]
      exact infix_left _ (infix_left _ (infix_right _ (List.infix_refl _)))
    · obtain ⟨t, ht, hin⟩ := printCmp_mem ops cs tc hc c hcm
      refine ⟨t, ht, ?_⟩
      rw [(hslot c t).2.2.2.2.2.1]
      exact infix_left _ (infix_right _ hin)
  · intro e gs T hv h
    rcases h with h | h | h
    · simp only [print, bind, Option.bind_eq_some_iff, pure, Option.some.injEq] at h
      obtain ⟨te, _, tg', hg, rfl⟩ := h
      split
      · exact hcomp gs ([.opn ['[']] ++ te) tg' [.cls [']']] _ hv hg (by simp)
      · exact hcomp gs te tg' [] _ hv hg (by simp)
    · simp only [print, bind, Option.bind_eq_some_iff, pure, Option.some.injEq] at h
      obtain ⟨te, _, tg', hg, rfl⟩ := h
      split
      · exact hcomp gs ([.opn ['{']] ++ te) tg' [.cls ['}']] _ hv hg (by simp)
      · exact hcomp gs te tg' [] _ hv hg (by simp)
    · simp only [print, bind, Option.bind_eq_some_iff, pure, Option.some.injEq] at h
      obtain ⟨te, _, tg', hg, rfl⟩ := h
      split
      · exact hcomp gs ([lpar] ++ te) tg' [rpar] _ hv hg (by simp)
      · exact hcomp gs te tg' [] _ hv hg (by simp)
  · intro k v gs T hv h
    simp only [print, bind, Option.bind_eq_some_iff, pure, Option.some.injEq] at h
    obtain ⟨tk, _, tv, _, tg', hg, rfl⟩ := h
    split
    · exact hcomp gs ([.opn ['{']] ++ tk ++ [.sep [':', ' ']] ++ tv) tg' [.cls ['}']] _ hv hg (by simp)
    · exact hcomp gs (tk ++ tv) tg' [] _ hv hg (by simp)
  · intro items T hv h v hm
    simp only [print, hv, if_true, bind, Option.bind_eq_some_iff, pure, Option.some.injEq] at h
    obtain ⟨ti, hi, rfl⟩ := h
    obtain ⟨t, item, ht, hmem, hin⟩ := printDict_mem items ti hi v hm
    refine ⟨t, ht, ?_⟩
    rw [(hslot v t).2.2.2.2.2.2]
    exact infix_mid _ _ (List.IsInfix.trans hin (infix_joinWith hmem))

/-- `(yield a) + d` is re-emitted as `(yield a + d)`: the `yield` is a child in a slot where it needs parentheses,
its visitor writes none and the slot's `visit_operand` does not know it. -/
theorem print_well_parenthesised_counterexample :
    let c := Expr.yield (some (.name ['a'] .load))
    (Pos.binLArith, c) ∈ (Expr.binOp c .add (.name ['d'] .load)).children
      ∧ needsParens .binLArith c.ck = true ∧ (print c).map (fun t => isWrapped (inSlot .binLArith c t)) = some false :=
  ⟨by simp [Expr.children, binL, binR], by decide, by decide⟩

/-- a lambda used as a filter (`${x | (lambda v: v)}`) is re-emitted bare and pasted in front of `(…)` by codegen:
the root slot `rootFilter` needs parentheses and nothing supplies them. -/
theorem print_well_parenthesised_counterexample_lambda :
    let c := Expr.lambda (.mk [] [['v']] none [] [] none []) (.name ['v'] .load)
    needsParens .rootFilter c.ck = true ∧ (print c).map (fun t => isWrapped (inSlot .rootFilter c t)) = some false :=
  ⟨by decide, by decide⟩

/-- `1 .real` is re-emitted as `1.real`. -/
theorem print_well_parenthesised_counterexample_int :
    let c := Expr.const .int ['1']
    (Pos.attrValue, c) ∈ (Expr.attribute c ['r', 'e', 'a', 'l']).children
      ∧ needsParens .attrValue c.ck = true ∧ (print c).map (fun t => isWrapped (inSlot .attrValue c t)) = some false :=
  ⟨by simp [Expr.children], by decide, by decide⟩

/-! ## `adjust_ws_spec` : re-margining of `<% %>` / `<%! %>` blocks -/
open MakoModel.PyExpr.Ws in
/- OPEN  adjust_ws_spec : ∀ text, adjustWhitespace text =
           joinLines (Spec.remargin (Spec.multiFlags (splitLines text)) none (splitLines text))
   false today: `in_multi_line` does not know ordinary string literals (a `#` or three quote characters inside one
   derail it), ignores backslash escapes inside triple-quoted literals, and takes a comment ending in a backslash
   for a continuation. -/

open MakoModel.PyExpr.Ws in
/-- **adjust_ws_spec_partial.** For every block (any text, any number of lines) none of whose lines contains one of
the constructs listed at `Spec.lineHazard`, `adjust_whitespace` computes exactly `Spec.remargin` driven by the
*lexical specification* of "this line starts inside a string literal or after a backslash continuation"
(`Spec.multiFlags`, a tokenizer that knows ordinary and triple-quoted literals, escapes, comments and
continuations).  What `Spec.remargin` guarantees is stated by the next four theorems. -/
theorem adjust_ws_spec_partial (text : List Char) (hz : Spec.hazardFree (splitLines text) = true) :
    adjustWhitespace text = joinLines (Spec.remargin (Spec.multiFlags (splitLines text)) none (splitLines text)) := by
  unfold adjustWhitespace Spec.multiFlags
  rw [adjust_agree (splitLines text) .code .init none rel_init hz]

open MakoModel.PyExpr.Ws in
/-- the implementation's `in_multi_line` answers are the specification's, under the same guard -/
theorem in_multi_line_spec_partial (ls : List Ws.Line) (hz : Spec.hazardFree ls = true) :
    multiFlags ls = Spec.multiFlags ls :=
  flags_agree ls .code .init rel_init hz

open MakoModel.PyExpr.Ws in
/-- the guard is satisfiable by a block with a multi-line triple-quoted literal (containing a `#`, quotes and an
indented line), an ordinary literal with an escape, a comment and a backslash continuation -/
example : Spec.hazardFree (splitLines
    "\n    x = \"\"\"a # 'b'\n  kept \"as is\"\n\"\"\" + 'it\\'s'  # note\n    y = 1 + \\\n  2\n    if x:\n\t    z = y\n".toList) = true := by
  decide

open MakoModel.PyExpr.Ws in
/-- **number of lines preserved** (all flag lists, all blocks) -/
theorem adjust_ws_lines_preserved (fl : List Bool) (m : Option Ws.Line) (ls : List Ws.Line) :
    (Spec.remargin fl m ls).length = ls.length :=
  remargin_length fl m ls

open MakoModel.PyExpr.Ws in
/-- **lines inside a literal / after a continuation are untouched** -/
theorem adjust_ws_inside_untouched (fl : List Bool) (m : Option Ws.Line) (ls : List Ws.Line) (i : Nat)
    (h : fl[i]? = some true) : (Spec.remargin fl m ls)[i]? = ls[i]? :=
  remargin_inside fl m ls i h

open MakoModel.PyExpr.Ws in
/-- **exactly the margin is removed from every other line**: once the margin `M` of the first code line is known,
a line outside any literal that starts (after tab expansion) with `M` loses exactly `M.length` characters; the first
code line itself loses its leading blanks (`remargin_first`); a line without TAB/CR/LF is its own tab expansion. -/
theorem adjust_ws_margin_removed (fl : List Bool) (M : Ws.Line) (ls : List Ws.Line) (i : Nat) (l : Ws.Line)
    (hf : fl[i]? = some false) (hl : ls[i]? = some l) (hm : M.isPrefixOf (expandTabs 0 l) = true) :
    (Spec.remargin fl (some M) ls)[i]? = some ((expandTabs 0 l).drop M.length) := by
  rw [remargin_outside fl M ls i l hf hl, replaceMargin_drop M _ hm]

open MakoModel.PyExpr.Ws in
/-- non-trivial instance of the hypotheses: line 1 of a two-line block at margin 4 -/
example : [false, false][1]? = some false ∧ ["    a = 1".toList, "    b = 2".toList][1]? = some "    b = 2".toList
    ∧ "    ".toList.isPrefixOf (expandTabs 0 "    b = 2".toList) = true := by decide

open MakoModel.PyExpr.Ws in
/-- `x = '"""'` followed by `y = 1`, both at margin 4: the three quote characters sit inside an ordinary string
literal, but `in_multi_line` takes them for the start of a triple-quoted string, so the second line is "inside",
keeps its margin, and the block no longer compiles; the specification removes the margin from both lines. -/
theorem adjust_ws_spec_counterexample :
    adjustWhitespace "    x = '\"\"\"'\n    y = 1".toList = "x = '\"\"\"'\n    y = 1".toList
    ∧ joinLines (Spec.remargin (Spec.multiFlags (splitLines "    x = '\"\"\"'\n    y = 1".toList)) none
        (splitLines "    x = '\"\"\"'\n    y = 1".toList)) = "x = '\"\"\"'\ny = 1".toList
    ∧ Spec.hazardFree (splitLines "    x = '\"\"\"'\n    y = 1".toList) = false := by decide

open MakoModel.PyExpr.Ws in
/-- F-C19-ws8 (found in round 6): a form-feed-only line above the first statement.  The block contains nothing of
`Spec.lineHazard` (so `adjust_whitespace` *does* compute `Spec.remargin` on it), yet the margin is not removed:
`nextMargin` – the transcription of `re.search(r"^[ \t]*[^# \t]", line)` – takes the form feed for the first code
character and fixes the margin at `[]`.  CPython's tokenizer treats such a line as blank, so the block `def f():` +
these lines compiles while the re-margined one raises IndentationError.  `Spec.remargin` shares the regex's notion of
"first code line"; the property's notion (CPython's) is narrower by exactly this class of lines.  The same line
written at the block's own margin is harmless (second conjunct). -/
theorem adjust_ws_formfeed_counterexample :
    adjustWhitespace "\x0c\n    a = 1".toList = "\x0c\n    a = 1".toList
    ∧ adjustWhitespace "    \x0c\n    a = 1".toList = "\x0c\na = 1".toList
    ∧ Spec.hazardFree (splitLines "\x0c\n    a = 1".toList) = true
    ∧ nextMargin none "\x0c".toList = some [] := by decide

/-! ## `flush_adjusted_spec` : the printer side (`write_indented_block`, `_flush_adjusted_lines`, `_in_multi_line`) -/

open MakoModel.PyExpr.Ws in
/- OPEN  flush_adjusted_spec : ∀ ind ls, flushLoop ind (false, false) none ls =
           Spec.reindent ind (Spec.multiFlags ls) none ls
   false today: on top of what derails `adjust_whitespace` (`Spec.lineHazard`), `_in_multi_line` counts triple quotes
   with `re.findall` over the whole line - a comment containing three quote characters, or a triple-quoted literal
   containing the other kind of triple quote, flips or fails to flip its state (`Spec.scanHazardP`). -/

open MakoModel.PyExpr.Ws in
/-- **flush_adjusted_spec_partial.** For every block of lines (any number, any content) that is hazard-free for
`adjust_whitespace` (`Spec.hazardFree`) and free of the two printer-specific hazards (`Spec.printerHazardFree`), and for
ANY target indentation `ind`, `_flush_adjusted_lines` writes exactly `Spec.reindent` driven by the independent lexical
specification `Spec.multiFlags`: lines inside a literal / after a continuation untouched, every other line
tab-expanded with the block's margin replaced by `ind`.  What `Spec.reindent` guarantees is stated by the next three
theorems. -/
theorem flush_adjusted_spec_partial (ind : Ws.Line) (ls : List Ws.Line) (hz : Spec.hazardFree ls = true)
    (hzp : Spec.printerHazardFree ls = true) :
    flushLoop ind (false, false) none ls = Spec.reindent ind (Spec.multiFlags ls) none ls :=
  flush_agree ind ls .code .init (false, false) none rel_init prel_init hz hzp

open MakoModel.PyExpr.Ws in
/-- the same for the printer's entry point: `write_indented_block(block)` + `_flush_adjusted_lines()` at indentation
level `n` (four blanks per level) -/
theorem flush_adjusted_block_spec_partial (n : Nat) (block : List Char)
    (hz : Spec.hazardFree (splitLines block) = true) (hzp : Spec.printerHazardFree (splitLines block) = true) :
    flushAdjusted n block
      = Spec.reindent (List.replicate (4 * n) ' ') (Spec.multiFlags (splitLines block)) none (splitLines block) :=
  flush_adjusted_spec_partial _ _ hz hzp

open MakoModel.PyExpr.Ws in
/-- both guards are satisfiable by a block with a multi-line literal, quotes of the other kind, a `#` inside the
literal, a comment and a backslash continuation -/
example : Spec.hazardFree (splitLines
      "x = \"\"\"a # 'b'\n  kept \"as is\"\n\"\"\" + 'it'  # note\ny = 1 + \\\n  2\nif x:\n    z = y".toList) = true
    ∧ Spec.printerHazardFree (splitLines
      "x = \"\"\"a # 'b'\n  kept \"as is\"\n\"\"\" + 'it'  # note\ny = 1 + \\\n  2\nif x:\n    z = y".toList) = true := by
  decide

open MakoModel.PyExpr.Ws in
/-- **number of lines preserved** (any indentation, any flags) -/
theorem flush_lines_preserved (ind : Ws.Line) (fl : List Bool) (m : Option Ws.Line) (ls : List Ws.Line) :
    (Spec.reindent ind fl m ls).length = ls.length :=
  reindent_length ind fl m ls

open MakoModel.PyExpr.Ws in
/-- **lines inside a literal / after a continuation are written untouched** -/
theorem flush_inside_untouched (ind : Ws.Line) (fl : List Bool) (m : Option Ws.Line) (ls : List Ws.Line) (i : Nat)
    (h : fl[i]? = some true) : (Spec.reindent ind fl m ls)[i]? = ls[i]? :=
  reindent_inside ind fl m ls i h

open MakoModel.PyExpr.Ws in
/-- **exactly the margin is replaced by the target indentation on every other line** that starts with it -/
theorem flush_margin_replaced (ind : Ws.Line) (fl : List Bool) (M : Ws.Line) (ls : List Ws.Line) (i : Nat)
    (l : Ws.Line) (hf : fl[i]? = some false) (hl : ls[i]? = some l) (hm : M.isPrefixOf (expandTabs 0 l) = true) :
    (Spec.reindent ind fl (some M) ls)[i]? = some (ind ++ (expandTabs 0 l).drop M.length) := by
  rw [reindent_outside ind fl M ls i l hf hl, pIndentLine_replace M ind _ hm]

open MakoModel.PyExpr.Ws in
/-- `x = 1  # '''` followed by `y = 2`, written at indentation level 1: the comment's three quote characters flip
`_in_multi_line`, the second line is taken for string content and is written without indentation (the generated
module does not compile); the specification indents both lines. -/
theorem flush_adjusted_spec_counterexample :
    flushAdjusted 1 "x = 1  # '''\ny = 2".toList = ["    x = 1  # '''".toList, "y = 2".toList]
    ∧ Spec.reindent "    ".toList (Spec.multiFlags (splitLines "x = 1  # '''\ny = 2".toList)) none
        (splitLines "x = 1  # '''\ny = 2".toList) = ["    x = 1  # '''".toList, "    y = 2".toList]
    ∧ Spec.hazardFree (splitLines "x = 1  # '''\ny = 2".toList) = true
    ∧ Spec.printerHazardFree (splitLines "x = 1  # '''\ny = 2".toList) = false := by decide

open MakoModel.PyExpr.Ws in
/-- **remargin_roundtrip.** The two passes composed - what `<% %>` code goes through from the template to the
generated module: for every tab-free block that is hazard-free for both passes, `adjust_whitespace` followed by
`_flush_adjusted_lines` at any target indentation `ind` is `Spec.roundtrip`: the identity on lines inside a literal /
after a continuation (`remargin_roundtrip_inside`), "strip the block's margin, put `ind` in front" on every other
line from the first code line on (`remargin_roundtrip_code`), the identity on blank/comment lines before it. -/
theorem remargin_roundtrip (ind : Ws.Line) (ls : List Ws.Line) (hnt : ∀ l ∈ ls, NoTabs l)
    (hz : Spec.hazardFree ls = true) (hzp : Spec.printerHazardFree ls = true) :
    flushLoop ind (false, false) none (adjustLoop .init none ls)
      = Spec.roundtrip ind (Spec.multiFlags ls) none ls :=
  roundtrip_agree ind ls hnt hz hzp

open MakoModel.PyExpr.Ws in
theorem remargin_roundtrip_inside (ind : Ws.Line) (fl : List Bool) (m : Option Ws.Line) (ls : List Ws.Line)
    (i : Nat) (h : fl[i]? = some true) : (Spec.roundtrip ind fl m ls)[i]? = ls[i]? :=
  roundtrip_inside ind fl m ls i h

open MakoModel.PyExpr.Ws in
theorem remargin_roundtrip_code (ind : Ws.Line) (fl : List Bool) (M : Ws.Line) (ls : List Ws.Line) (i : Nat)
    (l : Ws.Line) (hf : fl[i]? = some false) (hl : ls[i]? = some l) (hm : M.isPrefixOf l = true) :
    (Spec.roundtrip ind fl (some M) ls)[i]? = some (ind ++ l.drop M.length) := by
  rw [roundtrip_outside ind fl M ls i l hf hl, replaceMargin_drop M l hm]

open MakoModel.PyExpr.Ws in
/-- non-trivial instance: a block at margin 4 with a multi-line literal, through both passes to indentation 8 -/
example :
    let ls := splitLines "    x = '''a\n  b'''\n    if x:\n        y = 1".toList
    (∀ l ∈ ls, NoTabs l) ∧ Spec.hazardFree ls = true ∧ Spec.printerHazardFree ls = true
    ∧ flushLoop "        ".toList (false, false) none (adjustLoop .init none ls)
        = ["        x = '''a".toList, "  b'''".toList, "        if x:".toList, "            y = 1".toList] := by
  decide

/-! ## `identifiers_exact` : what is fetched from the template's namespace -/

/-- the `visit_*` inventory of `FindIdentifiers` the model was written against (regenerated; a change shows here) -/
theorem find_identifiers_inventory :
    Generated.PyExpr.findIdentVisitors.map String.ofList =
      ["ClassDef", "Assign", "ExceptHandler", "Lambda", "FunctionDef", "ListComp", "SetComp", "GeneratorExp",
       "DictComp", "For", "Name", "Import", "ImportFrom"]
    ∧ Generated.PyExpr.reserved.map String.ofList = ["False", "None", "True", "print"] := by decide

theorem fi_visitors : FIVisitors := by constructor <;> decide

/- OPEN  identifiers_exact : ∀ b, (∀ x, x ∈ fetched b ↔ x ∈ Spec.freeNames b ∧ x ∉ reserved)
                                ∧ (∀ x, x ∈ (findIdentifiers b).declared ↔ x ∈ Spec.boundNames b)
   false today (F12b, F12c, F12e-g; the parameter kinds of F12 were repaired by a807210): comprehension variables are recorded as block-level names, default values, decorators, class headers and bodies
   and the element/conditions of a comprehension inside a function are never looked at, `del x` counts as a read,
   locals of a nested function are order-dependent. -/

/-- **identifiers_exact_partial.** For every block inside `flatBlock` - any nesting of for/while/if/try/with,
assignments, augmented assignments, imports, `:=`, every operator, call and display, and lambdas with parameters of
every kind (nested ones included) as long as they have no default values and no `:=` in their body; excluded are
exactly the constructs where `FindIdentifiers` still departs from Python: comprehensions (F12b/F12e), `def` and
`class` (F12c/F12f), default values of lambdas (F12c), `del` (F12g), `global`/`nonlocal`, `import *`:
* *soundness and precision*: the names fetched from the template's namespace on behalf of the block
  (`undeclared − declared`, what `write_variable_declares` keeps) are **exactly** the free names of the block as a
  Python function body, except the reserved ones (`True False None print`);
* the names recorded as declared are exactly the names the block binds. -/
theorem identifiers_exact_partial (b : List Stmt) (h : flatBlock b = true) :
    (∀ x, x ∈ fetched b ↔ (x ∈ Spec.freeNames b ∧ x ∉ Generated.PyExpr.reserved))
    ∧ (∀ x, x ∈ (findIdentifiers b).declared ↔ x ∈ Spec.boundNames b) :=
  ⟨(flat_exact fi_visitors b h).2, (flat_exact fi_visitors b h).1⟩

/-- the guard is satisfiable:
`for i, (j, k) in z: (try: a.b[i] = f(j, *c, **d) except E as e: import os.path as p) else: q = (w := i) if u else {k: v}` -/
example : flatBlock [.for_ (.tuple [.name ['i'] .store, .tuple [.name ['j'] .store, .name ['k'] .store]])
    (.name ['z'] .load)
    [.try_ [.assign [.subscript (.attribute (.name ['a'] .load) ['b']) (.name ['i'] .load)]
              (.call (.name ['f'] .load) [.name ['j'] .load, .starred (.name ['c'] .load)]
                [.mk none (.name ['d'] .load)])]
           [.mk (some (.name ['E'] .load)) (some ['e']) [.import_ [⟨['o', 's', '.', 'p'], some ['p']⟩]]] [] []]
    [.assign [.name ['q'] .store] (.ifExp (.name ['u'] .load) (.namedExpr (.name ['w'] .store) (.name ['i'] .load))
      (.dict [.mk (some (.name ['k'] .load)) (.name ['v'] .load)]))]] = true := by decide

/-- lambdas with every parameter kind are inside the guard (since a807210):
`g = lambda p, /, a, *b, c, **d: (lambda e: p + a + c + e + q)(b, d)` fetches exactly `q` -/
example :
    let blk := [Stmt.assign [.name ['g'] .store]
      (.lambda (.mk [['p']] [['a']] (some ['b']) [['c']] [none] (some ['d']) [])
        (.call (.lambda (.mk [] [['e']] none [] [] none [])
            (.binOp (.binOp (.name ['p'] .load) .add (.name ['e'] .load)) .add (.name ['q'] .load)))
          [.name ['b'] .load, .name ['d'] .load, .name ['a'] .load, .name ['c'] .load] []))]
    flatBlock blk = true ∧ fetched blk = [['q']] ∧ Spec.freeNames blk = [['q']] := by decide

/-- `def f(p, /, a, *b, c=1, **d): return (p, a, b, c, d)`: since a807210 no parameter of any kind is fetched -/
theorem identifiers_parameters_not_fetched :
    let blk := [Stmt.functionDef ['f'] (.mk [['p']] [['a']] (some ['b']) [['c']] [some (.const .int ['1'])] (some ['d']) [])
      [.return_ (some (.tuple [.name ['p'] .load, .name ['a'] .load, .name ['b'] .load, .name ['c'] .load,
        .name ['d'] .load]))] []]
    fetched blk = [] ∧ Spec.freeNames blk = [] := by decide

/-- `y = [x for x in z]; w = x`: the later `x` is a free name of the block, but the comprehension variable was
recorded as declared, so `x` is not fetched (F12b); and `def f(a=b): return a` / `class A(B): c = d`: `b`, `B`, `d` are
free but never seen (F12c) -/
theorem identifiers_exact_counterexample_missing :
    (let blk := [Stmt.assign [.name ['y'] .store]
                  (.listComp (.name ['x'] .load) [.mk (.name ['x'] .store) (.name ['z'] .load) [] false]),
                 Stmt.assign [.name ['w'] .store] (.name ['x'] .load)]
     fetched blk = [['z']] ∧ Spec.freeNames blk = [['z'], ['x']]
      ∧ (findIdentifiers blk).declared = [['x'], ['y'], ['w']] ∧ Spec.boundNames blk = [['y'], ['w']])
    ∧ (let blk := [Stmt.functionDef ['f'] (.mk [] [['a']] none [] [] none [.name ['b'] .load])
                    [.return_ (some (.name ['a'] .load))] []]
       fetched blk = [] ∧ Spec.freeNames blk = [['b']])
    ∧ (let blk := [Stmt.classDef ['A'] [.name ['B'] .load] [] [.assign [.name ['c'] .store] (.name ['d'] .load)] []]
       fetched blk = [] ∧ Spec.freeNames blk = [['B'], ['d']]) := by decide

/-! ## a def's own parameters in its attribute expressions (`filter=`, `cache_key`, …) -/

/-- the regenerated chain `DefTag.undeclared_identifiers` → `FunctionDecl.allargnames` → `ParseFunc`: the def
subtracts, and the def/block/page declare, `allargnames` = `argnames + kwargnames` = positional-only + ordinary +
`*args` + keyword-only + `**kwargs` parameters.
`blockTagDeclared` / `pageTagDeclared` (what `BlockTag` / `PageTag.declared_identifiers()` return for `args="…"`) have
no consumer other than this side condition: the model interprets only the def's two fields (`defTagDemands`,
`defTagDeclares`); that a block and a page declare through the same `FunctionDecl` attribute is pinned here, so
`defTagDeclares` reads verbatim for them, and a change of either fact breaks this theorem.  No subtraction fact exists
for them: `BlockTag.undeclared_identifiers()` subtracts only the default-filter names, never the block's parameters,
and `PageTag` has no `undeclared_identifiers` of its own (the recorded finding about `<%page expression_filter>`);
both are exercised by the harness witnesses of `oracle.def-attributes` only. -/
theorem def_tag_knows_all_parameters :
    String.ofList Generated.PyExpr.defTagSubtracted = "allargnames"
    ∧ String.ofList Generated.PyExpr.defTagDeclared = "allargnames"
    ∧ String.ofList Generated.PyExpr.blockTagDeclared = "allargnames"
    ∧ String.ofList Generated.PyExpr.pageTagDeclared = "allargnames"
    ∧ Generated.PyExpr.allargnamesParts.map String.ofList = ["argnames", "kwargnames"]
    ∧ Generated.PyExpr.argnamesSources.map String.ofList = ["posonlyargs", "args", "vararg"]
    ∧ Generated.PyExpr.kwargnamesSources.map String.ofList = ["kwonlyargs", "kwarg"] := by decide

/-- **def_attributes_never_demand_own_parameters.** For every signature and every set of names read by the def's
default values, `filter=` arguments and expression attributes: no parameter of the def - positional-only (since
266703c), ordinary, `*args`, keyword-only, `**kwargs` - is among the names the enclosing scope is asked to fetch from
the context; and the def declares it. (Full statement: no guard.) -/
theorem def_attributes_never_demand_own_parameters (a : Args) (reads : List Str) (x : Str)
    (hx : x ∈ Spec.paramNames a) : x ∉ defTagDemands a reads ∧ x ∈ defTagDeclares a := by
  cases a with
  | mk po ar va ko kd kw de =>
    have hx' : x ∈ po ∨ x ∈ ar ∨ x ∈ va.toList ∨ x ∈ ko ∨ x ∈ kw.toList := by
      simpa [Spec.paramNames, or_assoc] using hx
    refine ⟨?_, (declField_declared po ar va ko kd kw de x).mpr hx'⟩
    intro h
    simp only [defTagDemands, List.mem_filter, List.contains_eq_mem, Bool.not_eq_true', decide_eq_false_iff_not] at h
    exact h.2 ((declField_subtracted po ar va ko kd kw de x).mpr hx')

/-- conversely, the def declares nothing but its parameters -/
theorem def_declares_only_parameters (a : Args) (x : Str) (hx : x ∈ defTagDeclares a) : x ∈ Spec.paramNames a := by
  cases a with
  | mk po ar va ko kd kw de =>
    have := (declField_declared po ar va ko kd kw de x).mp hx
    simpa [Spec.paramNames, or_assoc] using this

/-- the hypothesis is satisfiable: `f(t, *r, w=3, **kw)` with `filter="pad(w, kw)"` -/
example : ['w'] ∈ Spec.paramNames (Args.mk [] [['t']] (some ['r']) [['w']] [some (.const .int ['3'])] (some ['k', 'w']) [])
    ∧ defTagDemands (Args.mk [] [['t']] (some ['r']) [['w']] [some (.const .int ['3'])] (some ['k', 'w']) [])
        [['p', 'a', 'd'], ['w'], ['k', 'w']] = [['p', 'a', 'd']] := by decide

/-- regression (the defect repaired by 266703c, kept as a concrete instance): `f(a, /, b)` with `filter="g(a)"` -
the positional-only `a` is not demanded from the enclosing scope, and is declared -/
theorem def_attributes_posonly_regression :
    defTagDemands (Args.mk [['a']] [['b']] none [] [] none []) [['g'], ['a']] = [['g']]
    ∧ defTagDeclares (Args.mk [['a']] [['b']] none [] [] none []) = [['a'], ['b']] := by decide

end MakoModel.C19
