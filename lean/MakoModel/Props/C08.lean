import MakoModel.Paths8.Lemmas
/-!
# C08 – a template means the same on every compilation and rendering path

Theorems about the models of `MakoModel/Paths8/Model.lean`.  What is *proved* here is about the models; the
models are tied to /repo by `harness/props/C08.py` (op-level comparison of `module_id`, path selection,
`_kwargs_for_callable`, registry reads, `ModuleInfo.source` / `.code` reads, the directory probe order, the emitted
declaration blocks per PYTHONHASHSEED) and by regenerated tables and flags (`Generated/Paths8.lean`,
`Generated/ModFile.lean`, `Generated/Unicode.lean`); the property itself is searched for violations by the multi-path,
multi-hash-seed differential of that file.

The 31 theorems, by section:
* declaration blocks – `decl_block_of_set_order`, `declaration_order_irrelevant`, `declaration_order_output`,
  `declaration_order_exception_unique`, `declaration_order_deterministic`, `locals_snapshot_lookup_irrelevant`,
  `locals_snapshot_deterministic`, `remaining_set_prints_sorted`; documentation of the behaviour before the generator
  sorted its sets: `declaration_order_exception_unsorted_counterexample`, `locals_snapshot_keys_unsorted_counterexample`;
* text path vs module-file path – `preamble_matches_source`, `magic_comment_flags`, `module_text_paths_agree`,
  `line_map_shift`;
* path selection – `path_selection`, `module_filename_spelling_irrelevant` (a relative `module_filename` and its
  absolute spelling select the same absolute, normalised module path), `directory_order_is_configuration_order` (several
  directories: the first configured one that contains the URI, whatever the set iteration order);
* registry – `registry_injective`, `registry_injective_partial`, `module_id_regex_is_modelled`,
  `module_id_collision_iff`, `module_id_not_injective_counterexample`;
* `source` / `code` reads – `source_strips_exactly_one_bom` (regenerated fact), `source_path_independent` (every
  path that holds the template as bytes decodes exactly the bytes the lexer decoded), `source_lstrip_counterexample`
  (documentation), `code_reads_current_module_file` (a module-file template's code is the current file content after
  any history of rewrites);
* which module executes – `bytecode_dropped_after_both_writers` (regenerated facts, one per writer branch),
  `regenerated_module_executes`, `regenerated_module_stale_bytecode_counterexample` (documentation);
* defs – `def_template_render`, `list_defs_has_def`.

OPEN (recorded finding, see known_findings.json):
* F5  – `module_id` is not injective (`/a-b.html` vs `/a_b.html`), so "every live template with its own URI reads
        back its own source and code" is false and stays an OPEN comment in the registry section.  Proved instead:
        `registry_injective` (own text iff no later registration wrote the key), `registry_injective_partial`
        (own text under pairwise distinct module ids), `module_id_collision_iff` (exactly which URIs collide) and
        `module_id_not_injective_counterexample`.
Repaired (8e8e5a7, f319ac2; were F-C08-1/2/3): the generator used to print its sets in iteration order, which was
observable in which `NameError` a strict template with two missing names raises and in the key order of the context a
top-level def receives (`…_unsorted_counterexample` below document the old behaviour).  It now prints `sorted(set)`:
`declaration_order_deterministic`, `locals_snapshot_deterministic`.
-/
namespace MakoModel.C08
open MakoModel.Paths8

/-! ## declaration blocks: PYTHONHASHSEED picks a permutation -/

/-- The generator emits one declaration per element of the set `to_write`, in iteration order: two iteration
orders give permuted blocks with the same, pairwise distinct, targets. -/
theorem decl_block_of_set_order (c : GenCfg) (i : Idents) (order order' : List Name)
    (hp : order.Perm order') (hn : order.Nodup) :
    (declBlock c i order).Perm (declBlock c i order') ∧
    (declBlock c i order).map Decl.target = order ∧ ((declBlock c i order).map Decl.target).Nodup := by
  have ht := declBlock_targets c i
  exact ⟨hp.map _, ht order, by rw [ht order]; exact hn⟩

example : (declBlock ⟨true, false, false⟩ ⟨["x".toList, "f".toList], [], [], [], ["f".toList], []⟩
    ["x".toList, "f".toList]) = [.ctxGet "x".toList, .defn "f".toList] := by decide

/-- **Declaration order is irrelevant for the meaning.**  For any two permutations of a declaration block with
pairwise distinct targets, started from the same locals and namespace state: either both complete, and then every
local reads the same in both and the namespace state is the same; or both raise, and each raises one of the
exceptions of the (order-independent) collection `possibleExcs`. -/
theorem declaration_order_irrelevant (s : Src) (g : Bool) (env : Env) (ds ds' : List Decl)
    (hp : ds.Perm ds') (hn : (ds.map Decl.target).Nodup) :
    (∀ e g1, execDecls s ds env g = .ok (e, g1) →
        ∃ e', execDecls s ds' env g = .ok (e', g1) ∧ e.Perm e' ∧ ∀ x, get e x = get e' x) ∧
    (∀ x, execDecls s ds env g = .error x →
        ∃ x', execDecls s ds' env g = .error x' ∧ x ∈ possibleExcs s g ds' ∧ x' ∈ possibleExcs s g ds) := by
  have hpe := possibleExcs_perm s g hp
  have h1 := execDecls_eq s ds env g
  have h2 := execDecls_eq s ds' env g
  constructor
  · intro e g1 h
    cases hf : ds.find? (Decl.fails s g) with
    | some d => rw [hf] at h1; rw [h1] at h; cases h
    | none =>
      rw [hf] at h1
      have hnone' : ds'.find? (Decl.fails s g) = none := by
        rw [find_fails_none_iff] at hf ⊢
        exact List.perm_nil.mp (hf ▸ hpe.symm)
      rw [hnone'] at h2
      simp only at h1 h2
      rw [h1] at h
      injection h with h
      injection h with he hg
      subst he hg
      have hperm : ((ds.map fun d => (d.target, d.val s)).reverse).Perm
          ((ds'.map fun d => (d.target, d.val s)).reverse) :=
        (List.reverse_perm _).trans ((hp.map _).trans (List.reverse_perm _).symm)
      refine ⟨(ds'.map fun d => (d.target, d.val s)).reverse ++ env, ?_, ?_, ?_⟩
      · rw [h2, any_perm _ hp]
      · exact hperm.append_right env
      · intro x
        rw [get_append, get_append]
        have hk : (keys (ds.map fun d => (d.target, d.val s)).reverse).Nodup := by
          rw [keys_reverse, keys_bound]; exact (List.reverse_perm _).nodup_iff.mpr hn
        rw [get_perm hperm hk]
  · intro x h
    cases hf : ds.find? (Decl.fails s g) with
    | none => rw [hf] at h1; rw [h1] at h; cases h
    | some d =>
      rw [hf] at h1
      simp only at h1
      rw [h1] at h
      injection h with hx
      subst hx
      have hhead := find_fails_some s g ds d hf
      have hmem : d.exc ∈ possibleExcs s g ds := List.mem_of_mem_head? hhead
      cases hf' : ds'.find? (Decl.fails s g) with
      | none =>
        rw [find_fails_none_iff] at hf'
        have := hpe.mem_iff.mp hmem
        rw [hf'] at this
        cases this
      | some d' =>
        rw [hf'] at h2
        have hhead' := find_fails_some s g ds' d' hf'
        have hmem' : d'.exc ∈ possibleExcs s g ds' := List.mem_of_mem_head? hhead'
        exact ⟨d'.exc, h2, hpe.mem_iff.mp hmem, hpe.mem_iff.mpr hmem'⟩

-- non-vacuous: a block of three different statement kinds, both orders complete with the same bindings
example : execDecls ⟨[("x".toList, .data "1".toList)], [], [], false⟩
      [.ctxGet "x".toList, .defn "f".toList, .nsFetch "n".toList] [] false
    = .ok ([("n".toList, .ns "n".toList), ("f".toList, .closure "f".toList), ("x".toList, .data "1".toList)], true) := by
  decide

/-- **The output of a render callable does not depend on the declaration order** whenever no declaration raises:
the body sees the locals only through name lookup. -/
theorem declaration_order_output {Out} (s : Src) (g : Bool) (ds ds' : List Decl) (body : (Name → Option Val) → Out)
    (hp : ds.Perm ds') (hn : (ds.map Decl.target).Nodup) :
    (∀ o, runCallable s ds g body = .ok o → runCallable s ds' g body = .ok o) ∧
    (∀ x, runCallable s ds g body = .error x → ∃ x', runCallable s ds' g body = .error x') := by
  have h := declaration_order_irrelevant s g [] ds ds' hp hn
  unfold runCallable
  constructor
  · intro o ho
    cases he : execDecls s ds [] g with
    | error x => rw [he] at ho; cases ho
    | ok r =>
      obtain ⟨e, g1⟩ := r
      rw [he] at ho
      obtain ⟨e', he', _, hget⟩ := h.1 e g1 he
      rw [he']
      have : get e = get e' := funext hget
      simp only [this] at ho
      exact ho
  · intro x hx
    cases he : execDecls s ds [] g with
    | ok r => rw [he] at hx; cases hx
    | error y =>
      obtain ⟨x', he', _, _⟩ := h.2 y he
      exact ⟨x', by rw [he']⟩

example : runCallable ⟨[("x".toList, .data "1".toList)], [], [], false⟩ [.ctxGet "x".toList, .ctxGet "y".toList] false
    (fun l => (l "x".toList, l "y".toList)) = .ok (some (.data "1".toList), some .undefined) := by decide

/-- If all failing declarations of a block would raise the same exception (in particular: at most one name is
missing under `strict_undefined`), every order raises exactly that exception. -/
theorem declaration_order_exception_unique (s : Src) (g : Bool) (env : Env) (ds ds' : List Decl) (e : Exc)
    (hp : ds.Perm ds') (hu : ∀ x ∈ possibleExcs s g ds, x = e) (hne : possibleExcs s g ds ≠ []) :
    execDecls s ds env g = .error e ∧ execDecls s ds' env g = .error e := by
  have hpe := possibleExcs_perm s g hp
  have key : ∀ l : List Decl, (∀ x ∈ possibleExcs s g l, x = e) → possibleExcs s g l ≠ [] →
      execDecls s l env g = .error e := by
    intro l hu hne
    rw [execDecls_eq]
    cases hf : l.find? (Decl.fails s g) with
    | none => exact absurd ((find_fails_none_iff s g l).mp hf) hne
    | some d =>
      have := List.mem_of_mem_head? (find_fails_some s g l d hf)
      show Outcome.error d.exc = Outcome.error e
      rw [hu _ this]
  refine ⟨key ds hu hne, key ds' (fun x hx => hu x (hpe.mem_iff.mpr hx)) ?_⟩
  intro h
  exact hne (List.perm_nil.mp (h ▸ hpe))

example : execDecls ⟨[("x".toList, .data "1".toList)], [], [], false⟩ [.ctxStrict "x".toList, .ctxStrict "y".toList] [] false
    = .error (.nameError "y".toList) := by decide

/-- Documentation of the behaviour before 8e8e5a7 (`emitOrder false` = the set's iteration order is emitted as it
is): with two names missing under `strict_undefined`, the `NameError` names whichever declaration came first – this
is why `declaration_order_irrelevant` alone was not enough and the generator now sorts. -/
theorem declaration_order_exception_unsorted_counterexample :
    let s : Src := ⟨[], [], [], false⟩
    let c : GenCfg := ⟨true, true, false⟩
    let i : Idents := ⟨["x".toList, "y".toList], [], [], [], [], []⟩
    let iter := ["x".toList, "y".toList]
    let iter' := ["y".toList, "x".toList]
    iter.Perm iter' ∧
    execDecls s (declBlock c i (emitOrder false iter)) [] false = .error (.nameError "x".toList) ∧
    execDecls s (declBlock c i (emitOrder false iter')) [] false = .error (.nameError "y".toList) := by
  refine ⟨List.Perm.swap _ _ _, by decide, by decide⟩

/-- **The emitted declaration block is a function of the set** (since 8e8e5a7 the generator walks `sorted(to_write)`):
whatever order PYTHONHASHSEED makes Python iterate the set in, the same block is emitted – so the same outcome,
including *which* `NameError` a strict template raises – and the block declares exactly the names of the set. -/
theorem declaration_order_deterministic (c : GenCfg) (i : Idents) (iter iter' : List Name) (hp : iter.Perm iter') :
    emittedBlock c i iter = emittedBlock c i iter' ∧
    (∀ s env g, execDecls s (emittedBlock c i iter) env g = execDecls s (emittedBlock c i iter') env g) ∧
    ((emittedBlock c i iter).map Decl.target).Perm iter := by
  have hs : Generated.Paths8.declsSorted = true := rfl
  have heq : emittedBlock c i iter = emittedBlock c i iter' := by
    simp only [emittedBlock, emitOrder, hs, if_true, sortStrs_perm hp]
  refine ⟨heq, fun s env g => by rw [heq], ?_⟩
  simp only [emittedBlock, emitOrder, hs, if_true, declBlock_targets]
  exact perm_sortStrs iter

example : emittedBlock ⟨true, true, false⟩ ⟨["y".toList, "x".toList], [], [], [], [], []⟩ ["y".toList, "x".toList] =
    [.ctxStrict "x".toList, .ctxStrict "y".toList] := by decide

/-! ### the `__M_locals` snapshot handed to top-level defs -/

/-- **Every read** (`context.get`, `context[...]`, `in`) of the context a top-level def receives is independent of
the order in which `argument_declared` was iterated to build `__M_locals`. -/
theorem locals_snapshot_lookup_irrelevant (data snap snap' : List (Name × Val))
    (hp : snap.Perm snap') (hn : (keys snap).Nodup) (k : Name) :
    get (ctxLocals data snap) k = get (ctxLocals data snap') k := by
  unfold ctxLocals
  have hempty : snap.isEmpty = snap'.isEmpty := by
    cases snap with
    | nil => rw [List.perm_nil.mp hp.symm]
    | cons a r =>
      cases snap' with
      | nil => exact absurd (List.perm_nil.mp hp) (List.cons_ne_nil _ _)
      | cons _ _ => rfl
  rw [← hempty]
  cases snap.isEmpty with
  | true => rfl
  | false =>
    simp only [Bool.false_eq_true, if_false]
    rw [get_dupdate, get_dupdate]
    have hk : (keys snap.reverse).Nodup := by rw [keys_reverse]; exact (List.reverse_perm _).nodup_iff.mpr hn
    have hperm : snap.reverse.Perm snap'.reverse :=
      (List.reverse_perm _).trans (hp.trans (List.reverse_perm _).symm)
    rw [get_perm hperm hk]

example : get (ctxLocals [("a".toList, Val.data "0".toList)] [("b".toList, .data "1".toList), ("a".toList, .data "2".toList)])
    "a".toList = some (.data "2".toList) := by decide

/-- Documentation of the behaviour before 8e8e5a7: with the snapshot built in iteration order, `Context.keys()`
inside a top-level def enumerated the new names in that order. -/
theorem locals_snapshot_keys_unsorted_counterexample :
    let v : Name → Val := fun _ => .data "1".toList
    let iter := ["a".toList, "b".toList]
    let iter' := ["b".toList, "a".toList]
    iter.Perm iter' ∧
    keys (ctxLocals [] ((emitOrder false iter).map fun n => (n, v n))) ≠
    keys (ctxLocals [] ((emitOrder false iter').map fun n => (n, v n))) := by
  refine ⟨List.Perm.swap _ _ _, by decide⟩

/-- **The context a top-level def receives is a function of the set `argument_declared`** (since 8e8e5a7 the
snapshot is `__M_dict_builtin` over `sorted(argument_declared)`): the same dictionary, key order included – so
`Context.keys()` does not depend on PYTHONHASHSEED. -/
theorem locals_snapshot_deterministic (data : List (Name × Val)) (val : Name → Val) (iter iter' : List Name)
    (hp : iter.Perm iter') :
    ctxLocals data (localsSnapshot iter val) = ctxLocals data (localsSnapshot iter' val) ∧
    keys (ctxLocals data (localsSnapshot iter val)) = keys (ctxLocals data (localsSnapshot iter' val)) := by
  have hs : Generated.Paths8.localsSnapshotSorted = true := rfl
  have : localsSnapshot iter val = localsSnapshot iter' val := by
    simp only [localsSnapshot, emitOrder, hs, if_true, sortStrs_perm hp]
  rw [this]; exact ⟨rfl, rfl⟩

example : keys (ctxLocals [("z".toList, Val.undefined)] (localsSnapshot ["b".toList, "a".toList] fun _ => .undefined)) =
    ["z".toList, "a".toList, "b".toList] := by decide

/-- the two other places that print a set are sorted as well (regenerated flags): the name list of a `<% %>` block's
`__M_locals.update` and the names in both `NameConflictError` messages -/
theorem remaining_set_prints_sorted :
    Generated.Paths8.codeBlockNamesSorted = true ∧ Generated.Paths8.conflictMessagesSorted = true := ⟨rfl, rfl⟩

/-! ## text path vs module-file path -/

/-- the preamble model has exactly the `writeline` calls of `write_toplevel` (regenerated list), in order -/
theorem preamble_matches_source :
    (moduleLines ⟨some "utf-8".toList, ["division".toList], ["import os".toList], true, none, [], []⟩ true 0 []).map
      Line.format = Generated.Paths8.headerFormats := by decide

/-- `_compile_text` passes `generate_magic_comment=False`, `_compile_module_file` passes `True` (regenerated) -/
theorem magic_comment_flags (p : Str) :
    Compile.text.magicComment = false ∧ Compile.fileMemory.magicComment = false ∧
    (Compile.fileModule p).magicComment = true := ⟨rfl, rfl, rfl⟩

/-- **The module generated on the text path and on the module-file path differ only in the magic-comment line and
in `_modified_time`**: same lines before `_modified_time`, same lines after it, and the module file has at most one
extra line in front, a magic comment. -/
theorem module_text_paths_agree (c : ModCfg) (p : Str) (t1 t2 : Nat) (rest : List Str) :
    let A := moduleLines c Compile.text.magicComment t1 rest
    let B := moduleLines c (Compile.fileModule p).magicComment t2 rest
    let pre := preambleHead c false
    let post := preambleTail c ++ rest.map Line.body
    let magic : List Line := if truthy c.sourceEncoding then [.magicComment (c.sourceEncoding.getD [])] else []
    A = pre ++ .modifiedTime t1 :: post ∧ B = magic ++ pre ++ .modifiedTime t2 :: post ∧
    A.filter (fun l => !l.volatile) = B.filter (fun l => !l.volatile) ∧
    (∀ l ∈ pre ++ post, l.volatile = false) := by
  have hvol : ∀ l ∈ preambleHead c false ++ (preambleTail c ++ rest.map Line.body), l.volatile = false := by
    intro l hl
    rcases List.mem_append.mp hl with hl | hl
    · simp only [preambleHead, emitsMagic, Bool.false_and, Bool.false_eq_true, if_false, List.nil_append] at hl
      rcases List.mem_append.mp hl with hl | hl
      · split at hl
        · cases hl
        · rw [List.mem_singleton.mp hl]; rfl
      · simp only [List.mem_cons, List.not_mem_nil, or_false] at hl
        rcases hl with rfl | rfl | rfl | rfl | rfl | rfl <;> rfl
    · rcases List.mem_append.mp hl with hl | hl
      · simp only [preambleTail] at hl
        rcases List.mem_append.mp hl with hl | hl
        · rcases List.mem_append.mp hl with hl | hl
          · simp only [List.mem_cons, List.not_mem_nil, or_false] at hl
            rcases hl with rfl | rfl | rfl | rfl <;> rfl
          · obtain ⟨_, _, rfl⟩ := List.mem_map.mp hl; rfl
        · rw [List.mem_singleton.mp hl]; rfl
      · obtain ⟨_, _, rfl⟩ := List.mem_map.mp hl; rfl
  have hA : moduleLines c Compile.text.magicComment t1 rest =
      preambleHead c false ++ .modifiedTime t1 :: (preambleTail c ++ rest.map Line.body) := by
    simp [moduleLines, Compile.magicComment, Generated.Paths8.magicCommentTextPath]
  have hB : moduleLines c (Compile.fileModule p).magicComment t2 rest =
      (if truthy c.sourceEncoding then [.magicComment (c.sourceEncoding.getD [])] else []) ++ preambleHead c false ++
        .modifiedTime t2 :: (preambleTail c ++ rest.map Line.body) := by
    simp [moduleLines, Compile.magicComment, Generated.Paths8.magicCommentModulePath, preambleHead, emitsMagic]
  refine ⟨hA, hB, ?_, hvol⟩
  rw [hA, hB]
  have hmagic : (if truthy c.sourceEncoding then [Line.magicComment (c.sourceEncoding.getD [])] else []).filter
      (fun l => !l.volatile) = [] := by
    split <;> simp [Line.volatile]
  have hmt : ∀ (t : Nat) (l : List Line), (Line.modifiedTime t :: l).filter (fun l => !l.volatile) =
      l.filter (fun l => !l.volatile) := by
    intro t l; simp [Line.volatile]
  rw [List.filter_append, List.filter_append, List.filter_append, hmagic, hmt, hmt, List.nil_append]

example : (moduleLines ⟨some "utf-8".toList, [], [], true, none, "/t".toList, []⟩ true 7 ["x".toList]).length =
    (moduleLines ⟨some "utf-8".toList, [], [], true, none, "/t".toList, []⟩ false 8 ["x".toList]).length + 1 := by decide

/-- the line map of the metadata block: module line numbers on the module-file path are those of the text path
shifted by the magic-comment line; the template lines they map to are the same (the final entry maps to the
largest key, which shifts as well) -/
theorem line_map_shift (c : ModCfg) (p : Str) (entries : List (Nat × Nat)) (endOff : Nat) :
    let δ := if truthy c.sourceEncoding then 1 else 0
    let A := lineMap c Compile.text.magicComment entries endOff
    let B := lineMap c (Compile.fileModule p).magicComment entries endOff
    B.map (·.1) = A.map (·.1 + δ) ∧ B.dropLast.map (·.2) = A.dropLast.map (·.2) := by
  have hlen : (moduleLines c (Compile.fileModule p).magicComment 0 []).length =
      (moduleLines c Compile.text.magicComment 0 []).length + (if truthy c.sourceEncoding then 1 else 0) := by
    simp only [moduleLines, Compile.magicComment, Generated.Paths8.magicCommentModulePath,
      Generated.Paths8.magicCommentTextPath, preambleHead, emitsMagic, Bool.true_and, Bool.false_and]
    split <;> simp <;> omega
  simp only [lineMap, hlen, List.map_append, List.map_map, List.dropLast_concat, List.map_cons, List.map_nil]
  refine ⟨?_, ?_⟩
  · congr 1
    · apply List.map_congr_left; intro x _; simp only [Function.comp]; omega
    · simp only [List.cons.injEq, and_true]; omega
  · apply List.map_congr_left; intro x _; rfl

/-! ## path selection -/

/-- `Template.__init__` compiles in memory exactly when text is given, or a file name without any module location;
a module location is used only for a file-name template without text. -/
theorem path_selection (a : Args) (h : Path.templateCheck (templateUri a) = true) :
    (selectPath a = .text ↔ a.text.isSome) ∧
    (selectPath a = .fileMemory ↔ a.text = none ∧ a.filename.isSome ∧ a.moduleFilename = none ∧ a.moduleDirectory = none) ∧
    (∀ p, selectPath a = .fileModule p → a.text = none ∧ a.filename.isSome) := by
  unfold selectPath
  simp only [h, Bool.not_true, Bool.false_eq_true, if_false]
  cases a.text <;> cases a.filename <;> cases a.moduleFilename <;> cases a.moduleDirectory <;> simp

example : selectPath ⟨none, some "/d/t.html".toList, some "/t.html".toList, some "m".toList, none, [], "/srv".toList⟩ =
    .fileModule "/srv/m/t.html.py".toList := by decide +kernel

/-- **The module path does not depend on how it was spelled**: `Template.__init__` makes `module_filename` absolute
just as it does the path derived from `module_directory`, so a relative `module_filename` (also from a
`modulename_callable`) and its absolute spelling select the same path; the path handed to `_compile_from_file`, the
`ModuleInfo` registry and the import system is absolute and normalised. -/
theorem module_filename_spelling_irrelevant (a : Args) (p : Str) (hcwd : a.cwd.head? = some '/') :
    selectPath { a with moduleFilename := some p } = selectPath { a with moduleFilename := some (absPath a.cwd p) } ∧
    (∀ q, selectPath a = .fileModule q → q.head? = some '/' ∧ Path.normpath q = q) := by
  constructor
  · simp only [selectPath, templateUri, absPath_idem a.cwd p hcwd]
  · intro q hq
    unfold selectPath at hq
    split at hq
    · cases hq
    · split at hq
      · cases hq
      · split at hq
        · cases hq
        · split at hq
          · injection hq with hq; subst hq
            exact ⟨absPath_head _ _ hcwd, Path.normpath_idem _⟩
          · split at hq
            · injection hq with hq; subst hq
              exact ⟨absPath_head _ _ hcwd, Path.normpath_idem _⟩
            · cases hq

example : selectPath ⟨none, some "/d/t.html".toList, none, none, some "mods/./t.py".toList, [], "/srv".toList⟩ =
    selectPath ⟨none, some "/d/t.html".toList, none, none, some "/srv/mods/t.py".toList, [], "/srv".toList⟩ := by
  decide +kernel

/-- **The directories of a lookup are searched in configuration order**: whatever the iteration order of sets
(`iter`), `get_template(uri)` serves the file under the first *configured* directory that contains it – every
directory configured before it does not – so a URI shadowed in several directories resolves the same way under
every PYTHONHASHSEED (and listing a directory twice changes nothing). -/
theorem directory_order_is_configuration_order (configured iter : List Str) (isFile : Str → Bool) (uri : Str) :
    lookupFile configured iter isFile uri = searchDirs (configured.map Path.normpath) isFile uri ∧
    (∀ f, lookupFile configured iter isFile uri = some f →
      ∃ pre d post, configured = pre ++ d :: post ∧ f = Path.uriToSrc (Path.normpath d) uri ∧ isFile f = true ∧
        ∀ e ∈ pre, isFile (Path.uriToSrc (Path.normpath e) uri) = false) ∧
    (lookupFile configured iter isFile uri = none ↔
      ∀ d ∈ configured, isFile (Path.uriToSrc (Path.normpath d) uri) = false) := by
  have hk : Generated.Paths8.directoriesKeepOrder = true := rfl
  have h0 : lookupFile configured iter isFile uri = searchDirs (configured.map Path.normpath) isFile uri := by
    simp [lookupFile, lookupDirs, hk]
  refine ⟨h0, ?_, ?_⟩
  · rw [h0]
    intro f hf
    simp only [searchDirs, List.map_map] at hf
    clear h0
    induction configured with
    | nil => simp at hf
    | cons a r ih =>
      simp only [List.map_cons, List.find?_cons] at hf
      cases hfa : isFile ((fun d => Path.uriToSrc d uri) (Path.normpath a)) with
      | true =>
        simp only [Function.comp, hfa] at hf
        injection hf with hf
        exact ⟨[], a, r, rfl, hf.symm, hf ▸ hfa, by simp⟩
      | false =>
        simp only [Function.comp, hfa] at hf
        obtain ⟨pre, d, post, hc, hfd, hif, hpre⟩ := ih hf
        refine ⟨a :: pre, d, post, by rw [hc]; rfl, hfd, hif, ?_⟩
        intro e he
        rcases List.mem_cons.mp he with rfl | he
        · exact hfa
        · exact hpre e he
  · rw [h0]
    simp only [searchDirs, List.find?_eq_none, List.mem_map, forall_exists_index, and_imp, forall_apply_eq_imp_iff₂,
      Bool.not_eq_true]

example : lookupFile ["/over/".toList, "/base".toList, "/over".toList] ["/base".toList, "/over".toList]
    (fun f => f = "/base/x.html".toList || f = "/over/x.html".toList || f = "/base/y.html".toList) "/x.html".toList =
    some "/over/x.html".toList := by decide

/-! ## the `ModuleInfo` registry -/

/- OPEN (F5): `Template.source` / `Template.code` return the template's own text for all live templates with
   pairwise different URIs:
     ∀ ts, (ts.map uri).Nodup → (∀ t, t.modName = moduleIdOf t.uri) → ∀ t ∈ ts, infoOf (registerAll ts) t = some t.info
   false, because `moduleIdOf` is not injective (`module_id_not_injective_counterexample`). -/

/-- **`source`/`code` return the template's own text iff the registry key is injective on the live templates**:
for live templates that are distinct objects, every template reads back its own `ModuleInfo` exactly when no
template registered later wrote the module name of an earlier one. -/
theorem registry_injective (ts : List Tmpl) (hid : (ts.map (·.id)).Nodup) :
    (∀ t ∈ ts, infoOf (registerAll ts) t = some t.info) ↔ ts.Pairwise (fun a b => a.modName ∉ b.keys) :=
  ⟨pairwise_of_own ts [] hid, own_of_pairwise ts []⟩

/-- with pairwise distinct module ids (and no module file named like a module), `source` and `code` are the
template's own -/
theorem registry_injective_partial (ts : List Tmpl) (hn : (ts.map (·.modName)).Nodup)
    (hf : ∀ a ∈ ts, ∀ b ∈ ts, a.modFile ≠ some b.modName) :
    ∀ t ∈ ts, sourceOf (registerAll ts) t = some t.source ∧ codeOf (registerAll ts) t = some t.code := by
  have hp : ts.Pairwise (fun a b => a.modName ∉ b.keys) := by
    have hne : ts.Pairwise (fun a b => a.modName ≠ b.modName) := List.pairwise_map.mp hn
    refine (List.Pairwise.and_mem.mp hne).imp ?_
    intro a b h
    obtain ⟨ha, hb, hab⟩ := h
    simp only [Tmpl.keys, List.mem_cons]
    rintro (e | e)
    · exact hab e
    · cases hm : b.modFile with
      | none => simp [hm, truthy] at e
      | some f =>
        rw [hm] at e
        have hf' : a.modName = f := by
          cases f with
          | nil => simp [truthy] at e
          | cons c r => simpa [truthy] using e
        exact hf b hb a ha (by rw [hm, hf'])
  intro t ht
  have := own_of_pairwise ts [] hp t ht
  simp [sourceOf, codeOf, infoOf, registerAll, this, Tmpl.info]

example : sourceOf (registerAll [⟨0, "_a_html".toList, none, "A".toList, "ca".toList⟩,
    ⟨1, "_b_html".toList, some "/m/b.html.py".toList, "B".toList, "cb".toList⟩])
    ⟨0, "_a_html".toList, none, "A".toList, "ca".toList⟩ = some "A".toList := by decide

/-- the regular expression and the replacement of `module_id` (regenerated from the three `re.sub` calls of
mako/template.py) are the ones `moduleIdOf` models: every non-word character (`\W`, complement of the regenerated
`\w` table) becomes `_` -/
theorem module_id_regex_is_modelled :
    Generated.Paths8.moduleIdPattern = "\\W" ∧ Generated.Paths8.moduleIdRepl = '_' := by decide

/-- `re.sub(r"\W", "_", ·)` identifies two strings exactly when they have the same length and differ only at
positions where both have a non-word character or `_` -/
theorem module_id_collision_iff (u v : Str) :
    moduleIdOf u = moduleIdOf v ↔
      u.length = v.length ∧
      ∀ p ∈ u.zip v, p.1 = p.2 ∨ ((!Basic.isWord p.1 || p.1 == '_') && (!Basic.isWord p.2 || p.2 == '_')) = true := by
  have hcls : ∀ a b : Char, ((if Basic.isWord a then a else '_') = (if Basic.isWord b then b else '_')) ↔
      (a = b ∨ ((!Basic.isWord a || a == '_') && (!Basic.isWord b || b == '_')) = true) := by
    intro a b
    by_cases ha : Basic.isWord a = true <;> by_cases hb : Basic.isWord b = true
    · simp only [ha, hb, if_true, Bool.not_true, Bool.false_or, Bool.and_eq_true, beq_iff_eq]
      constructor
      · intro h; exact Or.inl h
      · rintro (h | ⟨h1, h2⟩)
        · exact h
        · rw [h1, h2]
    · have hb' : Basic.isWord b = false := by simpa using hb
      simp only [ha, hb', if_true, Bool.false_eq_true, if_false, Bool.not_true, Bool.false_or, Bool.not_false,
        Bool.true_or, Bool.and_true, beq_iff_eq]
      constructor
      · intro h; exact Or.inr h
      · rintro (h | h)
        · subst h; rw [ha] at hb'; cases hb'
        · exact h
    · have ha' : Basic.isWord a = false := by simpa using ha
      simp only [ha', hb, if_true, Bool.false_eq_true, if_false, Bool.not_true, Bool.false_or, Bool.not_false,
        Bool.true_or, Bool.true_and, beq_iff_eq]
      constructor
      · intro h; exact Or.inr h.symm
      · rintro (h | h)
        · subst h; rw [hb] at ha'; cases ha'
        · exact h.symm
    · have ha' : Basic.isWord a = false := by simpa using ha
      have hb' : Basic.isWord b = false := by simpa using hb
      simp [ha', hb']
  unfold moduleIdOf
  have hrepl : Generated.Paths8.moduleIdRepl = '_' := by decide
  rw [hrepl]
  induction u generalizing v with
  | nil =>
    cases v with
    | nil => simp
    | cons b w => simp
  | cons a r ih =>
    cases v with
    | nil => simp
    | cons b w =>
      simp only [List.map_cons, List.cons.injEq, ih, hcls, List.length_cons, Nat.add_right_cancel_iff,
        List.zip_cons_cons, List.forall_mem_cons]
      constructor
      · rintro ⟨h1, h2, h3⟩; exact ⟨h2, h1, h3⟩
      · rintro ⟨h2, h1, h3⟩; exact ⟨h1, h2, h3⟩

example : moduleIdOf "/sub/é x.html".toList = "_sub_é_x_html".toList := by decide +kernel

/-- the real `module_id` is not injective, and the registry then answers with the other template's text -/
theorem module_id_not_injective_counterexample :
    let u := "/a-b.html".toList
    let v := "/a_b.html".toList
    let t1 : Tmpl := ⟨1, moduleIdOf u, none, "first".toList, "code1".toList⟩
    let t2 : Tmpl := ⟨2, moduleIdOf v, none, "second".toList, "code2".toList⟩
    u ≠ v ∧ moduleIdOf u = moduleIdOf v ∧
    sourceOf (registerAll [t1, t2]) t1 = some "second".toList ∧
    codeOf (registerAll [t1, t2]) t1 = some "code2".toList ∧
    sourceOf (collect (registerAll [t1, t2]) 2) t1 = none := by
  refine ⟨by decide, by decide +kernel, by decide +kernel, by decide +kernel, by decide +kernel⟩

/-- `ModuleInfo.source` removes a byte order mark with `startswith` + slice: exactly one, only as a prefix
(regenerated from the AST of the property) -/
theorem source_strips_exactly_one_bom : Generated.Paths8.sourceStripsOneBom = true := by decide

/-- **`Template.source` is path independent for templates held as bytes**: on every path that keeps the bytes of the
template (file in memory, module directory, re-loaded module file, `ModuleTemplate` over bytes, `get_def(n)` of
those) `source` decodes exactly the bytes the lexer decoded when the template was compiled – so it is the text the
string path holds – for every byte string (whatever its first bytes, with or without a byte order mark, also a BOM
followed by U+FEFF) and every codec.  (That decoding the lexer's payload gives the template text is C18's
`source_is_decoded_text`; the statement here is the agreement of the paths.) -/
theorem source_path_independent (dec : Bytes → Option Str) (b : Bytes) :
    sourceOfBytes dec b = dec (lexerPayload b) ∧
    (∀ payload, bomUtf8.isPrefixOf payload = false → sourceOfBytes dec payload = dec payload) ∧
    (∀ payload, sourceOfBytes dec (bomUtf8 ++ payload) = dec payload) := by
  have h := source_strips_exactly_one_bom
  refine ⟨by simp [sourceOfBytes, sourcePayload, lexerPayload, h], ?_, ?_⟩
  · intro payload hp
    simp [sourceOfBytes, sourcePayload, stripBomOnce, h, hp]
  · intro payload
    simp [sourceOfBytes, sourcePayload, stripBomOnce, h, bomUtf8]

example : sourceOfBytes (fun b => some (b.map Char.ofNat)) [0xEF, 0xBB, 0xBF, 0xEF, 0xBB, 0xBF, 0x68] =
    some ([0xEF, 0xBB, 0xBF, 0x68].map Char.ofNat) := by decide

/-- why "exactly one, as a prefix" matters (documentation): stripping the BOM's *bytes* eats the first character of a
utf-8 text that starts with U+FF08 (bytes EF BC 88), and the first character `»` / `¿` / `ï` of a latin-1 text -/
theorem source_lstrip_counterexample :
    sourcePayload false [0xEF, 0xBC, 0x88, 0x61] = [0xBC, 0x88, 0x61] ∧ lexerPayload [0xEF, 0xBC, 0x88, 0x61] = [0xEF, 0xBC, 0x88, 0x61] ∧
    sourcePayload false [0xBF, 0x61] = [0x61] ∧ lexerPayload [0xBF, 0x61] = [0xBF, 0x61] := by decide

/-- **`Template.code` of a module-file template is the CURRENT content of its module file**: after any history of
file (re)writes it answers with what the last write to its module file put there (the file's earlier content if the
history never touched it) – never with something remembered from an earlier access; a template that holds its module
text (text path) is not affected by the file system at all. -/
theorem code_reads_current_module_file (fs : FS) (ws : List (Str × Str)) (p : Str) (r : CodeRef) :
    (r.moduleSource = none → r.moduleFile = some p →
      r.code (applyWrites fs ws) = match get ws.reverse p with | some c => some c | none => get fs p) ∧
    (r.moduleSource = none → r.moduleFile = some p → ∀ c, r.code (applyWrites fs (ws ++ [(p, c)])) = some c) ∧
    (∀ c, r.moduleSource = some c → r.code (applyWrites fs ws) = some c) := by
  refine ⟨?_, ?_, ?_⟩
  · intro h1 h2
    simp only [CodeRef.code, h1, h2, applyWrites, get_dupdate]
    cases get ws.reverse p <;> rfl
  · intro h1 h2 c
    simp only [CodeRef.code, h1, h2, applyWrites, get_dupdate, List.reverse_append, List.reverse_cons,
      List.reverse_nil, List.nil_append, List.cons_append, get_cons, if_true]
  · intro c h
    simp only [CodeRef.code, h]

example : (CodeRef.mk none (some "/m/t.py".toList)).code
    (applyWrites [("/m/t.py".toList, "v1".toList)] [("/m/t.py".toList, "v2".toList), ("/m/u.py".toList, "x".toList)]) =
    some "v2".toList := by decide

/-- the removal of the stale bytecode in `_compile_module_file` sits after the `if module_writer: … else: …` branch,
i.e. it runs after the default writer AND after a custom `module_writer` (one regenerated flag per branch, both read
from the AST): moving it into either branch falsifies this -/
theorem bytecode_dropped_after_both_writers :
    Generated.ModFile.dropsBytecode = true ∧ Generated.ModFile.dropsBytecodeHook = true := by decide

/-- **After a module file is regenerated in place, the regenerated module is the one that executes** – with the
default writer (`hook = false`) and with a custom `module_writer` (`hook = true`), whatever bytecode was cached
before, and even when the new file has the same whole-second mtime and the same size as the old one (the case in
which the import system would trust the old bytecode). -/
theorem regenerated_module_executes (hook : Bool) (m : ModFile) (src : Str) (stamp : Nat × Nat) :
    (m.recompiled hook src stamp).executes = src ∧ ((m.recompiled hook src stamp).imported).executes = src := by
  have h := bytecode_dropped_after_both_writers
  cases hook <;> simp [ModFile.recompiled, dropsAfter, ModFile.regenerate, ModFile.executes, ModFile.imported, h.1, h.2]

/-- why the removal is needed (documentation): without it, a regeneration that keeps the stamp runs the OLD module -/
theorem regenerated_module_stale_bytecode_counterexample :
    let m : ModFile := (ModFile.mk "module of A".toList (7, 100) none).imported
    (m.regenerate false "module of B".toList (7, 100)).executes = "module of A".toList ∧
    (m.regenerate false "module of B".toList (7, 100)).src = "module of B".toList := by decide

example : ((ModFile.mk "module of A".toList (7, 100) none).imported.recompiled true
    "module of B".toList (7, 100)).executes = "module of B".toList := by decide

/-! ## `get_def(name).render(**kw)` -/

/-- **`_kwargs_for_callable`**: a callable with `**kw` receives all the data; otherwise it receives exactly the
data keys that are among its positional-or-keyword parameter names or equal to the name of its `*args` parameter
(sic), `context` excepted, each with its value from the data – keyword-only parameters are never passed. -/
theorem def_template_render {β} (s : Sig) (data : List (Name × β)) :
    (s.varkw.isSome → kwargsForCallable s data = data) ∧
    (s.varkw = none → ∀ k, get (kwargsForCallable s data) k =
        if (k ∈ s.args ∨ s.varargs = some k) ∧ k ≠ contextName then get data k else none) := by
  constructor
  · intro h; simp [kwargsForCallable, h]
  · intro h k
    simp only [kwargsForCallable, h, Option.isSome_none, Bool.false_eq_true, if_false]
    rw [get_kwargsLoop]
    have hnil : get ([] : List (Name × β)) k = none := rfl
    simp only [hnil, Sig.named, h, Option.toList_none, List.append_nil, List.mem_append]
    cases hv : s.varargs with
    | none => simp
    | some v =>
      simp only [Option.toList_some, List.mem_singleton, Option.some.injEq]
      by_cases e : v = k
      · subst e; simp
      · have e' : ¬ k = v := fun x => e x.symm
        simp [e, e']

example : kwargsForCallable ⟨["context".toList, "a".toList], none, none, []⟩
    [("a".toList, 1), ("b".toList, 2), ("context".toList, 3)] = [("a".toList, 1)] := by decide

/-- `list_defs()` lists exactly the names for which `has_def` answers yes -/
theorem list_defs_has_def (attrs : List Str) (n : Name) : n ∈ listDefs attrs ↔ hasDef attrs n = true := by
  simp only [listDefs, hasDef, List.mem_map, List.mem_filter, mem_sortStrs, List.contains_iff_mem,
    decide_eq_true_eq]
  constructor
  · rintro ⟨a, ⟨ha, hp⟩, hd⟩
    have := List.take_append_drop 7 a
    rw [hp, hd] at this
    rw [this]; exact ha
  · intro h
    refine ⟨renderPrefix ++ n, ⟨h, ?_⟩, ?_⟩
    · have : renderPrefix.length = 7 := by decide
      rw [← this, List.take_left]
    · have : renderPrefix.length = 7 := by decide
      rw [← this, List.drop_left]

example : listDefs ["render_f".toList, "x".toList, "render_body".toList] = ["body".toList, "f".toList] := by decide

end MakoModel.C08
