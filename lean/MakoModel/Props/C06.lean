import MakoModel.Inherit.LemmasBuild
import MakoModel.Inherit.LemmasCheck
import MakoModel.Inherit.LemmasBind
import MakoModel.Inherit.LemmasExec
import MakoModel.Inherit.LemmasMemo
import MakoModel.Inherit.LemmasOnce
import MakoModel.Inherit.LemmasCount
import MakoModel.Inherit.Examples
import MakoModel.Inherit.NsAttrsLink
/-!
# C06 – inheritance chains dispatch self/next/parent correctly; blocks render once

All statements are about the model `MakoModel.Inherit` (runtime.py `_populate_self_namespace`, `_inherit_from`,
`TemplateNamespace.__getattr__`, `_NSAttr`; codegen.py `visitBlockTag`, `_Identifiers`) and hold for chains of
any length with any declare/override pattern.  `wf c` says that every template of `c` but the last inherits from
the next one (by a literal or by an expression) and the last one does not inherit (no tag, or an expression
evaluating to `None`).

Theorems, by section: chain construction (`chain_built`, `render_starts_at_base`); member dispatch
(`refs_dispatch`, `member_dispatch_partial`, `attr_dispatch`, `nsattr_walks_at_call_time`, `attr_read_during_build`,
`attr_read_after_build`, `member_dispatch_counterexample`, `getattr_memo_sound`); the whole render
(`render_follows_rules_partial`); named blocks (`named_block_position_partial`, `anonymous_block_in_place`,
`buffered_block_renders_in_place`, `buffered_block_regression`, `named_block_once_partial`,
`named_block_once_count_partial`, `named_block_counterexample`); `<%include>`
(`include_starts_from_clean_context_obligation`, `include_starts_from_clean_context`); arguments
(`body_args_reach_page_signature`, `member_call_binds_partial`, `bind_delivers`, `bind_rejects`); block checks
(`block_checks_partial`, `block_checks_replaced_def`, `block_checks_counterexample_anonymous`).
`nsattr_walks_at_call_time` and `include_starts_from_clean_context_obligation` are obligations on facts regenerated
from mako/runtime.py (tools/regen_nsattrs.py); `buffered_block_regression` and `block_checks_replaced_def` are
regression theorems of repaired defects.

Recorded defects (known_findings.json) and how they show here:

* F-C06-1: members named like an attribute of mako's `Namespace` objects (`Generated.NsAttrs.nsAttrs`: name, uri,
  module, template, cache, filename, attr, inherits, callables, context, get_namespace, …) are not reachable
  through `self/next/parent/local` and, as blocks, never render in a template that has a parent.  The guard
  "the name is not such an attribute" (`x ∉ nsAttrs`, resp. `∀ x ∈ usedNames c, x ∉ nsAttrs`) is carried by
  `member_dispatch_partial`, `member_call_binds_partial`, `render_follows_rules_partial`,
  `named_block_position_partial`, `named_block_once_partial` and `named_block_once_count_partial`;
  `member_dispatch_counterexample` and `named_block_counterexample` are the witnesses.  (The same table, hand-written
  in the C07 model, is tied to the regenerated one in `Inherit/NsAttrsLink.lean`.)
* F-C06-2: two anonymous blocks on one source line are rejected as duplicates
  (`block_checks_partial` guard `(allAnonLinesL l).Nodup`; `block_checks_counterexample_anonymous`).

OPEN (full-strength statements, false for the code as it is):
```
theorem member_dispatch : … (no hypothesis `x ∉ nsAttrs`) …
theorem render_follows_rules (c) (hwf : wf c = true) (hc : compiles c = true) : render c fuel data = ruleRender c fuel data
theorem block_checks (l) : check l = [] ↔ (allBlocksL l).Nodup ∧ misplacedL l = [] ∧ ∀ x ∈ topDefNames l, x ∉ allBlocksL l
```
-/
namespace MakoModel.C06
open MakoModel.Inherit
open MakoModel.Generated.NsAttrs (nsAttrs)

/-! ## chain construction -/

/-- **chain_built.**  After the inherit phase of a render of a well-formed chain `c = [T₀ … T_m]` the heap holds
exactly one namespace and one context per template: namespace `i` belongs to template `i`, owns context `i` and
its `inherits` link is namespace `i+1` (none at the base); in context `i`, `self` is namespace 0 (the most
derived) at every level, `local` is `i`, `parent` is `i+1` (absent at the base), `next` is `i-1` (absent at `T₀`). -/
theorem chain_built (c : List Level) (hwf : wf c = true) (hc : compiles c = true) :
    ∃ h callable, populateSelf c = .ok (h, callable) ∧
      h.nss.length = c.length ∧ h.ctxs.length = c.length ∧
      (∀ i, i < c.length →
        h.nss[i]? = some { tmpl := i, ctx := i, inherits := if i + 1 < c.length then some (i + 1) else none }) ∧
      (∀ i, i < c.length →
        h.ctxs[i]? = some { self := some 0, loc := some i,
                            next := if i = 0 then none else some (i - 1),
                            parent := if i + 1 < c.length then some (i + 1) else none }) := by
  refine ⟨builtHeap c.length, _, populateSelf_built c hwf hc, builtHeap_nss_length _, builtHeap_ctxs_length _, ?_, ?_⟩
  · intro i hi; rw [builtHeap_nss_get]; simp [hi, builtNS]
  · intro i hi; rw [builtHeap_ctxs_get]; simp [hi, builtCtx]

example : wf ex3 = true ∧ compiles ex3 = true := by decide

/-- **render_starts_at_base.**  The callable `_render_context` executes is the body of the base-most template
`T_m`, with `T_m`'s context, and it receives the render arguments through `T_m`'s `<%page>` signature -
for literal and expression-valued `inherit` alike (`wf` allows both). -/
theorem render_starts_at_base (c : List Level) (hwf : wf c = true) (hc : compiles c = true)
    (base : Level) (hb : c[c.length - 1]? = some base) (fuel : Nat) (data : List (Name × Val)) :
    (∃ h, populateSelf c = .ok (h, (c.length - 1, c.length - 1)) ∧
      render c fuel data =
        match bind base.sig true [] data with
        | none => .error .typeError
        | some (b, e) =>
          exec c (heapDispatch c h) fuel
            { tmpl := c.length - 1, ctx := c.length - 1, bound := b, pageargs := some e } base.nodes) := by
  refine ⟨builtHeap c.length, populateSelf_built c hwf hc, ?_⟩
  rw [render_built c hwf hc]
  have : base.member bodyName = some (MKind.body, base.sig, base.nodes) := by simp [Level.member]
  simp only [invoke, hb, Option.bind_some, this, finishCall_eq]
  rfl

example : compiles ex3 = true ∧ (ex3[ex3.length - 1]?).isSome = true := by decide

/-! ## member dispatch -/

/-- the namespace each of the four names is bound to in the context of level `i` -/
theorem refs_dispatch (c : List Level) (hwf : wf c = true) (hc : compiles c = true) (h : Heap) (callable : Nat × Nat)
    (hb : populateSelf c = .ok (h, callable)) (i : Nat) (hi : i < c.length) :
    (heapDispatch c h).ref i .self = some 0 ∧
    (heapDispatch c h).ref i .loc = some i ∧
    (heapDispatch c h).ref i .parent = (if i + 1 < c.length then some (i + 1) else none) ∧
    (heapDispatch c h).ref i .next = (if i = 0 then none else some (i - 1)) := by
  rw [populateSelf_built c hwf hc] at hb
  simp only [Except.ok.injEq, Prod.mk.injEq] at hb
  rw [← hb.1, heapDispatch_built]
  simp [specDispatch, ruleDispatch, hi]

example : ∃ h cb, populateSelf ex3 = .ok (h, cb) := ⟨_, _, populateSelf_built ex3 (by decide) (by decide)⟩

/-- **member_dispatch** (partial: the name is not an attribute of mako's Namespace objects).
Attribute access `ns_j.x` on the namespace of level `j` returns the definition of `x` (def, block or body) of the
least level `i ≥ j` that declares it, bound to *that* level's context, and raises AttributeError when no level
from `j` to the base declares it.  With `refs_dispatch`: `self.x` is the most derived definition (`j = 0`),
`local.x` starts at the template itself, `parent.x` at `i+1`, `next.x` at `i-1`. -/
theorem member_dispatch_partial (c : List Level) (hwf : wf c = true) (hc : compiles c = true) (h : Heap) (callable : Nat × Nat)
    (hb : populateSelf c = .ok (h, callable)) (j : Nat) (x : Name) (hx : x ∉ nsAttrs) :
    (∀ i, j ≤ i → i < c.length → hasDef c i x = true → (∀ k, j ≤ k → k < i → hasDef c k x = false) →
        getattr c h j x = .member i i) ∧
    ((∀ i, j ≤ i → i < c.length → hasDef c i x = false) → getattr c h j x = .missing) := by
  rw [populateSelf_built c hwf hc] at hb
  simp only [Except.ok.injEq, Prod.mk.injEq] at hb
  have hd : getattr c h j x = (specDispatch c).getattr j x := by
    rw [← hb.1, ← heapDispatch_built]; rfl
  simp only [hd, specDispatch, ruleDispatch, hx, if_false, firstFrom]
  constructor
  · intro i h1 h2 h3 h4
    rw [firstIdx_eq_some h1 (by omega) h3 h4]
  · intro h1
    rw [firstIdx_eq_none (fun m hm1 hm2 => h1 m hm1 (by omega))]

example : ['b'] ∉ nsAttrs ∧ hasDef ex3 2 ['b'] = true ∧ hasDef ex3 1 ['b'] = false := by decide

/-- `.attr`: `ns_j.attr.x` is the module attribute of the least level `i ≥ j` that has one (no guard needed:
`_NSAttr` is a separate object) -/
theorem attr_dispatch (c : List Level) (hwf : wf c = true) (hc : compiles c = true) (h : Heap) (callable : Nat × Nat)
    (hb : populateSelf c = .ok (h, callable)) (j : Nat) (x : Name) :
    (∀ i v, j ≤ i → i < c.length → attrAt c i x = some v → (∀ k, j ≤ k → k < i → attrAt c k x = none) →
        (heapDispatch c h).attr j x = some v) ∧
    ((∀ i, j ≤ i → i < c.length → attrAt c i x = none) → (heapDispatch c h).attr j x = none) := by
  rw [populateSelf_built c hwf hc] at hb
  simp only [Except.ok.injEq, Prod.mk.injEq] at hb
  rw [← hb.1, heapDispatch_built]
  simp only [specDispatch, ruleDispatch, firstAttr]
  constructor
  · intro i v h1 h2 h3 h4
    rw [firstIdx_eq_some (p := fun i => (attrAt c i x).isSome) h1 (by omega) (by simp [h3])
      (fun m a b => by simp [h4 m a b])]
    exact h3
  · intro h1
    rw [firstIdx_eq_none (p := fun i => (attrAt c i x).isSome) (fun m hm1 hm2 => by simp [h1 m hm1 (by omega)])]

example : attrAt ex3 1 ['a'] = some 7 ∧ attrAt ex3 0 ['a'] = none := by decide

/-- obligation on the regenerated fact (tools/regen_nsattrs.py): `_NSAttr` keeps a reference to its namespace and
`_NSAttr.__getattr__` walks `.inherits` when it is called, testing `hasattr(ns.module, key)` - exactly what
`NSAttr.read`/`nsattrF` transcribe.  A copy of the chain taken at construction, or another test than `hasattr`,
makes this fail. -/
theorem nsattr_walks_at_call_time : Generated.NsAttrs.nsAttrWalksAtCallTime = true := by decide

/-- **attribute reads follow the chain as it is when they are made** (a history of "attach a parent; read" steps).
While the inherit phase runs, the heap after `k` templates are attached is `builtHeap k` and attaching the next
one gives `builtHeap (k+1)`; a read `ns_j.attr.x` made at that time - e.g. by the expression of a dynamic
`<%inherit>` of a middle template - through an `_NSAttr` object created at any earlier or the same time (the
object is only the reference `j`) answers with the least level `i`, `j ≤ i < k`, having the attribute. -/
theorem attr_read_during_build (c : List Level) (k : Nat) (hk : 0 < k) (j : Nat) (x : Name) :
    linkStep k (builtHeap k) (k - 1) = .ok (builtHeap (k + 1), k) ∧
    (nsAttrObj j).read c (builtHeap k) x = firstAttrUpTo c k j x := by
  refine ⟨linkStep_built k hk, ?_⟩
  simp only [NSAttr.read, nsAttrObj, builtHeap_nss_length]
  exact nsattrF_prefix c k x k j (by omega)

example : firstAttrUpTo ex3 1 0 ['a'] = none ∧ firstAttrUpTo ex3 2 0 ['a'] = some 7 := by decide

/-- ... and once the chain is complete every read sees the whole chain: whichever `_NSAttr` object is used
(created before, during or after the inherit phase - `Namespace.attr` is memoized, but the object holds no copy
of the chain) and whatever was read before (a read returns a value and changes nothing), `o.read` is the
attribute of the least level from `o.parent` to the base that has one. -/
theorem attr_read_after_build (c : List Level) (hwf : wf c = true) (hc : compiles c = true) (h : Heap)
    (callable : Nat × Nat) (hb : populateSelf c = .ok (h, callable)) (o : NSAttr) (x : Name) :
    o.read c h x = firstAttr c o.parent x := by
  rw [populateSelf_built c hwf hc] at hb
  simp only [Except.ok.injEq, Prod.mk.injEq] at hb
  rw [← hb.1]
  simp only [NSAttr.read, builtHeap_nss_length]
  exact nsattrF_built c x c.length o.parent (by omega)

example : firstAttr ex3 0 ['a'] = some 7 := by decide

/-- the defect: a def named `uri` is declared by the only template of the chain, yet `self.uri` is not it -/
theorem member_dispatch_counterexample :
    let c : List Level := [{ nodes := [.defn ['u', 'r', 'i'] [] [.text 1]] }]
    hasDef c 0 ['u', 'r', 'i'] = true ∧
    (∀ h cb, populateSelf c = .ok (h, cb) → getattr c h 0 ['u', 'r', 'i'] ≠ .member 0 0) := by
  refine ⟨by decide, ?_⟩
  intro h cb hb
  have : populateSelf [({ nodes := [.defn ['u', 'r', 'i'] [] [.text 1]] } : Level)] = .ok (heap0, (0, 0)) := rfl
  rw [this] at hb
  simp only [Except.ok.injEq, Prod.mk.injEq] at hb
  rw [← hb.1]
  decide

/-- `setattr` memoisation is idempotent caching: on the heap the inherit phase builds, with instance
dictionaries that hold only what earlier look-ups stored (`MemoOK`), `__getattr__` returns what the memo-free
walk returns, changes nothing but the dictionaries (`eraseMemo` forgets them), and leaves them in that state -/
theorem getattr_memo_sound (c : List Level) (h : Heap) (he : eraseMemo h = builtHeap c.length)
    (hm : MemoOK c h) (j : Nat) (x : Name) :
    (getattrMemo c h j x).1 = getattr c (builtHeap c.length) j x ∧
    eraseMemo (getattrMemo c h j x).2 = builtHeap c.length ∧
    MemoOK c (getattrMemo c h j x).2 :=
  getattrMemo_sound c h he hm j x

example : eraseMemo (builtHeap ex3.length) = builtHeap ex3.length ∧ MemoOK ex3 (builtHeap ex3.length) :=
  ⟨by decide, memoOK_of_empty ex3 _ (by decide)⟩

/-! ## the whole render follows the rules -/

/-- **render_follows_rules** (partial: no member name used in the chain is an attribute of mako's Namespace
objects).  A render of a well-formed chain that compiles is the stack-free, heap-free execution `ruleRender`,
in which `self/next/parent/local`, member look-up, `.attr` and the block guard are the index arithmetic of the
property text (`ruleDispatch`). -/
theorem render_follows_rules_partial (c : List Level) (hwf : wf c = true) (hc : compiles c = true)
    (hn : ∀ x ∈ usedNames c, x ∉ nsAttrs) (fuel : Nat) (data : List (Name × Val)) :
    render c fuel data = ruleRender c fuel data := by
  rw [render_built c hwf hc, ruleRender, heapDispatch_built]
  apply invoke_congr
  intro env kids hk
  exact exec_congr c (specDispatch c) (ruleDispatch c) rfl rfl rfl
    (fun ns x hx => by simp [specDispatch, hn x hx]) fuel env kids hk

example : compiles ex3 = true ∧ ∀ x ∈ usedNames ex3, x ∉ nsAttrs := by decide

/-! ## named blocks -/

/-- **named_block_once**, local form (partial: the block's name is not an attribute of mako's Namespace objects).
When the code of template `i` reaches the position of its named block `b`: if some template further toward the
base declares `b`, nothing is written here; otherwise the most-derived definition of `b` in the chain (level
`l`, the least one declaring `b`) runs once, in `l`'s own context, with the page arguments in scope, and its
output is written here.  This holds wherever the position is (body, inside another block, inside an anonymous
block) and whatever the declare/override pattern is. -/
theorem named_block_position_partial (c : List Level) (hwf : wf c = true) (hc : compiles c = true) (h : Heap) (callable : Nat × Nat)
    (hb : populateSelf c = .ok (h, callable)) (i : Nat) (hi : i < c.length) (b : Name) (hx : b ∉ nsAttrs)
    (run : Env → List Node → Res) (env : Env) (henv : env.ctx = i) (ln : Nat) (kids : List Node) :
    ((∃ k, i < k ∧ k < c.length ∧ hasDef c k b = true) →
        step c (heapDispatch c h) run env (.block (some b) ln kids) = .ok []) ∧
    ((¬ ∃ k, i < k ∧ k < c.length ∧ hasDef c k b = true) →
        step c (heapDispatch c h) run env (.block (some b) ln kids) =
          match firstFrom c 0 b with
          | none => .error .attributeError
          | some l => invoke c run (.member l l) b [] (env.pageargs.getD [])) := by
  rw [populateSelf_built c hwf hc] at hb
  simp only [Except.ok.injEq, Prod.mk.injEq] at hb
  rw [← hb.1, heapDispatch_built]
  simp only [step, specDispatch, ruleDispatch, henv, hi, if_true, hx, if_false]
  by_cases hp : i + 1 < c.length
  · simp only [hp, if_true]
    cases hf : firstFrom c (i + 1) b with
    | some k =>
      have ⟨a1, a2, a3, _⟩ := firstIdx_some hf
      have hex : ∃ k, i < k ∧ k < c.length ∧ hasDef c k b = true := ⟨k, by omega, by omega, a3⟩
      exact ⟨fun _ => by simp, fun hn => absurd hex hn⟩
    | none =>
      have hnex : ¬ ∃ k, i < k ∧ k < c.length ∧ hasDef c k b = true := by
        intro ⟨k, k1, k2, k3⟩
        have := firstIdx_none hf k (by omega) (by omega)
        simp [k3] at this
      refine ⟨fun hex => absurd hex hnex, fun _ => ?_⟩
      cases firstFrom c 0 b <;> simp [invoke]
  · have hnex : ¬ ∃ k, i < k ∧ k < c.length ∧ hasDef c k b = true := by
      intro ⟨k, k1, k2, _⟩; omega
    refine ⟨fun hex => absurd hex hnex, fun _ => ?_⟩
    simp only [hp, if_false]
    cases firstFrom c 0 b <;> simp [invoke]

example : ['b'] ∉ nsAttrs ∧ firstFrom ex3 0 ['b'] = some 0 ∧ (∃ k, 0 < k ∧ k < ex3.length ∧ hasDef ex3 k ['b'] = true) := by
  refine ⟨by decide, by decide, 2, by decide, by decide, by decide⟩

/-- anonymous blocks render in place: exactly their content, in the same environment -/
theorem anonymous_block_in_place (c : List Level) (D : Dispatch) (run : Env → List Node → Res) (env : Env)
    (ln : Nat) (kids : List Node) :
    step c D run env (.block none ln kids) = run env kids := by
  simp only [step, finishCall_eq]

/-- **buffered_block_renders_in_place** (F-C06-4, repaired by 248d875).  A block written with `buffered="True"`
collects its content and *returns* it, any other block writes it and returns `''` (`callResult`); the statement
at a block's position and `${r.b()}` write what the call wrote and then what it returned (`writeCall`).  Hence:
the output of the statement is exactly the block's content whatever the flag; an anonymous block renders in
place whatever its flag; and for a named block the flag that matters is the one of the definition that *runs*
(level `t`, the most-derived one found by dispatch) - an unbuffered base block overridden by a buffered one, or
the converse, still yields the override's content once at the position. -/
theorem buffered_block_renders_in_place (c : List Level) (D : Dispatch) (run : Env → List Node → Res) (env : Env) :
    (∀ buffered content, writeCall (callResult buffered content) = content) ∧
    (∀ ln kids, step c D run env (.block none ln kids) = run env kids) ∧
    (∀ t cx lv x kind params kids pos kw, c[t]? = some lv → lv.member x = some (kind, params, kids) →
      invoke c run (.member t cx) x pos kw =
        match bind params (kind != .defn) pos kw with
        | none => .error .typeError
        | some (b, e) =>
          run { tmpl := t, ctx := cx, bound := b, pageargs := if kind = .defn then none else some e } kids) := by
  refine ⟨writeCall_callResult, fun ln kids => by simp only [step, finishCall_eq], ?_⟩
  intro t cx lv x kind params kids pos kw ht hm
  simp only [invoke, ht, Option.bind_some, hm, finishCall_eq]
  rfl

/-- the override case evaluated: the base declares `n` unbuffered, the derived template overrides it with
`buffered="True"` (and conversely); an anonymous buffered block between two texts -/
example :
    let base : Level := { nodes := [.text 1, .block (some ['n']) 1 [.text 2], .text 3, .call .next bodyName [] []] }
    let child : Level := { nodes := [.block (some ['n']) 1 [.text 4]], inherit := .static, buffered := [['n']] }
    render [child, base] 20 [] = .ok [.text 1, .text 4, .text 3] ∧
    render [{ child with buffered := [] }, { base with buffered := [['n']] }] 20 [] = .ok [.text 1, .text 4, .text 3] ∧
    render [{ nodes := [.text 1, .block none 1 [.text 2], .text 3], bufferedAnon := [1] }] 20 [] =
      .ok [.text 1, .text 2, .text 3] := by decide

/-- regression: what the bare call written before 248d875 left in the output - what the block wrote, without
what it returned - is nothing for a buffered block -/
theorem buffered_block_regression (content : List Out) :
    (callResult true content).1 = [] ∧ (callResult false content).1 = content := by
  simp [callResult]

/-- **named_block_once**, global form (partial: names are not attributes of mako's Namespace objects).
For a chain of any length in which every body consists of texts, defs, named blocks holding texts and (from `T₁`
on) `next.body()` calls (`PlainChain`), with blocks declared and overridden at arbitrary levels: the output of the
render is exactly `expandBody` - every body in place of the `next.body()` that called it, and every named block
replaced by the texts of its most-derived definition at its position in the base-most template declaring it,
and by nothing at its positions in the other templates (`expandNodes`: one copy per execution of that one
position, since block names are unique within a template). -/
theorem named_block_once_partial (c : List Level) (hwf : wf c = true) (hc : compiles c = true)
    (hp : PlainChain c) (hn : ∀ x ∈ usedNames c, x ∉ nsAttrs) (fuel : Nat) (out : List Out)
    (h : render c fuel [] = .ok out) :
    out = expandBody c (c.length - 1) := by
  rw [render_follows_rules_partial c hwf hc hn] at h
  exact ruleRender_plain c (by cases c <;> simp_all [wf]) hp fuel out h

example : wf exPlain = true ∧ compiles exPlain = true ∧ (∀ x ∈ usedNames exPlain, x ∉ nsAttrs) ∧
    render exPlain 50 [] = .ok (expandBody exPlain 2) ∧
    expandBody exPlain 2 = [.text 7, .text 2, .text 4, .text 3, .text 1, .text 6, .text 9] := by decide
example : PlainChain exPlain := plainChain_of_check exPlain (by decide)

/-- **named_block_once**, as a count (partial: names are not attributes of mako's Namespace objects).
In a plain chain (`named_block_once_partial`; blocks may carry `buffered="True"` at any level) of any length whose bodies, from `T₁` on, call `next.body()` exactly
once and whose block names are unique within each template: let `b` be a block name, `kb` the base-most template
declaring it, and `k` a text that occurs once in the most-derived definition of `b` and in no body and no
most-derived content of another block.  Then `k` occurs in the render output exactly once - whatever the
number of templates declaring or overriding `b`. -/
theorem named_block_once_count_partial (c : List Level) (hwf : wf c = true) (hc : compiles c = true)
    (hp : PlainChain c) (hn : ∀ x ∈ usedNames c, x ∉ nsAttrs)
    (hnodup : ∀ l ∈ c, (mainBlocksL l.nodes).Nodup)
    (hnext : ∀ t, 0 < t → t < c.length → nextCalls (nodesAt c t) = 1)
    (k : Nat) (b : Name) (hb0 : b ≠ bodyName) (hnd : noDefNamed c b = true)
    (hbody : ∀ l ∈ c, cnt k (textsOut l.nodes) = 0)
    (hother : ∀ l ∈ c, ∀ b' ∈ mainBlocksL l.nodes, b' ≠ b → cnt k (contentOf c b') = 0)
    (hb : cnt k (contentOf c b) = 1)
    (kb : Nat) (hkb : kb < c.length) (hdecl : hasDef c kb b = true)
    (hlast : ∀ t, kb < t → t < c.length → hasDef c t b = false)
    (fuel : Nat) (out : List Out) (h : render c fuel [] = .ok out) :
    out.count (.text k) = 1 := by
  have hout := named_block_once_partial c hwf hc hp hn fuel out h
  have hbody' : ∀ t, cnt k (textsOut (nodesAt c t)) = 0 := by
    intro t
    cases hcl : c[t]? with
    | none => simp [nodesAt, hcl, textsOut, cnt_nil]
    | some lv =>
      simp only [nodesAt, hcl, Option.map_some, Option.getD_some]
      exact hbody lv (List.mem_of_getElem? hcl)
  have hlen : c.length - 1 < c.length := by omega
  have := cnt_expandBody c hp k b hnodup hnext hb0 hnd hbody' hother hb kb hkb hdecl hlast (c.length - 1) hlen
  rw [hout]
  have hle : kb ≤ c.length - 1 := by omega
  simpa [cnt, hle] using this

example :
    (∀ l ∈ exPlain, (mainBlocksL l.nodes).Nodup) ∧
    (∀ t, 0 < t → t < exPlain.length → nextCalls (nodesAt exPlain t) = 1) ∧
    noDefNamed exPlain ['b'] = true ∧ (∀ l ∈ exPlain, cnt 2 (textsOut l.nodes) = 0) ∧
    (∀ l ∈ exPlain, ∀ b' ∈ mainBlocksL l.nodes, b' ≠ ['b'] → cnt 2 (contentOf exPlain b') = 0) ∧
    cnt 2 (contentOf exPlain ['b']) = 1 ∧ hasDef exPlain 2 ['b'] = true := by
  refine ⟨by decide, ?_, by decide, by decide, by decide, by decide, by decide⟩
  intro t h0 ht
  have : t = 1 ∨ t = 2 := by simp [exPlain] at ht; omega
  rcases this with e | e <;> subst e <;> decide

/-- the defect: the only declaration of block `name` is in `T₀`, whose body `T₁` calls; by the rules the block
renders at its position, the code writes nothing there -/
theorem named_block_counterexample :
    let c : List Level :=
      [ { nodes := [.text 1, .block (some ['n', 'a', 'm', 'e']) 1 [.text 2]], inherit := .static },
        { nodes := [.call .next bodyName [] []] } ]
    wf c = true ∧ compiles c = true ∧
    ruleRender c 20 [] = .ok [.text 1, .text 2] ∧ render c 20 [] = .ok [.text 1] := by decide

/-! ## `<%include>` -/

/-- obligation on the regenerated facts (tools/regen_nsattrs.py) behind `renderIn`: the context an included
template starts from has lost the includer's `parent` and `next` (`Context._clean_inheritance_tokens` pops them),
`_include_file` really hands that context to `_populate_self_namespace`, and the latter sets `self` and `local`
afresh - so none of the includer's four inheritance names reaches the included template. -/
theorem include_starts_from_clean_context_obligation :
    (['p', 'a', 'r', 'e', 'n', 't'] ∈ Generated.NsAttrs.cleanPops ∧
     ['n', 'e', 'x', 't'] ∈ Generated.NsAttrs.cleanPops) ∧
    Generated.NsAttrs.includeUsesCleanContext = true ∧
    Generated.NsAttrs.populateSetsSelfLocal = true := by decide

/-- **include_starts_from_clean_context.**  What `<%include>` writes does not depend on the code that includes
it (its template, context, page arguments): the statement is `D.inc k`; and for a library of chains `D.inc k` is
`renderIn` of entry `k`, which - for a well-formed entry whose templates compile - is the body of *that* entry's
base-most template run with *that* entry's own `self/next/parent/local` (`specDispatch ck`, index arithmetic over
`ck` alone: `parent` absent in its base-most template, `next` absent in its most derived one, `self` its most
derived namespace), with no arguments. -/
theorem include_starts_from_clean_context (lib : List (List Level)) (fuel d k : Nat) (ck : List Level)
    (hk : lib[k]? = some ck) (hwf : wf ck = true) (hc : compiles ck = true)
    (c : List Level) (D : Dispatch) (run : Env → List Node → Res) (env₁ env₂ : Env) :
    step c D run env₁ (.incl k) = step c D run env₂ (.incl k) ∧
    step c D run env₁ (.incl k) = D.inc k ∧
    renderLib lib fuel (d + 1) k =
      invoke ck (exec ck { specDispatch ck with inc := renderLib lib fuel d } fuel)
        (.member (ck.length - 1) (ck.length - 1)) bodyName [] [] := by
  refine ⟨rfl, rfl, ?_⟩
  simp only [renderLib, hk]
  have hp := populateSelf_built ck hwf hc
  cases ck with
  | nil => simp [wf] at hwf
  | cons t r =>
    simp only [compiles, List.all_cons, Bool.and_eq_true] at hc
    simp only [renderIn, hc.1, Bool.not_true, Bool.false_eq_true, if_false, hp, heapDispatch_built]

example :
    let inner : List Level := [{ nodes := [.text 5, .block (some ['b']) 1 [.text 6]] }]
    let outer : List Level :=
      [ { nodes := [.text 1, .incl 1, .block (some ['b']) 1 [.text 2]], inherit := .static },
        { nodes := [.block (some ['b']) 1 [.text 3], .call .next bodyName [] []] } ]
    -- the included template's block `b` renders although the includer's parent declares `b`
    renderTop [outer, inner] 3 30 [] = .ok [.text 2, .text 1, .text 5, .text 6] := by decide

/-! ## arguments of body() -/

/-- **body_args_reach_page_signature.**  `r.body(*pos, **kw)` executed by template `i`, where `r` is bound to
namespace `j` (`refs_dispatch`: `next` ↦ `i-1`, `self` ↦ 0, …): the body that runs is `T_j`'s own, in `T_j`'s
context, and Python binds `pos`/`kw` against `T_j`'s `<%page args>` signature plus `**pageargs`: a TypeError when
the binding fails, otherwise the body sees `bound`/`pageargs` as delivered by `bind` (see `bind_delivers`). -/
theorem body_args_reach_page_signature (c : List Level) (hwf : wf c = true) (hc : compiles c = true) (h : Heap) (callable : Nat × Nat)
    (hb : populateSelf c = .ok (h, callable)) (r : Ref) (j : Nat) (target : Level) (hj : c[j]? = some target)
    (run : Env → List Node → Res) (env : Env) (href : (heapDispatch c h).ref env.ctx r = some j)
    (pos : List Val) (kw : List (Name × Val)) :
    step c (heapDispatch c h) run env (.call r bodyName pos kw) =
      match bind target.sig true pos kw with
      | none => .error .typeError
      | some (b, e) => run { tmpl := j, ctx := j, bound := b, pageargs := some e } target.nodes := by
  have hjl : j < c.length := by
    rcases Nat.lt_or_ge j c.length with hlt | hge
    · exact hlt
    · rw [List.getElem?_eq_none hge] at hj; simp at hj
  simp only [step, href]
  rw [populateSelf_built c hwf hc] at hb
  simp only [Except.ok.injEq, Prod.mk.injEq] at hb
  rw [← hb.1, heapDispatch_built]
  have hnb : bodyName ∉ nsAttrs := by decide
  have hd : hasDef c j bodyName = true := by simp [hasDef, hj, Level.declares, Level.member]
  have hf : firstFrom c j bodyName = some j :=
    firstIdx_eq_some (Nat.le_refl _) (by omega) hd (fun m a b => by omega)
  have hm : target.member bodyName = some (MKind.body, target.sig, target.nodes) := by simp [Level.member]
  simp only [specDispatch, ruleDispatch, hnb, if_false, hf, invoke, hj, Option.bind_some, hm, finishCall_eq]
  rfl

example : (heapDispatch ex3 (builtHeap ex3.length)).ref 1 .next = some 0 ∧ (ex3[0]?).isSome = true := by
  rw [heapDispatch_built ex3]; decide

/-- **member_dispatch with arguments** (partial: the name is not an attribute of mako's Namespace objects).
`r.x(*pos, **kw)` executed by code whose context binds `r` to namespace `j`: the member that runs is the one of
the least level `i ≥ j` declaring `x` (def, block or body), in level `i`'s context, and Python binds `pos`/`kw`
against that member's own parameters - a def takes exactly its declared parameters (a TypeError otherwise), a
block or body also takes `**pageargs`; AttributeError when no level from `j` to the base declares `x`. -/
theorem member_call_binds_partial (c : List Level) (hwf : wf c = true) (hc : compiles c = true) (h : Heap)
    (callable : Nat × Nat) (hb : populateSelf c = .ok (h, callable)) (r : Ref) (j : Nat) (x : Name)
    (hx : x ∉ nsAttrs) (run : Env → List Node → Res) (env : Env)
    (href : (heapDispatch c h).ref env.ctx r = some j) (pos : List Val) (kw : List (Name × Val)) :
    (∀ i lv kind params kids, j ≤ i → c[i]? = some lv → lv.member x = some (kind, params, kids) →
        (∀ m, j ≤ m → m < i → hasDef c m x = false) →
        step c (heapDispatch c h) run env (.call r x pos kw) =
          match bind params (kind != .defn) pos kw with
          | none => .error .typeError
          | some (b, e) =>
            run { tmpl := i, ctx := i, bound := b, pageargs := if kind = .defn then none else some e } kids) ∧
    ((∀ i, j ≤ i → i < c.length → hasDef c i x = false) →
        step c (heapDispatch c h) run env (.call r x pos kw) = .error .attributeError) := by
  simp only [step, href]
  rw [populateSelf_built c hwf hc] at hb
  simp only [Except.ok.injEq, Prod.mk.injEq] at hb
  rw [← hb.1, heapDispatch_built]
  simp only [specDispatch, ruleDispatch, hx, if_false, firstFrom]
  constructor
  · intro i lv kind params kids h1 hi hm h4
    have hil : i < c.length := by
      rcases Nat.lt_or_ge i c.length with hlt | hge
      · exact hlt
      · rw [List.getElem?_eq_none hge] at hi; simp at hi
    have hd : hasDef c i x = true := by simp [hasDef, hi, Level.declares, hm]
    rw [firstIdx_eq_some h1 (by omega) hd h4]
    simp only [invoke, hi, Option.bind_some, hm, finishCall_eq]
    rfl
  · intro h1
    rw [firstIdx_eq_none (fun m hm1 hm2 => h1 m hm1 (by omega))]
    rfl

example :
    let c : List Level :=
      [ { nodes := [.call .parent ['d'] [4] [(['q'], 5)]], inherit := .static },
        { nodes := [.defn ['d'] [(['p'], none), (['q'], some 1)] [.args], .call .next bodyName [] []] } ]
    wf c = true ∧ compiles c = true ∧ render c 20 [] = .ok [.args [(['p'], 4), (['q'], 5)] []] := by decide

/-- what the target's signature receives: every declared parameter, in order, bound to its positional argument,
else to the keyword argument of its name, else to its default; `pageargs` is the keywords that name no declared
parameter, in call order -/
theorem bind_delivers {params : List (Name × Option Val)} {pos : List Val} {kw : List (Name × Val)}
    {b e : List (Name × Val)} (h : bind params true pos kw = some (b, e)) :
    b.length = params.length ∧
    (∀ k p, params[k]? = some p → ∃ v, argFor pos kw k p = some v ∧ b[k]? = some (p.1, v)) ∧
    e = kw.filter (fun q => !(params.map (·.1)).contains q.1) :=
  have := bind_some h
  ⟨this.2.1, this.2.2.1, this.2.2.2.1⟩

/-- binding fails only for too many positional arguments, a keyword naming a parameter already filled
positionally, or a parameter left without positional argument, keyword and default -/
theorem bind_rejects {params : List (Name × Option Val)} {pos : List Val} {kw : List (Name × Val)}
    (h : bind params true pos kw = none) :
    params.length < pos.length ∨
    (∃ q ∈ kw, q.1 ∈ (params.map (·.1)).take pos.length) ∨
    (∃ k p, params[k]? = some p ∧ argFor pos kw k p = none) :=
  bind_none h

example : bind [(['p'], none), (['x'], some 9)] true [4] [(['z'], 1), (['x'], 2)]
    = some ([(['p'], 4), (['x'], 2)], [(['z'], 1)]) := by decide
example : bind [(['p'], none)] true [] [(['z'], 1)] = none := by decide

/-! ## block checks -/

/-- **block_checks** (partial: no two anonymous blocks share a source line).
The compiler raises a CompileException from its block checks (`check l ≠ []`) iff a block name occurs twice in
the template, or a named block lies inside a def or a `<%call>` (at any depth, also below anonymous blocks,
nested defs, or defs that a later def of the same name replaces), or a template-level def has the name of a
block. -/
theorem block_checks_partial (l : List Node) (ha : (allAnonLinesL l).Nodup) :
    check l ≠ [] ↔
      ¬ (allBlocksL l).Nodup ∨ misplacedL l ≠ [] ∨ ∃ x ∈ topDefNames l, x ∈ allBlocksL l := by
  rw [Ne, check_nil_iff l ha]
  constructor
  · intro h
    by_cases h1 : (allBlocksL l).Nodup
    · by_cases h2 : misplacedL l = []
      · right; right
        apply Classical.byContradiction
        intro h3
        exact h ⟨h1, h2, fun x hx hx' => h3 ⟨x, hx, hx'⟩⟩
      · right; left; exact h2
    · left; exact h1
  · intro h ⟨h1, h2, h3⟩
    rcases h with h | h | ⟨x, hx, hx'⟩
    · exact h h1
    · exact h h2
    · exact h3 x hx hx'

example :
    let l : List Node := [.defn ['d'] [] [.block none 1 [.block (some ['b']) 2 []]], .block (some ['b']) 3 []]
    (allAnonLinesL l).Nodup ∧ misplacedL l ≠ [] ∧ ¬ (allBlocksL l).Nodup := by decide

/-- regression (F-C06-3, repaired by 14dadc4): a named block inside a def that a later def of the same name
replaces is rejected like any other named block inside a def -/
theorem block_checks_replaced_def :
    let l : List Node := [.defn ['d'] [] [.block (some ['b']) 1 [.text 1]], .defn ['d'] [] [.text 2]]
    check l = [Fault.inDef ['b']] ∧ misplacedL l = [['b']] := by decide

/-- the defect: two anonymous blocks on one source line are rejected although no block name is duplicated and
no named block is misplaced ("anonymous blocks render in place" cannot hold: the template does not compile) -/
theorem block_checks_counterexample_anonymous :
    let l : List Node := [.block none 1 [.text 1], .block none 1 [.text 2]]
    check l ≠ [] ∧ (allBlocksL l).Nodup ∧ misplacedL l = [] ∧ ∀ x ∈ topDefNames l, x ∉ allBlocksL l := by decide

end MakoModel.C06
