import MakoModel.Conc.LemmasFresh
import MakoModel.Conc.LemmasLru
import MakoModel.Conc.LemmasOnce
import MakoModel.Conc.LemmasUri
import MakoModel.Conc.LemmasHold
import MakoModel.Conc.Witness
import MakoModel.Generated.Conc
/-!
# C16 – concurrent lookups and renders behave like some sequential execution

All theorems but the three regenerated-shape obligations (`memo_cells_stored_complete`,
`module_namespace_imports_through_lock`, `lru_entry_published_with_value`) are invariants of `Conc.step`, proved by induction over
`Conc.run`: they hold after ANY schedule (`List Tid`), for any number of threads and any thread programs.

OPEN: nothing.  (The two defects this check found – a stale second-chance hit and a `KeyError` from `adjust_uri` on a
bounded lookup – are repaired in /repo; `returns_fresh` and `uri_cache_reads_succeed` are proved without guard.)
Not claimed: that a single `get_template` call terminates while files keep being modified concurrently (every round
of its check-reload loop needs another stale template to have been stored meanwhile).
-/
namespace MakoModel.C16
open MakoModel.Conc MakoModel.Generated.Lookup

/-- A thread is inside `_load`'s critical section iff it is the recorded holder; hence at most one thread is
    inside; and the holder can always take its next step (it never waits for anything). -/
theorem mutex_discipline {s0 s : Sys} (h0 : Init s0) (hr : Reachable s0 s) :
    (∀ t, (s.threads t).pc.holding = true ↔ s.sh.mutex = some t) ∧
    (∀ t1 t2, (s.threads t1).pc.holding = true → (s.threads t2).pc.holding = true → t1 = t2) ∧
    (∀ t, s.sh.mutex = some t → (step s t).isSome = true) := by
  have hm := mutexInv_reachable h0 hr
  refine ⟨hm, ?_, ?_⟩
  · intro t1 t2 h1 h2
    have e1 := (hm t1).1 h1
    have e2 := (hm t2).1 h2
    rw [e1] at e2
    exact Option.some.inj e2
  · intro t ht
    have hh := (hm t).2 ht
    have := tstep_holding_some (cfg := s.cfg) (tid := t) (sh := s.sh) hh
    unfold step
    split
    · next h => rw [h] at this; simp at this
    · rfl

example : Init failSys ∧ Reachable failSys (run (failSched.take 8) failSys) ∧
    (run (failSched.take 8) failSys).sh.mutex = some 0 :=
  ⟨init_mkSys _ _ _ _ (fileFS_mtime _ _ (by decide)), ⟨_, rfl⟩, by decide⟩

/-- A thread that acquired the mutex releases it on every path, whatever the other threads do: while `h` holds the
    mutex, every step of `h` either releases it or strictly decreases `holdMeasure` (a natural number computed
    from the collection and `h`'s program counter), and no step of another thread takes the mutex away or
    increases the measure.  With `mutex_discipline` (the holder can always step) the critical section therefore
    ends after at most `holdMeasure` steps of the holder – including the failing construction
    (`C` fails → `P2` → `Rel`), the `KeyError → break → loop again` path of `LRUCache._manage_size`, and the
    second-chance hit (`H2` hit → `Rel`, measure 0; the `_check` that follows runs after the release). -/
theorem mutex_released_on_every_path {s0 s : Sys} (h0 : Init s0) (hr : Reachable s0 s) {h : Tid}
    (hm : s.sh.mutex = some h) :
    (∀ s', step s h = some s' →
      s'.sh.mutex = none ∨
      (s'.sh.mutex = some h ∧ holdMeasure s'.sh.coll (s'.threads h).pc < holdMeasure s.sh.coll (s.threads h).pc)) ∧
    (∀ t s', t ≠ h → step s t = some s' →
      s'.sh.mutex = some h ∧ holdMeasure s'.sh.coll (s'.threads h).pc ≤ holdMeasure s.sh.coll (s.threads h).pc) := by
  have hmi := mutexInv_reachable h0 hr
  have hh : (s.threads h).pc.holding = true := (hmi h).2 hm
  constructor
  · intro s' hs
    obtain ⟨sh, th, ht, rfl⟩ := step_iff.1 hs
    rcases holder_step_measure ht hh with ⟨_, hrel⟩ | hlt
    · exact Or.inl hrel
    · rcases tstep_mutex ht with ⟨a, _⟩ | ⟨a, _⟩ | ⟨_, _, c⟩ | ⟨_, _, c⟩
      · rw [hh] at a; cases a
      · rw [hh] at a; cases a
      · exact Or.inr ⟨by simp [c, hm], by simpa using hlt⟩
      · exact Or.inl c
  · intro t s' hne hs
    obtain ⟨sh, th, ht, rfl⟩ := step_iff.1 hs
    have hnh : (s.threads t).pc.holding = false := by
      cases hb : (s.threads t).pc.holding with
      | false => rfl
      | true => have := (hmi t).1 hb; rw [hm] at this; cases this; exact absurd rfl hne
    have hmes := other_step_measure ht hnh (s.threads h).pc
    refine ⟨?_, by rw [set_threads_other _ _ _ (Ne.symm hne)]; simpa using hmes⟩
    rcases tstep_mutex ht with ⟨_, _, c⟩ | ⟨_, b, _⟩ | ⟨a, _⟩ | ⟨a, _⟩
    · simp [c, hm]
    · rw [hm] at b; cases b
    · rw [hnh] at a; cases a
    · rw [hnh] at a; cases a

example : Init failSys ∧ Reachable failSys (run (failSched.take 8) failSys) ∧
    (run (failSched.take 8) failSys).sh.mutex = some 0 ∧
    ((run (failSched.take 8) failSys).threads 0).pc = .gP2 0 ∧
    (run (failSched.take 10) failSys).sh.mutex = none ∧
    ((run failSched failSys).threads 0).results = [.compileError] ∧
    ((run failSched failSys).threads 1).results = [.compileError] :=
  ⟨init_mkSys _ _ _ _ (fileFS_mtime _ _ (by decide)), ⟨_, rfl⟩, by decide, by decide, by decide, by decide,
   by decide⟩

/-- The re-check of a second-chance hit (`_load` → release → `_check` → possibly `_load` again) runs OUTSIDE the
    mutex: a thread that is about to stat, to evict or to (re-)acquire is never the holder, so the re-entry into
    `_load` cannot block on the thread's own acquisition; each re-entry is a fresh acquisition to which
    `mutex_released_on_every_path` applies again. -/
theorem recheck_outside_mutex {s0 s : Sys} (h0 : Init s0) (hr : Reachable s0 s) {t : Tid} {u : Uri}
    (hpc : (∃ tm, (s.threads t).pc = .gS u tm) ∨ (∃ tm, (s.threads t).pc = .gP u tm) ∨
      (∃ d, (s.threads t).pc = .gAcq u d)) : s.sh.mutex ≠ some t := by
  intro hm
  have hh := ((mutexInv_reachable h0 hr) t).2 hm
  rcases hpc with ⟨tm, e⟩ | ⟨tm, e⟩ | ⟨d, e⟩ <;> rw [e] at hh <;> simp at hh

example : Init f11Sys ∧ Reachable f11Sys (run (f11Sched.take 14) f11Sys) ∧
    ((run (f11Sched.take 13) f11Sys).threads 1).pc = .gRelS 0 ⟨0, 0, 0, 1, 100⟩ ∧
    ((run (f11Sched.take 14) f11Sys).threads 1).pc = .gS 0 ⟨0, 0, 0, 1, 100⟩ ∧
    (run (f11Sched.take 14) f11Sys).sh.mutex = none ∧
    ((run (f11Sched.take 16) f11Sys).threads 1).pc = .gAcq 0 0 :=
  ⟨init_mkSys _ _ _ _ (fileFS_mtime _ _ (by decide)), ⟨_, rfl⟩, by decide, by decide, by decide, by decide⟩

/-- In every reachable state in which some thread has not finished, some thread can take a step: the threads
    are never all blocked on the mutex. -/
theorem no_deadlock {s0 s : Sys} (h0 : Init s0) (hr : Reachable s0 s)
    (hu : ∃ t, ¬ (s.threads t).finished) : ∃ t, (step s t).isSome = true := by
  obtain ⟨t, ht⟩ := hu
  have hm := mutexInv_reachable h0 hr
  cases hs : tstep s.cfg t s.sh (s.threads t) with
  | some p => exact ⟨t, by unfold step; rw [hs]; cases p; rfl⟩
  | none =>
    rcases tstep_none hs with hf | ⟨u, d, _, hmx⟩
    · exact absurd hf ht
    · cases hmu : s.sh.mutex with
      | none => exact absurd hmu hmx
      | some holder => exact ⟨holder, (mutex_discipline h0 hr).2.2 holder hmu⟩

example : Init failSys ∧ Reachable failSys (run (failSched.take 9) failSys) ∧
    ¬ ((run (failSched.take 9) failSys).threads 1).finished ∧
    (step (run (failSched.take 9) failSys) 1).isSome = false :=
  ⟨init_mkSys _ _ _ _ (fileFS_mtime _ _ (by decide)), ⟨_, rfl⟩, by decide, by decide⟩

/-- Every value returned by `get_template` (and every value in the collection) is a completely constructed
    template: it is in the registry `built`, to which only a `Template(...)` call that ran to completion on a
    source that compiles adds; its id is the number of that construction and identifies it, its stamp is not
    from the future, and its content version is one the file has had. -/
theorem returns_complete {s0 s : Sys} (h0 : Init s0) (hr : Reachable s0 s) :
    (∀ tid t b f0, Res.tmpl t b f0 ∈ (s.threads tid).results → t ∈ s.sh.built) ∧
    (∀ e ∈ s.sh.coll, e.val ∈ s.sh.built) ∧
    (∀ t ∈ s.sh.built, t.id < s.sh.constructions ∧ t.stamp ≤ s.sh.clock ∧
      ∃ f, s.sh.fs t.dir t.uri = some f ∧ t.ver ≤ f.ver) ∧
    (∀ a ∈ s.sh.built, ∀ b ∈ s.sh.built, a.id = b.id → a = b) := by
  have ha := allBuilt_reachable h0 hr
  have hb := builtOk_reachable h0 hr
  refine ⟨?_, ?_, hb.1, fun a ha' b hb' e => pairwise_id_unique hb.2 ha' hb' e⟩
  · intro tid t b f0 h
    exact (ha.2 tid).2.1 _ h
  · intro e he
    exact ha.1 _ (List.mem_map.2 ⟨e, he, rfl⟩)

/-- the registry grows only by the template a construction that succeeded has just made -/
theorem built_by_construction_only {s s' : Sys} {tid : Tid} (h : step s tid = some s') :
    s'.sh.built = s.sh.built ∨
    ∃ f u d, (s.threads tid).pc = .gC u d ∧ s.sh.fs d u = some f ∧ f.good = true ∧
      s'.sh.built = s.sh.built ++ [⟨s.sh.constructions, u, d, f.ver, s.sh.clock⟩] := by
  obtain ⟨sh, th, ht, rfl⟩ := step_iff.1 h
  rcases tstep_ghost ht with ⟨_, _, hb, _⟩ | ⟨_, _, hb, _⟩ | ⟨_, _, _, _, _, hb, _⟩ | ⟨f, u, d, hp, hf, hg, hb, _⟩
  · exact Or.inl hb
  · exact Or.inl hb
  · exact Or.inl hb
  · exact Or.inr ⟨f, u, d, hp, hf, hg, hb⟩

example : Init f11Sys ∧ Reachable f11Sys (run f11Sched f11Sys) ∧
    Res.tmpl ⟨0, 0, 0, 1, 100⟩ false (some ⟨1, 98, true⟩) ∈ ((run f11Sched f11Sys).threads 0).results :=
  ⟨init_mkSys _ _ _ _ (fileFS_mtime _ _ (by decide)), ⟨_, rfl⟩, by decide⟩

example : ((run (f11Sched.take 4) f11Sys).threads 0).pc = .gC 0 0 ∧
    (step (run (f11Sched.take 4) f11Sys) 0).isSome = true ∧
    (run (f11Sched.take 5) f11Sys).sh.built = [⟨0, 0, 0, 1, 100⟩] := by decide

/-- Freshness under C14's rule, with `filesystem_checks` on, for EVERY path of `get_template` (since /repo 7ff14da a
    second-chance hit goes through `_check` after the mutex is released): the returned template is compiled from
    content no older than the file's content at the start of the call (`f`), or `f`'s mtime is not later than the
    compile stamp (the rule asks for a reload only when mtime ≥ stamp + 1). -/
theorem returns_fresh {s0 s : Sys} (h0 : Init s0) (hc : s0.cfg.checks = true) (hr : Reachable s0 s)
    {tid : Tid} {t : Tmpl} {viaH2 : Bool} {f : File}
    (h : Res.tmpl t viaH2 (some f) ∈ (s.threads tid).results) : f.ver ≤ t.ver ∨ f.mtime ≤ t.stamp :=
  (freshInv_reachable h0 hc hr).res tid _ h t viaH2 f rfl

/-- the schedule that was F11's witness: thread 1's call starts when the file is version 2 (mtime 101), is handed
    thread 0's version-1 template by the second-chance read, checks it, reloads and returns version 2 -/
example : Init f11Sys ∧ f11Sys.cfg.checks = true ∧ Reachable f11Sys (run f11Sched f11Sys) ∧
    ((run f11Sched f11Sys).threads 0).results = [Res.tmpl ⟨0, 0, 0, 1, 100⟩ false (some ⟨1, 98, true⟩)] ∧
    ((run f11Sched f11Sys).threads 1).results = [Res.tmpl ⟨1, 0, 0, 2, 101⟩ false (some ⟨2, 101, true⟩)] :=
  ⟨init_mkSys _ _ _ _ (fileFS_mtime _ _ (by decide)), rfl, ⟨_, rfl⟩, by decide, by decide⟩

/-- Concurrent first requests: ANY number of threads, each issuing any number of `get_template(u)` calls for one
    URI on an empty lookup while nothing changes on disk (the file is in directory `d0`, the first that has it, and
    compiles; a bounded collection has `collection_size ≥ 1`), under ANY schedule: at most one `Template` is ever
    constructed, every call that has returned returned that very template (id 0), and as soon as one call has
    returned the construction count is exactly one. -/
theorem first_requests_compile_once {s0 s : Sys} {u : Uri} {d0 : Dir} {f : File}
    (h0 : Init s0) (hp : ∀ t, ∀ op ∈ (s0.threads t).prog, op = .get u)
    (hd : d0 < s0.cfg.ndirs) (hfile : s0.sh.fs d0 u = some f) (hgood : f.good = true)
    (hfirst : ∀ d, d < d0 → s0.sh.fs d u = none) (hcap : ∀ n, s0.cfg.cap = some n → 1 ≤ n)
    (hr : Reachable s0 s) :
    s.sh.constructions ≤ 1 ∧
    (∀ tid r, r ∈ (s.threads tid).results → ∃ b f0, r = Res.tmpl ⟨0, u, d0, f.ver, s0.sh.clock⟩ b f0) ∧
    (∀ tid, (s.threads tid).results ≠ [] → s.sh.constructions = 1) := by
  have hx : OnceCtx s0.cfg s0.sh.fs s0.sh.clock u d0 f :=
    ⟨hd, hfile, hgood, hfirst, hcap, h0.mtime _ _ _ hfile⟩
  have hi := onceInv_reachable h0 hp hx hr
  exact ⟨hi.cons, fun tid r hr' => hi.res tid r hr', hi.resc⟩

example : Init firstSys ∧ (∀ t, ∀ op ∈ (firstSys.threads t).prog, op = Op.get 0) ∧
    firstSys.sh.fs 1 0 = some ⟨1, 98, true⟩ ∧ firstSys.sh.fs 0 0 = none ∧
    Reachable firstSys (run firstSched firstSys) ∧
    (run firstSched firstSys).sh.constructions = 1 ∧
    ((run firstSched firstSys).threads 1).results =
      [.tmpl ⟨0, 0, 1, 1, 100⟩ false (some ⟨1, 98, true⟩), .tmpl ⟨0, 0, 1, 1, 100⟩ false (some ⟨1, 98, true⟩)] ∧
    ((run firstSched firstSys).threads 2).results.length = 2 :=
  ⟨init_mkSys _ _ _ _ (fileFS_mtime _ _ (by decide)),
   by intro t op h; simp only [firstSys, mkSys, Thread.init] at h; split at h <;> simp_all,
   by decide, by decide, ⟨_, rfl⟩, by decide +kernel, by decide +kernel, by decide +kernel⟩

/-- A bounded lookup (`collection_size = n`) is within `n + n·threshold` whenever no thread is inside an LRU
    write (`__setitem__` … `_manage_size`). -/
theorem lru_bound_quiescent {s0 s : Sys} (h0 : Init s0) (hr : Reachable s0 s) {n : Nat}
    (hn : s0.cfg.cap = some n) (hq : ∀ t, (s.threads t).pc.inLru = false) :
    s.sh.coll.length * thresholdDen ≤ n * thresholdDen + n * thresholdNum ∧
    s.sh.coll.length ≤ n + n / 2 := by
  have hi := lruInv_reachable h0 hr n (by rw [reachable_cfg hr]; exact hn)
  rcases hi with ⟨t, ht⟩ | hb
  · rw [hq t] at ht; simp at ht
  · simp only [overBound, decide_eq_false_iff_not, Nat.not_lt] at hb
    refine ⟨hb, ?_⟩
    have h1 : thresholdDen = 2 := by decide
    have h2 : thresholdNum = 1 := by decide
    rw [h1, h2] at hb
    omega

example : Init lruSys ∧ Reachable lruSys (run lruSched lruSys) ∧ lruSys.cfg.cap = some 1 ∧
    (run lruSched lruSys).sh.constructions = 3 ∧ (run lruSched lruSys).sh.coll.length = 1 ∧
    (∀ t, t < 2 → ((run lruSched lruSys).threads t).pc.inLru = false) :=
  ⟨init_mkSys _ _ _ _ (fileFS_mtime _ _ (by decide)), ⟨_, rfl⟩, rfl, by decide, by decide, by decide⟩

/-- The obligation behind "each memo cell is written only with a value equal to what any other writer would
    write", per cell, on the code as it is now (regenerated from /repo on every run): for every lazily initialised
    shared cell – `obj.__dict__[name]` of `memoized_property` (`Template.cache`, `Template.reserved_names`),
    `Cache._def_regions[defname]`, `lexer._regexp_cache[…]`, `TemplateLookup._uri_cache[key]`,
    `ModuleInfo._modules[…]` – the statement that stores the object into the shared container is not followed by
    statements that still mutate it: the value is complete at the moment it becomes visible to other threads, which is
    what the model's one-step write of `memoVal` assumes. -/
theorem memo_cells_stored_complete :
    Generated.Conc.memoCells.length = 5 ∧ Generated.Conc.memoCells.all (fun c => c.2) = true := by decide

/-- The first-use cell that is not stored by mako itself: the module of `<%namespace module="…"/>` (first use = first
    import).  `ModuleNamespace.__init__` obtains the module it keeps ONLY from `__import__` / `import_module` calls
    (which hold the per-module import lock until the module body has run) and never reads `sys.modules`, where a
    module another thread is still initialising is already visible. -/
theorem module_namespace_imports_through_lock :
    Generated.Conc.importCells.length = 1 ∧ Generated.Conc.importCells.all (fun c => c.2) = true := by decide

/-- The entries of the bounded collection are read by `get_template` WITHOUT the mutex (the hit path), so an entry
    must carry its value at the moment it is inserted – the model's `W` step (`setItem`) inserts key and template at
    once.  On the code as it is now (regenerated): every object `LRUCache.__setitem__` inserts into the underlying dict
    is an `_Item(key, value)` built from the method's own `value` argument, and `_Item.__init__` stores that argument
    (an existing item whose value is replaced is already complete).  Together with `returns_complete` this is why a
    reader never sees an entry without a template. -/
theorem lru_entry_published_with_value :
    Generated.Conc.lruEntryCells.length = 1 ∧ Generated.Conc.lruEntryCells.all (fun c => c.2) = true := by decide

/-- Renders are independent: (1) a step of thread `a` leaves the record of every other thread (program counter,
    per-render context and buffers, results) untouched; (2) every shared memo cell is unset or holds the one value
    any writer writes (idempotent initialisation), and (3) a step changes a cell, if at all, to that complete value in
    the one step (no half-initialised value is ever visible – `memo_cells_stored_complete` and
    `module_namespace_imports_through_lock` are the tie of this to the source); (4) hence every render result, whatever the other threads did meanwhile, is the output of that render
    run alone (`renderSpec`). -/
theorem renders_independent {s0 s : Sys} (h0 : Init s0) (hr : Reachable s0 s) :
    (∀ a b s', step s a = some s' → b ≠ a → s'.threads b = s.threads b) ∧
    (∀ i k v, s.sh.memo i k = some v → v = memoVal i k) ∧
    (∀ a s' i k, step s a = some s' → s'.sh.memo i k = s.sh.memo i k ∨ s'.sh.memo i k = some (memoVal i k)) ∧
    (∀ tid i v c ks us, Res.rendered i v c ks us ∈ (s.threads tid).results →
      Res.rendered i v c ks us = renderSpec ⟨i, 0, 0, v, 0⟩ c ks) := by
  have hi := renderInv_reachable h0 hr
  refine ⟨fun a b s' h hb => step_threads_other h hb, hi.memo, fun a s' i k h => step_memo_complete h i k, ?_⟩
  intro tid i v c ks us h
  have := hi.res tid _ h i v c ks us rfl
  simp [renderSpec, this]

example : Init renderSys ∧ Reachable renderSys (run renderSched renderSys) ∧
    ((run renderSched renderSys).threads 0).results =
      [.tmpl ⟨0, 0, 0, 1, 100⟩ false (some ⟨1, 98, true⟩), .rendered 0 1 11 [1] [memoVal 0 1]] ∧
    ((run renderSched renderSys).threads 1).results =
      [.tmpl ⟨0, 0, 0, 1, 100⟩ false (some ⟨1, 98, true⟩), .rendered 0 1 22 [1] [memoVal 0 1]] :=
  ⟨init_mkSys _ _ _ _ (fileFS_mtime _ _ (by decide)), ⟨_, rfl⟩, by decide, by decide⟩

/-- `adjust_uri` never raises, for the unbounded AND the bounded lookup, under any schedule (since /repo 1492cc7
    the read of `_uri_cache` is `try … except KeyError`): no thread ever receives a `KeyError`; and an `adjust k`
    operation returns `adjusted k` after at most two steps of its own thread, whatever the state the other threads
    (evictions included) have left. -/
theorem uri_cache_reads_succeed {s0 s : Sys} (h0 : Init s0) (hr : Reachable s0 s) :
    (∀ tid, Res.keyError ∉ (s.threads tid).results) ∧
    (∀ tid k rest, (s.threads tid).pc = .idle → (s.threads tid).prog = .adjust k :: rest →
      ∃ s1, step s tid = some s1 ∧
        (((s1.threads tid).pc = .idle ∧ (s1.threads tid).results = (s.threads tid).results ++ [.adjusted k]) ∨
         (s1.threads tid).pc = .aS k)) ∧
    (∀ tid k, (s.threads tid).pc = .aS k →
      ∃ s1, step s tid = some s1 ∧ (s1.threads tid).pc = .idle ∧
        (s1.threads tid).results = (s.threads tid).results ++ [.adjusted k]) := by
  refine ⟨fun tid hmem => (uriInv_reachable h0 hr).res tid _ hmem rfl, ?_, ?_⟩
  · intro tid k rest hpc hprog
    obtain ⟨sh', th', ht, hres⟩ := tstep_adjust_start (cfg := s.cfg) (tid := tid) (sh := s.sh) hpc hprog
    obtain ⟨s1, hs1, hth⟩ := step_of_tstep ht
    exact ⟨s1, hs1, by rw [hth]; exact hres⟩
  · intro tid k hpc
    obtain ⟨sh', th', ht, hres⟩ := tstep_adjust_store (cfg := s.cfg) (tid := tid) (sh := s.sh) hpc
    obtain ⟨s1, hs1, hth⟩ := step_of_tstep ht
    exact ⟨s1, hs1, by rw [hth]; exact hres⟩

/-- the scenario that was F-C16-2's witness (`collection_size = 1`): key 0 is evicted by thread 1's store between
    thread 0's two calls; the second call recomputes it -/
example : Init uriSys ∧ uriSys.cfg.cap = some 1 ∧ Reachable uriSys (run uriSched uriSys) ∧
    ((run uriSched uriSys).threads 0).results = [.adjusted 0, .adjusted 0] ∧
    ((run uriSched uriSys).threads 1).results = [.adjusted 1] ∧
    (run uriSched uriSys).sh.ucache.length = 1 :=
  ⟨init_mkSys _ _ _ _ (by intro d u f h; simp [emptyFS] at h), rfl, ⟨_, rfl⟩, by decide, by decide, by decide⟩

end MakoModel.C16
