import MakoModel.Names.LemmasScopes
import MakoModel.Names.LemmasML
import MakoModel.Names.LemmasReserved
import MakoModel.Names.LemmasCtx
import MakoModel.Names.Samples
/-!
# C04 – names resolve through scopes, module, imports, context, builtins, UNDEFINED; context isolation;
reserved names

Model: `MakoModel/Names/Model.lean` (`_Identifiers`, `write_variable_declares`, Python's LEGB view of the
generated functions, `Spec.resolve`, `__M_locals`), `Scopes.lean` (which scopes the generator writes),
`Context.lean` (`runtime.Context` on a heap of dictionaries, render entry points).

OPEN (false of the code as it is; see known_findings.json):
* `resolution_order` without the guard `goodT` – F-C04-4 (bindings inside a `<%block>` become locals of the
  enclosing scope), F-C04-6 (the defs of a `<%call>` believe the call body's names declared);
* `mlocals_current` without `mlGuard` – F-C04-5 (`<% %>` blocks of anonymous blocks / call bodies update `__M_locals`);
* "a def called by name from anywhere in the body function nest gets `context._locals(__M_locals)`" – F-C04-7: proved
  for the stubs of `render_body` itself only (`body_stubs_pass_locals`); below it the flag follows the `_Identifiers`
  on top of the identifier stack (modelled in `Scopes.lean`, compared on every run, not claimed);
* `reserved_rejected` for module-level `<%! %>` names and `<%namespace name=…>` names – F-C04-1b;
* "`loop` is reserved whenever the loop context is enabled" – F-C04-2: `Cfg.reservedLoop` (from `Template(enable_loop=…)`)
  and `Cfg.enableLoop` (also set by `<%page enable_loop>`) are separate inputs of the model; no theorem equates them;
* F12b, F12c, F12d (comprehension variables, default-argument / class-body reads, match captures and `async def`
  names in `pyparser.FindIdentifiers`): the per-construct (declared, undeclared) sets are *inputs* of this model, so
  these are outside the Lean statements; they are found by the oracle only.
-/
namespace MakoModel.C04
open MakoModel.Names MakoModel.Names.Context

/-! ## declares_exact -/

/-- For every scope of every template (indeed for every `_Identifiers`) and every iteration order of the set
`to_write`: the names declared at the entry of the generated function are exactly
`(undeclared ∪ closure defs) ∖ argument_declared ∖ locally_declared` (minus `loop` when enabled), each declared
once, in that order, and all of it precedes `__M_writer = context.writer()` and the first body statement. -/
theorem declares_exact (c : Cfg) (t : Body) : ∀ s ∈ allScopes c t, ∀ (ul : Bool) (order : List Name) (nbody : Nat),
    order.Perm (toWrite c s.ids none) →
    (∀ x, x ∈ order ↔ (x ∈ s.ids.undeclared ∨ x ∈ s.ids.closdefs) ∧ x ∉ s.ids.argDecl ∧ x ∉ s.ids.locDecl ∧
        (c.enableLoop = true → x ≠ loopName)) ∧
    order.Nodup ∧
    (emit c s.ids s.toplevel ul s.mlocals order nbody).filterMap Stmt.declName = order ∧
    ∃ pre, emit c s.ids s.toplevel ul s.mlocals order nbody =
        pre ++ order.map (fun x => Stmt.decl x (classify c s.ids ul x)) ++ Stmt.writerInit :: (List.range nbody).map Stmt.body ∧
      ∀ st ∈ pre, st.isDecl = false ∧ st.isBody = false := by
  intro s _ ul order nbody hperm
  refine ⟨fun x => ?_, hperm.nodup_iff.mpr (nodup_toWrite c s.ids none), declNames_emit _ _ _ _ _ _ _,
    ⟨emitPre c s.ids s.toplevel s.mlocals, emit_eq _ _ _ _ _ _ _, emitPre_no_decl _ _ _ _⟩⟩
  rw [hperm.mem_iff]
  exact mem_toWrite_none

/-- the `limit` argument of the cache decorator only intersects -/
theorem declares_limit (c : Cfg) (i : Ids) (l : List Name) (x : Name) :
    x ∈ toWrite c i (some l) ↔ x ∈ toWrite c i none ∧ x ∈ l := mem_toWrite_some

/-- Since the code iterates `sorted(to_write)` (regenerated flag `declaresSorted`), the emission order is fixed: it is
the permutation of `to_write` in which adjacent names are in Python's `str` order (`nameLe`: lexicographic by code
point); likewise the keys of `__M_locals`. -/
theorem declares_sorted (c : Cfg) (i : Ids) (limit : Option (List Name)) :
    Generated.Names.declaresSorted = true ∧ Generated.Names.mlocalsSorted = true ∧
    (emitOrder c i limit).Perm (toWrite c i limit) ∧ SortedNames (emitOrder c i limit) ∧
    (∀ a b : Name, nameLe a b = true ∨ nameLe b a = true) :=
  ⟨by decide, by decide, perm_sortNames _, sorted_sortNames _, nameLe_total⟩

example : emitOrder {} { undeclared := ["b".toList, "a".toList, "B".toList, "ab".toList] } none =
    ["B".toList, "a".toList, "ab".toList, "b".toList] := by decide

example : ∃ (c : Cfg) (t : Body) (s : Scope), s ∈ allScopes c t ∧ (toWrite c s.ids none).length = 2 :=
  ⟨{}, .leaf 1 [] ["a".toList, "b".toList, "a".toList] .nil, _, List.mem_cons_self, by decide⟩

/-! ## resolution_order -/

/-- The refinement on closure chains: whenever the `_Identifiers` of the frames agree with the template-side
description of the scopes (`ChainOK`), Python's lookup on the generated functions yields the value the
specification prescribes, for every name available in the chain. -/
theorem resolution_order_chain {c : Cfg} {T : List Name} {rt : RT} (hrt : RTOK c rt) {chain : List Frame}
    (hc : ChainOK c T chain) (x : Name) (hx : x ≠ contextName) (ha : Avail c chain x) :
    (Impl.resolve c chain x).toSVal c rt x = Spec.resolve c T rt chain x := by
  rw [Spec.resolve_eq c T rt chain hx]
  simp only [Impl.resolve, hx, if_false]
  exact resolve_avail hrt hc 0 x ha

/-- For every template satisfying the (decidable) guard `goodT`, every generated scope and every name read in
it: the value the generated code uses is `Spec.resolve` – enclosing scopes by Python's local / closure rule,
module-level names, `loop`, template defs, namespaces, `import=` names, context data, builtins, `UNDEFINED` or the
strict `NameError`. -/
theorem resolution_order_partial {c : Cfg} {t : Body} {rt : RT} (hg : goodT c t = true) (hrt : RTOK c rt) :
    ∀ s ∈ allScopes c t, ∀ x ∈ readsOf s.body,
      (Impl.resolve c s.frames x).toSVal c rt x = Spec.resolve c (topNames c t) rt s.frames x := by
  intro s hs x hx
  by_cases hc : x = contextName
  · simp [Impl.resolve, Spec.resolve, hc, Res.toSVal]
  · have ok := allScopes_ok hg s hs
    exact resolution_order_chain hrt ok.1 x hc (ok.2 x hx hc)

/-- the guard is satisfiable by a template with a nested def, an anonymous block and a call with content -/
example : goodT {} sampleTree = true ∧ (allScopes {} sampleTree).length = 5 := by decide

example : RTOK {} { importNs := fun _ => none, data := fun x => if x = "y".toList then some (.obj 2) else none,
                    builtins := fun _ => none } :=
  { noImports := fun _ _ => rfl, importDefined := fun _ => by simp }

/-- F-C04-4: `<%block><% x = 5 %></%block>${x}` – the body believes `x` is one of its locals, does not fetch
it, and Python finds no binding: `NameError`, where the specification says "the context's `x`". -/
theorem resolution_order_counterexample :
    let t : Body := .block 1 none "__M_anon_1".toList [] [] (.code 2 ["x".toList] [] .nil) (.leaf 3 [] ["x".toList] .nil)
    let rt : RT := { importNs := fun _ => none, data := fun n => if n = "x".toList then some (.obj 2) else none,
                     builtins := fun _ => none }
    goodT {} t = false ∧
    (Impl.resolve {} (bodyScope {} t).frames "x".toList).toSVal {} rt "x".toList = .pyNameError ∧
    Spec.resolve {} (topNames {} t) rt (bodyScope {} t).frames "x".toList = .val (.obj 2) := by
  decide

/-- F-C04-6: the def of the call believes the call body's argument declared; it is emitted beside `body(q)`, not
inside it: Python's `NameError`, where the specification says "the context's `q`". -/
theorem resolution_order_counterexample_calldef :
    goodT {} callDefTree = false ∧
    (allScopes {} callDefTree).any (fun s => decide (s.kind = .callDef ∧
      (Impl.resolve {} s.frames "q".toList).toSVal {} (ctxHas "q".toList) "q".toList = .pyNameError ∧
      Spec.resolve {} (topNames {} callDefTree) (ctxHas "q".toList) s.frames "q".toList = .val (.obj 2))) = true := by
  decide

/-- the def stubs of `render_body` always pass `context._locals(__M_locals)`: `pageargs` is an argument -/
theorem body_stubs_pass_locals (c : Cfg) (t : Body) : (bodyFrame c t).useLocals = true := by
  simp [bodyFrame, bodyIds, Ids.addArgs]

/-- `__M_locals` as the generated body maintains it equals the specified overlay (page arguments and the
current values of the body's own `<% %>` assignments) at every node of the body function nest, provided no
`<% %>` block nested in an anonymous block / call body of the body declares a name. -/
theorem mlocals_current_partial (t : Body) (hg : mlGuard t = true) (args : List Name) (stop : Nat) (ml : ML) :
    Generated.Names.mlocalsUpdateMinusArgs = false ∧
    mlRun args stop t (ml, false) = Spec.overlayRun stop t (ml, false) := ⟨by decide, mlRun_eq_overlay args stop t ml hg⟩

example : mlGuard (.code 1 ["x".toList] [] (.block 2 none "b".toList [] [] (.leaf 3 [] [] .nil)
    (.code 4 ["x".toList] [] (.leaf 5 [] [] .nil)))) = true := by decide

/-- a `<%page>` argument reassigned by the body: `<%page args="x"/><% x = 1 %>${top()}<% x = 2 %>${top()}` – the
overlay carries the value of the latest assignment, not the value the argument had at entry -/
example : (mlRun ["x".toList] 3 (.page 1 ["x".toList] [] (.code 2 ["x".toList] [] (.leaf 3 [] [] (.code 4 ["x".toList] []
    (.leaf 5 [] [] .nil))))) (mlInit ["x".toList], false)).1 = [("x".toList, MLVal.assigned 2)] ∧
  (mlRun ["x".toList] 5 (.page 1 ["x".toList] [] (.code 2 ["x".toList] [] (.leaf 3 [] [] (.code 4 ["x".toList] []
    (.leaf 5 [] [] .nil))))) (mlInit ["x".toList], false)).1 = [("x".toList, MLVal.assigned 4)] := by decide

/-- F-C04-5: `<%block><% x = 5 %></%block>${top()}` – the block's local assignment is written into `__M_locals` -/
theorem mlocals_current_counterexample :
    let t : Body := .block 1 none "b".toList [] [] (.code 2 ["x".toList] [] .nil) (.leaf 3 [] ["top".toList] .nil)
    mlGuard t = false ∧ (mlRun [] 3 t ([], false)).1 = [("x".toList, MLVal.assigned 2)] ∧
      (Spec.overlayRun 3 t ([], false)).1 = [] := by decide

/-- the data a def called with `context._locals(__M_locals)` sees: the overlay wins over the render-time data -/
theorem locals_overlay_wins (keys : List Name) (ml : ML) (x : Name) (v : MLVal) (h : mlGet ml x = some v) :
    localsData keys ml x = some (.overlay v) := by simp [localsData, h]

/-! ## `loop` while the loop context is disabled -/

/-- With the loop context disabled `loop` is an ordinary name for the generator: no `__M_loop` is created in any
function, no `% for` line is rewritten to use it (regenerated fact about `visitControlLine`, a named obligation), `loop`
is declared at function entry under the same rule as every other name, it is not reserved, and the specification
resolves it through the ordinary chain (module → template defs → namespaces → imports → context → builtins →
UNDEFINED / strict `NameError`). -/
theorem loop_is_ordinary_when_disabled (c : Cfg) (hl : c.enableLoop = false) (hr : c.reservedLoop = false) (i : Ids)
    (T : List Name) (rt : RT) (m : Bool) :
    Generated.Names.forRewriteOnlyWhenEnabled = true ∧
    hasLoop c i = false ∧ forRewritten c m = false ∧
    (loopName ∈ toWrite c i none ↔
      (loopName ∈ i.undeclared ∨ loopName ∈ i.closdefs) ∧ loopName ∉ i.argDecl ∧ loopName ∉ i.locDecl) ∧
    loopName ∉ c.reserved ∧
    Spec.tail c T rt loopName =
      (if loopName ∈ c.moduleNames then .global else if loopName ∈ T then .defFn
       else if loopName ∈ c.nsNames then .nsObj else Spec.fetch c.strict rt loopName) := by
  have hf : Generated.Names.forRewriteOnlyWhenEnabled = true := by decide
  refine ⟨hf, by simp [hasLoop, hl], by simp [forRewritten, hf, hl], ?_, ?_, by simp [Spec.tail, hl]⟩
  · rw [mem_toWrite_none]
    simp [hl]
  · have : loopName ∉ ({ reservedLoop := false } : Cfg).reserved := by decide
    simpa [Cfg.reserved, hr] using this

/-- a rewritten `% for` always finds its `__M_loop`: the rewrite happens only while the loop context is enabled -/
theorem for_rewrite_only_when_enabled (c : Cfg) (m : Bool) (h : forRewritten c m = true) :
    c.enableLoop = true ∧ m = true := by
  have hf : Generated.Names.forRewriteOnlyWhenEnabled = true := by decide
  simpa [forRewritten, hf] using h

example : forRewritten {} true = true ∧ forRewritten { enableLoop := false } true = false := by decide

/-- a rewritten `% for` finds its `__M_loop` when the function it is emitted into, or a function enclosing it (closure),
declares `loop`; and there is never an error while the loop context is disabled -/
theorem for_rewrite_finds_loop_of_enclosing (c : Cfg) (loopFors : List Nat) (chain : List Frame) (body : Body)
    (h : c.enableLoop = false ∨ ∃ f ∈ chain, f.ccall = false ∧ hasLoop c f.ids = true) :
    forErrors c loopFors chain body = [] := by
  have hf : Generated.Names.forRewriteOnlyWhenEnabled = true := by decide
  rcases h with h | ⟨f, hfm, hcc, hl⟩
  · simp [forErrors, forRewritten, hf, h]
  · have : mLoopAvailable c chain = true := by
      simp only [mLoopAvailable, List.any_eq_true]
      exact ⟨f, hfm, by simp [hcc, hl]⟩
    simp [forErrors, this]

/-- Every rewritten `% for` finds its `__M_loop` (repair bca4969): `_Identifiers.visitControlLine` counts a `% for` whose
line or suite mentions `loop` – at any depth, also only inside a nested `<%def>` / `<%call>` body – as a reader of `loop`
(regenerated flag `forLineReadsLoop`, a named obligation; hypothesis `hread` is that fact for the scope at hand).  Then in
every scope that does not inherit `loop` from an enclosing function and binds no `loop` itself (which would be a
`NameConflictError`), the function declares `loop = __M_loop = runtime.LoopStack()`, so no rewritten line is without it. -/
theorem for_rewrite_finds_loop (c : Cfg) (hl : c.enableLoop = true) (i0 : Ids) (root : Bool) (b : Body) (loopFors : List Nat)
    (f : Frame) (rest : List Frame) (hf : f.ids = visit i0 root b) (hcc : f.ccall = false)
    (hread : (∃ t ∈ ownLeafTags b, t ∈ loopFors) → loopName ∈ readsOf b)
    (hnd : loopName ∉ i0.declared) (hna : loopName ∉ f.ids.argDecl) (hnl : loopName ∉ f.ids.locDecl) :
    Generated.Names.forLineReadsLoop = true ∧ forErrors c loopFors (f :: rest) b = [] := by
  refine ⟨by decide, ?_⟩
  by_cases hex : ∃ t ∈ ownLeafTags b, t ∈ loopFors
  · have hr := visit_reads b i0 root (readsOf_sub_through b _ (hread hex)) (by decide)
    have hu : loopName ∈ f.ids.undeclared := by
      rcases hr with h | h | h
      · exact absurd h hnd
      · exact absurd (hf ▸ h) hnl
      · exact hf ▸ h
    have hh : hasLoop c f.ids = true := by
      simp only [hasLoop, hl, Bool.true_and, decide_eq_true_eq]
      exact mem_toWriteRaw.mpr ⟨Or.inl hu, hna, hnl⟩
    exact for_rewrite_finds_loop_of_enclosing c loopFors (f :: rest) b (Or.inr ⟨f, List.mem_cons_self, hcc, hh⟩)
  · simp only [forErrors, List.filter_eq_nil_iff]
    intro t ht
    have : t ∉ loopFors := fun h' => hex ⟨t, ht, h'⟩
    simp [this]

/-- the hypotheses are satisfiable: `% for i in x:` / `<%call expr="w()">${loop}</%call>` / `% endfor`, the `% for` leaf
carrying `loop` among its undeclared identifiers as the repaired visitor records it -/
example : forErrors {} [1] (bodyScope {} (.leaf 1 ["i".toList] ["x".toList, loopName]
    (.call 2 [] [] ["w".toList] (.leaf 3 [] [loopName] .nil) .nil))).frames
    (.leaf 1 ["i".toList] ["x".toList, loopName] (.call 2 [] [] ["w".toList] (.leaf 3 [] [loopName] .nil) .nil)) = [] := by decide

/-- REGRESSION illustration (the defect F-C04-9 before bca4969, kept as a fixed model-level fact): were the `% for` leaf
*not* counted as a reader of `loop` – the suite mentions `loop` only inside the `<%call>` body – the line (tag 1) would be
rewritten to use `__M_loop` although `render_body` never creates it.  This theorem holds on every tree; the obligation
that FAILS when the repair is reverted is the conjunct `Generated.Names.forLineReadsLoop = true` of
`for_rewrite_finds_loop` (regenerated from `_Identifiers.visitControlLine`). -/
theorem for_rewrite_without_loop_read_regression :
    let t : Body := .leaf 1 ["i".toList] ["x".toList] (.call 2 [] [] ["w".toList] (.leaf 3 [] [loopName] .nil) .nil)
    forErrors {} [1] (bodyScope {} t).frames t = [1] := by decide

/-! ## strict_raises_iff_missing -/

/-- Executing the prelude of any generated function (any scope, any emission order): it raises
`NameError("'x' is not defined")` exactly when `strict_undefined` is on and some name it fetches is neither in
`_import_ns`, nor in the context data, nor a builtin; the name reported is such a name; nothing of the body has
run (the prelude precedes the body, `declares_exact`). -/
theorem strict_raises_iff_missing {c : Cfg} {rt : RT} (hrt : RTOK c rt) (i : Ids) (tl ul : Bool)
    (ml : Option (List Name)) (order : List Name) (nbody : Nat) :
    (∀ x, runPrelude c rt (emit c i tl ul ml order nbody) = .error x →
        x ∈ order ∧ classify c i ul x = .fetch ∧ c.strict = true ∧
          rt.importNs x = none ∧ rt.data x = none ∧ rt.builtins x = none) ∧
    ((∃ x, runPrelude c rt (emit c i tl ul ml order nbody) = .error x) ↔
        c.strict = true ∧ ∃ x ∈ order, classify c i ul x = .fetch ∧
          rt.importNs x = none ∧ rt.data x = none ∧ rt.builtins x = none) := by
  constructor
  · intro x hx
    have h := runPrelude_error _ x hx
    have hm := (fetchNames_emit c i tl ul ml order nbody x).mp h.1
    have hn := (fetchExpr_nameError_iff hrt x).mp h.2
    exact ⟨hm.1, hm.2, hn⟩
  · have hok := runPrelude_ok_iff (c := c) (rt := rt) (emit c i tl ul ml order nbody)
    constructor
    · rintro ⟨x, hx⟩
      have h := runPrelude_error _ x hx
      have hm := (fetchNames_emit c i tl ul ml order nbody x).mp h.1
      have hn := (fetchExpr_nameError_iff hrt x).mp h.2
      exact ⟨hn.1, x, hm.1, hm.2, hn.2⟩
    · rintro ⟨hs, x, hxo, hk, hmiss⟩
      cases hr : runPrelude c rt (emit c i tl ul ml order nbody) with
      | error e => exact ⟨e, rfl⟩
      | ok env =>
        exfalso
        have := hok.mp ⟨env, hr⟩ x ((fetchNames_emit c i tl ul ml order nbody x).mpr ⟨hxo, hk⟩)
        exact this ((fetchExpr_nameError_iff hrt x).mpr ⟨hs, hmiss⟩)

/-- without `strict_undefined` a missing name becomes `UNDEFINED`, never an error -/
theorem nonstrict_never_raises {c : Cfg} {rt : RT} (hrt : RTOK c rt) (hs : c.strict = false) (i : Ids) (tl ul : Bool)
    (ml : Option (List Name)) (order : List Name) (nbody : Nat) :
    ∃ env, runPrelude c rt (emit c i tl ul ml order nbody) = .ok env := by
  apply (runPrelude_ok_iff _).mpr
  intro x _ h
  have := ((fetchExpr_nameError_iff hrt x).mp h).1
  simp [hs] at this

example : runPrelude { strict := true } { importNs := fun _ => none, data := fun _ => none, builtins := fun _ => none }
    (emit { strict := true } { undeclared := ["x".toList] } true false none ["x".toList] 1) = .error "x".toList := by rfl

/-- A key bound in the context to ANY value – `None` included – resolves to that value before the builtins, strict or
not: `Context.__getitem__`, `Context.get` (regenerated: they test key membership, not the value) and every shape of
the generated fetch statement return it; no `NameError` / `KeyError`. -/
theorem context_value_none_is_still_bound {c : Cfg} {rt : RT} (hrt : RTOK c rt) (x : Name) (v dflt : Val)
    (hd : rt.data x = some v) (hi : rt.importNs x = none) :
    Generated.Names.ctxGetItemByMembership = true ∧ Generated.Names.ctxGetByMembership = true ∧
    ctxGetItem rt x = some v ∧ ctxGet rt x dflt = v ∧
    (v ≠ .undefined → fetchExpr c rt x = .val v) ∧ Spec.fetch c.strict rt x = .val v := by
  refine ⟨by decide, by decide, ?_, ?_, ?_, ?_⟩
  · simp [ctxGetItem, boundIn_getitem, hd]
  · simp [ctxGet, boundIn_get, hd]
  · intro _
    have h := fetchExpr_refines hrt x
    simp only [Spec.fetch, hi, hd] at h
    cases hf : fetchExpr c rt x with
    | val w => rw [hf] at h; simp at h; rw [h]
    | nameError => rw [hf] at h; simp at h
  · simp [Spec.fetch, hi, hd]

example : ctxGetItem { importNs := fun _ => none, data := fun _ => some .pyNone, builtins := fun _ => some (.obj 3) } "id".toList
    = some .pyNone := by decide

/-! ## context_isolated -/

/-- `_copy`, `_locals`, `_clean_inheritance_tokens` and `kwargs` leave every existing dictionary – in particular
the data and the kwargs of the context they are called on – exactly as it was. -/
theorem context_ops_pure (h : Heap) (c : Ctx) (u : PDict) (i : Nat) (hi : i < h.dicts.length) :
    (ctxCopy h c).1.get i = h.get i ∧ (ctxLocals h c u).1.get i = h.get i ∧ (ctxClean h c).1.get i = h.get i ∧
      (ctxKwargs h c).1.get i = h.get i :=
  ⟨(ctxCopy_spec h c).1.2 i hi, (ctxLocals_spec h c u).1.2 i hi, (ctxClean_spec h c).1.2 i hi, (ctxKwargs_spec h c).1.2 i hi⟩

/-- A render from the caller's dictionary `src`, followed by any sequence of context operations issued by
template code: no dictionary that existed before (the caller's included) has changed, every context derived during
the render reports the caller's arguments as its kwargs, and so does every dictionary `context.kwargs` returned. -/
theorem context_isolated (h : Heap) (src : DictId) (ops : List Op) :
    let s := render h src ops
    (∀ i, i < h.dicts.length → s.heap.get i = h.get i) ∧
    (∀ c ∈ s.ctxs, s.heap.get c.kwargs = h.get src) ∧
    (∀ r ∈ s.results, s.heap.get r = h.get src) := by
  intro s
  have hi := ctxInit_spec h src
  have hinv0 : Inv (ctxInit h src).2.kwargs (h.get src) { heap := (ctxInit h src).1, ctxs := [(ctxInit h src).2] } :=
    { kw := by intro c hc; simp at hc; rw [hc], kAlloc := hi.2.2.2, kVal := hi.2.2.1, res := by simp }
  have hinv := run_inv hinv0 ops
  have hext := hi.1.trans (run_extends { heap := (ctxInit h src).1, ctxs := [(ctxInit h src).2] } ops)
  refine ⟨fun i hlt => hext.2 i hlt, ?_, ?_⟩
  · intro c hc
    have := hinv.kw c hc
    show (run _ ops).heap.get c.kwargs = h.get src
    rw [this]
    exact hinv.kVal
  · intro r hr
    exact (hinv.res r hr).2

example : (render { dicts := [[("a".toList, 7)]] } 0 [.locals 0 [("a".toList, 9)], .kwargs 1, .clean 1]).heap.get 0
    = [("a".toList, 7)] := by decide

/-! ## reserved_rejected -/

/-- the regenerated tables: `context` and `loop` are reserved, so are the names every module declares; without the
loop context `loop` is free; the reserved-name test of `_Identifiers.__init__` looks at these four collections;
`render_context` checks its keyword arguments -/
theorem reserved_table :
    contextName ∈ Generated.Names.reservedNames ∧ loopName ∈ Generated.Names.reservedNames ∧
    (∀ x ∈ Generated.Names.toplevelDeclared, x ∈ Generated.Names.reservedNames) ∧
    loopName ∉ ({ reservedLoop := false } : Cfg).reserved ∧
    (∀ x ∈ Generated.Names.reservedNames, x ≠ loopName → x ∈ ({ reservedLoop := false } : Cfg).reserved) ∧
    Generated.Names.reservedCheckedCollections = ["argument_declared", "closuredefs", "locally_declared", "topleveldefs"] ∧
    Generated.Names.renderContextChecksKwargs = true ∧
    Generated.Names.renderContextKwargsCheckUnconditional = true := by decide

/-- In every generated scope of every template: a reserved name the template binds there – by an assignment form
(`<% %>` code, control-line targets, `<%page args>`; also through the blocks of the scope), as an argument of the
def / block / call body, or as the name of the scope's def or of one of its nested defs / blocks – is found by the
reserved-name test: compilation raises `NameConflictError`. -/
theorem reserved_rejected_partial (c : Cfg) (t : Body) : ∀ s ∈ allScopes c t, ∀ x ∈ s.binds,
    x ∈ c.reserved → x ∈ compileConflicts c t := by
  intro s hs x hx hr
  obtain ⟨i, hi, hc⟩ := allScopes_bind c t s hs x hx
  simp only [compileConflicts, List.mem_append, List.mem_flatMap]
  exact Or.inr ⟨s, hs, i, hi, mem_conflicts.mpr ⟨hr, hc⟩⟩

/-- the former witness of F-C04-1 is now rejected: `<%def name="f(loop)">…</%def>` -/
example : compileConflicts {} (.defn 1 "f".toList [loopName] [] (.leaf 2 [] [loopName] .nil) .nil) = [loopName] := by decide

/-- what remains of F-C04-1: a module-level `<%! loop = 1 %>` (or `<%namespace name="loop">`) binds a reserved name
outside every `_Identifiers` collection that is checked -/
theorem reserved_rejected_counterexample :
    let c : Cfg := { moduleDeclared := [loopName], nsNames := [contextName] }
    loopName ∈ c.reserved ∧ contextName ∈ c.reserved ∧ compileConflicts c (.leaf 1 [] [loopName] .nil) = [] := by decide

/-- every render entry point rejects a reserved name: as a key of the data (`render*`, or a fresh `Context` handed to
`render_context`), and as a keyword argument of `render_context` – whatever the state of the `Context` (`fresh` is
universally quantified: a context that was already rendered into, or the running template's own context, included) -/
theorem render_entries_reject (reserved keys kw : List Name) (e : Entry) (fresh : Bool) (x : Name) (hr : x ∈ reserved)
    (h : (x ∈ keys ∧ e ≠ .includeFile ∧ (fresh = true ∨ (e ≠ .renderContext ∧ e ≠ .defRenderContext))) ∨
         (x ∈ kw ∧ (e = .renderContext ∨ e = .defRenderContext))) :
    ∃ l, renderEntry reserved e fresh keys kw = .nameConflict l ∧ l ≠ [] := by
  have key : ∀ ks, x ∈ ks → ∃ l, setWithTemplate reserved ks = .nameConflict l ∧ l ≠ [] := by
    intro ks hk
    have hx : x ∈ reserved.filter (fun n => decide (n ∈ ks)) := by simp [List.mem_filter, hr, hk]
    have hne : reserved.filter (fun n => decide (n ∈ ks)) ≠ [] := fun h0 => by rw [h0] at hx; simp at hx
    refine ⟨_, ?_, hne⟩
    have : (reserved.filter (fun n => decide (n ∈ ks))).isEmpty = false := by
      cases hl : reserved.filter (fun n => decide (n ∈ ks)) with
      | nil => exact absurd hl hne
      | cons a l => rfl
    show (if (reserved.filter (fun n => decide (n ∈ ks))).isEmpty = true then Outcome.proceeds
          else Outcome.nameConflict _) = _
    rw [this]
    rfl
  have hkw : Generated.Names.renderContextChecksKwargs = true := by decide
  have hun : Generated.Names.renderContextKwargsCheckUnconditional = true := by decide
  rcases h with ⟨hk, hne, hf⟩ | ⟨hk, he⟩
  · have k1 := key (keys ++ [captureName, callerName]) (by simp [hk])
    cases e <;> simp only [renderEntry] <;> first
      | exact k1
      | exact absurd rfl hne
      | (rcases hf with hf | hf
         · obtain ⟨l, hl, hne⟩ := k1
           exact ⟨l, by simp [hf, hl], hne⟩
         · simp at hf)
  · have k2 := key kw hk
    rcases he with rfl | rfl <;> simp only [renderEntry, hkw, hun, Bool.true_or, Bool.and_self, if_true] <;>
      (cases h1 : (if fresh = true then setWithTemplate reserved (keys ++ [captureName, callerName]) else Outcome.proceeds) with
       | nameConflict l =>
         refine ⟨l, rfl, ?_⟩
         intro h0
         subst h0
         cases fresh
         · simp at h1
         · simp only [if_true, setWithTemplate] at h1
           split at h1
           · cases h1
           · rename_i hne
             simp only [Outcome.nameConflict.injEq] at h1
             rw [h1] at hne
             simp at hne
       | proceeds => exact k2)

/-- `<%include args=…>` / `Namespace.include_file(uri, **kw)`: `runtime._include_file` intersects its keyword
arguments with the included template's reserved names (regenerated fact, repaired by 4d698dc) – a reserved keyword
argument is rejected.  (An included template always runs on a copy of a context that is already bound to a template,
so there is no context-state case distinction here: `renderEntry` ignores `fresh` and `keys` for this entry.) -/
theorem include_args_reject (reserved keys kw : List Name) (fresh : Bool) (x : Name) (hr : x ∈ reserved) (hk : x ∈ kw) :
    Generated.Names.includeChecksKwargs = true ∧
    ∃ l, renderEntry reserved .includeFile fresh keys kw = .nameConflict l ∧ l ≠ [] := by
  have h : Generated.Names.includeChecksKwargs = true := by decide
  refine ⟨h, ?_⟩
  have hx : x ∈ reserved.filter (fun n => decide (n ∈ kw)) := by simp [List.mem_filter, hr, hk]
  have hne : reserved.filter (fun n => decide (n ∈ kw)) ≠ [] := fun h0 => by rw [h0] at hx; simp at hx
  refine ⟨_, ?_, hne⟩
  have : (reserved.filter (fun n => decide (n ∈ kw))).isEmpty = false := by
    cases hl : reserved.filter (fun n => decide (n ∈ kw)) with
    | nil => exact absurd hl hne
    | cons a l => rfl
  simp only [renderEntry, h, if_true]
  show (if (reserved.filter (fun n => decide (n ∈ kw))).isEmpty = true then Outcome.proceeds
        else Outcome.nameConflict _) = _
  rw [this]
  rfl

example : renderEntry ({} : Cfg).reserved .includeFile false [] [loopName] = .nameConflict [loopName] := by decide

example : renderEntry ({} : Cfg).reserved .renderContext true [] [loopName] = .nameConflict [loopName] ∧
    renderEntry ({} : Cfg).reserved .renderContext false [] [loopName] = .nameConflict [loopName] ∧
    renderEntry ({} : Cfg).reserved .defRenderContext false ["a".toList] [contextName] = .nameConflict [contextName] := by decide

end MakoModel.C04
