import MakoModel.Printer.LemmasCore
import MakoModel.Printer.LemmasWarn
import MakoModel.Printer.LemmasCodegen
import MakoModel.Generated.TbCfg
/-!
# C12 – runtime tracebacks and compile warnings map to template lines

**What "owner" means** (the template line a generated line *ought* to be reported as; property text:
"the exact line for code inside `<% %>` and `<%! %>` blocks, the line on which the construct begins
otherwise"):

* the `i`-th line of the text of a `<% %>` / `<%! %>` block that begins on template line `l`: `l + i`
  (this is built into `writeIndentedBlock … (some l)`);
* a line emitted for a text run, `${}` expression, control line, `<%include>`, `<%call>` /
  `<%ns:def>` call, `<%block>` call site, `<%text>` wrapper, `<%namespace>`, `<%inherit>`: the line on
  which that node begins (`node.lineno`);
* a line emitted for a `<%def>` / `<%block>` as a callable – its `def render_x(…)` header, the stub
  `def x(…): return render_x(…)`, an inline `def x(…):`, the decorator line, the preamble
  (`context.get(…)`, `__M_writer = context.writer()`, strict-undefined `raise NameError`), the epilogue
  (`return ''`, `finally: … _pop_frame()`, filter / buffer / cache wrapper lines): the line on which
  the `<%def>` / `<%block>` tag begins;
* the same lines of `render_body`: the line on which the `<%page>` tag begins if there is one, else
  line 1 (the template itself begins there);
* `none` (no owner): lines no template construct stands behind – module header, `_mako_get_namespace`
  boiler-plate, blank separators, the metadata docstring.

The printer theorems below hold for **every** emission sequence.  `line_map_correct` assumes the
sequence is *well marked* (`wellMarked`), which is what codegen's `start_source` calls are meant to
guarantee; `Printer/Codegen.lean` models the call sites as they are, and the `…_counterexample` theorems
show where they do not.

**OPEN** (false of /repo as it is; recorded in `known_findings.json`, each with an oracle witness):

* F9a – `render_body` of a template without `<%page>` is opened with `start_source(0)`: observable lines of
  its header / preamble (def stubs, strict-undefined `raise NameError`, namespace fetches, a `<%block>` call
  site before the first node) are reported as template line 0 (`body_line_zero_counterexample`,
  `line_zero_counterexample`);
* F9b – emission sites that still write observable lines without a `start_source` of their own: the def
  stub `def f(): return render_f()` (`stub_counterexample`; also shows a warning of a top-level def's
  argument default twice / at the wrong line), the `<%block>` call site (`block_call_counterexample`),
  declaration lines that follow an inline def (`preamble_after_inline_def_counterexample`);
  hence no unconditional `codegen_line_map_correct`, only `codegen_line_map_partial`;
* outside the model, oracle only: F9c (a parse-time warning in python that the generator re-emits through
  `ast` – argument lists, filter lists – is dropped and never raised again), F13 (filter action `error`:
  compile-stage and module-body warnings surface as bare exceptions located in the generated module), F5
  (two live templates with one module id share the `ModuleInfo` entry), F9e (a module file of another magic
  number is compiled and executed once before it is regenerated: its warnings show twice).

Closed by repairs of /repo and proved in full here: the `.lineno` search includes the first record
(`lineno_from_innermost_template_record`), the per-file cache keeps the template source
(`record_source_is_own_template`), the module path of the `module_filename` route is made absolute
(`module_filename_frames_found`), the `<%call>` / inline def / epilogue / cache / inherit / `<%text>` /
decorator lines are written under their own mark (part of `codegen_marked_partial`).
-/
namespace MakoModel.C12
open MakoModel.Basic MakoModel.Printer

/-! ## line accounting -/

/-- `printer.lineno` = 1 + number of newlines written to the stream + number of buffered block lines
    – for every emission sequence (multi-line `writeline` strings, `writeline("\n")`, blank lines,
    blocks with `\r\n`, `None` markers) -/
theorem lineno_accounting (evs : List Event) :
    (run evs).lineno = 1 + countNL (streamText (run evs).out) + (run evs).lineBuffer.length := by
  have h := acc_run evs
  rw [countNL_streamText _ h.cleanOut]
  exact h.count

/-- once the printer is closed nothing is pending: `lineno` = 1 + newlines in the stream -/
theorem lineno_accounting_closed (evs : List Event) :
    (run (evs ++ [.close])).lineno = 1 + countNL (streamText (run (evs ++ [.close])).out) := by
  have h := lineno_accounting (evs ++ [.close])
  have : (run (evs ++ [.close])).lineBuffer = [] := by
    rw [run_append]; rfl
  rw [this] at h
  simpa using h

/-- … and `lineno` = 1 + the number of physical lines the events ask for
    (`writeline t` asks for `1 + t.count("\n")`, a block for `1 + block.count("\n")`, `write_blanks n` for `n`) -/
theorem lineno_counts_emitted (evs : List Event) : (run evs).lineno = 1 + physTotal evs :=
  run_lineno evs

example : (run [.writeline (some "a\nb".toList) none, .writeBlanks 2,
    .writeIndentedBlock "x\r\ny\n".toList (some 4), .writeline none none]).lineno = 8 := by decide

/-- the stream is in emission order – the `g`-th physical line of the module is the line that was
    emitted when `lineno` was `g` – provided `write_blanks` is never called while block lines are
    buffered (it does not flush) -/
theorem stream_in_order (evs : List Event) (h : noBlankWhilePending evs = true) :
    (run (evs ++ [.close])).out.map (·.claimed) = List.range' 1 ((run (evs ++ [.close])).lineno - 1) := by
  have hp : ∃ p, pendRun false (evs ++ [.close]) = some p := by
    unfold noBlankWhilePending at h
    cases h1 : pendRun false evs with
    | none => rw [h1] at h; cases h
    | some p =>
      refine ⟨false, ?_⟩
      have : ∀ (q : Bool) (es : List Event) (r : Bool), pendRun q es = some r →
          pendRun q (es ++ [.close]) = some false := by
        intro q es
        induction es generalizing q with
        | nil => intro r _; rfl
        | cons e t ih =>
          intro r hr
          simp only [pendRun, List.cons_append] at hr ⊢
          cases h2 : pendStep q e with
          | none => rw [h2] at hr; cases hr
          | some q1 => rw [h2] at hr; exact ih q1 r hr
      exact this false evs p h1
  obtain ⟨p, hp⟩ := hp
  have ho := ord_runFrom false p init _ hp ord_init
  have hb : (run (evs ++ [.close])).lineBuffer = [] := by rw [run_append]; rfl
  have := ho.order
  rw [show runFrom init (evs ++ [.close]) = run (evs ++ [.close]) from rfl, hb, List.append_nil] at this
  exact this

example : noBlankWhilePending [.writeIndentedBlock "a".toList (some 3), .writeline (some []) none,
    .writeBlanks 2] = true := by decide

/-- the hazard the hypothesis excludes: blanks overtake a pending block (the real printer behaves the
    same; codegen never does this) -/
theorem blank_overtakes_block_counterexample :
    (run [.writeIndentedBlock "a".toList (some 3), .writeBlanks 1, .close]).out.map (·.claimed) = [2, 1] := by
  decide

/-! ## the line map -/

/-- the dense map computed from the sparse `source_map` is, for every generated line, the argument of
    the last `start_source` that took effect before the line was emitted (1 before the first) – for
    every emission sequence -/
theorem full_line_map_eq_marks (evs : List Event) :
    denseMap (run evs) = (run evs).glines.map (·.mark) :=
  denseMap_eq_marks _ (marks_run evs)

/-- what `get_module_source_metadata` computes from the serialised map of a finished module is that
    dense map: one entry per generated line before the metadata block -/
theorem full_line_map_serialised (evs : List Event) :
    fullLineMap (run (evs ++ [.metaMark])).sourceMap = (run evs).glines.map (·.mark) := by
  rw [run_append]
  show fullLineMap (metaMark (run evs)).sourceMap = _
  rw [fullLineMap_eq_dense _ (keysLe_run evs), full_line_map_eq_marks]

/-- **line_map_correct**: in a well-marked emission sequence every generated line that has an owner is
    mapped to its owner -/
theorem line_map_correct (evs : List Event) (h : wellMarked evs = true) (g o : Nat)
    (ho : ownerAt (run evs) g = some o) : fillAt (run evs).sourceMap g = o := by
  unfold wellMarked at h
  cases hw : wmRun {} evs with
  | none => rw [hw] at h; cases h
  | some w =>
    have inv := wminv_runFrom {} w init evs hw wminv_init marks_init
    have hm := marks_run evs
    unfold ownerAt at ho
    split at ho
    · cases ho
    · rename_i hg
      cases hl : (run evs).glines[g - 1]? with
      | none => rw [hl] at ho; cases ho
      | some pl =>
        rw [hl] at ho
        simp only [Option.bind_some] at ho
        have h1 := hm.past (g - 1) pl hl
        have h2 := inv.own (g - 1) pl o hl ho
        have e : g - 1 + 1 = g := by omega
        rw [e] at h1
        rw [h1, h2]

/-- the same for the list a finished module's metadata yields: `full_line_map[g-1] = ownerLine g` -/
theorem line_map_correct_module (evs : List Event) (h : wellMarked evs = true) (g o : Nat)
    (ho : ownerAt (run evs) g = some o) :
    (fullLineMap (run (evs ++ [.metaMark])).sourceMap)[g - 1]? = some o := by
  have h1 := line_map_correct evs h g o ho
  rw [run_append]
  show (fullLineMap (metaMark (run evs)).sourceMap)[g - 1]? = _
  rw [fullLineMap_eq_dense _ (keysLe_run evs)]
  unfold ownerAt at ho
  split at ho
  · cases ho
  · rename_i hg
    cases hl : (run evs).glines[g - 1]? with
    | none => rw [hl] at ho; cases ho
    | some pl =>
      have hlen : g - 1 < (run evs).glines.length := (List.getElem?_eq_some_iff.mp hl).1
      have hgh := (marks_run evs).ghost
      have hlt : g - 1 < (run evs).lineno - 1 := by omega
      simp only [denseMap, List.getElem?_map, List.getElem?_range hlt, Option.map_some]
      have e : g - 1 + 1 = g := by omega
      rw [e, h1]

/-- a non-trivial well-marked sequence: header lines without owner, a text line of template line 1, a
    two-line expression of line 3, a code block of lines 4–6, a control line of line 7 -/
example : wellMarked
    [ .writeline (some "from mako import runtime".toList) none, .writeBlanks 2,
      .startSource 1, .writeline (some "__M_writer('a')".toList) (some 1),
      .startSource 3, .writeline (some "__M_writer(str(x +\n y))".toList) (some 3),
      .writeIndentedBlock "\nz = 1\n".toList (some 4),
      .startSource 7, .writeline (some "for i in z:".toList) (some 7) ] = true := by decide

example : ownerAt (run
    [ .writeline (some "from mako import runtime".toList) none, .writeBlanks 2,
      .startSource 1, .writeline (some "__M_writer('a')".toList) (some 1),
      .startSource 3, .writeline (some "__M_writer(str(x +\n y))".toList) (some 3) ]) 6 = some 3 := by decide

/-- **converse diagnostic**: an emission that forgets its `start_source` shifts the mapping of exactly
    the lines up to the next `start_source` – they inherit the previous mark – and of nothing else.
    (`pre` arbitrary with no entry yet for the current line; `mid` = the lines written under the mark,
    at least one; then the next `start_source m`; then anything.) -/
theorem forgotten_start_source (pre mid post : List Event) (l m : Nat)
    (hfresh : (run pre).sourceMap.lookup (run pre).lineno = none)
    (hmid : ∀ e ∈ mid, e.plain = true) (hn : 1 ≤ physTotal mid) :
    let A := run (pre ++ .startSource l :: (mid ++ .startSource m :: post))
    let B := run (pre ++ (mid ++ .startSource m :: post))
    ∃ tail : List Nat,
      A.lineno = B.lineno ∧
      denseMap A = denseMap (run pre) ++ List.replicate (physTotal mid) l ++ tail ∧
      denseMap B = denseMap (run pre) ++ List.replicate (physTotal mid) (run pre).mark ++ tail ∧
      A.glines.map (·.owner) = B.glines.map (·.owner) := by
  intro A B
  have hk := keysLe_run pre
  have hc : (proj (run pre)).here = false := by simp [proj, hfresh]
  obtain ⟨tail, t1, t2, t3, t4⟩ := forgotten_core (proj (run pre)) hc mid post l m hmid hn
  have pA := proj_runFrom (run pre) (.startSource l :: (mid ++ .startSource m :: post)) hk
  have pB := proj_runFrom (run pre) (mid ++ .startSource m :: post) hk
  have eA : A = runFrom (run pre) (.startSource l :: (mid ++ .startSource m :: post)) := run_append _ _
  have eB : B = runFrom (run pre) (mid ++ .startSource m :: post) := run_append _ _
  have d0 := full_line_map_eq_marks pre
  refine ⟨tail.map (·.mark), ?_, ?_, ?_, ?_⟩
  · have a := congrArg Core.lineno pA.1
    have b := congrArg Core.lineno pB.1
    simp only [proj] at a b
    rw [eA, eB, a, b]; exact t1
  · rw [denseMap_eq_marks A (marks_run _), eA, pA.2.1, List.map_append, t2, d0, List.append_assoc]
  · rw [denseMap_eq_marks B (marks_run _), eB, pB.2.1, List.map_append, t3, d0, List.append_assoc]
    rfl
  · rw [eA, eB, pA.2.1, pB.2.1, List.map_append, List.map_append, t4]

/-- the same when the forgotten `start_source` is the last one of the module -/
theorem forgotten_start_source_last (pre mid : List Event) (l : Nat)
    (hfresh : (run pre).sourceMap.lookup (run pre).lineno = none)
    (hmid : ∀ e ∈ mid, e.plain = true) :
    let A := run (pre ++ .startSource l :: mid)
    let B := run (pre ++ mid)
    A.lineno = B.lineno ∧
    denseMap A = denseMap (run pre) ++ List.replicate (physTotal mid) l ∧
    denseMap B = denseMap (run pre) ++ List.replicate (physTotal mid) (run pre).mark := by
  intro A B
  have hk := keysLe_run pre
  have hc : (proj (run pre)).here = false := by simp [proj, hfresh]
  obtain ⟨t1, t2, t3, _⟩ := forgotten_core_last (proj (run pre)) hc mid l hmid
  have pA := proj_runFrom (run pre) (.startSource l :: mid) hk
  have pB := proj_runFrom (run pre) mid hk
  have eA : A = runFrom (run pre) (.startSource l :: mid) := run_append _ _
  have eB : B = runFrom (run pre) mid := run_append _ _
  have d0 := full_line_map_eq_marks pre
  refine ⟨?_, ?_, ?_⟩
  · have a := congrArg Core.lineno pA.1
    have b := congrArg Core.lineno pB.1
    simp only [proj] at a b
    rw [eA, eB, a, b]; exact t1
  · rw [denseMap_eq_marks A (marks_run _), eA, pA.2.1, List.map_append, t2, d0]
  · rw [denseMap_eq_marks B (marks_run _), eB, pB.2.1, List.map_append, t3, d0]
    rfl

example : (run [.startSource 1, .writeline (some []) (some 1)]).sourceMap.lookup
    (run [.startSource 1, .writeline (some []) (some 1)]).lineno = none := by decide

/-- `start_source` on a generated line that already has an entry is a no-op: the FIRST mapping wins -/
theorem first_mapping_wins (evs : List Event) (a b : Nat) :
    run (evs ++ [.startSource a, .startSource b]) = run (evs ++ [.startSource a]) := by
  have e1 : run (evs ++ [.startSource a, .startSource b])
      = startSource b (startSource a (run evs)) := by
    rw [run_append]; rfl
  have e2 : run (evs ++ [.startSource a]) = startSource a (run evs) := by
    rw [run_append]; rfl
  rw [e1, e2]
  have : ∃ v, (startSource a (run evs)).sourceMap.lookup (startSource a (run evs)).lineno = some v := by
    unfold startSource
    cases h : (run evs).sourceMap.lookup (run evs).lineno with
    | some v => exact ⟨v, by simp [h]⟩
    | none => exact ⟨a, by simp⟩
  obtain ⟨v, hv⟩ := this
  generalize startSource a (run evs) = s1 at hv ⊢
  unfold startSource
  rw [hv]

/-- an entry, once made, is never changed by later emissions (the metadata assignment, which writes
    the end marker, is the only plain assignment) -/
theorem mapping_stable (evs later : List Event) (g v : Nat)
    (hm : ∀ e ∈ later, e.isMeta = false) (h : (run evs).sourceMap.lookup g = some v) :
    (run (evs ++ later)).sourceMap.lookup g = some v := by
  rw [run_append]; exact lookup_runFrom _ _ g v hm h

example : (run [.startSource 5, .startSource 9]).sourceMap.lookup 1 = some 5 := by decide


/-! ## the code generator's call sites (emission skeleton, `Printer/Codegen.lean`)

OPEN (false of the code as it is, see the counterexamples and `known_findings.json` F9a/F9b):

    theorem codegen_line_map_correct (items : List Codegen.Item) (g o : Nat)
        (ho : ownerAt (run (Codegen.emitAll items)) g = some o) :
        fillAt (run (Codegen.emitAll items)).sourceMap g = o
-/

/-- **partial**: the constructs whose observable lines are written under a `start_source` of their own
    line – text, `${}`, control lines, `<% %>` / `<%! %>` blocks, `<%include>`, and since 2159d82 the
    header (with decorator) of a callable whose tag line is what `start_source` gets, inline def
    headers, the `<%call>` wrapper lines, filter / buffer epilogues of defs and blocks, the filter of
    `<%text>`, the cache wrapper's header, `_mako_inherit` – in any number and any order give a
    well-marked sequence.  Still outside: def stubs, `<%block>` call sites, `render_body` opened with
    line 0, and declaration lines that follow an inline def (the counterexamples below). -/
theorem codegen_marked_partial (items : List Codegen.Item) (h : ∀ it ∈ items, it.marked = true) :
    wellMarked (Codegen.emitAll items) = true := by
  obtain ⟨w, hw, _⟩ := Codegen.wm_items items {} rfl h
  simp [wellMarked, hw]

/-- … hence every observable line of such a template is mapped to its owner -/
theorem codegen_line_map_partial (items : List Codegen.Item) (h : ∀ it ∈ items, it.marked = true)
    (g o : Nat) (ho : ownerAt (run (Codegen.emitAll items)) g = some o) :
    fillAt (run (Codegen.emitAll items)).sourceMap g = o :=
  line_map_correct _ (codegen_marked_partial items h) g o ho

example : ∀ it ∈ [Codegen.Item.hdr 0, .blanks 2, .inherit 1, .callableHead 2 2 true true true, .text 1, .expr 3 1,
    .code 4 "\nx = 1\n".toList true, .control 7 true false, .incl 8, .controlEnd true,
    .inlineDefHead 9 true true false, .text 10, .finish 9 true true false false false, .inlineDefTail,
    .callHead 11, .text 12, .finish 11 true false false false false, .callTail 11,
    .textTagHead, .text 13, .textTagTail 13,
    .finish 2 false true false true true, .callableTail, .cacheHead 2 true], it.marked = true := by decide

/-- F9a: `render_body` of a template without `<%page>` is opened with `start_source(0)`: its observable
    preamble lines (strict-undefined `raise NameError`, namespace fetches, def stubs) map to template
    line 0 instead of line 1 -/
theorem body_line_zero_counterexample :
    let s := run (Codegen.emitAll [.hdr 0, .callableHead 1 0 false false false, .mid 1 true 0])
    ownerAt s 5 = some 1 ∧ fillAt s.sourceMap 5 = 0 := by decide

/-- F9b: the stub `def f(): return render_f(…)` of def `f` (tag on line 3) is written without
    `start_source`: in a template with `<%page>` on line 1 its frame is reported on line 1 -/
theorem stub_counterexample :
    let s := run (Codegen.emitAll [.callableHead 1 1 false false false, .stub 3 false])
    ownerAt s 5 = some 3 ∧ fillAt s.sourceMap 5 = 1 := by decide

/-- F9b: the call site of a `<%block>` (tag on line 4) inherits the line of the preceding node -/
theorem block_call_counterexample :
    let s := run (Codegen.emitAll [.callableHead 1 1 false false false, .text 1, .blockCall 4 false])
    ownerAt s 6 = some 4 ∧ fillAt s.sourceMap 6 = 1 := by decide

/-- F9b: the declarations of a callable (`<%page>` on line 3) that follow an inline def in its preamble –
    here the strict-undefined `raise NameError` – inherit the line of the last node of that inline def -/
theorem preamble_after_inline_def_counterexample :
    let s := run (Codegen.emitAll [.callableHead 3 3 false false false, .inlineDefHead 10 false false false,
      .text 12, .finish 10 true true false false false, .inlineDefTail, .mid 3 true 0])
    ownerAt s 11 = some 3 ∧ fillAt s.sourceMap 11 = 12 := by decide

/-! ## `RichTraceback` -/

/-- **frames_classified** (1): a frame whose file name is not a registered template module is passed
    through unchanged – as a record and in the 4-tuples shown by `.traceback` and the error templates -/
theorem frames_classified_plain (reg : Tb.Registry) (f : Tb.Frame) (h : reg.lookup f.filename = none) :
    Tb.rewrite reg f = some ⟨f, none⟩ ∧
    Tb.reformat ⟨f, none⟩ = (f.filename, f.lineno, f.function, f.line) := by
  simp [Tb.rewrite, h, Tb.reformat]

/-- **frames_classified** (2): a frame of a registered template module is rewritten to the template's
    file name, line `full_line_map[lineno-1]`, and – when that is a line of the template – its text -/
theorem frames_classified_template (reg : Tb.Registry) (f : Tb.Frame) (info : Tb.Info) (tl : Nat)
    (h : reg.lookup f.filename = some info) (hl : 1 ≤ f.lineno)
    (hm : info.fullMap[f.lineno - 1]? = some tl) :
    ∃ line, Tb.rewrite reg f = some ⟨f, some (info.templateFilename, tl, line)⟩ ∧
      (1 ≤ tl → tl ≤ info.templateLines.length → line = info.templateLines[tl - 1]?) := by
  have e := Tb.pyGet_pred info.fullMap f.lineno hl
  refine ⟨if tl ≤ info.templateLines.length then Tb.pyGet info.templateLines ((tl : Int) - 1) else none,
    ?_, ?_⟩
  · simp only [Tb.rewrite, h, e, hm]
  · intro h1 h2
    simp only [h2, if_true]
    exact Tb.pyGet_pred _ _ h1

/-- the source text shown for template line `n`: the lines of a template are its `'\n'`-delimited pieces
    and nothing else – whatever stands above the line (form feed, vertical tab, FS/GS/RS, NEL,
    U+2028/U+2029, lone CR; anything that is not `'\n'`) does not shift it.  `above` is everything before
    the newline that precedes the line; the lexer gives the line the number `2 + countNL above`. -/
theorem source_line_is_nth_newline_delimited (above text below : Str) (h : '\n' ∉ text) :
    (Tb.linesOf (above ++ '\n' :: (text ++ '\n' :: below)))[(2 + countNL above) - 1]? = some text ∧
    (Tb.linesOf (above ++ '\n' :: text))[(2 + countNL above) - 1]? = some text := by
  have hl := splitNL_length above
  constructor
  · unfold Tb.linesOf
    rw [splitNL_append, splitNL_append, splitNL_of_clean text h]
    rw [List.getElem?_append_right (by omega)]
    have : 2 + countNL above - 1 - (splitNL above).length = 0 := by omega
    rw [this]; rfl
  · unfold Tb.linesOf
    rw [splitNL_append, splitNL_of_clean text h]
    rw [List.getElem?_append_right (by omega)]
    have : 2 + countNL above - 1 - (splitNL above).length = 0 := by omega
    rw [this]; rfl

/-- … and the first line -/
theorem source_line_first (text below : Str) (h : '\n' ∉ text) :
    (Tb.linesOf (text ++ '\n' :: below))[0]? = some text := by
  unfold Tb.linesOf
  rw [splitNL_append, splitNL_of_clean text h]; rfl

example : (Tb.linesOf "a\x0cb\u2028c\rd\n${1/0}\nlast".toList)[1]? = some "${1/0}".toList := by decide

/-! ### the registry key of a module-file template is the file name Python reports

A frame is rewritten (and a warning translated) only if the file name CPython reports for the module –
always the absolute path – *is* the key mako registered, i.e. the module path computed in
`Template.__init__`.  Whether that path is made absolute there is regenerated per branch
(`Generated.TbCfg.moduleDirectoryPathAbsolute`, `…moduleFilenamePathAbsolute`). -/

/-- named obligation: the `module_directory` branch applies `os.path.abspath` -/
theorem module_directory_path_absolute : Generated.TbCfg.moduleDirectoryPathAbsolute = true := by decide

/-- **for /repo, `module_directory` templates** – whatever spelling of the directory (relative to the working
    directory, un-normalised): the registered key is the reported file name, so the frame is found in the
    registry and rewritten by `Tb.rewrite` -/
theorem module_directory_frames_found (abs : Str → Str) (path : Str) (info : Tb.Info) (reg : Tb.Registry) :
    Tb.registryKey Generated.TbCfg.moduleDirectoryPathAbsolute abs path = Tb.reportedFilename abs path ∧
    (((Tb.registryKey Generated.TbCfg.moduleDirectoryPathAbsolute abs path, info) :: reg).lookup
        (Tb.reportedFilename abs path) = some info) := by
  rw [module_directory_path_absolute]
  simp [Tb.registryKey, Tb.reportedFilename]

/-- named obligation: the `module_filename` branch (also `TemplateLookup(modulename_callable=…)`) applies
    `os.path.abspath` as well (repair 3ef33a0) -/
theorem module_filename_path_absolute : Generated.TbCfg.moduleFilenamePathAbsolute = true := by decide

/-- **for /repo, `module_filename` / `modulename_callable` templates** – absolute or relative to the working
    directory: the registered key is the reported file name, so the frame is found and rewritten -/
theorem module_filename_frames_found (abs : Str → Str) (path : Str) (info : Tb.Info) (reg : Tb.Registry) :
    Tb.registryKey Generated.TbCfg.moduleFilenamePathAbsolute abs path = Tb.reportedFilename abs path ∧
    (((Tb.registryKey Generated.TbCfg.moduleFilenamePathAbsolute abs path, info) :: reg).lookup
        (Tb.reportedFilename abs path) = some info) := by
  rw [module_filename_path_absolute]
  simp [Tb.registryKey, Tb.reportedFilename]

/-- regression form – a module path that is NOT made absolute (`registryKey false`; the `module_filename`
    branch before 3ef33a0, either branch after a revert): the frame is found only when the given path is
    absolute already … -/
theorem module_path_not_absolute_regression (abs : Str → Str) (path : Str) (habs : abs path = path) :
    Tb.registryKey false abs path = Tb.reportedFilename abs path := by
  simp [Tb.registryKey, Tb.reportedFilename, habs]

example : (fun p : Str => if p.head? = some '/' then p else "/cwd/".toList ++ p) "/m/x.py".toList = "/m/x.py".toList := by
  decide

/-- … and (same pre-fix behaviour) with a relative path the key is not the reported name: the template's
    frames are classified as ordinary Python frames (`frames_classified_plain` applies to them) -/
theorem relative_module_path_regression :
    let abs : Str → Str := fun p => if p.head? = some '/' then p else "/cwd/".toList ++ p
    Tb.registryKey false abs "mods/x.py".toList ≠ Tb.reportedFilename abs "mods/x.py".toList ∧
    Tb.rewrite [(Tb.registryKey false abs "mods/x.py".toList,
                 ⟨[1], ["t".toList], "x.html".toList, "t".toList⟩)]
      ⟨Tb.reportedFilename abs "mods/x.py".toList, 1, [], []⟩
      = some ⟨⟨"/cwd/mods/x.py".toList, 1, [], []⟩, none⟩ := by decide

/-- **frames_classified** (3): one record per frame, in order, whatever the mix of template and
    ordinary modules (several templates in one traceback included) -/
theorem frames_classified_all (reg : Tb.Registry) (fs : List Tb.Frame) (rs : List Tb.Record)
    (h : Tb.records reg fs = some rs) : rs.map (·.frame) = fs :=
  Tb.records_frames reg fs rs h

example : Tb.records [("m".toList, ⟨[1, 1, 3], ["a".toList, "b".toList, "c".toList], "t.html".toList, []⟩)]
    [⟨"app.py".toList, 10, "f".toList, "x".toList⟩, ⟨"m".toList, 3, "render_body".toList, "w".toList⟩]
    = some [⟨⟨"app.py".toList, 10, "f".toList, "x".toList⟩, none⟩,
            ⟨⟨"m".toList, 3, "render_body".toList, "w".toList⟩, some ("t.html".toList, 3, some "c".toList)⟩] := by
  decide

/-! The per-file cache `mods` of `_init` either keeps the template source or not (`Tb.recordSources keeps`).
Which one holds for /repo is the regenerated constant `Generated.TbCfg.modsCacheKeepsSource`
(tools/regen_tbcfg.py reads the tuple stored in / unpacked from `mods[filename]`); the stream
`corr.richtraceback_record_source` compares that variant with the real function. -/

/-- named obligation on the regenerated constant: the cache keeps the source (repair bcd673d).  Reverting
    the repair makes the constant `false` and this theorem – and with it the next one – fail. -/
theorem mods_cache_keeps_source : Generated.TbCfg.modsCacheKeepsSource = true := by decide

/-- **for /repo**: every record of every traceback – any number of templates, in any order, alternating
    (A, B, A) included – carries its own template's source, and so does `RichTraceback.source` -/
theorem record_source_is_own_template (reg : Tb.Registry) (fs : List Tb.Frame) :
    Tb.recordSources Generated.TbCfg.modsCacheKeepsSource reg fs
      = fs.map fun f => (reg.lookup f.filename).map (·.source) := by
  rw [mods_cache_keeps_source]
  exact Tb.sourcesFrom_keeps reg ([], none) fs (by intro n own h; simp at h)

example : Tb.recordSources true [("A".toList, ⟨[1], [], "a.html".toList, "src A".toList⟩),
                      ("B".toList, ⟨[1], [], "b.html".toList, "src B".toList⟩)]
      [⟨"A".toList, 1, [], []⟩, ⟨"B".toList, 1, [], []⟩, ⟨"A".toList, 1, [], []⟩]
    = [some "src A".toList, some "src B".toList, some "src A".toList] := by decide

/-- regression form – the behaviour BEFORE bcd673d (`keeps := false`, not /repo's code any more): with a
    cache that does not keep the source the statement holds only while one template module occurs … -/
theorem record_source_single_template_regression (reg : Tb.Registry) (fs : List Tb.Frame)
    (hone : ∀ f ∈ fs, ∀ g ∈ fs, reg.lookup f.filename ≠ none → reg.lookup g.filename ≠ none →
      f.filename = g.filename) :
    Tb.recordSources false reg fs = fs.map fun f => (reg.lookup f.filename).map (·.source) :=
  Tb.sourcesFrom_single reg ([], none) fs (by intro n own h; simp at h) hone (by intro n own h; simp at h)

example : Tb.recordSources false [("A".toList, ⟨[1], [], "a.html".toList, "src A".toList⟩)]
    [⟨"A".toList, 1, [], []⟩, ⟨"rt.py".toList, 9, [], []⟩, ⟨"A".toList, 1, [], []⟩]
    = [some "src A".toList, none, some "src A".toList] := by decide

/-- … and (pre-fix behaviour, `keeps := false`) alternating templates A, B, A gave the second A record B's
    source – what a revert of bcd673d brings back -/
theorem alternating_templates_source_regression :
    Tb.recordSources false [("A".toList, ⟨[1], [], "a.html".toList, "src A".toList⟩),
                      ("B".toList, ⟨[1], [], "b.html".toList, "src B".toList⟩)]
      [⟨"A".toList, 1, [], []⟩, ⟨"B".toList, 1, [], []⟩, ⟨"A".toList, 1, [], []⟩]
    = [some "src A".toList, some "src B".toList, some "src B".toList] := by decide

/-- what a template line of **0** in the map does (finding F9): the record shows the *last* line of
    the template as the source of line 0, and the search for `.lineno` skips the record -/
theorem line_zero_counterexample :
    Tb.rewrite [("m".toList, ⟨[0], ["first".toList, "last".toList], "t".toList, []⟩)]
      ⟨"m".toList, 1, "f".toList, "l".toList⟩
      = some ⟨⟨"m".toList, 1, "f".toList, "l".toList⟩, some ("t".toList, 0, some "last".toList)⟩ ∧
    Tb.pickLine [⟨⟨"app.py".toList, 1, [], []⟩, none⟩,
                 ⟨⟨"m".toList, 1, [], []⟩, some ("t".toList, 0, some "last".toList)⟩] = none := by
  decide

/-- `.lineno` / `.source` are taken from the innermost record that names a template line (a template
    frame whose line is not 0) – wherever it stands in the traceback, the first record included (a
    `RichTraceback` built inside a template; repaired by 2db6592) -/
theorem lineno_from_innermost_template_record (pre post : List Tb.Record) (r : Tb.Record) (fn : Str) (ln : Nat)
    (hr : r.hit = some (fn, ln)) (hpost : ∀ q ∈ post, q.hit = none) :
    Tb.pickLine (pre ++ r :: post) = some (fn, ln) :=
  Tb.pickLine_innermost pre post r fn ln hr hpost

/-- … and the fall-back ("a normal .py file") is taken exactly when no record names a template line -/
theorem lineno_fallback_iff_no_template_line (rs : List Tb.Record) :
    Tb.pickLine rs = none ↔ ∀ q ∈ rs, q.hit = none :=
  Tb.pickLine_none_iff rs

example : Tb.pickLine [⟨⟨"m".toList, 21, [], []⟩, some ("t".toList, 4, some "x = 1/0".toList)⟩]
    = some ("t".toList, 4) := by decide

/-! ## warnings -/

/-- **warning_shown_once**, action `always`: the duplicates raised while the individual fragments are
    parsed (file `<unknown>`) are dropped; every warning raised against the generated module is shown
    exactly once, in order, at `translateLocate` of its position – see `warning_location` -/
theorem warning_shown_once_always (M F : Str) (fm : List Nat) (reg : List Str)
    (parseWs modWs : List (Warn.Phase × Warn.W))
    (hp : ∀ pw ∈ parseWs, Warn.IsParse pw) (hm : ∀ pw ∈ modWs, Warn.IsModule M pw) :
    (Warn.compile .always M F fm reg (parseWs ++ modWs)).shown = modWs.map (fun pw => Warn.shownAs M F fm pw.2) ∧
    (Warn.compile .always M F fm reg (parseWs ++ modWs)).raised = none := by
  unfold Warn.compile
  rw [List.foldl_append, Warn.foldl_parse .always (Or.inl rfl) M F fm _ rfl parseWs hp,
    Warn.foldl_always_module M F fm _ rfl modWs hm]
  simp

/-- **warning_shown_once**, action `once`: nothing is shown for the parse-phase duplicates *and they do
    not use up the once-registry entry* (the hook removes it again); of the module warnings exactly
    the first occurrence of every message text not yet in the registry is shown -/
theorem warning_shown_once_once (M F : Str) (fm : List Nat) (reg : List Str)
    (parseWs modWs : List (Warn.Phase × Warn.W))
    (hp : ∀ pw ∈ parseWs, Warn.IsParse pw) (hm : ∀ pw ∈ modWs, Warn.IsModule M pw) :
    (Warn.compile .once M F fm reg (parseWs ++ modWs)).shown
      = (Warn.onceShown reg (modWs.map (·.2))).map (Warn.shownAs M F fm) ∧
    (Warn.compile .once M F fm reg (parseWs ++ modWs)).raised = none := by
  unfold Warn.compile
  rw [List.foldl_append, Warn.foldl_parse .once (Or.inr rfl) M F fm _ rfl parseWs hp]
  have := Warn.foldl_once_module M F fm { onceReg := reg } rfl modWs hm
  simpa using this

/-- … so under `once` every message text raised against the module and not yet registered is shown
    exactly once -/
theorem warning_once_exactly_once (reg : List Str) (ws : List Warn.W) (w : Warn.W) (hw : w ∈ ws)
    (hs : w.text ∉ reg) :
    ((Warn.onceShown reg ws).map (·.text)).count w.text = 1 := by
  have h1 := (Warn.onceShown_texts_nodup reg ws).1
  have h2 := Warn.onceShown_complete reg ws w hw hs
  have h3 := List.count_pos_iff.mpr h2
  have h4 := (List.nodup_iff_count.mp h1) w.text
  omega

/-- action `error`: the first warning that reaches the filters becomes an exception; nothing is shown -/
theorem warning_error_raises (M F : Str) (fm : List Nat) (reg : List Str) (pw : Warn.Phase × Warn.W)
    (rest : List (Warn.Phase × Warn.W)) :
    (Warn.compile .error M F fm reg (pw :: rest)).raised = some pw.2 ∧
    (Warn.compile .error M F fm reg (pw :: rest)).shown = [] := by
  unfold Warn.compile
  have h1 : Warn.emit .error M F fm { onceReg := reg } pw = { onceReg := reg, raised := some pw.2 } := by
    obtain ⟨ph, w⟩ := pw
    simp [Warn.emit]
  have h2 : ∀ (r : Warn.Result), r.raised.isSome = true →
      rest.foldl (Warn.emit .error M F fm) r = r := by
    intro r hr
    induction rest with
    | nil => rfl
    | cons q t ih => simp [List.foldl_cons, Warn.emit, hr, ih]
  rw [List.foldl_cons, h1, h2 _ rfl]
  simp

/-- every load of a template module – the first one, the load of a *reused* up-to-date module file, the
    load after a regeneration because of a stale magic number / another source file – runs under the
    translation hook, and every regeneration under the drop hook as well: on no path is a warning of the
    module shown against the generated file (string/file templates: `compileTextPlan`; module-directory
    templates: `compileFromFilePlan`, all four cases) -/
theorem every_load_translated (upToDate accepted : Bool) :
    (∀ sp ∈ Warn.compileFromFilePlan upToDate accepted,
        (sp.1 = .load → sp.2 = .module) ∧ (sp.1 = .regen → sp.2 = .parseInModule)) ∧
    (.load, .module) ∈ Warn.compileFromFilePlan upToDate accepted ∧
    (∀ sp ∈ Warn.compileTextPlan, sp.2 ≠ .bare) := by
  cases upToDate <;> cases accepted <;> decide

/-- the hooks active on EACH step of `_compile_from_file`, on both regeneration paths (module file
    missing/stale; loaded module of another magic number or generated from another template file): every
    regeneration runs under both `_translate_module_warnings` and `_drop_expression_warnings` – so the
    warnings of the fragment parses are dropped there too and never shown as `<unknown>:n` –, every load
    under the translation hook only -/
theorem every_regen_under_both_hooks (upToDate accepted : Bool) :
    ∀ sp ∈ Warn.compileFromFilePlan upToDate accepted,
      (sp.1 = .regen → sp.2.translates = true ∧ sp.2.drops = true) ∧
      (sp.1 = .load → sp.2.translates = true ∧ sp.2.drops = false) := by
  cases upToDate <;> cases accepted <;> decide

/-- the second regeneration path exists exactly when the loaded module is not accepted -/
example : Warn.compileFromFilePlan true false = [(.load, .module), (.regen, .parseInModule), (.load, .module)] := by
  decide

/-- what a regeneration outside the drop hook does (phase `module` for a parse-time warning): under
    `once` the `<unknown>` copy is the one shown and uses up the registry entry, under `always` both show -/
example : (Warn.compile .once "M".toList "t.html".toList [1, 1, 7] []
    [(.module, ⟨"w".toList, Warn.exprFilename, 1⟩), (.module, ⟨"w".toList, "M".toList, 3⟩)]).shown
    = [("w".toList, Warn.exprFilename, 1)] := by decide

/-- what the hypothesis `IsModule` of the `warning_shown_once_*` theorems excludes: a warning of the
    module raised outside the hooks is shown untranslated -/
example : (Warn.compile .always "M".toList "t.html".toList [1, 1, 7] []
    [(.bare, ⟨"w".toList, "M".toList, 3⟩)]).shown = [("w".toList, "M".toList, 3)] := by decide

/-- where a module warning is shown: the template's file name and `full_line_map[l-1]`; a warning of
    another file is shown unchanged -/
theorem warning_location (M F : Str) (fm : List Nat) (w : Warn.W) :
    (w.filename = M → ∀ t, 1 ≤ w.lineno → fm[w.lineno - 1]? = some t →
        Warn.shownAs M F fm w = (w.text, F, t)) ∧
    (w.filename ≠ M → Warn.shownAs M F fm w = (w.text, w.filename, w.lineno)) := by
  refine ⟨fun hf t hl ht => ?_, fun hf => ?_⟩
  · have := Warn.translate_hit M F fm w t hf (by rw [Tb.pyGet_pred _ _ hl]; exact ht)
    simp [Warn.shownAs, this]
  · simp [Warn.shownAs, Warn.translate_other M F fm w hf]

example : Warn.compile .once "M".toList "t.html".toList [1, 1, 7] []
    [ (.parse, ⟨"invalid escape".toList, Warn.exprFilename, 1⟩),
      (.module, ⟨"invalid escape".toList, "M".toList, 3⟩),
      (.module, ⟨"invalid escape".toList, "M".toList, 3⟩) ]
    = { shown := [("invalid escape".toList, "t.html".toList, 7)], raised := none,
        onceReg := ["invalid escape".toList] } := by decide

/-- without the removal of the once-registry entry in `_drop_expression_warnings` the warning would be
    lost: a parse-phase duplicate that is *not* dropped through the hook (here: seen outside any hook,
    phase `module` with the expression file name) uses up the entry -/
example : (Warn.compile .once "M".toList "t.html".toList [1, 1, 7] ["invalid escape".toList]
    [ (.module, ⟨"invalid escape".toList, "M".toList, 3⟩) ]).shown = [] := by decide

end MakoModel.C12
