import MakoModel.Extract.Model
import MakoModel.Extract.Lemmas
/-!
# C20 – message extraction finds every translatable string at its template line

All statements are about `MakoModel.Extract` (`mako/ext/extract.py`, `babelplugin.py`, `linguaplugin.py`),
for **all** node trees, **all** finders (the Python-level call finder is an oracle parameter), all tag lists.

Three statements of the property are false for the code as it is; each is kept as an `OPEN` statement (in a
comment), proved with an explicit guard (`…_partial`) and refuted on a witness (`…_counterexample`):

* `every_call_once`   – constructs below tags whose children `extract_nodes` never visits are not handed to the
                        finder: a `<%page>` or `<%inherit>` tag written with a body (mako renders that body;
                        F-C20-9).  (`<%namespace>` bodies are visited; `<%include>` bodies are never rendered and
                        `<%text>` bodies are text.)
* `reported_line`     – Babel and Lingua: wrong when the code string does not start on the node's first line
                        (F7: Python in a tag attribute that starts on a later line of a multi-line tag);
* `translator_comments_window` – a comment block that was not used stays pending and is attached, together
                        with a later block, to a construct further down (F-C20-4).  The related F-C20-5/6/7 –
                        window kept open across text, one copy per matching tag, `splitlines` inside one
                        comment – are part of the model as well: `translator_comments_window_partial` states
                        what is collected (`opened`, `collect`) as the code does it, not as the specification
                        `commentsFor` would.

Everything else is proved without such a guard: filter lists are handed over and located exactly
(`every_python_text_handed`, `reported_line_wrapped_expression`, `reported_line_filter`), Lingua's line
arithmetic is exact under the same guard as Babel's (`reported_line_lingua`).
`reported_line_filter_unpadded_regression` is a labelled regression statement about an earlier form of the wrapper,
not a finding.
-/
namespace MakoModel.C20
open MakoModel.Basic MakoModel.Extract

/-- what an extractor reports about a call, comments aside -/
def core (m : Msg) : Int × Str × Str := (m.line, m.func, m.payload)

/-! ## every call once, nothing from text -/

/- OPEN (false today, see `every_call_once_counterexample`):

theorem every_call_once {α} (tags : List Str) (proc : Proc α) (nodes : List Node) :
    handed tags proc nodes = (sites nodes).map Site.key

"every Python-bearing construct of the template – `sites`: every expression **with its filter list**, control line,
block, def/block/page signature, `<%call>`/`<%ns:def>` argument list, at any depth – is handed to the finder exactly
once, in document order, as the one string `Site.text` that carries its Python, and nothing else is"
-/

/-- The code strings handed to `process_python` (with the line of their node) are exactly the Python-bearing
    constructs of the template that are **not below a tag whose children are skipped** (`Kind.container` says which
    tags have a body of their own: def, block, call, `<%ns:def>`, `<%namespace>`), each once, in document
    order, as the string `Site.text` (the code; for an expression with filters `(code), (filters,)`) – whatever
    `process_python` does and whatever the comment tags are.  Filter lists are included. -/
theorem every_call_once_partial {α} (tags : List Str) (proc : Proc α) (nodes : List Node) :
    handed tags proc nodes = ((sites nodes).filter Site.visible).map Site.key := by
  unfold handed sites
  exact handed_list tags proc nodes St.clean

/-- …and every Python text of such a construct – the code and the filter list – is written, contiguously, in the
    string handed over for it (so a call located in either lies in that one string). -/
theorem every_python_text_handed {α} (tags : List Str) (proc : Proc α) (nodes : List Node) :
    ∀ s ∈ (sites nodes).filter Site.visible, ∀ p ∈ s.parts,
      ∃ h ∈ handed tags proc nodes, h.1 = s.lineno ∧ p <:+: h.2 := by
  intro s hs p hp
  refine ⟨Site.key s, ?_, rfl, Site.parts_in_text s p hp⟩
  rw [every_call_once_partial]
  exact List.mem_map.mpr ⟨s, hs, rfl⟩

/-- Babel: the reported (line, function, messages) are, for every visible Python-bearing construct in document
    order, the finder's hits in that construct's string – every call once, nothing else, for every finder. -/
theorem every_call_reported_once_babel (finder : Finder) (commentTags : List Str) (nodes : List Node) :
    (extractBabel finder commentTags nodes).map core =
      ((sites nodes).filter Site.visible).flatMap fun s =>
        (finder (babelPrep s.text)).map fun h =>
          (((s.lineno : Int) - 1) + ((h.line : Int) - 1), h.func, h.payload) := by
  unfold extractBabel
  rw [extract_by_site _ (babelProc finder) core]
  · simp [babelProc, babelMsg, core, Function.comp_def]
  · intro code l ts
    simp [babelProc, babelMsg, core, Function.comp_def]

/-- Lingua: the same, with lingua's preparation of the source and its line arithmetic. -/
theorem every_call_reported_once_lingua (finder : Finder) (cfgTags : Str) (nodes : List Node) :
    (extractLingua finder cfgTags nodes).map core =
      ((sites nodes).filter Site.visible).flatMap fun s =>
        (finder (linguaPrep s.text)).map fun h =>
          ((((s.lineno : Int) - 1) + (linguaSkipped s.text : Int) - 1) + (h.line : Int), h.func, h.payload) := by
  unfold extractLingua
  rw [extract_by_site _ (linguaProc finder) core]
  · simp [linguaProc, linguaMsg, core, Function.comp_def]
  · intro code l ts
    simp [linguaProc, linguaMsg, core, Function.comp_def]

/-- Nothing is handed over that does not come from a Python-bearing node: the string is that node's code, or – for
    an expression – the wrapper around its code and its filter list.  No `Text`, `<%text>` body, `<%doc>` or `##`
    comment (all of them `Kind.text` / `Kind.comment` nodes) ever reaches the finder. -/
theorem nothing_from_text {α} (tags : List Str) (proc : Proc α) (nodes : List Node) :
    ∀ p ∈ handed tags proc nodes,
      ∃ m ∈ allNodesList nodes, m.kind.pythonBearing = true ∧ p.1 = m.lineno ∧
        (p.2 = m.code ∨ (m.kind = .expr ∧ p.2 = wrapExpr m.code m.esc m.escOff)) := by
  intro p hp
  rw [every_call_once_partial] at hp
  obtain ⟨s, hs, rfl⟩ := List.mem_map.mp hp
  obtain ⟨hs1, _⟩ := List.mem_filter.mp hs
  obtain ⟨m, hm, hk, hl, hc, hf⟩ := sites_from_nodes_list false nodes s hs1
  refine ⟨m, hm, hk, by simp [Site.key, hl], ?_⟩
  rcases hf with hf | ⟨he, hf, ho⟩
  · left; simp [Site.key, Site.text, hf, hc]
  · by_cases h0 : s.filter = []
    · left; simp [Site.key, Site.text, h0, hc]
    · right
      have h1 : m.esc ≠ [] := hf ▸ h0
      exact ⟨he, by simp [Site.key, Site.text, hc, hf, ho, wrapExpr, h1]⟩

/-- `${x | f(_('m'))}` -/
def witnessFilter : List Node :=
  [.mk .expr 1 ['x', ' '] ['f', '(', '_', '(', '\'', 'm', '\'', ')', ')'] 0 [] []]

/-- a finder that knows the one call of the witness: in `(x ), (f(_('m')),)` it is on line 2 of `"\n" + code` -/
def finderFilter : Finder := fun c =>
  if c = babelPrep (wrapExpr ['x', ' '] ['f', '(', '_', '(', '\'', 'm', '\'', ')', ')'] 0)
  then [⟨2, ['_'], ['m'], []⟩] else []

/-- non-vacuity, and the former F10 witness: the call in the filter list of `${x | f(_('m'))}` is now reported,
    on line 1 -/
example : extractBabel finderFilter [] witnessFilter = [⟨1, ['_'], ['m'], []⟩] ∧
    handed [] (babelProc finderFilter) witnessFilter = (sites witnessFilter).map Site.key := by decide

/-- `<%namespace name="n"><%def name="f()">${_('m')}</%def></%namespace>` -/
def witnessNs : List Node :=
  [.mk .namespaceTag 1 [] [] 0 [] [.mk .defTag 1 ['d', 'e', 'f', ' ', 'f', '(', ')', ':', 'p', 'a', 's', 's'] [] 0 []
    [.mk .expr 1 ['_', '(', '\'', 'm', '\'', ')'] [] 0 [] []]]]

/-- non-vacuity: the def written inside a `<%namespace>` tag and the expression in it are handed over -/
example : handed [] (babelProc finderFilter) witnessNs = (sites witnessNs).map Site.key ∧
    (handed [] (babelProc finderFilter) witnessNs).length = 2 := by decide

/-- `<%page args="x">${_('m')}</%page>` – mako renders the body of a `<%page>` tag that is not self-closed -/
def witnessPageBody : List Node :=
  [.mk .pageTag 1 ['d', 'e', 'f', ' ', 'A', 'N', 'O', 'N', '(', 'x', ')', ':', 'p', 'a', 's', 's'] [] 0 []
    [.mk .expr 1 ['_', '(', '\'', 'm', '\'', ')'] [] 0 [] []]]

/-- the body of a `<%page>` tag is never visited: only the signature is handed over -/
theorem every_call_once_counterexample :
    (handed [] (babelProc finderFilter) witnessPageBody).length = 1 ∧
    ((sites witnessPageBody).map Site.key).length = 2 := by
  decide

/-- non-vacuity: a def with a signature, an expression with a filter and a control line -/
example : handed [] (babelProc finderFilter)
    [.mk .defTag 1 ['d'] [] 0 [] [.mk .expr 2 ['a'] ['h'] 0 [] [], .mk .text 2 [] [] 0 ['t'] []],
     .mk .ctl 4 ['i', 'f', ' ', 'x', ':'] [] 0 [] [], .mk .ctlEnd 5 [] [] 0 [] []]
    = [(1, ['d']), (2, ['(', 'a', ')', ',', ' ', '(', 'h', ',', ')']), (4, ['i', 'f', ' ', 'x', ':'])] := by decide

/-! ## the reported line -/

/- OPEN (false today, see `reported_line_counterexample` (F7)):

theorem reported_line (src code : Str) (nodeStart start pos j : Nat) (ts : List Str) (h : Hit)
    (hnode : nodeStart ≤ start)                                         -- the code lies inside the node
    (hpos : start ≤ pos)
    (halign : countNL (slice src start pos) = countNL (code.take j))
    (hh : h.line = lineOf (babelPrep code) (j + 1)) :
    (babelMsg ((lineOf src nodeStart : Int) - 1) ts h).line = lineOf src pos
    -- and the same for `linguaMsg` with `h.line = lineOf (linguaPrep code) …`
-/

/-- Babel.  A call at offset `j` of a code string, which the finder locates on line `lineOf ("\n" ++ code) (j+1)`,
    sits at offset `pos` of the template; the code string is line-aligned with the source (as many newlines
    between its start and the call as in the code before the call – true for verbatim code and for every
    transformation mako applies: CRLF→LF, margin removal, a one-line prefix such as `def `).
    **Guard: the code string starts on the node's first line** (`hfirst`; together with `halign` this excludes code
    assembled from pieces that are further apart in the template than in the string: attributes on later lines of a
    tag).  Then the reported line is the line of the call. -/
theorem reported_line_partial (src code : Str) (start pos j nodeLine : Nat) (ts : List Str) (h : Hit)
    (hfirst : lineOf src start = nodeLine)
    (hpos : start ≤ pos)
    (halign : countNL (slice src start pos) = countNL (code.take j))
    (hh : h.line = lineOf (babelPrep code) (j + 1)) :
    (babelMsg ((nodeLine : Int) - 1) ts h).line = lineOf src pos := by
  have h1 := lineOf_add src start pos hpos
  have h2 := lineOf_prep code j
  simp only [babelMsg, hh, h2, h1, halign, ← hfirst]
  push_cast
  omega

/-- the verbatim case: the code string is a slice of the template -/
theorem reported_line_verbatim (src code : Str) (start j nodeLine : Nat) (ts : List Str) (h : Hit)
    (hembed : slice src start (start + code.length) = code)
    (hfirst : lineOf src start = nodeLine)
    (hj : j ≤ code.length)
    (hh : h.line = lineOf (babelPrep code) (j + 1)) :
    (babelMsg ((nodeLine : Int) - 1) ts h).line = lineOf src (start + j) := by
  apply reported_line_partial src code start (start + j) j nodeLine ts h hfirst (by omega) _ hh
  rw [slice_take_of_embed src code start j hembed hj]

/-- Expressions with filters are handed over as `(code), (<padding>filters,)`.  The `(` is put in front of the code **on the
    same line**, so for a call in the expression itself nothing changes: `reported_line_partial` applies with the
    call's offset shifted by one (`wrap_take_code`: as many newlines before it in the wrapper as in the code). -/
theorem reported_line_wrapped_expression (src c e : Str) (off start j nodeLine : Nat) (ts : List Str) (h : Hit)
    (hembed : slice src start (start + c.length) = c)
    (hfirst : lineOf src start = nodeLine)
    (hj : j ≤ c.length)
    (hh : h.line = lineOf (babelPrep (wrapExpr c e off)) (j + 1 + 1)) :
    (babelMsg ((nodeLine : Int) - 1) ts h).line = lineOf src (start + j) := by
  apply reported_line_partial src (wrapExpr c e off) start (start + j) (j + 1) nodeLine ts h hfirst (by omega) _ hh
  rw [slice_take_of_embed src c start j hembed hj, wrap_take_code c e off j hj]

/-- A call at offset `k` of the filter list.  The template reads `… ${` `c` `|` `ws` `e` `…}` (`c` = the expression
    up to the `|`, `e` = the stripped filter list, `ws` = the whitespace `strip()` removed in front of it); the lexer
    records `off` = the number of line breaks in `c` and `ws` (`escapes_lineno_offset`), and `extract_nodes` pads the
    wrapper with the line breaks of `ws`.  The reported line is the line of the call – **no guard**: the filter list
    may start on any line after the `|`. -/
theorem reported_line_filter (pre c ws e post : Str) (off k nodeLine : Nat) (ts : List Str) (h : Hit)
    (hfirst : lineOf (pre ++ (c ++ '|' :: ws ++ e) ++ post) pre.length = nodeLine)
    (hoff : off = countNL c + countNL ws)
    (hk : k ≤ e.length)
    (hh : h.line = lineOf (babelPrep (wrapExpr c e off)) (c.length + 5 + (off - countNL c) + k + 1)) :
    (babelMsg ((nodeLine : Int) - 1) ts h).line =
      lineOf (pre ++ (c ++ '|' :: ws ++ e) ++ post) (pre.length + ((c ++ '|' :: ws).length + k)) := by
  apply reported_line_partial _ (wrapExpr c e off) pre.length _ (c.length + 5 + (off - countNL c) + k) nodeLine ts h
    hfirst (by omega) _ hh
  rw [wrap_take_filter c e off k hk]
  have hs : slice (pre ++ (c ++ '|' :: ws ++ e) ++ post) pre.length (pre.length + ((c ++ '|' :: ws).length + k))
      = (c ++ '|' :: ws) ++ e.take k := by
    simp only [slice, Nat.add_sub_cancel_left, List.append_assoc, List.drop_left]
    have := take_prefix_add (c ++ '|' :: ws) e post k hk
    simpa [List.append_assoc] using this
  rw [hs]
  simp [countNL_append, countNL_cons, hoff]
  omega

/-- REGRESSION (not a statement about today's code): with the wrapper of 5365b81, i.e. without the padding
    (`off = 0`), `${x |\n f(_('m'))}` – filter list on line 2 – was reported on line 1.  Kept so that a model that
    falls back to the unpadded wrapper is seen to violate `reported_line_filter`. -/
theorem reported_line_filter_unpadded_regression :
    let pre := ['$', '{']
    let c := ['x', ' ']
    let ws := ['\n', ' ']
    let e := ['f', '(', '_', '(', '\'', 'm', '\'', ')', ')']
    let src := pre ++ (c ++ '|' :: ws ++ e) ++ ['}']
    let old : Hit := ⟨lineOf (babelPrep (wrapExpr c e 0)) (c.length + 5 + 0 + 2 + 1), ['_'], ['m'], []⟩
    let new : Hit := ⟨lineOf (babelPrep (wrapExpr c e 1)) (c.length + 5 + (1 - countNL c) + 2 + 1), ['_'], ['m'], []⟩
    lineOf src pre.length = 1 ∧ lineOf src (pre.length + ((c ++ '|' :: ws).length + 2)) = 2 ∧
    (babelMsg ((1 : Nat) - 1 : Int) [] old).line = 1 ∧ (babelMsg ((1 : Nat) - 1 : Int) [] new).line = 2 := by
  decide

/-- non-vacuity of `reported_line_filter`: `a\n${x |\n\n f(_)}` – node on line 2, filter list on line 4,
    call `_` at offset 2 of the filter list, reported on line 4 -/
example :
    let pre := ['a', '\n', '$', '{']
    let c := ['x', ' ']
    let ws := ['\n', '\n', ' ']
    let e := ['f', '(', '_', ')']
    let src := pre ++ (c ++ '|' :: ws ++ e) ++ ['}']
    lineOf src pre.length = 2 ∧ (2 : Nat) = countNL c + countNL ws ∧ 2 ≤ e.length ∧
    (babelMsg ((2 : Nat) - 1 : Int) [] ⟨lineOf (babelPrep (wrapExpr c e 2)) (c.length + 5 + (2 - countNL c) + 2 + 1), [], [], []⟩).line
      = lineOf src (pre.length + ((c ++ '|' :: ws).length + 2)) ∧
    lineOf src (pre.length + ((c ++ '|' :: ws).length + 2)) = 4 := by
  decide

/-- non-vacuity: `x\n<%\n _%>` – the block starts on line 2 (offset 2), its code `"\n _"` at offset 4 (still line 2),
    the call at offset 2 of the code is on line 3 of the template -/
example :
    let src := ['x', '\n', '<', '%', '\n', ' ', '_', '%', '>']
    let code := ['\n', ' ', '_']
    slice src 4 (4 + code.length) = code ∧ lineOf src 4 = 2 ∧ 2 ≤ code.length ∧
    countNL (slice src 4 (4 + 2)) = countNL (code.take 2) ∧
    (babelMsg ((2 : Nat) - 1 : Int) [] ⟨lineOf (babelPrep code) (2 + 1), [], [], []⟩).line = lineOf src (4 + 2) := by
  decide

/-- F7: `<%def\n name="f(a=_('a'))">` – the node starts on line 1, the signature (and the call) on line 2;
    the code handed over is one line, so line 1 is reported. -/
theorem reported_line_counterexample :
    let src := ['<', '%', 'd', 'e', 'f', '\n', ' ', 'n', 'a', 'm', 'e', '=', '"', 'f', '(', 'a', '=', '_',
                '(', '\'', 'a', '\'', ')', ')', '"', '>']
    let code := ['d', 'e', 'f', ' ', 'f', '(', 'a', '=', '_', '(', '\'', 'a', '\'', ')', ')', ':', 'p', 'a', 's', 's']
    let h : Hit := ⟨lineOf (babelPrep code) (8 + 1), ['_'], ['a'], []⟩
    (0 : Nat) ≤ 13 ∧ countNL (slice src 13 17) = countNL (code.take 8) ∧
    (babelMsg ((lineOf src 0 : Int) - 1) [] h).line = 1 ∧ lineOf src 17 = 2 := by
  decide

/-- Lingua (since ee690ea).  Verbatim code; the call is at offset `i` of the left-stripped code, and up to it the
    prepared source (`strip`, fragment completion) is the left-stripped code.  The lines `strip()` removes in front
    are counted (`linguaSkipped`) and added back, so – **same guard as for Babel: the code string starts on the
    node's first line** – the reported line is the line of the call. -/
theorem reported_line_lingua (src code : Str) (start i nodeLine : Nat) (ts : List Str) (h : Hit)
    (hembed : slice src start (start + code.length) = code)
    (hfirst : lineOf src start = nodeLine)
    (hi : i ≤ (lstrip code).length)
    (hprep : (linguaPrep code).take i = (lstrip code).take i)
    (hh : h.line = lineOf (linguaPrep code) i) :
    (linguaMsg ((nodeLine : Int) - 1) (linguaSkipped code) ts h).line =
      lineOf src (start + (lead code).length + i) := by
  have hcode := lead_append_lstrip code
  have hlen : (lead code).length + (lstrip code).length = code.length := by
    rw [← List.length_append, hcode]
  have h1 := lineOf_add src start (start + (lead code).length + i) (by omega)
  have hs : slice src start (start + (lead code).length + i) = lead code ++ (lstrip code).take i := by
    rw [Nat.add_assoc, slice_take_of_embed src code start _ hembed (by omega)]
    have := take_length_add_append (lead code) (lstrip code) i
    rw [hcode] at this
    exact this
  rw [hs, countNL_append] at h1
  have h2 : lineOf (linguaPrep code) i = 1 + countNL ((lstrip code).take i) := by
    simp only [lineOf, hprep]
  simp only [linguaMsg, hh, h2, h1, linguaSkipped_eq, ← hfirst]
  push_cast
  omega

/-- non-vacuity: `x\n${\n\n _('a')}` – the expression starts on line 2, two newlines are stripped in front of the
    code, the call is on line 4 and line 4 is reported -/
example :
    let src := ['x', '\n', '$', '{', '\n', '\n', ' ', '_', '(', '\'', 'a', '\'', ')', '}']
    let code := ['\n', '\n', ' ', '_', '(', '\'', 'a', '\'', ')']
    slice src 4 (4 + code.length) = code ∧ lineOf src 4 = 2 ∧ 0 ≤ (lstrip code).length ∧
    (linguaPrep code).take 0 = (lstrip code).take 0 ∧ (lead code).length = 3 ∧
    (linguaMsg ((2 : Nat) - 1 : Int) (linguaSkipped code) [] ⟨lineOf (linguaPrep code) 0, [], [], []⟩).line = 4 ∧
    lineOf src (4 + 3 + 0) = 4 := by
  decide

/-! ## the translator-comment window -/

/- OPEN (false today, see `translator_comments_window_counterexample`):

theorem translator_comments_window {α} (tags : List Str) (proc : Proc α) (pre : List Node) (n : Node)
    (hn : n.kind.pythonBearing = true) :
    ((runNode tags proc n (stateAfter tags proc pre St.clean)).1.head?).map (·.ts)
      = some (commentsFor tags pre n.lineno)

"the translator strings passed along with a construct are exactly the lines of the run of ## comments directly
before it, from the first tagged one on, iff that run ends on the line immediately before the construct"
-/

/-- The canonical layout, for every `process_python`, every tag list, every surrounding:
    `pre` leaves a clean state (the start of a node list, or a construct whose messages used the pending
    comments); `cmt` is a comment starting with a configured tag; `more` are further comments (all collected),
    text and tags the extractor ignores; `n` is the next Python-bearing construct.  Then exactly one call of
    `process_python` is made for `n`, and the translator strings it gets are **all** collected lines **iff**
    the last of them is on the line immediately before `n` (or on `n`'s own line), and **none** otherwise. -/
theorem translator_comments_window_partial {α} (tags : List Str) (proc : Proc α)
    (pre : List Node) (cmt : Node) (more : List Node) (n : Node) (post : List Node)
    (hpre : stateAfter tags proc pre St.clean = St.clean)
    (hc : cmt.kind = .comment)
    (htag : tags.any (fun t => t.isPrefixOf (strip cmt.text)) = true)
    (hmore : ∀ m ∈ more, m.kind = .comment ∨ m.kind = .text ∨ m.kind = .other)
    (hn : n.kind.pythonBearing = true) :
    ∃ inv rest,
      runNodes tags proc (pre ++ cmt :: (more ++ n :: post)) St.clean =
        runNodes tags proc pre St.clean ++ inv :: rest ∧
      inv.lineno = n.lineno ∧ inv.code = selectCode n.kind n.code n.esc n.escOff ∧
      inv.out = proc inv.code ((n.lineno : Int) - 1) inv.ts ∧
      inv.ts = (if n.lineno ≤ lastLine (opened tags cmt.lineno cmt.text ++ collect more) + 1
                then (opened tags cmt.lineno cmt.text ++ collect more).map (·.2) else []) := by
  have hs := window_shape tags proc pre cmt more n post hpre hc htag hmore
  obtain ⟨kids, hk⟩ := runNode_python tags proc n ⟨opened tags cmt.lineno cmt.text ++ collect more, true⟩ hn
  rw [hk] at hs
  refine ⟨_, _, hs, rfl, rfl, rfl, ?_⟩
  simp only [pendingFor_eq]
  by_cases hl : (opened tags cmt.lineno cmt.text ++ collect more) = []
  · simp [hl]
  · by_cases hlt : n.lineno ≤ lastLine (opened tags cmt.lineno cmt.text ++ collect more) + 1
    · have : ¬ (lastLine (opened tags cmt.lineno cmt.text ++ collect more) + 1 < n.lineno) := by omega
      simp [hl, hlt, this]
    · have : lastLine (opened tags cmt.lineno cmt.text ++ collect more) + 1 < n.lineno := by omega
      simp [hl, hlt, this]

/-- the iff, spelled out: attached iff adjacent -/
theorem translator_comments_attached_iff (lines : List (Nat × Str)) (lineno : Nat) (hl : lines ≠ []) :
    ((pendingFor lines lineno).map (·.2) = lines.map (·.2) ↔ lineno ≤ lastLine lines + 1) ∧
    ((pendingFor lines lineno).map (·.2) = [] ↔ lastLine lines + 1 < lineno) := by
  rw [pendingFor_eq]
  by_cases h : lastLine lines + 1 < lineno
  · simp [hl, h] <;> omega
  · simp [hl, h] <;> omega

/-- non-vacuity: a two-line comment block ending on line 2 is kept for a construct on line 3, dropped on line 4 -/
example :
    let lines : List (Nat × Str) := [(1, ['T', 'R', ':']), (2, ['x'])]
    lines ≠ [] ∧ (pendingFor lines 3).map (·.2) = [['T', 'R', ':'], ['x']] ∧ (pendingFor lines 4).map (·.2) = [] := by
  decide

/-- "cleared afterwards" and "separated by other constructs": once a Python-bearing construct has yielded a
    message, the state is clean – whatever follows is extracted as if no comment had ever been seen. -/
theorem translator_comments_cleared_after_use {α} (tags : List Str) (proc : Proc α) (pre : List Node) (n : Node)
    (post : List Node) (hn : n.kind.pythonBearing = true)
    (hused : proc (selectCode n.kind n.code n.esc n.escOff) ((n.lineno : Int) - 1)
      ((pendingFor (stateAfter tags proc pre St.clean).tc n.lineno).map (·.2)) ≠ []) :
    runNodes tags proc (pre ++ n :: post) St.clean =
      runNodes tags proc (pre ++ [n]) St.clean ++ runNodes tags proc post St.clean := by
  have e : pre ++ n :: post = (pre ++ [n]) ++ post := by simp
  rw [e, runNodes_append (a := pre ++ [n]), stateAfter_append]
  obtain ⟨kids, hk⟩ := runNode_python tags proc n (stateAfter tags proc pre St.clean) hn
  generalize proc (selectCode n.kind n.code n.esc n.escOff) ((n.lineno : Int) - 1)
    ((pendingFor (stateAfter tags proc pre St.clean).tc n.lineno).map (·.2)) = out at hk hused
  simp only [stateAfter, hk]
  cases out with
  | nil => exact absurd rfl hused
  | cons a as => rfl

/-- Babel attaches the translator strings to every message of the construct (before the finder's own comments). -/
theorem translator_comments_on_every_message (finder : Finder) (code : Str) (l : Int) (ts : List Str) :
    ∀ m ∈ babelProc finder code l ts, ∃ h ∈ finder (babelPrep code), m.comments = ts ++ h.comments := by
  intro m hm
  obtain ⟨h, hh, rfl⟩ := List.mem_map.mp hm
  exact ⟨h, hh, rfl⟩

/-- `## TR: a` / `${foo()}` / `## TR: b` / `${_('m')}` -/
def witnessStale : List Node :=
  [.mk .comment 1 [] [] 0 ['T', 'R', ':', ' ', 'a'] [],
   .mk .expr 2 ['f', 'o', 'o', '(', ')'] [] 0 [] [],
   .mk .comment 3 [] [] 0 ['T', 'R', ':', ' ', 'b'] []]

def witnessStaleN : Node := .mk .expr 4 ['_', '(', '\'', 'm', '\'', ')'] [] 0 [] []

def finderStale : Finder := fun c =>
  if c = babelPrep ['_', '(', '\'', 'm', '\'', ')'] then [⟨2, ['_'], ['m'], []⟩] else []

/-- The first comment is two lines and one construct away from `_('m')`, yet it is attached to it: a block that
    was not used stays pending, and only the *last* pending line is compared with the construct's line. -/
theorem translator_comments_window_counterexample :
    ((runNode [['T', 'R', ':']] (babelProc finderStale) witnessStaleN
        (stateAfter [['T', 'R', ':']] (babelProc finderStale) witnessStale St.clean)).1.head?).map (·.ts)
      = some [['T', 'R', ':', ' ', 'a'], ['T', 'R', ':', ' ', 'b']] ∧
    commentsFor [['T', 'R', ':']] witnessStale 4 = [['T', 'R', ':', ' ', 'b']] ∧
    extractBabel finderStale [['T', 'R', ':']] (witnessStale ++ [witnessStaleN]) =
      [⟨4, ['_'], ['m'], [['T', 'R', ':', ' ', 'a'], ['T', 'R', ':', ' ', 'b']]⟩] := by
  decide

/-- non-vacuity of `translator_comments_window_partial` / `_cleared_after_use`: the layout of mako's own test
    (`## TR: c` on line 2, blank text, `${_('m')}` on line 3) – attached; the same construct on line 4 – not. -/
example :
    extractBabel finderStale [['T', 'R', ':']]
      [.mk .text 1 [] [] 0 ['\n'] [], .mk .comment 2 [] [] 0 ['T', 'R', ':', ' ', 'c'] [],
       .mk .text 3 [] [] 0 [' ', ' '] [], .mk .expr 3 ['_', '(', '\'', 'm', '\'', ')'] [] 0 [] [],
       .mk .expr 4 ['_', '(', '\'', 'm', '\'', ')'] [] 0 [] []]
      = [⟨3, ['_'], ['m'], [['T', 'R', ':', ' ', 'c']]⟩, ⟨4, ['_'], ['m'], []⟩] ∧
    extractBabel finderStale [['T', 'R', ':']]
      [.mk .comment 1 [] [] 0 ['T', 'R', ':', ' ', 'c'] [], .mk .text 2 [] [] 0 ['\n'] [],
       .mk .expr 3 ['_', '(', '\'', 'm', '\'', ')'] [] 0 [] []]
      = [⟨3, ['_'], ['m'], []⟩] := by
  decide

end MakoModel.C20
