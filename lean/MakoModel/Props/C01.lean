import MakoModel.Lexer.Plain
import MakoModel.Codegen.RenderLiteral
/-!
# C01 – literal text and the documented escapes are reproduced exactly; lexing terminates

Theorems about `MakoModel.Lexer.lex` (the model of `mako.lexer.Lexer.parse`, tied to /repo by the correspondence
streams of `harness/props/C01.py`), for **all** strings `s : List Char` and all configurations `cfg`
(`Cfg.asFound` = the code before the F1 repair, `Cfg.fixed` = with the repair, `Cfg.current` = what /repo is now,
regenerated – equal to `Cfg.fixed`, see `current_is_fixed`).  A token `t` accounts for the source span `t.raw s = s[t.start, t.stop)`.
The last section carries literal text and the escapes through codegen and the target semantics (helpers in
`Codegen/RenderLiteral.lean`).

OPEN / partial:
* (repaired, kept as regression detectors in the harness: F1/F1b, F2, F14, F15)
* recorded finding F1c (`match_percent` reads `\s*` where the other line regexes read `[\t ]*`) – no theorem here
  is conditional on it; it is visible in `text_fidelity`'s percent clause (`ws` ranges over `\s`) and in the
  `\s*%%`-at-the-start condition of `Plain`;
* `render_documented_escapes_partial` is soundness of the escapes, not equality with an independent expected
  string (see its docstring);
* no step-count (time) theorem: termination and the iteration bound are proved, the time of CPython's `re` is a
  timing test in the harness;
* `history_*` theorems are about the code before the F1 repair (`Cfg.asFound`), kept as documentation.
-/
namespace MakoModel.C01
open MakoModel.Lexer MakoModel.Basic

/-- the matcher cascade modelled in `Lexer.matchers` is the cascade of `Lexer.parse` (regenerated from /repo) -/
theorem matcher_order_is_modelled : Generated.LexerCfg.matcherOrder = matcherNames := by decide

/-- `parse` measures the text it lexes: `self.textlength = len(self.text)` comes after the preprocessor loop and
    before the main loop (regenerated from /repo; moving the assignment breaks this obligation) -/
theorem textlength_is_lexed_length : Generated.LexerCfg.textlengthIsLexedLength = true := by decide

/-- The Python inside a directive is checked by the node constructors, outside the lexer model (the model's
    parameter); what the property needs from that side is that a rejection by CPython's parser – of whatever
    exception class: `SyntaxError`, `ValueError`, `UnicodeEncodeError` for a lone surrogate, `MemoryError` /
    `RecursionError` for very deep nesting – leaves `Lexer.parse` as a Mako `SyntaxException`: the handler in
    `mako/pyparser.py: parse` is `Exception`-wide (regenerated from /repo; narrowing it breaks this obligation, and
    the hostile-Python oracle stream of the harness then shows the raw exception). -/
theorem python_errors_are_wrapped : Generated.LexerCfg.pyparserWrapsEveryException = true := by decide

/-- … and Python that CPython's parser *accepts* but that is nested deeper than the recursive identifier visitors
    can follow (a chain of a few hundred `+`, attribute accesses, `lambda:` …) is refused the same way: the three
    visitor entry points of `mako/ast.py` (`PythonCode`, `ArgumentList`, `FunctionDecl`) go through
    `pyparser.visit`, which turns `RecursionError` into a Mako `SyntaxException` (regenerated from /repo since the
    repair 8d3f80e of finding F15; reverting it breaks this obligation, and the hostile-Python stream reports
    site `identifier-visitor-recursionerror` again). -/
theorem deep_python_is_refused_not_crashed : Generated.LexerCfg.visitorsGuarded = true := by decide

/-! ## termination and progress -/

/-- Every pass through the matcher cascade that continues the loop strictly advances the cursor and keeps
    the loop invariant (`Inv`: cursor inside the source, `lineno` = line of the cursor, tokens so far tile
    `s[0, pos)` and carry correct coordinates). -/
theorem lex_progress (cfg : Cfg) (s : Str) (st st' : State) (hinv : Inv cfg s st) (hlt : st.pos < s.length)
    (h : runMatchers s (matchers cfg s) st = .cont st') : st.pos < st'.pos ∧ Inv cfg s st' := by
  have := runMatchers_ok s (matchers cfg s) (matchers_ok cfg s) st st hinv hlt (Nat.le_refl _)
  rw [h] at this
  exact ⟨this.2, this.1⟩

/-- the state `parse` starts the loop in (after the magic encoding comment) satisfies the invariant -/
theorem lex_init_invariant (cfg : Cfg) (s : Str) : Inv cfg s (initState s) := initState_inv s

example : (match runMatchers (lit "a${x}") (matchers Cfg.asFound (lit "a${x}")) (initState (lit "a${x}")) with
    | .cont st' => decide (st'.pos = 1) | _ => false) = true := by decide +kernel

/-- Lexing terminates: the fuel `|s|+2` of the main loop (and the fuel of `parse_until_text`'s inner loop) is
    never exhausted, and the main loop runs at most `|s|+1` times. -/
theorem lex_terminates (cfg : Cfg) (s : Str) :
    (lex cfg s).outcome ≠ .outOfFuel ∧ (lex cfg s).iters ≤ s.length + 1 := by
  have h := lex_ok cfg s
  exact ⟨h.fuel, by have := h.iters; omega⟩

/-- `raise MakoException("assertion failed")` at the end of the loop body is dead code: `match_text` always
    answers. -/
theorem lex_never_assertion (cfg : Cfg) (s : Str) : (lex cfg s).outcome ≠ .error .assertionFailed 0 0 :=
  (lex_ok cfg s).noAssert

/-! ## accounting -/

/-- **Accounting with the skipped characters named** (true of the code as found *and* as fixed).
    When lexing succeeds, the raw spans of the tokens – nodes, closing tags, the encoding comment, bare
    backslash-newlines *and the characters stepped over by the empty-match rule* – are contiguous, in order,
    start at 0, end at `|s|`, and concatenate to `s`; and every `skipped` token is exactly one character at a
    `SkipSite`: a place where `match_text`'s regex matched the empty string (and the code does not emit the
    character), or the `<` of a `</%text>` directly after `<%text>` (and the code does not step back). -/
theorem lex_accounts_with_skipped (cfg : Cfg) (s : Str) (hok : (lex cfg s).outcome = .ok) :
    Chain (lex cfg s).toks 0 s.length
    ∧ ((lex cfg s).toks.map (Token.raw s)).flatten = s
    ∧ ∀ t ∈ (lex cfg s).toks, t.payload = .skipped → t.stop = t.start + 1 ∧ SkipSite cfg s t.start := by
  have h := lex_ok cfg s
  have hc := h.chain hok
  have ht := h.toks hok
  refine ⟨hc, ?_, ?_⟩
  · have := (Chain.flatten s hc (fun t m => (ht t m).le)).2
    rw [this, slice_zero_length]
  · intro t m hp
    have := (ht t m).faithful
    unfold Faithful at this
    rw [hp] at this
    exact this

example : (lex Cfg.asFound (lit "x\n% if y:\n${ y | h }\\\n% endif\n<%text>z</%text>")).outcome = .ok := by
  decide +kernel

/-- **Accounting, code with the proposed patches**: no character is skipped – every token is a node, a
    closing tag, the encoding comment or a bare backslash-newline, and their spans tile the source. -/
theorem lex_accounts_fixed (cfg : Cfg) (he : cfg.emitSkipped = true) (hb : cfg.textTagStepBack = true) (s : Str)
    (hok : (lex cfg s).outcome = .ok) :
    ((lex cfg s).toks.map (Token.raw s)).flatten = s ∧ ∀ t ∈ (lex cfg s).toks, t.payload ≠ .skipped := by
  have h := lex_accounts_with_skipped cfg s hok
  refine ⟨h.2.1, ?_⟩
  intro t m hp
  have := (h.2.2 t m hp).2
  unfold SkipSite at this
  rcases this with ⟨h1, _⟩ | ⟨h1, _⟩
  · rw [he] at h1; cases h1
  · rw [hb] at h1; cases h1

example : (lex Cfg.fixed (lit "a</%b")).outcome = .ok := by decide +kernel

/-- **Accounting for the code in /repo** (unconditional since the `fix:` commits ac8bd37 landed and
    `Generated.LexerCfg` flipped): when lexing succeeds, the raw spans of the tokens – nodes, closing tags, the
    encoding comment, bare backslash-newlines – tile the source in order, and no character is skipped. -/
theorem lex_accounts (s : Str) (hok : (lex Cfg.current s).outcome = .ok) :
    ((lex Cfg.current s).toks.map (Token.raw s)).flatten = s
    ∧ ∀ t ∈ (lex Cfg.current s).toks, t.payload ≠ .skipped :=
  lex_accounts_fixed Cfg.current rfl rfl s hok

/-- **With preprocessors**: the tokens account for the whole *preprocessed* text – whatever the preprocessors do
    to its length. -/
theorem parse_accounts_preprocessed (ps : List (Str → Str)) (s : Str)
    (hok : (parseWith Cfg.current ps s).outcome = .ok) :
    ((parseWith Cfg.current ps s).toks.map (Token.raw (ps.foldl (fun t p => p t) s))).flatten
      = ps.foldl (fun t p => p t) s :=
  (lex_accounts _ hok).1

example : (parseWith Cfg.current [fun t => lit "banner\n" ++ t, fun t => t ++ lit "\ntail"] (lit "a${x}")).toks.length = 3 := by
  decide +kernel

/-- the regenerated configuration is the fixed one (this is what makes `lex_accounts` unconditional; reverting
    either patch in /repo flips a flag and breaks this obligation and the proof above) -/
theorem current_is_fixed : Cfg.current = Cfg.fixed := rfl

example : (lex Cfg.current (lit "a</%b \n<%text></%text>x\n% foo\rbar")).outcome = .ok := by decide +kernel

/-! ### history: the code as found (before ac8bd37) – kept to document finding F1, not claims about /repo -/

/-- HISTORY (code as found, `Cfg.asFound`): on `a</%b` lexing succeeded with the nodes `Text "a"` at `[0,1)` and
    `Text "/%b"` at `[2,5)` – the `<` at offset 1 was in no node (finding F1, repaired). -/
theorem history_as_found_drops_lt :
    (lex Cfg.asFound (lit "a</%b")).outcome = .ok
    ∧ ((lex Cfg.asFound (lit "a</%b")).toks.filter (fun t => t.payload.isNode)).map (fun t => (t.start, t.stop, t.payload))
        = [(0, 1, .text (lit "a")), (2, 5, .text (lit "/%b"))]
    ∧ (((lex Cfg.asFound (lit "a</%b")).toks.filter (fun t => t.payload.isNode)).map (Token.raw (lit "a</%b"))).flatten
        ≠ lit "a</%b" := by
  decide +kernel

/-- HISTORY (code as found): a `%` line whose body holds a lone CR is not a control line; its first character
    was dropped. -/
theorem history_as_found_drops_percent :
    ((lex Cfg.asFound (lit "x\n% foo\rbar")).toks.map (fun t => (t.start, t.stop, t.payload)))
      = [(0, 2, .text (lit "x\n")), (2, 3, .skipped), (3, 11, .text (lit " foo\rbar"))] := by
  decide +kernel

/-- the same inputs on the code in /repo now: every character is in a node -/
theorem repaired_witnesses :
    ((lex Cfg.current (lit "a</%b")).toks.map (fun t => (t.start, t.stop, t.payload)))
      = [(0, 1, .text (lit "a")), (1, 2, .text (lit "<")), (2, 5, .text (lit "/%b"))]
    ∧ ((lex Cfg.current (lit "x\n% foo\rbar")).toks.map (fun t => (t.start, t.stop, t.payload)))
      = [(0, 2, .text (lit "x\n")), (2, 3, .text (lit "%")), (3, 11, .text (lit " foo\rbar"))] := by
  decide +kernel

/-! ## fidelity of text -/

/-- **Text fidelity.**  Every text token of a successful run is one of: verbatim source; source with one
    trailing backslash-newline (or backslash-CR-LF) removed; a line-leading `%%` turned into `%`.  A bare
    backslash-newline and a skipped character produce no text; a comment token is a whole `<%doc>…</%doc>` or
    starts at a line start; a control line starts at a line start. -/
theorem text_fidelity (cfg : Cfg) (s : Str) (hok : (lex cfg s).outcome = .ok) :
    ∀ t ∈ (lex cfg s).toks,
      (∀ c, t.payload = .text c →
          c = t.raw s
          ∨ t.raw s = c ++ lit "\\\n"
          ∨ t.raw s = c ++ lit "\\\r\n"
          ∨ ∃ ws k, t.raw s = ws ++ lit "%%" ++ List.replicate k '%' ∧ c = ws ++ '%' :: List.replicate k '%'
              ∧ atLineStart s t.start = true ∧ ∀ x ∈ ws, isSpace x = true)
      ∧ (t.payload = .cont → t.raw s = lit "\\\n" ∨ t.raw s = lit "\\\r\n")
      ∧ (∀ c, t.payload = .comment c → t.raw s = lit "<%doc>" ++ c ++ lit "</%doc>" ∨ atLineStart s t.start = true)
      ∧ (∀ k e c, t.payload = .ctl k e c → atLineStart s t.start = true) := by
  intro t m
  have hf := ((lex_ok cfg s).toks hok t m).faithful
  unfold Faithful at hf
  refine ⟨?_, ?_, ?_, ?_⟩
  · intro c hp; rw [hp] at hf; exact hf
  · intro hp; rw [hp] at hf; exact hf
  · intro c hp; rw [hp] at hf; exact hf
  · intro k e c hp; rw [hp] at hf; exact hf

/-- **Directive-free input is reproduced verbatim**: if `Plain s` (no `${`, `<%`, `</%`, no backslash-newline, no
    line whose first non-blank is `%` or `##`, no `\s*%%` at the very start, no magic encoding comment) then the
    lexer yields exactly one text node holding all of `s` at line 1, column 1 – whatever else `s` contains
    (stray `% # $ < \`, CR, LF, any Unicode). -/
theorem plain_is_verbatim (cfg : Cfg) (s : Str) (hne : s ≠ []) (hpl : Plain s = true) :
    lex cfg s = { toks := [{ start := 0, stop := s.length, lineno := 1, pos := 1, payload := .text s }],
                  outcome := .ok, iters := 2 } :=
  lex_plain cfg s hne hpl

theorem plain_empty (cfg : Cfg) : lex cfg [] = { toks := [], outcome := .ok, iters := 1 } := lex_empty cfg

example : Plain (lit "50% of $x < y #1 \\ a\r\nb\rc { } | > / é 世") = true := by decide +kernel

/-! ## positions -/

/-- **Positions.**  Every token of a successful run reports the line and column of the offset its source span
    starts at, as `match_reg` computes them (`lineOf`, `colOf`), and its span lies inside the source. -/
theorem positions_correct (cfg : Cfg) (s : Str) (hok : (lex cfg s).outcome = .ok) :
    ∀ t ∈ (lex cfg s).toks,
      t.lineno = lineOf s t.start ∧ t.pos = colOf s t.start ∧ t.start ≤ t.stop ∧ t.stop ≤ s.length := by
  intro t m
  have h := (lex_ok cfg s).toks hok t m
  exact ⟨h.line, h.col, h.le, h.stop_le⟩

/-- **Also when lexing ends with a syntax error**: the tokens created before the error (what the real lexer has
    appended to the tree when it raises) tile a prefix `s[0, q)` of the source, in order, without gaps, and each
    reports the line and column of its start.  (Where the *error* is reported is C11's `lex_error_site`.) -/
theorem tokens_before_error_tile_a_prefix (cfg : Cfg) (s : Str) :
    ∃ q, q ≤ s.length ∧ Chain (lex cfg s).toks 0 q
      ∧ ((lex cfg s).toks.map (Token.raw s)).flatten = s.take q
      ∧ ∀ t ∈ (lex cfg s).toks, t.lineno = lineOf s t.start ∧ t.pos = colOf s t.start ∧ t.start ≤ t.stop := by
  obtain ⟨q, hq, hc, ht⟩ := (lex_ok cfg s).pre
  refine ⟨q, hq, hc, ?_, fun t m => ⟨(ht t m).line, (ht t m).col, (ht t m).le⟩⟩
  have := (Chain.flatten s hc (fun t m => (ht t m).le)).2
  rw [this]
  simp [slice]

example : (lex Cfg.current (lit "ab\n${x}\n% if y:\nz${")).outcome = .error .expected 4 2
    ∧ (lex Cfg.current (lit "ab\n${x}\n% if y:\nz${")).toks.length = 5 := by decide +kernel

example : (lex Cfg.asFound (lit "ab\n  ${x}")).toks.map (fun t => (t.start, t.lineno, t.pos)) = [(0, 1, 1), (5, 2, 3)] := by
  decide +kernel

/-! ## end to end: lexer → template → generated code → execution (helpers in `Codegen/RenderLiteral.lean`) -/

open MakoModel.Codegen MakoModel.Target in
/-- **Text tokens are written once each, unmodified, in source order.**  For every token list made of text tokens
    (`tmplOfTokens toks = some t`) the generated `render_body`, executed on the runtime model, returns normally
    and the output is the concatenation of the token contents – for every crash point `k` (a text-only template has
    no evaluation point), every `error_handler` / `format_exceptions` setting, every other template in the set, and
    every fuel from `toks.length + 9` on. -/
theorem render_text_tokens (toks : List Token) (t : Tmpl) (h : tmplOfTokens toks = some t)
    (ts : List (Tmpl × Option Bool)) (ieh : Option Bool) (k : Nat) (o : Opts) (fuel : Nat)
    (hf : toks.length + 9 ≤ fuel) :
    (render (progOf ((t, ieh) :: ts) k) o fuel).1 = .val [] ∧
      (render (progOf ((t, ieh) :: ts) k) o fuel).2.1 = textsOf toks :=
  render_text_tokens_core toks t h ts ieh k o fuel hf

open MakoModel.Codegen MakoModel.Target in
/-- **A directive-free source is rendered as itself**, through all three model layers: `lex` yields one text
    token (`lex_plain`), `tmplOfTokens` the template `text s`, `codegen` the `render_body`, and its execution writes
    exactly `s` – every character once, unmodified, in source order; for every context as above and every fuel ≥ 10. -/
theorem render_literal (s : List Char) (hpl : Plain s = true) (k : Nat) (o : Opts) (fuel : Nat) (hf : 10 ≤ fuel) :
    ∃ t, tmplOfTokens (lex Cfg.current s).toks = some t ∧
      (render (progOf [(t, none)] k) o fuel).1 = .val [] ∧ (render (progOf [(t, none)] k) o fuel).2.1 = s := by
  by_cases hne : s = []
  · subst hne
    have hl : (lex Cfg.current []).toks = [] := by decide +kernel
    refine ⟨.nil, by rw [hl]; rfl, ?_⟩
    have := render_text_tokens_core [] .nil rfl [] none k o fuel (by simp; omega)
    simpa [textsOf] using this
  · rw [lex_plain Cfg.current s hne hpl]
    refine ⟨.seq (.text s) .nil, by simp [tmplOfTokens, plainToken], ?_⟩
    have := render_text_tokens_core [plainToken s] (.seq (.text s) .nil) (by simp [tmplOfTokens, plainToken]) [] none k o
      fuel (by simp; omega)
    simpa [textsOf, plainToken] using this

example : Plain (lit "a < b & c\r\n  50% of ${nothing\n# one\n") = false := by decide +kernel
example : Plain (lit "a < b & c\r\n  50 % of {nothing}\n# one\n\u00e9\u4e16") = true := by decide +kernel

/-! ## the documented escapes, end to end (helpers in `Codegen/RenderLiteral.lean`) -/

open MakoModel.Codegen MakoModel.Target in
/-- **Token level, all documented escapes.**  For every token list made only of text tokens (literal text, the
    text a line-leading `%%` stands for, the body of `<%text>`) and of the tokens the code generator is silent about
    (backslash-newline, `##` lines, `<%doc>` sections, the tags of an unfiltered `<%text>`): the rendered output is
    the concatenation of the contents of the text tokens, in order – nothing of the silent tokens, each text once.
    Every crash point, every `error_handler` / `format_exceptions` setting, every fuel from `toks.length + 9` on. -/
theorem render_escape_tokens (toks : List Token) (h : EscapeOnly toks = true)
    (ts : List (Tmpl × Option Bool)) (ieh : Option Bool) (k : Nat) (o : Opts) (fuel : Nat)
    (hf : toks.length + 9 ≤ fuel) :
    ∃ t, tmplOfTokens toks = some t ∧
      (render (progOf ((t, ieh) :: ts) k) o fuel).1 = .val [] ∧
      (render (progOf ((t, ieh) :: ts) k) o fuel).2.1 = textsOf toks := by
  obtain ⟨t, ht⟩ := tmplOfTokens_of_escapeOnly toks h
  exact ⟨t, ht, render_text_tokens_core toks t ht ts ieh k o fuel hf⟩

open MakoModel.Codegen in
/-- the lexer's tokens for `a\⏎<%doc>d</%doc>x⏎  %%b⏎## c⏎<%text>${x}</%text>` and what is rendered -/
example : (lex Cfg.current (lit "a\\\n<%doc>d</%doc>x\n  %%b\n## c\n<%text>${x}</%text>")).outcome = .ok ∧
    EscapeOnly (lex Cfg.current (lit "a\\\n<%doc>d</%doc>x\n  %%b\n## c\n<%text>${x}</%text>")).toks = true ∧
    textsOf (lex Cfg.current (lit "a\\\n<%doc>d</%doc>x\n  %%b\n## c\n<%text>${x}</%text>")).toks
      = lit "ax\n  %b\n${x}" := by decide +kernel

open MakoModel.Codegen MakoModel.Target in
/-- **Source level (PARTIAL).**  For every source `s` that the lexer accepts and whose tokens are only of the kinds
    above, the rendered output `out` is related to `s` as follows: the raw spans of the tokens tile `s` in order
    (`lex_accounts`), `out` is the concatenation of the *contributions* of the spans in the same order, and every
    span contributes one of (`text_fidelity`):
    itself, verbatim; itself without its trailing backslash-newline / backslash-CR-LF; a line-leading
    `ws %% %ᵏ` as `ws % %ᵏ`; nothing, when it is a bare backslash-newline, a whole `<%doc>…</%doc>`, a comment
    starting at a line start, or a `<%text>` / `</%text>` tag.

    PARTIAL – this is *soundness* of the escapes (nothing but the documented deletions/replacements happens to any
    character, order is kept, each character is used once); it is not the equality with an independent
    `Spec.expected : Str → Str`.  That needs facts the lexer lemmas (`Faithful`) do not record: that a verbatim
    text span contains no further escape, that a `##` comment span is exactly one line with its terminator, that
    the spans of the silent tag tokens are literally `<%text>` and `</%text>`.  The check compares the pipeline
    with an independent expectation on constructed sources instead (stream `corr.escapes` of the C13 check,
    `harness/props/C13.py`; C01's own render oracles compare the implementation with documented outputs). -/
theorem render_documented_escapes_partial (s : List Char) (hok : (lex Cfg.current s).outcome = .ok)
    (hesc : EscapeOnly (lex Cfg.current s).toks = true) (k : Nat) (o : Opts) (fuel : Nat)
    (hf : (lex Cfg.current s).toks.length + 9 ≤ fuel) :
    ∃ t, tmplOfTokens (lex Cfg.current s).toks = some t ∧
      (render (progOf [(t, none)] k) o fuel).1 = .val [] ∧
      (render (progOf [(t, none)] k) o fuel).2.1 = textsOf (lex Cfg.current s).toks ∧
      ((lex Cfg.current s).toks.map (Token.raw s)).flatten = s ∧
      ∀ tok ∈ (lex Cfg.current s).toks,
        (∀ c, tok.payload = .text c →
            c = tok.raw s ∨ tok.raw s = c ++ lit "\\\n" ∨ tok.raw s = c ++ lit "\\\r\n" ∨
            ∃ ws n, tok.raw s = ws ++ lit "%%" ++ List.replicate n '%' ∧ c = ws ++ '%' :: List.replicate n '%'
              ∧ atLineStart s tok.start = true ∧ ∀ x ∈ ws, isSpace x = true)
        ∧ (tok.payload = .cont → tok.raw s = lit "\\\n" ∨ tok.raw s = lit "\\\r\n")
        ∧ (∀ c, tok.payload = .comment c →
            tok.raw s = lit "<%doc>" ++ c ++ lit "</%doc>" ∨ atLineStart s tok.start = true) := by
  obtain ⟨t, ht, h1, h2⟩ := render_escape_tokens (lex Cfg.current s).toks hesc [] none k o fuel hf
  refine ⟨t, ht, h1, h2, (lex_accounts s hok).1, fun tok m => ?_⟩
  have := text_fidelity Cfg.current s hok tok m
  exact ⟨this.1, this.2.1, this.2.2.1⟩

end MakoModel.C01
