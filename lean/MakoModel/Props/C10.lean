import MakoModel.Filters.LemmasHandler
import MakoModel.Filters.Sites
/-!
# C10 – escaping filters neutralise markup for every input and are invertible

Every theorem quantifies over all strings `s : List Char` (all Unicode scalar values, any length).
Models: `MakoModel/Filters/Model.lean`; regenerated tables: `MakoModel/Generated/Filters.lean`.
`Spec.*` are the reference decoders / vocabulary of the statements; `Filters/Sites.lean` models the application
sites (`filter=` on `<%def>` / `<%block>` × `buffered=` × `cached=`), the bytes-producing entries and the
configuration of an expression (own filters × `<%page expression_filter>` × `default_filters`).

Contents (38 theorems):
* table side conditions, re-decided on every run: `default_escapes_bind`, `xml_class_eq_keys`, `xml_table_good`,
  `markupsafe_table_good`, `xml_entities_standard`, `markupsafe_entities_standard`, `entity_tables_ok`,
  `handler_tables_ok`, `entity_keys_distinct`;
* the filters, for every string: `xml_no_markup`, `xml_roundtrip`, `html_no_markup`, `html_roundtrip`, `url_safe`,
  `url_roundtrip`, `entity_exact`, `entity_roundtrip`, `trim_only_edges`;
* `decode`: `decode_total`, `decode_uses_own_charset`, `decode_object_is_str_at_call_time`;
* the error handler: `htmlentityreplace_refs_decode`, `htmlentityreplace_total_and_faithful`;
* application sites: `filter_once_at_every_site`, `guarantee_at_every_site`, `xml_no_markup_at_every_site`;
* entries and configurations (regenerated facts + what follows from them): `def_template_inherits_output_settings`,
  `render_buffer_uses_template_settings`, `every_entry_uses_template_settings`, `expression_filter_sources_complete`,
  `expression_written_through_effective_chain`, `page_filter_reaches_bare_expression`, `markup_kind_facts`,
  `html_twice_is_once`;
* consequences: `escapes_injective`, `escapes_distribute_over_concatenation`, `no_markup_across_seam`,
  `trim_idempotent`.

OPEN: nothing – every statement below is the full-strength one; no finding of C10 is recorded as open.
-/
namespace MakoModel.C10
open MakoModel.Filters MakoModel.Generated.Filters

/-! ## Side conditions on the regenerated tables (re-decided against /repo's source on every run) -/

/-- the names in the property text are bound to the modelled callables -/
theorem default_escapes_bind :
    assoc "x".toList defaultEscapes = some "filters.xml_escape".toList ∧
    assoc "h".toList defaultEscapes = some "filters.html_escape".toList ∧
    assoc "u".toList defaultEscapes = some "filters.url_escape".toList ∧
    assoc "entity".toList defaultEscapes = some "filters.html_entities_escape".toList ∧
    assoc "trim".toList defaultEscapes = some "filters.trim".toList ∧
    assoc "decode".toList defaultEscapes = some "decode".toList ∧
    htmlEscapeCallee = "markupsafe.escape".toList ∧
    entityEscapeCallee = "_html_entities_escaper.escape_entities".toList ∧
    entityUnescapeCallee = "_html_entities_escaper.unescape".toList ∧
    entityEscaperCtor = "XMLEntityEscaper(codepoint2name, name2codepoint)".toList ∧
    urlCodec = "utf-8".toList := by decide

/-- the regex class of `xml_escape` is exactly the key set of `xml_escapes` (no `KeyError`, no key unused) -/
theorem xml_class_eq_keys : xmlClassEqKeys = true := by decide

/-- `xml_escapes`: every value is `&…` free of `< > " ' &` after its first character, all five significant
characters are keys, no value is a prefix of another -/
theorem xml_table_good : goodTable xmlEscapes = true := by decide
/-- the same for what `markupsafe.escape` does -/
theorem markupsafe_table_good : goodTable markupsafeEscapes = true := by decide

/-- each entity the two tables emit is a standard character reference of the character it replaces -/
theorem xml_entities_standard : ∀ p ∈ xmlEscapes, Spec.decodeRef p.2 = some p.1 := by decide +kernel
theorem markupsafe_entities_standard : ∀ p ∈ markupsafeEscapes, Spec.decodeRef p.2 = some p.1 := by
  decide +kernel

/-- `html.entities`: every name fits the third alternative of `__characterrefs`, maps back through
`name2codepoint`, `&` has an entity, `;` is outside `[-.:\w]`, `[\da-f]` and `\d` -/
theorem entity_tables_ok : entityTablesOk = true := entityTablesOk_true
/-- `html.entities` names are plain ASCII; `__escapable` covers exactly the non-ASCII range; `"&<>` have
entities; the reference formats are `&#x%X;` and `&%s;` -/
theorem handler_tables_ok : handlerTablesOk = true := handlerTablesOk_true
/-- code points of `codepoint2name` are pairwise distinct (so "the" entity of a character is well defined) -/
theorem entity_keys_distinct : (codepoint2name.map (·.1)).Nodup := by decide +kernel

/-! ## `x` -/

/-- the output of `x` contains none of `< > " '`, and every `&` in it starts one of the table's entities -/
theorem xml_no_markup (s : List Char) :
    (∀ c ∈ xmlEscape s, c ∉ Spec.markup) ∧
    (∀ pre post, xmlEscape s = pre ++ '&' :: post → ∃ p ∈ xmlEscapes, p.2 <+: '&' :: post) := by
  rw [xmlEscape_eq xml_class_eq_keys]
  exact ⟨esc_no_markup (goodTable_iff xml_table_good) s,
    esc_amp_starts_entity (goodTable_iff xml_table_good) s⟩

/-- decoding the table's entities returns the input -/
theorem xml_roundtrip (s : List Char) : xmlUnescape (xmlEscape s) = s := by
  rw [xmlEscape_eq xml_class_eq_keys]
  exact unesc_esc (goodTable_iff xml_table_good) s

/-! ## `h` -/

theorem html_no_markup (s : List Char) :
    (∀ c ∈ htmlEscape s, c ∉ Spec.markup) ∧
    (∀ pre post, htmlEscape s = pre ++ '&' :: post → ∃ p ∈ markupsafeEscapes, p.2 <+: '&' :: post) :=
  ⟨esc_no_markup (goodTable_iff markupsafe_table_good) s,
    esc_amp_starts_entity (goodTable_iff markupsafe_table_good) s⟩

theorem html_roundtrip (s : List Char) : htmlUnescape (htmlEscape s) = s :=
  unesc_esc (goodTable_iff markupsafe_table_good) s

/-! ## `u` -/

/-- the output of `u` consists of `A-Za-z0-9_.~-`, `%` and `+`, and every `%` is followed by two hex digits -/
theorem url_safe (s : List Char) :
    (∀ c ∈ urlEscape s, Spec.isUrlSafeChar c = true ∨ c = '%' ∨ c = '+') ∧
    (∀ pre post, urlEscape s = pre ++ '%' :: post →
      ∃ h1 h2 rest, post = h1 :: h2 :: rest ∧ Spec.isHexUpperChar h1 = true ∧ Spec.isHexUpperChar h2 = true) :=
  ⟨url_chars _ (utf8Encode_lt s), url_percent _ (utf8Encode_lt s)⟩

/-- percent/plus decoding, then strict UTF-8 decoding, returns the input -/
theorem url_roundtrip (s : List Char) : Spec.utf8Decode (Spec.unquotePlus (urlEscape s)) = some s := by
  unfold urlEscape
  rw [unquote_flatMap _ (utf8Encode_lt s), utf8Decode_encode]

/-! ## `entity` / `html_entities_unescape` -/

/-- `entity` replaces exactly the characters that have a named HTML entity, each by `&name;` of one of its
names (unique by `entity_keys_distinct`), and leaves every other character as it is -/
theorem entity_exact (s : List Char) :
    Spec.Pieces (fun c p =>
        (Spec.HasEntity c → ∃ n, (c.toNat, n) ∈ codepoint2name ∧ p = '&' :: n ++ [';']) ∧
        (¬ Spec.HasEntity c → p = [c]))
      s (entityEscape s) := by
  unfold entityEscape
  induction s with
  | nil => exact Spec.Pieces.nil
  | cons c cs ih =>
    rw [List.flatMap_cons]
    refine Spec.Pieces.cons ?_ ih
    rcases entityEscapeChar_cases c with ⟨h1, _, h3⟩ | ⟨n, hmem, _, h3⟩
    · have hno : ¬ Spec.HasEntity c := by
        rintro ⟨n, hn⟩
        have : ∀ (l : List (Nat × List Char)), (c.toNat, n) ∈ l → assoc c.toNat l ≠ none := by
          intro l
          induction l with
          | nil => intro h; cases h
          | cons q t iht =>
            obtain ⟨a, b⟩ := q
            intro hm
            simp only [assoc]
            split
            · simp
            · rename_i hne
              rcases List.mem_cons.mp hm with e | e
              · cases e; exact absurd rfl hne
              · exact iht e
        exact this _ hn h3
      exact ⟨fun h => absurd h hno, fun _ => h1⟩
    · exact ⟨fun _ => ⟨n, hmem, h3⟩, fun h => absurd ⟨n, hmem⟩ h⟩

/-- `html_entities_unescape` (the real regex-driven decoder, modelled) inverts `entity` -/
theorem entity_roundtrip (s : List Char) : entityUnescape (entityEscape s) = .ok s :=
  unescape_entityEscape s

/-! ## `trim`, `decode` -/

/-- `trim` removes a prefix and a suffix consisting of whitespace only, and what remains neither starts nor
ends with whitespace (so the removed parts are maximal); nothing inside is touched -/
theorem trim_only_edges (s : List Char) :
    ∃ pre suf, s = pre ++ trim s ++ suf ∧ (∀ c ∈ pre, isSpace c = true) ∧ (∀ c ∈ suf, isSpace c = true) ∧
      (∀ c, (trim s).head? = some c → isSpace c = false) ∧
      (∀ c, (trim s).getLast? = some c → isSpace c = false) := by
  refine ⟨s.takeWhile isSpace, ((s.dropWhile isSpace).reverse.takeWhile isSpace).reverse, trim_decomp s,
    ?_, ?_, ?_, ?_⟩
  · intro c hc; exact mem_takeWhile_pos hc
  · intro c hc; exact mem_takeWhile_pos (List.mem_reverse.mp hc)
  · intro c hc
    -- the head of `trim s` is the head of `s.dropWhile isSpace`
    have hd := List.head?_dropWhile_not isSpace s
    have hpre : trim s <+: s.dropWhile isSpace := by
      unfold trim
      have h3 : s.dropWhile isSpace = ((s.dropWhile isSpace).reverse.dropWhile isSpace).reverse ++
          ((s.dropWhile isSpace).reverse.takeWhile isSpace).reverse := by
        rw [← List.reverse_append, List.takeWhile_append_dropWhile, List.reverse_reverse]
      exact ⟨_, h3.symm⟩
    obtain ⟨t, ht⟩ := hpre
    cases htr : trim s with
    | nil => rw [htr] at hc; cases hc
    | cons a r =>
      rw [htr] at hc ht
      simp only [List.head?_cons, Option.some.injEq] at hc
      subst hc
      rw [← ht] at hd
      simpa using hd
  · intro c hc
    unfold trim at hc
    rw [List.getLast?_reverse] at hc
    have hd := List.head?_dropWhile_not isSpace (s.dropWhile isSpace).reverse
    rw [hc] at hd
    simpa using hd

/-- `decode.<enc>(x)` returns text for `str` (unchanged) and for any other non-bytes object (its `str()`), and
for `bytes` exactly what the codec returns; with UTF-8 it inverts the encoder -/
theorem decode_total (codec : List Nat → Option (List Char)) :
    (∀ s, decodeFilter codec (.str s) = some s) ∧
    (∀ r, decodeFilter codec (.other r) = some r) ∧
    (∀ b, decodeFilter codec (.bytes b) = codec b) ∧
    (∀ s, decodeFilter Spec.utf8Decode (.bytes (utf8Encode s)) = some s) :=
  ⟨fun _ => rfl, fun _ => rfl, fun _ => rfl, fun s => utf8Decode_encode s⟩

/-- the result of a `decode.<enc>` closure depends only on `<enc>` and the argument: if the `j`-th lookup of a
history `ops₁` was `decode.<key>`, then after ANY further operations `ops₂` (lookups of other charsets, calls of
any closures, in any order) calling closure `j` on `x` gives exactly `decodeFilter (codecs key) x` -/
theorem decode_uses_own_charset (codecs : List Char → List Nat → Option (List Char))
    (ops₁ ops₂ : List DecodeOp) (j : Nat) (key : List Char) (x : PyVal)
    (h : (Spec.lookupsOf ops₁)[j]? = some key) :
    (decodeStep codecs (decodeRun codecs [] (ops₁ ++ ops₂)).1 (.call j x)).2 =
      .result (decodeFilter (codecs key) x) := by
  have hst : (decodeRun codecs [] (ops₁ ++ ops₂)).1[j]? = some key := by
    rw [decodeRun_state, lookupsOf_append, List.nil_append]
    exact getElem?_append_of_some h
  simp [decodeStep, hst]

/-- for an argument that is neither `str` nor `bytes` the result is `str(x)` as it is at the time of *this* call,
whatever the closure (or any other) was called on before - equal values, the same object printing differently
earlier: nothing is remembered between calls -/
theorem decode_object_is_str_at_call_time (codecs : List Char → List Nat → Option (List Char))
    (ops₁ ops₂ : List DecodeOp) (j : Nat) (key : List Char) (strNow : List Char)
    (h : (Spec.lookupsOf ops₁)[j]? = some key) :
    (decodeStep codecs (decodeRun codecs [] (ops₁ ++ ops₂)).1 (.call j (.other strNow))).2 =
      .result (some strNow) := by
  rw [decode_uses_own_charset codecs ops₁ ops₂ j key _ h]
  rfl

/-! ## `encoding_errors='htmlentityreplace'` -/

/-- every reference is `&name;` / `&#xH;` and decodes back to the character it stands for -/
theorem htmlentityreplace_refs_decode (c : Char) (h : 128 ≤ c.toNat) :
    Spec.decodeRef (Spec.charRef c) = some c :=
  decodeRef_xee c (escapable_of_nonascii c h)

/-- For every string, every codec that can encode ASCII (given as an arbitrary encodability predicate) and both
ways codecs report errors (maximal run / one character): encoding with the handler succeeds, the output is the
text with each unencodable character replaced by its reference and everything else unchanged
(`Spec.HandlerFaithful`), every character of that output is encodable, and every reference decodes back to
the character it replaced. -/
theorem htmlentityreplace_total_and_faithful (enc : Char → Bool)
    (hascii : ∀ c : Char, c.toNat < 128 → enc c = true) (grouped : Bool) (s : List Char) :
    Spec.HandlerFaithful enc grouped s ∧
    (∀ o, handlerEncode enc grouped s = some o → ∀ x ∈ o, enc x = true) ∧
    (∀ c ∈ s, enc c = false → Spec.decodeRef (Spec.charRef c) = some c) := by
  have hspec := handlerGo_spec enc hascii grouped s [] (by simp)
  simp only [List.reverse_nil, List.flatMap_nil, List.nil_append] at hspec
  refine ⟨hspec, ?_, ?_⟩
  · intro o ho x hx
    unfold handlerEncode at ho
    rw [hspec] at ho
    cases ho
    exact refOut_encodable enc hascii s x hx
  · intro c _ hc
    exact htmlentityreplace_refs_decode c (unencodable_nonascii enc hascii c hc)

/-! ## Application sites: `${e | f}`, `default_filters`, `filter=` on `<%def>` / `<%block>` × plain / buffered / cached -/

open MakoModel.Filters.Sites in
/-- at every site, in every mode (`buffered=`, `cached=`, both, neither), on the first render and on a cache hit,
the tag's filter is applied exactly once to the body text (followed by `buffer_filters` iff the callable is
buffered); without `filter=` the text is not touched by it.
Where the content is: the `.expr` case holds by definition (`renderTwice .expr` *is* `(f t, f t)`; the expression
sites are checked by the oracle only).  The `.defLike` case carries the statement: it is the case analysis over the
eight flag combinations of the transcription of `write_def_finish` + the cache decorator (`defFinish`,
`callOnce`) – a decorator that stored or returned the unfiltered text, filtered twice, or skipped the filter on the
hit would falsify it; `corr.sites` ties that transcription to the rendered output. -/
theorem filter_once_at_every_site (site : Site) (f bufF : List Char → List Char) (t : List Char) :
    renderTwice site f bufF t =
      (site.post bufF (if site.filtered then f t else t), site.post bufF (if site.filtered then f t else t)) :=
  renderTwice_eq site f bufF t

open MakoModel.Filters.Sites in
/-- hence whatever a filter guarantees about (input, output) holds at every site that carries it, for the first
render and for every cache hit (default `buffer_filters`, i.e. none) -/
theorem guarantee_at_every_site (P : List Char → List Char → Prop) (f : List Char → List Char)
    (hP : ∀ t, P t (f t)) (site : Site) (hsite : site.filtered = true) (t : List Char) :
    P t (renderTwice site f id t).1 ∧ P t (renderTwice site f id t).2 := by
  have hpost : ∀ s, site.post id s = s := by
    intro s; cases site with
    | expr => rfl
    | defLike fl => simp [Site.post]
  rw [filter_once_at_every_site, hsite]
  simp only [if_true, hpost]
  exact ⟨hP t, hP t⟩

open MakoModel.Filters.Sites in
/-- instance: the text produced by `filter="x"` on a cached (or buffered, or plain) def or block is markup-free on
the first render and on every hit -/
theorem xml_no_markup_at_every_site (site : Site) (hsite : site.filtered = true) (t : List Char) :
    (∀ c ∈ (renderTwice site xmlEscape id t).1, c ∉ Spec.markup) ∧
    (∀ c ∈ (renderTwice site xmlEscape id t).2, c ∉ Spec.markup) :=
  guarantee_at_every_site (fun _ o => ∀ c ∈ o, c ∉ Spec.markup) xmlEscape (fun t => (xml_no_markup t).1) site hsite t

/-- `site.filtered = true` is satisfiable, e.g. by a def/block carrying `filter=` and `cached="True"` (not buffered):
the site where filtering has to happen inside the cached callable, before the value is stored -/
example : (Sites.Site.defLike ⟨false, true, true⟩).filtered = true := rfl

/-! ## Entries that produce bytes; configurations that decide which filters reach an expression -/

/-- regenerated from `DefTemplate.__init__`: a def taken with `get_def` carries its template's `output_encoding`
and `encoding_errors` -/
theorem def_template_inherits_output_settings :
    "output_encoding".toList ∈ defTemplateInherited ∧ "encoding_errors".toList ∈ defTemplateInherited := by decide

/-- regenerated from `runtime._render`: the bytes are produced by `FastEncodingBuffer(template.output_encoding,
template.encoding_errors)` of the object rendered -/
theorem render_buffer_uses_template_settings :
    renderBufferArgs = ["template.output_encoding".toList, "template.encoding_errors".toList] := by decide

open MakoModel.Filters.Sites in
/-- hence every entry (`Template.render`, lookup templates, `get_def(..).render`) encodes with the settings of
the template: `htmlentityreplace_total_and_faithful` applies to all of them alike -/
theorem every_entry_uses_template_settings (parent : OutSettings) (e : Entry) :
    entrySettings defTemplateInherited parent e = parent := by
  have h := def_template_inherits_output_settings
  cases e with
  | template => rfl
  | defTemplate =>
    simp only [entrySettings, if_pos h.1, if_pos h.2]

open MakoModel.Filters.Sites in
/-- regenerated from `codegen.visitExpression`: the expression's own filters, the `<%page expression_filter>` and
`default_filters` are all inspected when deciding whether the value goes through the filters.
What this pins: `exprFilterSources` is the set of dotted names occurring in the test of the single top-level `if` of
`visitExpression`; the obligation is the *membership* of the three names `node.escapes`,
`self.compiler.pagetag.filter_args.args`, `self.compiler.default_filters` - a condition that stops looking at one
of them breaks it.  What it does not pin: how the names are combined (`or` / `and` / negation, `len(...)`), nor
what the two branches do - that a non-empty source really leads to `create_filter_callable` and an empty chain to
the raw value is the transcription `Sites.writeExpression`, tied to the rendered output by `corr.exprconfig` and
asserted on the implementation by `oracle.exprconfig`. -/
theorem expression_filter_sources_complete :
    sourceChecks exprFilterSources = ⟨true, true, true⟩ := by decide

open MakoModel.Filters.Sites in
/-- for every configuration (own filters × page filters × default_filters) the value written is the value sent
through the effective chain of `create_filter_callable` - in particular never the raw value when the chain is not
empty -/
theorem expression_written_through_effective_chain {α} (apply : List Char → α → α)
    (c : ExprConfig) (v : α) :
    writeExpression (sourceChecks exprFilterSources) apply c v =
      (effectiveChain c).foldl (fun t name => apply name t) v := by
  rw [expression_filter_sources_complete]
  unfold writeExpression
  split
  · rfl
  · rename_i h
    simp only [Bool.true_and, Bool.or_eq_true, Bool.not_eq_true', List.isEmpty_eq_false_iff, not_or,
      ne_eq, Decidable.not_not] at h
    rw [effectiveChain_nil c h.1.1 h.1.2 h.2]
    rfl

open MakoModel.Filters.Sites in
/-- instance: with `default_filters=[]`, a `<%page expression_filter="f"/>` (`f` ≠ `n`) and a bare `${e}` the value
is written through `f` -/
theorem page_filter_reaches_bare_expression {α} (apply : List Char → α → α) (f : List Char)
    (hf : f ≠ nName) (v : α) :
    writeExpression (sourceChecks exprFilterSources) apply ⟨[], [f], []⟩ v = apply f v := by
  rw [expression_written_through_effective_chain]
  have hf' : ¬ f = ['n'] := hf
  simp [effectiveChain, nName, hf']

/-- probed at regen time: `markupsafe.escape` returns a `Markup` and leaves a `Markup` argument as it is,
`Markup.strip()` stays a `Markup`, `str(Markup)` is plain - what `Sites.applyFilter` assumes -/
theorem markup_kind_facts :
    markupsafeIdempotentOnMarkup = true ∧ markupStripKeepsMarkup = true ∧ strOfMarkupIsPlain = true := by decide

open MakoModel.Filters.Sites in
/-- `h` reached twice (e.g. by `<%page expression_filter="h"/>` and `${e | h}`, or `default_filters=['h']`) escapes
once: the result still decodes back to the input in one step, whatever `trim`s lie between -/
theorem html_twice_is_once (v : PyText) :
    applyFilter ['h'] (applyFilter ['h'] v) = applyFilter ['h'] v ∧
    applyFilter ['h'] (applyFilter "trim".toList (applyFilter ['h'] v)) = applyFilter "trim".toList (applyFilter ['h'] v) := by
  cases hm : v.markup <;> simp [applyFilter, hm]

/-- the hypothesis `f ≠ nName` is satisfiable by the escaping filters -/
example : "h".toList ≠ Sites.nName ∧ "x".toList ≠ Sites.nName := by decide

/-! ## Consequences: the escapes lose nothing, compose over concatenation, and `trim` is idempotent -/

/-- two different strings never escape to the same text (`x`, `h`, `u`, `entity`): whatever a page shows
after unescaping identifies the value that was written -/
theorem escapes_injective (a b : List Char) :
    (xmlEscape a = xmlEscape b → a = b) ∧ (htmlEscape a = htmlEscape b → a = b) ∧
    (urlEscape a = urlEscape b → a = b) ∧ (entityEscape a = entityEscape b → a = b) := by
  refine ⟨fun h => ?_, fun h => ?_, fun h => ?_, fun h => ?_⟩
  · have := congrArg xmlUnescape h; rwa [xml_roundtrip, xml_roundtrip] at this
  · have := congrArg htmlUnescape h; rwa [html_roundtrip, html_roundtrip] at this
  · have := congrArg (fun t => Spec.utf8Decode (Spec.unquotePlus t)) h
    simp only [url_roundtrip] at this; exact Option.some.inj this
  · have := congrArg entityUnescape h
    rw [entity_roundtrip, entity_roundtrip] at this; exact URes.ok.inj this

/-- escaping is character-wise: writing `${a | h}${b | h}` gives the same text as `${a + b | h}`, so where a
value is split between two expressions does not matter (for `x`, `h`, `u`, `entity`) -/
theorem escapes_distribute_over_concatenation (a b : List Char) :
    xmlEscape (a ++ b) = xmlEscape a ++ xmlEscape b ∧ htmlEscape (a ++ b) = htmlEscape a ++ htmlEscape b ∧
    urlEscape (a ++ b) = urlEscape a ++ urlEscape b ∧ entityEscape (a ++ b) = entityEscape a ++ entityEscape b := by
  simp [xmlEscape, htmlEscape, urlEscape, utf8Encode, entityEscape, List.flatMap_append]

/-- hence no markup character can be assembled across the seam of two escaped pieces -/
theorem no_markup_across_seam (a b : List Char) :
    ∀ c ∈ htmlEscape a ++ htmlEscape b, c ∉ Spec.markup := by
  rw [← (escapes_distribute_over_concatenation a b).2.1]; exact (html_no_markup (a ++ b)).1

/-- `trim` applied twice is `trim` applied once -/
theorem trim_idempotent (s : List Char) : trim (trim s) = trim s := by
  obtain ⟨_, _, _, _, _, hh, hl⟩ := trim_only_edges s
  generalize trim s = t at hh hl
  have h1 : t.dropWhile isSpace = t := by
    cases t with
    | nil => rfl
    | cons a r => simp [hh a rfl]
  have h2 : t.reverse.dropWhile isSpace = t.reverse := by
    cases hr : t.reverse with
    | nil => rfl
    | cons a r =>
      have : t.getLast? = some a := by rw [List.getLast?_eq_head?_reverse, hr]; rfl
      simp [hl a this]
  unfold trim; rw [h1, h2, List.reverse_reverse]

/-! ## Non-vacuity: the hypotheses above are satisfiable by non-trivial instances -/

/-- `hascii` holds for the ASCII codec (and the text has something to replace) -/
example : (∀ c : Char, c.toNat < 128 → (fun c : Char => decide (c.toNat < 128)) c = true) ∧
    (fun c : Char => decide (c.toNat < 128)) '€' = false := by
  constructor
  · intro c h; simpa using h
  · decide
/-- … and for a Latin-1-like codec -/
example : ∀ c : Char, c.toNat < 128 → (fun c : Char => decide (c.toNat < 256)) c = true := by
  intro c h; simp; omega
/-- the hypothesis of `decode_uses_own_charset`: a history with two live closures of different charsets -/
example : (Spec.lookupsOf [.lookup "utf8".toList, .call 0 (.bytes [195, 169]), .lookup "latin1".toList])[0]? =
    some "utf8".toList := by decide
/-- `128 ≤ c.toNat` in `htmlentityreplace_refs_decode`: a character with and one without a named entity -/
example : 128 ≤ ('€' : Char).toNat ∧ 128 ≤ ('世' : Char).toNat ∧
    Spec.charRef '€' = "&euro;".toList ∧ Spec.charRef '世' = "&#x4E16;".toList := by decide +kernel
/-- the premises `… = pre ++ '&' :: post` / `… = pre ++ '%' :: post` occur -/
example : xmlEscape ['a', '<', '&'] = "a&lt;".toList ++ '&' :: "amp;".toList := by decide
example : urlEscape ['é', ' ', '/'] = "".toList ++ '%' :: "C3%A9+%2F".toList := by decide
/-- `Spec.HasEntity` is inhabited and not universal -/
example : Spec.HasEntity 'é' ∧ ¬ Spec.HasEntity 'a' := by
  constructor
  · exact ⟨"eacute".toList, by decide +kernel⟩
  · rintro ⟨n, hn⟩
    have h97 : ∀ p ∈ codepoint2name, p.1 ≠ ('a' : Char).toNat := by decide +kernel
    exact h97 _ hn rfl

end MakoModel.C10
