import MakoModel.ErrPos.LemmasPy
import MakoModel.ErrPos.LemmasLex
/-!
# C11 – compile-time errors name the template and the line of the fault

Theorems about the model `MakoModel.ErrPos` (on top of the lexer model of C01), for **all** source strings `s`,
offsets, code strings and blamed lines `k`.  `k` – the line CPython's parser blames inside the string it is given –
is an input (the parser is an oracle); the correspondence stream of `harness/props/C11.py` reads it from the real
`SyntaxError` and checks `reportedLine`, the offset and the very string handed to the parser against /repo.

* `reportedLine lb L raw k` is what `PythonCode / PythonFragment / ArgumentList / FunctionDecl` and
  `pyparser._adjust_lineno` compute for a construct of kind `lb` whose node is on line `L`;
* `trueLine s o lb raw k` is the specification: the line of `s` holding the raw code line that parsed line `k` was
  made from (`raw` sits at offset `o` of `s`);
* `HasCode raw`: `raw` is not only whitespace (otherwise nothing is parsed that could fail).

A code string "starts on the node's first line" when there is no newline between the node's start `p` and the
start `o` of the string: `countNL (slice s p o) = 0`.  For `${…}`, `<% %>` and control lines this holds by
construction; for tag attributes it is the guard of the `_partial` theorems; filter lists of expressions carry
their own offset (`escapesLinenoOffset`, /repo 78adfd6) and need no guard.

Contents: (1) Python-level faults – `python_error_line_{expr, block, ctl, filter}` (full), `…_signature_partial`,
`…_attribute_partial` (+ counterexamples), `leading_newlines_are_leading_blank_lines`,
`adjust_whitespace_keeps_leading_blank_lines`; (2) structural faults – `structural_error_position` and its `_partial` /
`_counterexample` corollaries, `node_fault_position`, and the two obligations on the regenerated table of ALL raise sites
of `SyntaxException` / `CompileException` (`every_raise_site_is_a_fault_class`: each is a fault class the generator
plants or is listed as outside; `raise_sites_report_their_own_node`: none takes its coordinates from a variable of an
enclosing function); (3) construction paths – `path_independent` (definitional), `error_names_template`, and the reload
path of a lookup: `reload_converts_no_compile_error` (regenerated handler classes of `TemplateLookup._check`),
`path_independent_reload_of`, `path_independent_all_paths`, `path_independent_reload_counterexample`.

OPEN (stated as comment blocks below, each with a `_partial` theorem and a kernel-evaluated `_counterexample`):
* F7  – Python in tag attributes (signatures, `${}` in attributes, `<%call expr>`, `<%include args>`, `filter=`) that
        do not start on the tag's first line is reported too early;
* F8b – an unterminated filter list is reported at the bar instead of at `${`;
* F8  – an unclosed tag other than `<%text>` is reported at the end of the source.
Not a statement about this model (found by the oracle of `harness/props/C11.py` only): F13 – faults that only the
compilation of the generated module finds escape as a bare `SyntaxError`.
-/
namespace MakoModel.C11
open MakoModel.ErrPos MakoModel.Lexer MakoModel.Basic

/-! ## Python-level errors: reported line = true line -/

/-- **expressions** `${ raw }` / `${ raw | … }` starting at offset `p`: any number of leading blank lines inside
    the braces, multi-line expressions, LF or CRLF, anything before `p`. -/
theorem python_error_line_expr (s : Str) (p : Nat) (raw : Str) (k : Nat)
    (hopen : hasPrefix (lit "${") (s.drop p) = true)
    (hloc : slice s (p + 2) (p + 2 + raw.length) = raw) (hcode : HasCode raw)
    (hk : 1 ≤ k) (hkn : leadingBlankLines raw + k ≤ countNL raw + 1) :
    reportedLine .expr (lineOf s p) raw k = some ((trueLine s (p + 2) .expr raw k : Nat) : Int) := by
  have hfirst : countNL (slice s p (p + 2)) = 0 := by
    rw [slice_add]
    have := hasPrefix_take hopen
    simp only [show (lit "${").length = 2 from rfl] at this
    rw [this]; decide
  have ho := offset_expr raw hcode
  exact reported_eq_true .expr s p (p + 2) raw k _ (leadingBlankLines raw + k) ho.1 rfl
    (by rw [ho.2]; simp) (by omega) hfirst hloc (by omega) hkn

example : hasPrefix (lit "${") ((lit "a\r\n${\r\n\r\n (x +\r\n  1+)}").drop 3) = true
    ∧ slice (lit "a\r\n${\r\n\r\n (x +\r\n  1+)}") 5 (5 + (lit "\r\n\r\n (x +\r\n  1+)").length) = lit "\r\n\r\n (x +\r\n  1+)"
    ∧ HasCode (lit "\r\n\r\n (x +\r\n  1+)")
    ∧ leadingBlankLines (lit "\r\n\r\n (x +\r\n  1+)") + 2 ≤ countNL (lit "\r\n\r\n (x +\r\n  1+)") + 1
    ∧ reportedLine .expr 2 (lit "\r\n\r\n (x +\r\n  1+)") 2 = some 5 := by decide +kernel

/-- **`<% raw %>` and `<%! raw %>` blocks** at any margin (tabs, triple-quoted strings, comments), with leading blank
    lines, LF or CRLF: `adjust_whitespace` keeps the line structure (`block_offset`). -/
theorem python_error_line_block (s : Str) (p o : Nat) (raw : Str) (k : Nat)
    (hopen : (hasPrefix (lit "<%") (s.drop p) = true ∧ o = p + 2) ∨ (hasPrefix (lit "<%!") (s.drop p) = true ∧ o = p + 3))
    (hloc : slice s o (o + raw.length) = raw) (hcode : HasCode raw)
    (hk : 1 ≤ k) (hkn : leadingBlankLines raw + k ≤ countNL raw + 1) :
    reportedLine .block (lineOf s p) raw k = some ((trueLine s o .block raw k : Nat) : Int) := by
  have hfirst : p ≤ o ∧ countNL (slice s p o) = 0 := by
    rcases hopen with ⟨h, rfl⟩ | ⟨h, rfl⟩
    · refine ⟨by omega, ?_⟩
      rw [slice_add]
      have := hasPrefix_take h
      simp only [show (lit "<%").length = 2 from rfl] at this
      rw [this]; decide
    · refine ⟨by omega, ?_⟩
      rw [slice_add]
      have := hasPrefix_take h
      simp only [show (lit "<%!").length = 3 from rfl] at this
      rw [this]; decide
  have ho := offset_block raw hcode
  exact reported_eq_true .block s p o raw k _ (leadingBlankLines raw + k) ho.1 rfl
    (by rw [ho.2]; simp) hfirst.1 hfirst.2 hloc (by omega) hkn

example : hasPrefix (lit "<%") ((lit "t\n  <%\n\n\tx = 1\n\ty = 1+\n  %>").drop 4) = true
    ∧ HasCode (lit "\n\n\tx = 1\n\ty = 1+\n  ")
    ∧ reportedLine .block 2 (lit "\n\n\tx = 1\n\ty = 1+\n  ") 2 = some 5
    ∧ trueLine (lit "t\n  <%\n\n\tx = 1\n\ty = 1+\n  %>") 6 .block (lit "\n\n\tx = 1\n\ty = 1+\n  ") 2 = 5 := by
  decide +kernel

/-- **control lines** `% raw`, including backslash-continuation lines (`k ≥ 2` is then a line of the template) and
    the keywords completed by a synthetic first line (`elif`, `else`, `except`: CPython's line `k` is template line
    `k - 1` of the construct).  `o` is where the text after `%` begins; it is on the line of the node
    (`hfirst`: the lexer's regex puts only blanks and `%` in between). -/
theorem python_error_line_ctl (s : Str) (p o : Nat) (c : Char) (r : Str) (k : Nat) (pc : PyCall)
    (hpo : p ≤ o) (hfirst : countNL (slice s p o) = 0)
    (hloc : slice s o (o + (c :: r).length) = c :: r) (hc : isPySpace c = false)
    (hfrag : pyCallOf .ctl (c :: r) = some pc)
    (hk : (if hasSyntheticLine .ctl (c :: r) = true then 2 else 1) ≤ k)
    (hkn : rawLineOf .ctl (c :: r) k ≤ countNL (c :: r) + 1) :
    reportedLine .ctl (lineOf s p) (c :: r) k = some ((trueLine s o .ctl (c :: r) k : Nat) : Int) := by
  have ho := offset_ctl c r hc pc hfrag
  refine reported_eq_true .ctl s p o (c :: r) k pc (rawLineOf .ctl (c :: r) k) hfrag rfl ?_ hpo hfirst hloc ?_ hkn
  · rw [ho]
    simp only [rawLineOf]
    split <;> rename_i hs <;> simp only [hs, if_true, Bool.false_eq_true, if_false] at hk ⊢ <;> omega
  · simp only [rawLineOf]
    split <;> rename_i hs <;> simp only [hs, if_true, Bool.false_eq_true, if_false] at hk ⊢ <;> omega

example : countNL (slice (lit "x\n  % if a and \\\n   b +:\n% endif") 2 6) = 0
    ∧ slice (lit "x\n  % if a and \\\n   b +:\n% endif") 6 (6 + (lit "if a and \\\n   b +:").length) = lit "if a and \\\n   b +:"
    ∧ (pyCallOf .ctl (lit "if a and \\\n   b +:")).isSome = true
    ∧ reportedLine .ctl 2 (lit "if a and \\\n   b +:") 2 = some 3
    ∧ reportedLine .ctl 2 (lit "elif y +: # c") 2 = some 2
    ∧ hasSyntheticLine .ctl (lit "elif y +: # c") = true := by decide +kernel

/-- **signatures** `<%def name="raw">` (`FunctionDecl("def " + raw + ":pass")`) and `args="raw"` of
    block / page / call (`FunctionArgs`), `<%include args="raw">` (`__DUMMY(raw)`) and attribute filter lists
    (`ArgumentList`): right **when the attribute value starts on the tag's first line**. -/
theorem python_error_line_signature_partial (lb : Label) (hlb : lb = .sigDef ∨ lb = .sigArgs ∨ lb = .dummyArgs ∨ lb = .argList)
    (s : Str) (p o : Nat) (raw : Str) (k : Nat)
    (hpo : p ≤ o) (hguard : countNL (slice s p o) = 0)
    (hloc : slice s o (o + raw.length) = raw) (hk : 1 ≤ k) (hkn : k ≤ countNL raw + 1) :
    reportedLine lb (lineOf s p) raw k = some ((trueLine s o lb raw k : Nat) : Int) := by
  rcases hlb with rfl | rfl | rfl | rfl
  · obtain ⟨pc, h1, h2⟩ := offset_sigDef raw
    exact reported_eq_true _ s p o raw k pc k h1 rfl (by rw [h2]; simp) hpo hguard hloc hk hkn
  · obtain ⟨pc, h1, h2⟩ := offset_sigArgs raw
    exact reported_eq_true _ s p o raw k pc k h1 rfl (by rw [h2]; simp) hpo hguard hloc hk hkn
  · obtain ⟨pc, h1, h2⟩ := offset_dummyArgs raw
    exact reported_eq_true _ s p o raw k pc k h1 rfl (by rw [h2]; simp) hpo hguard hloc hk hkn
  · obtain ⟨pc, h1, h2⟩ := offset_argList raw
    exact reported_eq_true _ s p o raw k pc k h1 rfl (by rw [h2]; simp) hpo hguard hloc hk hkn

example : countNL (slice (lit "\n<%def name=\"f(x,\n y=)\">") 1 13) = 0
    ∧ slice (lit "\n<%def name=\"f(x,\n y=)\">") 13 (13 + (lit "f(x,\n y=)").length) = lit "f(x,\n y=)"
    ∧ reportedLine .sigDef 2 (lit "f(x,\n y=)") 2 = some 3 := by decide +kernel

/-- **`${raw}` inside an attribute value and `<%call expr="raw">`** (`PythonCode`): right when `raw` starts on the
    tag's first line (leading blank lines inside `raw` itself are accounted for). -/
theorem python_error_line_attribute_partial (lb : Label) (hlb : lb = .attrExpr ∨ lb = .callExpr)
    (s : Str) (p o : Nat) (raw : Str) (k : Nat)
    (hpo : p ≤ o) (hguard : countNL (slice s p o) = 0)
    (hloc : slice s o (o + raw.length) = raw) (hcode : HasCode raw)
    (hk : 1 ≤ k) (hkn : leadingBlankLines raw + k ≤ countNL raw + 1) :
    reportedLine lb (lineOf s p) raw k = some ((trueLine s o lb raw k : Nat) : Int) := by
  rcases hlb with rfl | rfl
  · have ho := offset_attrExpr raw hcode
    exact reported_eq_true _ s p o raw k _ (leadingBlankLines raw + k) ho.1 rfl (by rw [ho.2]; simp) hpo hguard hloc
      (by omega) hkn
  · have ho := offset_callExpr raw hcode
    exact reported_eq_true _ s p o raw k _ (leadingBlankLines raw + k) ho.1 rfl (by rw [ho.2]; simp) hpo hguard hloc
      (by omega) hkn

example : countNL (slice (lit "<%include file=\"${\n 1+}\"/>") 0 18) = 0
    ∧ HasCode (lit "\n 1+") ∧ reportedLine .attrExpr 1 (lit "\n 1+") 1 = some 2 := by decide +kernel

/- OPEN – the full statement for tag attributes (no guard).  False of the code in /repo (finding F7):

theorem python_error_line_attribute (lb) (s p o raw k) (hpo : p ≤ o) (hloc …) (hcode …) … :
    reportedLine lb (lineOf s p) raw k = some (trueLine s o lb raw k)
-/

/-- F7: `<%include` + newline + ` file="${1+}"/>`: the node is on line 1, the faulty Python on line 2; the code
    reports line 1. -/
theorem python_error_line_attribute_counterexample :
    slice (lit "<%include\n file=\"${1+}\"/>") 19 21 = lit "1+"
    ∧ reportedLine .attrExpr (lineOf (lit "<%include\n file=\"${1+}\"/>") 0) (lit "1+") 1 = some 1
    ∧ trueLine (lit "<%include\n file=\"${1+}\"/>") 19 .attrExpr (lit "1+") 1 = 2 := by decide +kernel

/-- the same for a signature on a later line of the tag -/
theorem python_error_line_signature_counterexample :
    reportedLine .sigDef (lineOf (lit "<%def\n name=\"f(x=)\">") 0) (lit "f(x=)") 1 = some 1
    ∧ trueLine (lit "<%def\n name=\"f(x=)\">") 13 .sigDef (lit "f(x=)") 1 = 2 := by decide +kernel

/-- **filter lists** `${ e | raw }` (full strength since /repo 78adfd6): the lexer strips `raw` and hands
    `ArgumentList` the number of newlines between `${` and the first filter (`escapesLinenoOffset e raw`), so the
    reported line is right wherever the bar and the first filter are – on the line of `${`, on a later line, after
    blank lines.  `p`: offset of `${`; `e`: the expression text up to the bar; `raw`: the text after the bar. -/
theorem python_error_line_filter (s : Str) (p : Nat) (e raw : Str) (k : Nat)
    (hopen : slice s p (p + 3 + e.length) = lit "${" ++ e ++ lit "|")
    (hloc : slice s (p + 3 + e.length) (p + 3 + e.length + raw.length) = raw) (hcode : HasCode raw)
    (hk : 1 ≤ k) (hkn : leadingBlankLines raw + k ≤ countNL raw + 1) :
    reportedLine (.filter (escapesLinenoOffset e raw)) (lineOf s p) raw k
      = some ((trueLine s (p + 3 + e.length) (.filter (escapesLinenoOffset e raw)) raw k : Nat) : Int) := by
  have hd : countNL (slice s p (p + 3 + e.length)) = countNL e := by
    rw [hopen, countNL_append, countNL_append]
    have h1 : countNL (lit "${") = 0 := by decide
    have h2 : countNL (lit "|") = 0 := by decide
    omega
  obtain ⟨pc, h1, h2⟩ := offset_filter (escapesLinenoOffset e raw) raw
  refine reported_eq_true_at _ s p (p + 3 + e.length) raw k pc (leadingBlankLines raw + k) (countNL e) h1 rfl hd ?_
    (by omega) hloc (by omega) hkn
  rw [h2, escapesLinenoOffset_eq, leadingNL_eq_leadingBlankLines raw hcode]
  push_cast
  omega

example : slice (lit "a\n${x\n |\n\n fl(1,\n 2+)}") 2 (2 + 3 + (lit "x\n ").length) = lit "${" ++ lit "x\n " ++ lit "|"
    ∧ HasCode (lit "\n\n fl(1,\n 2+)")
    ∧ escapesLinenoOffset (lit "x\n ") (lit "\n\n fl(1,\n 2+)") = 3
    ∧ reportedLine (.filter 3) 2 (lit "\n\n fl(1,\n 2+)") 2 = some 6
    ∧ trueLine (lit "a\n${x\n |\n\n fl(1,\n 2+)}") 8 (.filter 3) (lit "\n\n fl(1,\n 2+)") 2 = 6 := by decide +kernel

/-- regression witnesses of the repaired finding F7b (`${x` newline ` | f(1+)}` and `${x |` newline ` f(1+)}`:
    the filter is on line 2 and is now reported there) -/
theorem python_error_line_filter_regression :
    reportedLine (.filter (escapesLinenoOffset (lit "x\n ") (lit " f(1+)"))) (lineOf (lit "${x\n | f(1+)}") 0) (lit " f(1+)") 1 = some 2
    ∧ trueLine (lit "${x\n | f(1+)}") 6 (.filter 1) (lit " f(1+)") 1 = 2
    ∧ reportedLine (.filter (escapesLinenoOffset (lit "x ") (lit "\n f(1+)"))) (lineOf (lit "${x |\n f(1+)}") 0) (lit "\n f(1+)") 1 = some 2
    ∧ trueLine (lit "${x |\n f(1+)}") 5 (.filter 1) (lit "\n f(1+)") 1 = 2 := by decide +kernel

/-- the arithmetic of `_adjust_lineno` and of `PythonCode` read back: the offset is the number of newlines in the
    whitespace `lstrip()` removes, which is the number of whitespace-only lines before the code (two independent
    formulations: characters vs. lines) -/
theorem leading_newlines_are_leading_blank_lines (code : Str) (off : Int) (h : HasCode code) :
    (pythonCode code off).offset = off + (leadingBlankLines code : Nat) := by
  rw [pythonCode_offset, leadingNL_eq_leadingBlankLines code h]

example : HasCode (lit " \n\t\n  x") ∧ leadingBlankLines (lit " \n\t\n  x") = 2 := by decide +kernel

/-- `adjust_whitespace` preserves the number of lines and which of them are blank, so the offset `PythonCode`
    computes on the re-margined block is the number of leading blank lines of the raw block -/
theorem adjust_whitespace_keeps_leading_blank_lines (raw : Str) (h : HasCode raw) :
    countNL (wsPrefix (PyExpr.Ws.adjustWhitespace raw ++ ['\n'])) = leadingBlankLines raw :=
  block_offset raw h

example : HasCode (lit "\r\n   \r\n\t  x = \"\"\"a\r\n b\"\"\"\r\n") := by decide +kernel

/-! ## structural faults -/

/-- **Every error of the lexer is reported at the position of its construct** (all strings, all code variants):
    `(lineno, pos) = (lineOf s p, colOf s p)` for an offset `p` with `ErrSite s k p` –
    the `${` / `<%` opener of an unterminated expression or block (or, defect F8b, the `|` of an unterminated
    filter list); the closing tag that has no / the wrong opening tag; the `%` line of an invalid control line, of
    an `end…` without or with the wrong opening keyword, of an illegal ternary keyword; the opening `% keyword` line
    of an unterminated control block; the `<%text>` tag that is never closed (or, defect F8, the end of the
    source for any other unclosed tag). -/
theorem structural_error_position (cfg : Cfg) (s : Str) (k : ErrKind) (l c : Nat)
    (h : (lex cfg s).outcome = .error k l c) :
    ∃ p, p ≤ s.length ∧ l = lineOf s p ∧ c = colOf s p ∧ ErrSite s k p :=
  lex_error_site cfg s k l c h

example : (lex Cfg.fixed (lit "a\n  % if x:\n b\n")).outcome = .error .unterminatedControl 2 1
    ∧ (lex Cfg.fixed (lit "a\n </%def>")).outcome = .error .closingWithoutOpening 2 2
    ∧ (lex Cfg.fixed (lit "a\n% if x:\n% endfor")).outcome = .error .keywordMismatch 3 1
    ∧ (lex Cfg.fixed (lit "% for x in y:\n% elif z:\n")).outcome = .error .illegalTernary 2 1 := by decide +kernel

/-- unterminated `${` / `<%`: the position of the opener – under the guard that the source holds no `|`
    (then no filter bar can have been the last match) -/
theorem unterminated_construct_position_partial (cfg : Cfg) (s : Str) (l c : Nat)
    (h : (lex cfg s).outcome = .error .expected l c) (hguard : '|' ∉ s) :
    ∃ p, p ≤ s.length ∧ l = lineOf s p ∧ c = colOf s p
      ∧ (hasPrefix (lit "${") (s.drop p) = true ∨ hasPrefix (lit "<%") (s.drop p) = true) := by
  obtain ⟨p, h1, h2, h3, h4⟩ := lex_error_site cfg s _ l c h
  refine ⟨p, h1, h2, h3, ?_⟩
  simp only [ErrSite] at h4
  rcases h4 with h4 | h4 | h4
  · exact Or.inl h4
  · exact Or.inr h4
  · exact absurd (List.mem_of_getElem? h4) hguard

example : (lex Cfg.fixed (lit "abc\n  <% x\nyy")).outcome = .error .expected 2 3 ∧ '|' ∉ lit "abc\n  <% x\nyy" := by
  decide +kernel

/- OPEN – unterminated constructs are reported at their opener (no guard).  False (finding F8b):

theorem unterminated_construct_position (cfg s l c) (h : (lex cfg s).outcome = .error .expected l c) :
    ∃ p, … ∧ (hasPrefix (lit "${") (s.drop p) ∨ hasPrefix (lit "<%") (s.drop p))
-/

/-- F8b: `abc` / ` ${x | h` / `yy`: the `${` is at line 2 column 2, the error is reported at column 6 – the bar -/
theorem unterminated_filter_list_counterexample :
    (lex Cfg.fixed (lit "abc\n ${x | h\nyy")).outcome = .error .expected 2 6
    ∧ (lex Cfg.asFound (lit "abc\n ${x | h\nyy")).outcome = .error .expected 2 6
    ∧ (lineOf (lit "abc\n ${x | h\nyy") 5, colOf (lit "abc\n ${x | h\nyy") 5) = (2, 2)
    ∧ (lit "abc\n ${x | h\nyy")[9]? = some '|' := by decide +kernel

/-- "Unclosed tag": when it is not reported at the end of the source it is reported at the `<%text>` tag that is
    never closed -/
theorem unclosed_tag_position_partial (cfg : Cfg) (s : Str) (l c : Nat)
    (h : (lex cfg s).outcome = .error .unclosedTag l c)
    (hguard : ¬ (l = lineOf s s.length ∧ c = colOf s s.length)) :
    ∃ p m, p ≤ s.length ∧ l = lineOf s p ∧ c = colOf s p ∧ rxTagStart (s.drop p) = some m ∧ m.keyword = lit "text" := by
  obtain ⟨p, h1, h2, h3, h4⟩ := lex_error_site cfg s _ l c h
  simp only [ErrSite] at h4
  rcases h4 with h4 | ⟨m, hm, hk⟩
  · subst h4; exact absurd ⟨h2, h3⟩ hguard
  · exact ⟨p, m, h1, h2, h3, hm, hk⟩

example : (lex Cfg.fixed (lit "a\n <%text>\nxyz")).outcome = .error .unclosedTag 2 2
    ∧ ¬ ((2 : Nat) = lineOf (lit "a\n <%text>\nxyz") 13 ∧ (2 : Nat) = colOf (lit "a\n <%text>\nxyz") 13) := by decide +kernel

/- OPEN – an unclosed tag is reported where the tag begins.  False (finding F8):

theorem unclosed_tag_position (cfg s l c) (h : (lex cfg s).outcome = .error .unclosedTag l c) :
    ∃ p m, l = lineOf s p ∧ c = colOf s p ∧ rxTagStart (s.drop p) = some m
-/

/-- F8: `abc` / `<%def name='f()'>` / `foo` / `` / `bar`: reported at line 5 column 4 (the end of the source);
    the `<%def>` begins at line 2 column 1 -/
theorem unclosed_tag_counterexample :
    (lex Cfg.fixed (lit "abc\n<%def name='f()'>\nfoo\n\nbar")).outcome = .error .unclosedTag 5 4
    ∧ (lex Cfg.asFound (lit "abc\n<%def name='f()'>\nfoo\n\nbar")).outcome = .error .unclosedTag 5 4
    ∧ (rxTagStart ((lit "abc\n<%def name='f()'>\nfoo\n\nbar").drop 4)).isSome = true
    ∧ (lineOf (lit "abc\n<%def name='f()'>\nfoo\n\nbar") 4, colOf (lit "abc\n<%def name='f()'>\nfoo\n\nbar") 4) = (2, 1) := by
  decide +kernel

/-- **faults found by node constructors and by the code generator** (unknown tag, missing / illegal attribute,
    expression in a plain attribute, missing parenthesis, block signature, `import *`, fragment that is no control
    statement, duplicate def/block name, named block inside a def or a `<%call>`, …) carry the node's
    `exception_kwargs`: the line and column where the node's construct begins. -/
theorem node_fault_position (cfg : Cfg) (s : Str) (hok : (lex cfg s).outcome = .ok) (f : NodeFault) :
    ∀ t ∈ (lex cfg s).toks, nodeFaultPos t f = (lineOf s t.start, colOf s t.start) := by
  intro t ht
  have := (lex_ok cfg s).toks hok t ht
  simp only [nodeFaultPos, this.line, this.col]

example : (lex Cfg.fixed (lit "abc\n  <%include\n bogus='1'/>")).outcome = .ok
    ∧ ((lex Cfg.fixed (lit "abc\n  <%include\n bogus='1'/>")).toks.map fun t => nodeFaultPos t .invalidAttribute)
        = [(1, 1), (2, 3)] := by decide +kernel

/-- **every raise site of a compile-time exception in lexer.py, parsetree.py, codegen.py, pyparser.py, ast.py**
    (regenerated table `Generated.ErrPos.raiseSites`) **is a fault class** the generator plants (or is listed as
    outside, with the reason): a new or renamed raise site breaks this obligation by name. -/
theorem every_raise_site_is_a_fault_class :
    Generated.ErrPos.raiseSites.all (fun s => (siteClass s).isSome) = true := by decide +kernel

/-- the table has one row per regenerated raise site, keyed by exactly that site (file, function, message prefix) -/
example : siteClassTable.map (·.1) = Generated.ErrPos.raiseSites.map (fun s => (s.1, s.2.1, s.2.2.1))
    ∧ siteClassTable.length = 35 := by decide +kernel

/-- **every raise site takes its coordinates from the node its own function is about** – `self.exception_kwargs`,
    the `exception_kwargs` of one of the function's own parameters, or explicit values – never from a variable of an
    enclosing function (which would be the coordinates of some *other* construct, e.g. of the enclosing tag). -/
theorem raise_sites_report_their_own_node :
    Generated.ErrPos.raiseSites.all siteUsesOwnNode = true := by decide +kernel

/-! ## the construction paths -/

/-- **the exception is a function of (decoded text, file name)**: the construction paths, whatever URI and
    magic-comment flag they pass on, end with the same exception fields.  This statement is *definitional* (`rfl`):
    the model has, like the code, the single entry `_compile`, and `compileError` ignores `uri` and the flag by
    construction – it records that reading of the code, nothing more.  The content about paths is in
    `path_independent_all_paths` / `path_independent_reload_of` (what `TemplateLookup._check` may do to the
    exception on the reload path, tied to `mako/lookup.py` by `reload_converts_no_compile_error`) and in the
    seven-path comparison of the harness oracle. -/
theorem path_independent (cfg : Cfg) (ck : Checks) (p1 p2 : Path) (text : Str) (filename : Option Str) (uri1 uri2 : Str) :
    constructError cfg ck p1 text filename uri1 = constructError cfg ck p2 text filename uri2 := rfl

/-- the regenerated fact about `TemplateLookup._check` / `_load` (mako/lookup.py): the reload of a changed file
    converts only exceptions that are no compile errors (`OSError`), and `_load` re-raises what `Template(...)`
    raises.  A widened handler breaks this obligation by name. -/
theorem reload_converts_no_compile_error :
    Generated.ErrPos.checkConverts.any catchesCompileError = false ∧ Generated.ErrPos.loadReraises = true := by decide

/-- **… also when the template is re-compiled by a lookup that has already served an older version of the file**
    (`get_template` → `_check` → `_load`, with or without a module directory): the caller sees the very
    SyntaxException / CompileException of the direct compilation – for every handler list of `_check` that cannot
    catch a compile error … -/
theorem path_independent_reload_of (handlers : List String) (reraises : Bool)
    (hh : handlers.any catchesCompileError = false) (hr : reraises = true)
    (cfg : Cfg) (ck : Checks) (p1 p2 : Path) (text : Str) (filename : Option Str) (uri1 uri2 : Str) :
    constructOutcomeWith handlers reraises cfg ck p1 text filename uri1
      = constructOutcomeWith handlers reraises cfg ck p2 text filename uri2 := by
  have key : ∀ (p : Path) (uri : Str), constructOutcomeWith handlers reraises cfg ck p text filename uri
      = (compileError cfg ck text filename uri false).map Raised.compileError := by
    intro p uri
    have hc : ∀ e, throughCheck handlers reraises e = Raised.compileError e := by
      intro e; simp [throughCheck, hh, hr]
    cases p <;> simp only [constructOutcomeWith, constructError, compileError, hc]
    · congr 1; funext e; exact hc e
  rw [key p1 uri1, key p2 uri2]
  rfl

example : ["OSError"].any catchesCompileError = false := by decide

/-- … in particular for the code in /repo -/
theorem path_independent_all_paths (cfg : Cfg) (ck : Checks) (p1 p2 : Path) (text : Str) (filename : Option Str)
    (uri1 uri2 : Str) :
    constructOutcome cfg ck p1 text filename uri1 = constructOutcome cfg ck p2 text filename uri2 :=
  path_independent_reload_of _ _ reload_converts_no_compile_error.1 reload_converts_no_compile_error.2
    cfg ck p1 p2 text filename uri1 uri2

/-- a `_check` whose handler is widened to `except Exception` hides the compile error of a reloaded template
    behind `TemplateLookupException`, while a fresh lookup still shows it -/
theorem path_independent_reload_counterexample :
    constructOutcomeWith ["Exception"] true Cfg.fixed ⟨fun _ => none, fun _ => none⟩ (.reload false) (lit "a\n${x") none []
      = some .converted
    ∧ constructOutcomeWith ["Exception"] true Cfg.fixed ⟨fun _ => none, fun _ => none⟩ .lookup (lit "a\n${x") none []
      = some (.compileError ⟨.syntaxException, 2, 1, none, lit "a\n${x"⟩) := by decide +kernel

/-- … and it names the template: `filename` and `source` are the caller's -/
theorem error_names_template (cfg : Cfg) (ck : Checks) (path : Path) (text : Str) (filename : Option Str) (uri : Str)
    (e : ExcFields) (h : constructError cfg ck path text filename uri = some e) :
    e.filename = filename ∧ e.source = text := by
  unfold constructError compileError at h
  simp only at h
  split at h
  · cases h; exact ⟨rfl, rfl⟩
  · split at h
    · cases h; exact ⟨rfl, rfl⟩
    · cases h
    · split at h
      · cases h; exact ⟨rfl, rfl⟩
      · cases h

example : (constructError Cfg.fixed ⟨fun _ => none, fun _ => none⟩ .moduleDir (lit "a\n${x") (some (lit "/t.html")) (lit "t.html"))
    = some ⟨.syntaxException, 2, 1, some (lit "/t.html"), lit "a\n${x"⟩ := by decide +kernel

end MakoModel.C11
