import MakoModel.Namespace.LogInv
import MakoModel.Generated.NsFlow
import MakoModel.Props.C09
/-!
# C07 – namespaces and includes reach other templates with the right context and URI

Theorems about the model `MakoModel/Namespace/Model.lean` (all template sets, URIs, association lists, heaps).
Where the code has a defect w.r.t. the property the model has it too: the full statement is refuted by a
`…_counterexample` and a `…_partial` theorem carries the guard.  OPEN (recorded in `known_findings.json`):

* F-C07-1 `star_import_value_partial` / `star_import_value_counterexample` – `import="*"` lets a def of the file shadow a
  def written inside the tag;
* F-C07-3 `local_api_relative_to_module_partial` / `…_counterexample` – `local` inside the defs of a `<%namespace>` tag of
  the base-most template of an inheritance chain is the inheriting template;
* F-C07-5 `lookup_normalised_partial` / `…_counterexample` – `put_string` entries are matched by the exact spelling;
* F-C07-6 `ns_getattr_is_chain` (guard `key ∉ reservedAttrs`) / `ns_member_unreachable_for_every_reserved_name`,
  `ns_member_reachable_counterexample` – defs named like attributes of the `Namespace` classes.  Naming: here the guarded
  statement and the refutation do not follow the `_partial`/`_counterexample` convention – `ns_getattr_is_chain` *is* the
  guarded (partial) form, and `ns_member_unreachable_for_every_reserved_name` is the universal form of the refutation
  (it holds for every reserved name, set and heap, not just on a witness); `ns_member_reachable_counterexample` is the
  concrete witness;
* F-C07-7 `get_namespace_context_partial` / `…_counterexample` – `get_namespace()` keeps the caller's `parent`/`next`;
* F5 `namespace_of_tag_partial` / `…_counterexample` – the per-render namespace cache is keyed by the non-injective module id.

Everything else is proved without guard, in the sections below:
lookup order (`ns_inline_first` … `ns_lookup_order`, `ns_lookup_order_first_hit`, `ns_lookup_order_miss`); `import=` ahead of
the context in the plain and the `strict_undefined` code path (`import_shadows_context`, `import_wins_over_any_context`,
`import_shadows_context_strict`, `strict_undefined_name_error`, `import_named_is_getattr`); `import="*"` (`star_import_set…`,
`star_import_populate`); include arguments (`include_args_first_then_context`, `include_never_passes_context`,
`include_only_callee_parameters`, `include_page_arg_source`); include independence (`clean_drops_inheritance_tokens`,
`include_is_independent`, `include_starts_from_clean_context`); URIs (`adjust_absolute`, `adjust_relative`, `join_relative`,
`adjust_no_caller`, `adjust_total`, `resolveChain_snoc`, `include_tag_relative_to_module`, `uri_relative_to_caller`,
`api_relative_to_receiver`, `get_namespace_copies_context`, `get_namespace_memo_keyed_by_receiver`); unresolvable URIs
(`unresolvable_raises_lookup_exception`, `empty_uri_raises_lookup_exception`, `include_unresolvable_raises`,
`namespace_unresolvable_raises`); containment (`escaping_uri_raises_lookup_exception`, `served_file_is_below_root`, using
C09's `lookup_contained_normalised`); defs written inside `<%namespace>` (`inline_def_runs`,
`inline_def_name_is_context_lookup`).

Regenerated facts (Generated/NsFlow.lean) pinned by named obligations: `codegen_import_first_obligation` (both import
branches of `write_variable_declares`), `include_call_sites_obligation` (both call sites of `_include_file`).  **No**
regenerated flag of C07 pins the order *normalise, then `startswith("..")`* inside `Template.__init__`'s URI check, which
`templateCheck` transcribes: C09's `uri_check_unconditional_and_first` (Generated/PathCfg.lean, regenerated on a C07 run as
well because this file imports Props/C09) pins the *position* of the check, and the *behaviour* is pinned by the
correspondence streams (`corr.render` with files planted outside the lookup directories) and the oracle's escaping URIs.
-/
namespace MakoModel.C07
open MakoModel.Namespace MakoModel.Path

/-! ## lookup order of a namespace: inline defs → file/module members → inherited -/

/-- One namespace: a def written inside the `<%namespace>` tag wins, whatever the file or module offers. -/
theorem ns_inline_first (S : TSet) (o : NsObj) (key : Str) (r : CodeRef) (c : Nat)
    (h : alookup key o.callables = some (r, c)) : levelFind S o key = some (.ok (.code r c)) := by
  simp [levelFind, h]

/-- … otherwise the template's own `render_<key>` (its top-level defs, named blocks, `body`), bound to the namespace's context. -/
theorem ns_template_member_second (S : TSet) (o : NsObj) (key u : Str) (t : Template)
    (h : alookup key o.callables = none) (hk : o.kind = .tmpl u) (ht : setLookup S u = .found t)
    (hd : t.hasDef key = true) : levelFind S o key = some (.ok (.code ⟨u, selOf key⟩ o.ctx)) := by
  simp [levelFind, h, hk, ht, hd]

/-- … or the module's function of that name. -/
theorem ns_module_member_second (S : TSet) (o : NsObj) (key m tag : Str) (pm : PyMod)
    (h : alookup key o.callables = none) (hk : o.kind = .module m) (hm : modLookup S m = some pm)
    (hd : memLookup key pm.members = some (.fn, tag)) : levelFind S o key = some (.ok (.modfn tag)) := by
  simp [levelFind, h, hk, hm, hd]

/-- `ns_lookup_order`: along a chain of `inherits` of any length the answer is that of the first namespace that has the
name inline or as a member; if none has it, `AttributeError`. -/
theorem ns_lookup_order (S : TSet) (s : St) (key : Str) (id : Nat) (os : List NsObj) (h : Chain s id os)
    (fuel : Nat) (hf : os.length ≤ fuel) :
    getattrChain S s fuel id key = chainFind S key os :=
  getattrChain_eq_chainFind S s key h fuel hf

/-- the first `j` levels do not have the name, level `j` has it: level `j` answers -/
theorem ns_lookup_order_first_hit (S : TSet) (key : Str) (pre : List NsObj) (o : NsObj) (post : List NsObj)
    (r : Except Err Value) (hpre : ∀ p ∈ pre, levelFind S p key = none) (ho : levelFind S o key = some r) :
    chainFind S key (pre ++ o :: post) = r := by
  induction pre with
  | nil => simp [chainFind, ho]
  | cons p ps ih =>
    have hp := hpre p (by simp)
    simp only [List.cons_append, chainFind, hp]
    exact ih fun q hq => hpre q (by simp [hq])

/-- no level has the name: `AttributeError` -/
theorem ns_lookup_order_miss (S : TSet) (key : Str) (os : List NsObj) (h : ∀ p ∈ os, levelFind S p key = none) :
    chainFind S key os = .error .attr := by
  induction os with
  | nil => rfl
  | cons p ps ih =>
    simp only [chainFind, h p (by simp)]
    exact ih fun q hq => h q (by simp [hq])

/-- `getattr(ns, key)` for an ordinary name on a namespace without `inheritable` attributes is the chain lookup -/
theorem ns_getattr_is_chain (S : TSet) (s : St) (key : Str) (id : Nat) (os : List NsObj) (h : Chain s id os)
    (hlen : os.length ≤ s.nss.length + 1) (hattr : s.attrs.find? (·.1 = (id, key)) = none)
    (hres : key ∉ reservedAttrs) : nsGetattr S s id key = chainFind S key os := by
  simp only [nsGetattr, hattr, hres, if_false]
  exact getattrChain_eq_chainFind S s key h _ hlen

/-- non-vacuity: a two-level chain where the name is found at the second level only -/
example : ∃ (S : TSet) (s : St) (os : List NsObj), Chain s 0 os ∧ os.length = 2 ∧
    chainFind S "foo".toList os = .ok (.code ⟨"/b".toList, .defn "foo".toList⟩ 1) := by
  refine ⟨⟨[("/a".toList, ⟨[], none, [], [], []⟩), ("/b".toList, ⟨[], none, [], [⟨"foo".toList, false, []⟩], []⟩)], [], [], [], false, false⟩,
    ⟨[], [⟨[], .tmpl "/a".toList, [], some 1, 0⟩, ⟨[], .tmpl "/b".toList, [], none, 1⟩], [], [], [], []⟩,
    [⟨[], .tmpl "/a".toList, [], some 1, 0⟩, ⟨[], .tmpl "/b".toList, [], none, 1⟩], ?_, rfl, ?_⟩
  · exact .cons rfl rfl (.last rfl rfl)
  · decide

/-! ## `import=`: imported names shadow context variables -/

/-- `import_shadows_context`: a name that is neither a page argument, a def of the template nor a namespace is looked up
in `_import_ns` first and in the context second (`_import_ns.get(x, context.get(x, UNDEFINED))`). -/
theorem import_shadows_context (env : Env) (c : Ctx) (x : Str) (d : List (Str × Value))
    (h1 : ¬ (env.isBody = true ∧ x ∈ env.t.pageNames)) (h2 : x ∉ env.localDefs) (h3 : x ∉ env.t.nsNames)
    (himp : env.imp = some d) :
    resolveName env c x = match alookup x d with
      | some v => v
      | none => ctxGet c x := by
  simp only [resolveName, h1, h2, h3, himp, if_false]
  rfl

/-- in particular an imported name has the imported value whatever the context holds -/
theorem import_wins_over_any_context (env : Env) (c c' : Ctx) (x : Str) (d : List (Str × Value)) (v : Value)
    (h1 : ¬ (env.isBody = true ∧ x ∈ env.t.pageNames)) (h2 : x ∉ env.localDefs) (h3 : x ∉ env.t.nsNames)
    (himp : env.imp = some d) (hx : alookup x d = some v) :
    resolveName env c x = v ∧ resolveName env c' x = v := by
  simp [import_shadows_context env _ x d h1 h2 h3 himp, hx]

/-- the same order in the `strict_undefined` code path: the declaration of a name that `_import_ns` has succeeds whatever
the context holds (the context is not even consulted) … -/
theorem import_shadows_context_strict (S : TSet) (fuel : Nat) (tu : Str) (t : Template) (cid : Nat)
    (skip localDefs : List Str) (d : List (Str × Value)) (x : Str) (v : Value) (acc : List (Str × Nat)) (st : St) (c : Ctx)
    (hs : S.strict = true) (h1 : x ∉ skip) (h2 : x ∉ localDefs) (h3 : x ∉ t.nsNames) (hc : st.ctxs[cid]? = some c)
    (hx : alookup x d = some v) (hv : v ≠ .undefined) :
    declareVars S fuel tu t cid skip localDefs (some d) [x] acc st = .ok acc st := by
  simp [declareVars, h1, h2, h3, hs, getCtx, hc, hx, hv]

/-- … a name that only the context has is accepted too, and a name neither has raises `NameError` at the declaration -/
theorem strict_undefined_name_error (S : TSet) (fuel : Nat) (tu : Str) (t : Template) (cid : Nat)
    (skip localDefs : List Str) (d : List (Str × Value)) (x : Str) (acc : List (Str × Nat)) (st : St) (c : Ctx)
    (hs : S.strict = true) (h1 : x ∉ skip) (h2 : x ∉ localDefs) (h3 : x ∉ t.nsNames) (hc : st.ctxs[cid]? = some c)
    (hx : alookup x d = none) :
    declareVars S fuel tu t cid skip localDefs (some d) [x] acc st =
      if ctxGet c x = .undefined then .err .name st else .ok acc st := by
  by_cases h : ctxGet c x = .undefined <;> simp [declareVars, h1, h2, h3, hs, getCtx, hc, hx, h]

/-- named obligation on the regenerated shape of `write_variable_declares` (mako/codegen.py): both the plain and the
`strict_undefined` branch ask `_import_ns` before the context, and the strict one raises `NameError` -/
theorem codegen_import_first_obligation :
    Generated.NsFlow.nonStrictImportFirst = true ∧ Generated.NsFlow.strictImportFirst = true ∧
    Generated.NsFlow.strictRaisesNameError = true := by decide

example : ∃ (S : TSet) (t : Template) (d : List (Str × Value)) (x : Str) (st : St) (c : Ctx), S.strict = true ∧
    x ∉ t.nsNames ∧ st.ctxs[0]? = some c ∧ alookup x d = some (.modfn "m".toList) ∧ ctxGet c x = .val (.obj "ctx".toList) :=
  ⟨⟨[], [], [], [], true, false⟩, ⟨[], none, [], [], []⟩, [("x".toList, .modfn "m".toList)], "x".toList,
   ⟨[⟨[("x".toList, .obj "ctx".toList)], none, none, none, none⟩], [], [], [], [], []⟩, _, rfl, by decide, rfl, by decide, by decide⟩

/-- a named import `import="x"` binds `x` to `getattr(ns, x)` -/
theorem import_named_is_getattr (S : TSet) (id : Nat) (x : Str) (d : List (Str × Value)) (s : St) (v : Value)
    (hx : x ≠ ['*']) (hv : nsGetattr S s id x = .ok v) :
    populate S id [x] d s = .ok ((x, v) :: d) s := by
  simp [populate, hx, getattrM, hv]

example : ∃ (env : Env) (c : Ctx) (x : Str) (d : List (Str × Value)),
    ¬ (env.isBody = true ∧ x ∈ env.t.pageNames) ∧ x ∉ env.localDefs ∧ x ∉ env.t.nsNames ∧ env.imp = some d ∧
    alookup x d = some (.modfn "m".toList) ∧ ctxGet c x = .val (.obj "ctx".toList) :=
  ⟨⟨[], ⟨[], none, [], [], []⟩, 0, [], some [("x".toList, .modfn "m".toList)], [], true, [], none⟩,
    ⟨[("x".toList, .obj "ctx".toList)], none, none, none, none⟩, "x".toList, _, by decide, by decide, by decide, rfl,
    by decide, by decide⟩

/-! ## `import="*"` -/

/-- `star_import_set`: the names `*` imports are the defs written inside the tag followed by the template's exported
defs and named blocks (`_exports`; not `body`) … -/
theorem star_import_set_template (S : TSet) (o : NsObj) (u : Str) (t : Template) (hk : o.kind = .tmpl u)
    (ht : setLookup S u = .found t) :
    (getStar S o).map (·.1) = o.callables.map (·.1) ++ t.exports := by
  simp [getStar, hk, ht, Function.comp_def]

/-- … or the module's public functions (name not starting with `_`, callable) … -/
theorem star_import_set_module (S : TSet) (o : NsObj) (m : Str) (pm : PyMod) (hk : o.kind = .module m)
    (hm : modLookup S m = some pm) :
    (getStar S o).map (·.1) = o.callables.map (·.1) ++
      (pm.members.filter fun (k, kind, _) => k.head? ≠ some '_' ∧ kind = .fn).map (·.1) := by
  simp only [getStar, hk, hm, List.map_append, List.map_map]
  congr 1
  induction pm.members with
  | nil => rfl
  | cons h r ih =>
    obtain ⟨k, kind, tag⟩ := h
    by_cases hp : k.head? ≠ some '_' ∧ kind = .fn
    · simp [hp, ih]
    · simp [hp, ih]

/-- … and nothing but the inline defs for a namespace without file or module. -/
theorem star_import_set_plain (S : TSet) (o : NsObj) (hk : o.kind = .plain) :
    (getStar S o).map (·.1) = o.callables.map (·.1) := by
  simp [getStar, hk, Function.comp_def]

/-- `star_import_set`, all kinds at once: the defs written inside the tag, then `starMembers` -/
theorem star_import_set (S : TSet) (o : NsObj) :
    (getStar S o).map (·.1) = o.callables.map (·.1) ++ starMembers S o := by
  unfold starMembers
  cases hk : o.kind with
  | tmpl u =>
    cases ht : setLookup S u with
    | found t => simpa [ht] using star_import_set_template S o u t hk ht
    | notFound => simp [getStar, hk, ht, Function.comp_def]
    | invalid => simp [getStar, hk, ht, Function.comp_def]
  | module m =>
    cases hm : modLookup S m with
    | some pm => simpa [hm] using star_import_set_module S o m pm hk hm
    | none => simp [getStar, hk, hm, Function.comp_def]
  | plain => simpa using star_import_set_plain S o hk

/-- `populate` with `*` updates the dictionary with these pairs in order -/
theorem star_import_populate (S : TSet) (id : Nat) (o : NsObj) (d : List (Str × Value)) (s : St)
    (ho : s.nss[id]? = some o) :
    populate S id [['*']] d s = .ok (dictUpdate d (getStar S o)) s := by
  simp [populate, getNs, ho]

/-- `star_import_value_partial`: the value `*` gives a name is the one `ns.<name>` has (inline def first), **provided no
def written inside the tag has the name of an exported def of the file** (guard; see the counterexample). -/
theorem star_import_value_partial (S : TSet) (o : NsObj) (u : Str) (t : Template) (d : List (Str × Value))
    (hk : o.kind = .tmpl u) (ht : setLookup S u = .found t)
    (hnd : (o.callables.map (·.1)).Nodup) (hne : t.exports.Nodup)
    (guard : ∀ k ∈ o.callables.map (·.1), k ∉ t.exports)
    (k : Str) (hkin : k ∈ o.callables.map (·.1) ++ t.exports) :
    (alookup k (dictUpdate d (getStar S o))).map Except.ok = levelFind S o k := by
  have hstar : getStar S o = o.callables.map (fun (k, r, c) => (k, Value.code r c)) ++
      t.exports.map (fun k => (k, Value.code ⟨u, selOf k⟩ o.ctx)) := by simp [getStar, hk, ht]
  have hkeys : ((getStar S o).map (·.1)).Nodup := by
    rw [star_import_set_template S o u t hk ht]
    exact List.nodup_append.2 ⟨hnd, hne, fun a ha b hb hab => guard a ha (hab ▸ hb)⟩
  rw [dictUpdate_lookup, alookup_reverse_nodup _ _ hkeys, hstar, alookup_append]
  have hinl : ∀ l : List (Str × CodeRef × Nat),
      alookup k (l.map (fun (k, r, c) => (k, Value.code r c))) = (alookup k l).map fun (r, c) => Value.code r c := by
    intro l
    induction l with
    | nil => rfl
    | cons h r ih =>
      obtain ⟨a, b, c⟩ := h
      by_cases hak : a = k <;> simp [alookup, hak, ih]
  have hexp : ∀ l : List Str, alookup k (l.map (fun k => (k, Value.code ⟨u, selOf k⟩ o.ctx))) =
      if k ∈ l then some (Value.code ⟨u, selOf k⟩ o.ctx) else none := by
    intro l
    induction l with
    | nil => rfl
    | cons a r ih =>
      by_cases hak : a = k
      · subst hak; simp [alookup]
      · have : ¬ k = a := fun h => hak h.symm
        simp [alookup, hak, ih, this]
  rw [hinl, hexp]
  cases hc : alookup k o.callables with
  | some rc =>
    obtain ⟨r, c⟩ := rc
    simp [levelFind, hc]
  | none =>
    have hnot : k ∉ o.callables.map (·.1) := (alookup_none_iff k _).1 hc
    have hex : k ∈ t.exports := by
      rcases List.mem_append.1 hkin with h | h
      · exact absurd h hnot
      · exact h
    have hdef : t.hasDef k = true := by simp [Template.hasDef, Template.exports] at hex ⊢; exact Or.inr hex
    simp [levelFind, hc, hk, ht, hex, hdef]

example : ∃ (S : TSet) (o : NsObj) (u : Str) (t : Template), o.kind = .tmpl u ∧ setLookup S u = .found t ∧
    (o.callables.map (·.1)).Nodup ∧ t.exports.Nodup ∧ (∀ k ∈ o.callables.map (·.1), k ∉ t.exports) ∧
    o.callables ≠ [] ∧ t.exports ≠ [] :=
  ⟨⟨[("/b".toList, ⟨[], none, [], [⟨"bar".toList, false, []⟩], []⟩)], [], [], [], false, false⟩,
   ⟨"n".toList, .tmpl "/b".toList, [("foo".toList, ⟨"/a".toList, .inline "n".toList "foo".toList⟩, 0)], none, 0⟩,
   "/b".toList, _, rfl, rfl, by decide, by decide, by decide, by decide, by decide⟩

/-- the witness of F-C07-1: `<%namespace name="n" file="/b" import="*"><%def name="foo()">…` where `/b` also defines `foo` -/
def starWitnessSet : TSet :=
  ⟨[("/b".toList, ⟨[], none, [], [⟨"foo".toList, false, []⟩], []⟩)], [], [], [], false, false⟩
def starWitnessNs : NsObj :=
  ⟨"n".toList, .tmpl "/b".toList, [("foo".toList, ⟨"/a".toList, .inline "n".toList "foo".toList⟩, 0)], none, 0⟩

/-- `star_import_value_counterexample` (F-C07-1): without the guard the statement fails – `n.foo` is the inline def, but
`import="*"` binds `foo` to the file's def, because `_get_star` yields the callables first and `_exports` last and
`_populate` lets the later pair win. -/
theorem star_import_value_counterexample :
    levelFind starWitnessSet starWitnessNs "foo".toList
      = some (.ok (.code ⟨"/a".toList, .inline "n".toList "foo".toList⟩ 0)) ∧
    alookup "foo".toList (dictUpdate [] (getStar starWitnessSet starWitnessNs))
      = some (.code ⟨"/b".toList, .defn "foo".toList⟩ 0) := by
  decide

/-! ## `<%include>`: arguments first, then the context -/

/-- `include_args_first_then_context`: `_kwargs_for_include` as a dictionary, for arbitrary association lists: an explicit
argument wins; otherwise the context value, but only for a parameter of the callee and never for `context`. -/
theorem include_args_first_then_context {β} (named : List Str) (data kw : List (Str × β)) (k : Str) :
    alookup k (kwargsForInclude named data kw) =
      match alookup k kw with
      | some v => some v
      | none => if k ∈ named ∧ k ≠ sContext then alookup k data else none :=
  kwargsForInclude_lookup named data kw k

/-- `context` is never taken from the data -/
theorem include_never_passes_context {β} (named : List Str) (data kw : List (Str × β))
    (h : alookup sContext kw = none) : alookup sContext (kwargsForInclude named data kw) = none := by
  rw [kwargsForInclude_lookup, h]; simp

/-- every keyword passed is an explicit argument or a parameter of the callee found in the context -/
theorem include_only_callee_parameters {β} (named : List Str) (data kw : List (Str × β)) (k : Str) (v : β)
    (h : alookup k (kwargsForInclude named data kw) = some v) :
    alookup k kw = some v ∨ (alookup k kw = none ∧ k ∈ named ∧ k ≠ sContext ∧ alookup k data = some v) := by
  rw [kwargsForInclude_lookup] at h
  cases hk : alookup k kw with
  | some w => rw [hk] at h; exact Or.inl h
  | none =>
    rw [hk] at h
    by_cases hc : k ∈ named ∧ k ≠ sContext
    · rw [if_pos hc] at h; exact Or.inr ⟨rfl, hc.1, hc.2, h⟩
    · rw [if_neg hc] at h; cases h

/-- what a `<%page>` argument of an included template finally is: the explicit argument, else the context value, else
its default. -/
theorem include_page_arg_source (t : Template) (data kw l : List (Str × Val)) (p : Str) (d : Option Str)
    (hb : bindPage t.pageArgs (kwargsForInclude (namedArgs t) data kw) = some l)
    (hp : alookup p t.pageArgs = some d) (hpc : p ≠ sContext) :
    alookup p l = match alookup p kw with
      | some v => some v
      | none => match alookup p data with
        | some v => some v
        | none => d.map Val.lit := by
  have hmem : p ∈ namedArgs t := by
    have := alookup_some_mem hp
    have hp' : p ∈ t.pageNames := List.mem_map.2 ⟨(p, d), this, rfl⟩
    simp [namedArgs, hp']
  rw [bindPage_lookup _ _ _ hb p, hp, kwargsForInclude_lookup]
  cases alookup p kw with
  | some v => rfl
  | none =>
    have : (p ∈ namedArgs t ∧ p ≠ sContext) := ⟨hmem, hpc⟩
    rw [if_pos this]
    cases alookup p data <;> rfl

example : ∃ (t : Template) (data kw l : List (Str × Val)),
    bindPage t.pageArgs (kwargsForInclude (namedArgs t) data kw) = some l ∧
    alookup "y".toList l = some (.lit "arg".toList) ∧ alookup "z".toList l = some (.obj "ctxz".toList) ∧
    alookup "w".toList l = some (.lit "dw".toList) :=
  ⟨⟨[("y".toList, none), ("z".toList, some "dz".toList), ("w".toList, some "dw".toList)], none, [], [], []⟩,
   [("y".toList, .obj "ctxy".toList), ("z".toList, .obj "ctxz".toList)], [("y".toList, .lit "arg".toList)],
   [("y".toList, .lit "arg".toList), ("z".toList, .obj "ctxz".toList), ("w".toList, .lit "dw".toList)],
   by decide +kernel, by decide +kernel, by decide +kernel, by decide +kernel⟩

/-! ## `<%include>` renders an independent template -/

/-- `Context._clean_inheritance_tokens`: same data, no `self`, `parent`, `next` -/
theorem clean_drops_inheritance_tokens (c : Ctx) :
    c.clean.data = c.data ∧ c.clean.self = none ∧ c.clean.parent = none ∧ c.clean.next = none :=
  ⟨rfl, rfl, rfl, rfl⟩

/-- `include_is_independent`: an include of a (non-inheriting) template `t` found at `u` runs `t`'s body in a brand-new
context that has the includer's data, a fresh namespace for `t` as both `self` and `local` (without `inherits`), and
neither `parent` nor `next` – whatever the includer's `self/parent/next` are; its keyword arguments are
`_kwargs_for_include` of `t`'s signature over the includer's data and the explicit `args`. -/
theorem include_is_independent (S : TSet) (fuel cid : Nat) (kind : EvKind) (uri : Str) (calling : Option Str)
    (args : List (Str × Str)) (s : St) (u : Str) (t : Template) (c : Ctx)
    (hadj : adjustUri uri calling = some u) (hfound : setLookup S u = .found t) (hc : s.ctxs[cid]? = some c)
    (hinh : t.inherit = none) :
    includeFile S (fuel + 2) cid kind uri calling args s =
      execCode S (fuel + 1) ⟨u, .body⟩ s.ctxs.length
        (kwargsForInclude (namedArgs t) c.data (args.map fun (k, v) => (k, Val.lit v)))
        { s with
          ctxs := s.ctxs ++ [⟨c.data, some s.nss.length, some s.nss.length, none, none⟩]
          nss := s.nss ++ [⟨selfName u, .tmpl u, [], none, s.ctxs.length⟩]
          log := ⟨kind, calling, uri, u, true⟩ :: s.log } := by
  simp [includeFile, lookupTemplate, hadj, hfound, getCtx, hc, newCtx, populateSelf, newNs, setCtx, modifySt, hinh,
    modify_append_last, Ctx.clean]

/-- named obligation on the regenerated shape of `_include_file` (mako/runtime.py): `_populate_self_namespace` gets the
cleaned copy, and **both** call sites of the target's render callable (inside `try:` when the template has an
`include_error_handler`, and the plain one) pass the context it returned, never the includer's; the keyword arguments
are computed from the includer's data.  (`include_is_independent` above does not depend on `S.ieh`.) -/
theorem include_call_sites_obligation :
    Generated.NsFlow.includeCleansTokens = true ∧ Generated.NsFlow.includeCallSites = 2 ∧
    Generated.NsFlow.includeCallSitesUseCleanContext = true ∧ Generated.NsFlow.includeKwargsFromIncluderData = true := by
  decide

/-- for any target (inheriting or not) the chain is built by `_populate_self_namespace` from a *cleaned copy* of the
includer's context and with no `self` namespace given -/
theorem include_starts_from_clean_context (S : TSet) (fuel cid : Nat) (kind : EvKind) (uri : Str)
    (calling : Option Str) (args : List (Str × Str)) (s : St) (u : Str) (t : Template) (c : Ctx)
    (hadj : adjustUri uri calling = some u) (hfound : setLookup S u = .found t) (hc : s.ctxs[cid]? = some c) :
    includeFile S (fuel + 1) cid kind uri calling args s =
      match populateSelf S fuel s.ctxs.length u t none
          { s with ctxs := s.ctxs ++ [c.clean], log := ⟨kind, calling, uri, u, true⟩ :: s.log } with
      | .ok (callable, lcid) s' =>
        match setLookup S callable.tu with
        | .found bt =>
          execCode S fuel callable lcid (kwargsForInclude (namedArgs bt) c.data (args.map fun (k, v) => (k, Val.lit v))) s'
        | _ => .err .internal s'
      | .err e s' => .err e s' := by
  simp only [includeFile, lookupTemplate, hadj, hfound, bind_apply, getCtx, hc, newCtx]
  cases populateSelf S fuel s.ctxs.length u t none _ with
  | ok r s' =>
    obtain ⟨callable, lcid⟩ := r
    simp only
    cases setLookup S callable.tu <;> simp
  | err e s' => rfl

example : ∃ (S : TSet) (s : St) (c : Ctx) (t : Template), s.ctxs[0]? = some c ∧ c.parent = some 1 ∧ c.next = some 2 ∧
    adjustUri "t.html".toList (some "/a/x.html".toList) = some "/a/t.html".toList ∧
    setLookup S "/a/t.html".toList = .found t ∧ t.inherit = none :=
  ⟨⟨[("/a/t.html".toList, ⟨[], none, [], [], []⟩)], [], [], [], false, false⟩, ⟨[⟨[], some 0, some 0, some 1, some 2⟩], [], [], [], [], []⟩,
   ⟨[], some 0, some 0, some 1, some 2⟩, ⟨[], none, [], [], []⟩, rfl, rfl, rfl, by decide +kernel, by decide +kernel, rfl⟩

/-! ## URIs are relative to the template they are written in -/

/-- `uri_relative_to_caller` (1): an absolute URI is taken as it is -/
theorem adjust_absolute (r : Str) (rel : Option Str) : adjustUri ('/' :: r) rel = some ('/' :: r) := by
  simp [adjustUri]

/-- (2): a relative one (the empty string included) is joined to the directory of the calling template's URI … -/
theorem adjust_relative (u caller : Str) (h : u.head? ≠ some '/') :
    adjustUri u (some caller) = some (joinPath (dirname caller) u) := by
  simp [adjustUri, h]

/-- … which is `dirname caller ++ uri` when that directory is empty or ends with a slash, else `dirname caller / uri` -/
theorem join_relative (d : Str) (c : Char) (r : Str) (h : c ≠ '/') :
    joinPath d (c :: r) = if d = [] ∨ d.getLast? = some '/' then d ++ c :: r else d ++ '/' :: c :: r := by
  simp [joinPath, h]

/-- (3): without a calling template it is made absolute -/
theorem adjust_no_caller (u : Str) (h : u.head? ≠ some '/') : adjustUri u none = some ('/' :: u) := by
  simp [adjustUri, h]

/-- `adjust_uri` is total (the empty string takes the relative branch) -/
theorem adjust_total (u : Str) (rel : Option Str) : ∃ v, adjustUri u rel = some v := by
  unfold adjustUri
  split
  · exact ⟨_, rfl⟩
  · cases rel <;> exact ⟨_, rfl⟩

/-- a chain of includes: `rs` are the raw URIs written in the successive templates -/
def resolveChain : Str → List Str → Option Str
  | u, [] => some u
  | u, r :: rs => (adjustUri r (some u)).bind fun u' => resolveChain u' rs

/-- composition: the last URI of a chain of any depth is resolved against the URI the previous step produced, i.e. the
URI of the template it is written in – never against an earlier includer -/
theorem resolveChain_snoc (u : Str) (rs : List Str) (r : Str) :
    resolveChain u (rs ++ [r]) = (resolveChain u rs).bind fun u' => adjustUri r (some u') := by
  induction rs generalizing u with
  | nil => simp [resolveChain]
  | cons a t ih =>
    simp only [List.cons_append, resolveChain]
    cases adjustUri a (some u) with
    | none => rfl
    | some u' => simp [ih]

/-- the interpreter does just that: an `<%include>` in code of module `tu` asks for `uri` relative to `tu` … -/
theorem include_tag_relative_to_module (S : TSet) (fuel : Nat) (env : Env) (uri : Str) (args : List (Str × Str)) :
    execItem S (fuel + 1) env (.incl uri args) = includeFile S fuel env.ctx .incl uri (some env.tu) args := by
  simp [execItem]

/-- … and whatever code runs next belongs to the module of the *resolved* URI (see `include_is_independent`: the callee is
`⟨u, .body⟩`), so that by induction every level resolves against its own URI.  The statement for whole renders:

`uri_relative_to_caller`: in the log of **any** render (any template set, any entry, any context, any depth of nesting)
every `_lookup_template` event was resolved by `adjust_uri(raw, relativeto)`, found iff the set has the adjusted URI,
and the event of an `<%include>`, `<%namespace file=>` or `<%inherit>` tag has as `relativeto` the URI of a template of
the set whose text contains that very tag. -/
theorem uri_relative_to_caller (S : TSet) (fuel : Nat) (entry : Str) (data : List (Str × Val)) :
    ∀ e ∈ (render S fuel entry data St.empty).st.log,
      adjustUri e.raw e.rel = some e.resolved ∧
      (e.found = true ↔ ∃ t, setLookup S e.resolved = .found t) ∧
      (e.kind ≠ .api → ∃ tu t, e.rel = some tu ∧ setLookup S tu = .found t ∧ TagIn e.kind e.raw t) :=
  fun e he => render_log_sound S fuel entry data e he

/-- API calls resolve against the `_templateuri` of the namespace they are called on -/
theorem api_relative_to_receiver (S : TSet) (fuel id : Nat) (uri : Str) (s : St) (o : NsObj) (c : Ctx)
    (hcache : s.cache.find? (·.1 = CacheKey.api id uri) = none) (ho : s.nss[id]? = some o)
    (hc : s.ctxs[o.ctx]? = some c) (hun : ∀ u, adjustUri uri o.turi = some u → ∀ t, setLookup S u ≠ .found t) :
    ∃ u s', adjustUri uri o.turi = some u ∧ getNsApi S fuel id uri s = .err .lookup s' ∧
      s'.log = ⟨.api, o.turi, uri, u, false⟩ :: s.log := by
  cases hadj : adjustUri uri o.turi with
  | none => obtain ⟨v, hv⟩ := adjust_total uri o.turi; rw [hv] at hadj; cases hadj
  | some u =>
    refine ⟨u, { s with ctxs := s.ctxs ++ [c], log := ⟨.api, o.turi, uri, u, false⟩ :: s.log }, rfl, ?_, rfl⟩
    simp only [getNsApi, bind_apply, cacheGet, hcache, Option.map_none, getNs, ho, getCtx, hc, newCtx, lookupTemplate,
      hadj]
    cases hl : setLookup S u with
    | found t => exact absurd hl (hun u hadj t)
    | notFound => rfl
    | invalid => rfl

/-! ## an unresolvable URI raises `TemplateLookupException` -/

/-- `unresolvable_raises_lookup_exception`: `_lookup_template` of **any** URI (the empty one included)
that the set cannot serve raises `TemplateLookupException` (the `TopLevelLookupException` of `get_template` is wrapped),
leaving the output untouched. -/
theorem unresolvable_raises_lookup_exception (S : TSet) (kind : EvKind) (raw : Str) (rel : Option Str) (s : St)
    (hun : ∀ u, adjustUri raw rel = some u → ∀ t, setLookup S u ≠ .found t) :
    ∃ s', lookupTemplate S kind raw rel s = (.err .lookup s' : Res (Str × Template)) ∧ s'.out = s.out := by
  obtain ⟨u, hadj⟩ := adjust_total raw rel
  simp only [lookupTemplate, hadj]
  cases hl : setLookup S u with
  | found t => exact absurd hl (hun u hadj t)
  | notFound => exact ⟨_, rfl, rfl⟩
  | invalid => exact ⟨_, rfl, rfl⟩

/-- in particular the empty URI written in `/sub/a.html`: it is looked up as `/sub/` and not found -/
theorem empty_uri_raises_lookup_exception (S : TSet) (kind : EvKind) (s : St)
    (h : ∀ t, setLookup S "/sub/".toList ≠ .found t) :
    ∃ s', lookupTemplate S kind [] (some "/sub/a.html".toList) s = (.err .lookup s' : Res (Str × Template)) :=
  have hadj : adjustUri [] (some "/sub/a.html".toList) = some "/sub/".toList := by decide +kernel
  let ⟨s', h1, _⟩ := unresolvable_raises_lookup_exception S kind [] (some "/sub/a.html".toList) s
    (fun u hu t => by rw [hadj] at hu; cases hu; exact h t)
  ⟨s', h1⟩

/-- the same seen from an `<%include>` tag in running code -/
theorem include_unresolvable_raises (S : TSet) (fuel : Nat) (env : Env) (uri : Str) (args : List (Str × Str)) (s : St)
    (hun : ∀ u, adjustUri uri (some env.tu) = some u → ∀ t, setLookup S u ≠ .found t) :
    ∃ s', execItem S (fuel + 2) env (.incl uri args) s = .err .lookup s' ∧ s'.out = s.out := by
  obtain ⟨s', h1, h2⟩ := unresolvable_raises_lookup_exception S .incl uri (some env.tu) s hun
  exact ⟨s', by simp [execItem, includeFile, h1], h2⟩

/-- … and from a `<%namespace file=…>` tag when the module's namespaces are generated -/
theorem namespace_unresolvable_raises (S : TSet) (fuel : Nat) (tu : Str) (cid : Nat) (tag : NsTag) (rest : List NsTag)
    (f : Str) (s : St) (c : Ctx) (hsrc : tag.src = .file f) (hc : s.ctxs[cid]? = some c)
    (hun : ∀ u, adjustUri f (some tu) = some u → ∀ t, setLookup S u ≠ .found t) :
    ∃ s', genNs S (fuel + 1) tu cid (tag :: rest) s = .err .lookup s' ∧ s'.out = s.out := by
  obtain ⟨s', h1, h2⟩ := unresolvable_raises_lookup_exception S .nstag f (some tu)
    { s with ctxs := s.ctxs ++ [c.clean] } hun
  exact ⟨s', by simp [genNs, getCtx, hc, newCtx, hsrc, h1], h2⟩

example : ∃ (S : TSet) (raw : Str) (rel : Option Str),
    ∀ u, adjustUri raw rel = some u → ∀ t, setLookup S u ≠ .found t :=
  ⟨⟨[], [], [], [], false, false⟩, [], some "/a/b.html".toList, fun u _ t h => by simp [setLookup, alookup, dirLookup] at h⟩

/-! ## resolution stays inside the lookup directories -/

/-- `escaping_uri_raises_lookup_exception`: a URI that `Template.__init__`'s check rejects (after normalisation it starts
with `..`: `dir/../../x` from any depth, `/d/../../x`) and that is not a `put_string` key is never served – whatever files
exist above the root or in sibling directories – so `_lookup_template` raises `TemplateLookupException`. -/
theorem escaping_uri_raises_lookup_exception (S : TSet) (kind : EvKind) (raw : Str) (rel : Option Str) (s : St) (u : Str)
    (hadj : adjustUri raw rel = some u) (hcoll : alookup u S.coll = none) (hesc : templateCheck u = false) :
    ∃ s', lookupTemplate S kind raw rel s = (.err .lookup s' : Res (Str × Template)) ∧ s'.out = s.out := by
  refine unresolvable_raises_lookup_exception S kind raw rel s fun v hv t hf => ?_
  rw [hadj] at hv; cases hv
  have hd : ∀ ds, dirLookup S.files u ds ≠ .found t := by
    intro ds
    induction ds with
    | nil => simp [dirLookup]
    | cons d ds ih =>
      simp only [dirLookup, hesc]
      cases alookup (uriToSrc d u) S.files with
      | some t' => simp
      | none => exact ih
  simp only [setLookup, hcoll] at hf
  exact hd _ hf

/-- `served_file_is_below_root`: a template served from the directories (not a `put_string` entry) is a file the URI
denotes under one of them, the URI passed the check, and (C09 `lookup_contained_normalised`) that file is the directory
itself or a path below it, component-wise. -/
theorem served_file_is_below_root (S : TSet) (u : Str) (t : Template) (hcoll : alookup u S.coll = none)
    (hf : setLookup S u = .found t) (hdirs : ∀ d ∈ S.dirs, normpath d = d) :
    ∃ d ∈ S.dirs, alookup (uriToSrc d u) S.files = some t ∧ templateCheck u = true ∧ Below d (uriToSrc d u) := by
  simp only [setLookup, hcoll] at hf
  have h : ∀ ds : List Str, (∀ d ∈ ds, normpath d = d) → dirLookup S.files u ds = .found t →
      ∃ d ∈ ds, alookup (uriToSrc d u) S.files = some t ∧ templateCheck u = true ∧ Below d (uriToSrc d u) := by
    intro ds
    induction ds with
    | nil => intro _ h; simp [dirLookup] at h
    | cons d ds ih =>
      intro hn h
      simp only [dirLookup] at h
      cases ha : alookup (uriToSrc d u) S.files with
      | some t' =>
        rw [ha] at h
        cases hc : templateCheck u with
        | false => simp [hc] at h
        | true =>
          simp only [hc, if_true, Found.found.injEq] at h
          subst h
          exact ⟨d, List.mem_cons_self, ha, rfl,
            MakoModel.C09.lookup_contained_normalised d u (hn d List.mem_cons_self) hc⟩
      | none =>
        rw [ha] at h
        obtain ⟨d', hd', r⟩ := ih (fun x hx => hn x (List.mem_cons_of_mem _ hx)) h
        exact ⟨d', List.mem_cons_of_mem _ hd', r⟩
  exact h S.dirs hdirs hf

/-- a file planted above the root, named by `../../../outside.html` written in `/l1/l2/a.html`: rejected -/
example : ∃ (S : TSet) (u : Str), adjustUri "../../../outside.html".toList (some "/l1/l2/a.html".toList) = some u ∧
    alookup u S.coll = none ∧ templateCheck u = false ∧ (∃ d ∈ S.dirs, (alookup (uriToSrc d u) S.files).isSome) :=
  ⟨⟨[], ["/srv/r0".toList], [("/srv/outside.html".toList, ⟨[], none, [], [], []⟩)], [], false, false⟩,
   "/l1/l2/../../../outside.html".toList, by decide +kernel, rfl, by decide +kernel,
   ⟨"/srv/r0".toList, by simp, by decide +kernel⟩⟩

/-! ## which URIs are resolvable: normalisation -/

/-- `lookup_normalised_partial`: for a lookup backed by files only, two URIs that name the same file under every directory
(e.g. `/sub/../x.html` and `/x.html`) are served alike – **guard: no `put_string` entries** -/
theorem lookup_normalised_partial (S : TSet) (u u' : Str) (guard : S.coll = [])
    (hsrc : ∀ d ∈ S.dirs, uriToSrc d u = uriToSrc d u') (hchk : templateCheck u = templateCheck u') :
    setLookup S u = setLookup S u' := by
  have h : ∀ ds : List Str, (∀ d ∈ ds, uriToSrc d u = uriToSrc d u') →
      dirLookup S.files u ds = dirLookup S.files u' ds := by
    intro ds
    induction ds with
    | nil => intro _; rfl
    | cons d ds ih =>
      intro hds
      have hd : uriToSrc d u = uriToSrc d u' := hds d List.mem_cons_self
      simp only [dirLookup, hd, hchk]
      cases alookup (uriToSrc d u') S.files with
      | some t => rfl
      | none => exact ih fun d' hd' => hds d' (List.mem_cons_of_mem _ hd')
  simp only [setLookup, guard, alookup]
  exact h S.dirs hsrc

def putStringWitness : TSet := ⟨[("/x.html".toList, ⟨[], none, [], [], []⟩)], ["/r".toList], [], [], false, false⟩

/-- `lookup_normalised_counterexample` (F-C07-5): `put_string` entries are matched by the exact string, so the URI
`adjust_uri` produces for `../x.html` written in `/sub/a.html` is not found although `/x.html` is there -/
theorem lookup_normalised_counterexample :
    (∀ d ∈ putStringWitness.dirs, uriToSrc d "/sub/../x.html".toList = uriToSrc d "/x.html".toList) ∧
    templateCheck "/sub/../x.html".toList = templateCheck "/x.html".toList ∧
    adjustUri "../x.html".toList (some "/sub/a.html".toList) = some "/sub/../x.html".toList ∧
    setLookup putStringWitness "/sub/../x.html".toList = .notFound ∧
    setLookup putStringWitness "/x.html".toList = .found ⟨[], none, [], [], []⟩ := by
  decide +kernel

example : ∃ (S : TSet) (u u' : Str), S.coll = [] ∧ u ≠ u' ∧ (∀ d ∈ S.dirs, uriToSrc d u = uriToSrc d u') ∧
    templateCheck u = templateCheck u' ∧ ∃ t, setLookup S u = .found t :=
  ⟨⟨[], ["/r".toList], [("/r/x.html".toList, ⟨[], none, [], [], []⟩)], [], false, false⟩, "/sub/../x.html".toList, "/x.html".toList,
   rfl, by decide, by decide +kernel, by decide +kernel, ⟨[], none, [], [], []⟩, by decide +kernel⟩

/-! ## defs written inside `<%namespace>` and `import=` -/

/-- `inline_def_runs`: a def written inside `<%namespace>` runs its items with the names of its sibling defs and of the
module's namespaces, every other free name being read from the context – whether or not some `<%namespace>` tag of the
template has `import=` (`has_ns_imports` is recorded after these defs are generated). -/
theorem inline_def_runs (S : TSet) (fuel : Nat) (tu nsn dn : Str) (cid : Nat) (t : Template) (tag : NsTag)
    (items : List Item) (ht : setLookup S tu = .found t) (htag : t.findNs nsn = some tag)
    (hitems : alookup dn tag.inline = some items) :
    execCode S (fuel + 1) ⟨tu, .inline nsn dn⟩ cid [] =
      (do
        let nsvars ← declareVars S fuel tu t cid [] (tag.inline.map (·.1)) none (sortNames (freeNames t items)) []
        execItems S fuel ⟨tu, t, cid, [], none, nsvars, false, tag.inline.map (·.1), some nsn⟩ items) := by
  funext s
  simp only [execCode, ht, htag, hitems]

/-- inside such a def a free name is a context lookup (`imp = none`) -/
theorem inline_def_name_is_context_lookup (env : Env) (c : Ctx) (x : Str) (h0 : env.isBody = false)
    (h2 : x ∉ env.localDefs) (h3 : x ∉ env.t.nsNames) (himp : env.imp = none) :
    resolveName env c x = ctxGet c x := by
  simp [resolveName, h0, h2, h3, himp]

def s (x : String) : Str := x.toList

/-- a template with `import=` on the tag whose inline def reads a context name:
`<%namespace name="n" file="/b" import="*"><%def name="foo()">${x}</%def></%namespace>${n.foo()}` -/
def importNsWitness : TSet :=
  ⟨[(s "/a", ⟨[], none, [⟨s "n", .file (s "/b"), false, some [['*']], [(s "foo", [.name (s "x") false])]⟩], [],
      [.nscall (.ns (s "n")) (s "foo")]⟩),
    (s "/b", ⟨[], none, [], [], []⟩)], [], [], [], false, false⟩

/-- non-vacuity: it now renders the context value -/
example : (match render importNsWitness 20 (s "/a") [(s "x", .obj (s "X"))] St.empty with
    | .ok _ st => decide (output st = s "X")
    | .err _ _ => false) = true := by
  decide +kernel

/-! ## `local` in the defs of a base template's `<%namespace>` (F-C07-3) -/

/-- `local_api_relative_to_module_partial`: `local.get_template(uri)` in running code of module `env.tu` resolves `uri`
against `env.tu` – **guard: the `local` of the running context is the namespace of that module** -/
theorem local_api_relative_to_module_partial (S : TSet) (fuel : Nat) (env : Env) (uri : Str) (s : St) (c : Ctx)
    (l : Nat) (o : NsObj) (hc : s.ctxs[env.ctx]? = some c) (hname : resolveName env c sLocal = .nsref l)
    (ho : s.nss[l]? = some o) (hattr : nsGetattr S s l "get_template".toList = .ok .other)
    (guard : o.turi = some env.tu) :
    execItem S (fuel + 1) env (.apiTmpl .loc uri) s =
      (lookupTemplate S .api uri (some env.tu) >>= fun r => emit r.1) s := by
  simp only [execItem, recvNs, recvName, resolveNameM, bind_apply, getCtx, hc, pure_apply, hname, getattrM, hattr,
    getNs, ho, guard]

/-- the witness of F-C07-3: `/d/a` inherits `/b/base`, whose `<%namespace name="n">` holds
`<%def name="foo()">${local.get_template('q').uri}</%def>`; the body of `/b/base` calls `n.foo()` -/
def baseLocalWitness : TSet :=
  ⟨[(s "/d/a", ⟨[], some (s "/b/base"), [], [], [.text (s "x")]⟩),
    (s "/b/base", ⟨[], none, [⟨s "n", .plain, false, none, [(s "foo", [.apiTmpl .loc (s "q")])]⟩], [],
      [.nscall (.ns (s "n")) (s "foo")]⟩),
    (s "/d/q", ⟨[], none, [], [], []⟩), (s "/b/q", ⟨[], none, [], [], []⟩)], [], [], [], false, false⟩

/-- `local_api_relative_to_module_counterexample` (F-C07-3): the guard fails for the defs written inside a `<%namespace>` of
the base-most template of an inheritance chain: `_inherit_from` generates that template's namespaces with the
*inheriting* template's context (`gen_ns(context)`), so `local` there is the inheriting template and `q`, written in
`/b/base`, resolves to `/d/q`. -/
theorem local_api_relative_to_module_counterexample :
    output (render baseLocalWitness 30 (s "/d/a") [] St.empty).st = s "/d/q" ∧
    adjustUri (s "q") (some (s "/b/base")) = some (s "/b/q") := by
  decide +kernel

example : ∃ (S : TSet) (env : Env) (s : St) (c : Ctx) (l : Nat) (o : NsObj), s.ctxs[env.ctx]? = some c ∧
    resolveName env c sLocal = .nsref l ∧ s.nss[l]? = some o ∧
    nsGetattr S s l "get_template".toList = .ok .other ∧ o.turi = some env.tu :=
  ⟨⟨[], [], [], [], false, false⟩, ⟨s "/a", ⟨[], none, [], [], []⟩, 0, [], none, [], true, [], none⟩,
   ⟨[⟨[], some 0, some 0, none, none⟩], [⟨s "self:/a", .tmpl (s "/a"), [], none, 0⟩], [], [], [], []⟩,
   ⟨[], some 0, some 0, none, none⟩, 0, ⟨s "self:/a", .tmpl (s "/a"), [], none, 0⟩, rfl, by decide +kernel, rfl,
   by decide +kernel, rfl⟩

/-! ## names that attribute lookup never hands to `__getattr__` (F-C07-6) -/

/-- `ns_getattr_is_chain` carries the guard `key ∉ reservedAttrs`.  Outside the guard the statement fails not just on a
witness but **universally**: for every set, heap, namespace and every reserved name, `getattr` answers with the
attribute of the class and never with a def of that name (the concrete witness follows). -/
theorem ns_member_unreachable_for_every_reserved_name (S : TSet) (st : St) (id : Nat) (key : Str)
    (hattr : st.attrs.find? (·.1 = (id, key)) = none) (hres : key ∈ reservedAttrs) :
    nsGetattr S st id key = .ok .other := by
  simp [nsGetattr, hattr, hres]

/-- `ns_member_reachable_counterexample` (F-C07-6), the witness `name`: the template at `/t` defines a def `name`, the
chain lookup would find it, `getattr` does not -/
theorem ns_member_reachable_counterexample :
    let S : TSet := ⟨[(s "/t", ⟨[], none, [], [⟨s "name", false, []⟩], []⟩)], [], [], [], false, false⟩
    let o : NsObj := ⟨s "n", .tmpl (s "/t"), [], none, 0⟩
    let st : St := ⟨[⟨[], none, none, none, none⟩], [o], [], [], [], []⟩
    chainFind S (s "name") [o] = .ok (.code ⟨s "/t", .defn (s "name")⟩ 0) ∧ nsGetattr S st 0 (s "name") = .ok .other := by
  decide +kernel

/-! ## the per-render namespace cache (F5) -/

def moduleIdWitness : TSet :=
  ⟨[(s "/main", ⟨[], none, [], [], [.incl (s "/a-b") [], .incl (s "/a_b") []]⟩),
    (s "/a-b", ⟨[], none, [⟨s "n", .file (s "/t1"), false, none, []⟩], [], [.nscall (.ns (s "n")) sBody]⟩),
    (s "/a_b", ⟨[], none, [⟨s "n", .file (s "/t2"), false, none, []⟩], [], [.nscall (.ns (s "n")) sBody]⟩),
    (s "/t1", ⟨[], none, [], [], [.text (s "[t1]")]⟩), (s "/t2", ⟨[], none, [], [], [.text (s "[t2]")]⟩)], [], [], [], false, false⟩

/-- `namespace_of_tag_counterexample` (F5): `context.namespaces` is keyed by the module's `__name__`, and
`re.sub(r"\W", "_", uri)` maps `/a-b` and `/a_b` to the same name: the second template gets the first one's `n` -/
theorem namespace_of_tag_counterexample :
    moduleId (s "/a-b") = moduleId (s "/a_b") ∧
    output (render moduleIdWitness 40 (s "/main") [] St.empty).st = s "[t1][t1]" := by
  decide +kernel

/-- `namespace_of_tag_partial`: with an empty cache – **guard: no other module of the same `__name__` generated its
namespaces before** – `_mako_get_namespace` generates the module's own namespaces and answers from them -/
theorem namespace_of_tag_partial (S : TSet) (fuel : Nat) (tu : Str) (t : Template) (cid : Nat) (name : Str) (st : St)
    (guard : st.cache.find? (·.1 = CacheKey.tag (moduleId tu) name) = none) :
    getTagNs S fuel tu t cid name st =
      (genNs S fuel tu cid t.nss >>= fun _ => do
        match ← cacheGet (.tag (moduleId tu) name) with
        | some id => pure id
        | none => throw .internal) st := by
  simp only [getTagNs, bind_apply, cacheGet, guard, Option.map_none]
  cases genNs S fuel tu cid t.nss st with
  | ok a s' => simp only; cases (List.find? (fun x => decide (x.fst = CacheKey.tag (moduleId tu) name)) s'.cache) <;> rfl
  | err e s' => rfl

example : ∃ (st : St) (tu name : Str), st.cache.find? (·.1 = CacheKey.tag (moduleId tu) name) = none :=
  ⟨St.empty, s "/a", s "n", rfl⟩

/-! ## `get_namespace()` and the inheritance tokens (F-C07-7) -/

/-- `get_namespace` gives the new namespace a plain copy of the receiver's context … -/
theorem get_namespace_copies_context (S : TSet) (fuel id : Nat) (uri : Str) (st : St) (o : NsObj) (c : Ctx)
    (hcache : st.cache.find? (·.1 = CacheKey.api id uri) = none) (ho : st.nss[id]? = some o)
    (hc : st.ctxs[o.ctx]? = some c) :
    getNsApi S fuel id uri st =
      (do
        let (u, tt) ← lookupTemplate S .api uri o.turi
        let n ← newNs ⟨uri, .tmpl u, [], none, st.ctxs.length⟩
        let _ ← populateSelf S fuel st.ctxs.length u tt (some n)
        cachePut (.api id uri) n
        pure n) { st with ctxs := st.ctxs ++ [c] } := by
  simp only [getNsApi, bind_apply, cacheGet, hcache, Option.map_none, getNs, ho, getCtx, hc, newCtx]

/-- `get_namespace_memo_keyed_by_receiver`: the per-render memo of `get_namespace` is keyed by (receiver namespace, uri):
an entry made for another receiver `id1` with the *same* raw `uri` is not used for `id2`, which performs its own
`_lookup_template(uri, relativeto = id2's _templateuri)` – so two templates in different directories that both call
`local.get_namespace("helper.html")` in one render each get the `helper.html` beside them. -/
theorem get_namespace_memo_keyed_by_receiver (S : TSet) (fuel id1 id2 n : Nat) (uri : Str) (st : St) (o : NsObj) (c : Ctx)
    (hne : id1 ≠ id2) (hcache : st.cache.find? (·.1 = CacheKey.api id2 uri) = none) (ho : st.nss[id2]? = some o)
    (hc : st.ctxs[o.ctx]? = some c) :
    getNsApi S fuel id2 uri { st with cache := (CacheKey.api id1 uri, n) :: st.cache } =
      (do
        let (u, tt) ← lookupTemplate S .api uri o.turi
        let m ← newNs ⟨uri, .tmpl u, [], none, st.ctxs.length⟩
        let _ ← populateSelf S fuel st.ctxs.length u tt (some m)
        cachePut (.api id2 uri) m
        pure m) { st with cache := (CacheKey.api id1 uri, n) :: st.cache, ctxs := st.ctxs ++ [c] } := by
  have hk : ¬ (CacheKey.api id1 uri = CacheKey.api id2 uri) := fun h => by cases h; exact hne rfl
  have hfind : List.find? (fun x => decide (x.1 = CacheKey.api id2 uri)) ((CacheKey.api id1 uri, n) :: st.cache) = none := by
    simp [hk, hcache]
  simp only [getNsApi, bind_apply, cacheGet, hfind, Option.map_none, getNs, ho, getCtx, hc, newCtx]

def sameRelativeWitness : TSet :=
  ⟨[(s "/main", ⟨[], none, [], [], [.incl (s "/d1/c") [], .incl (s "/d2/c") []]⟩),
    (s "/d1/c", ⟨[], none, [], [], [.apiNs .loc (s "helper") sBody]⟩),
    (s "/d2/c", ⟨[], none, [], [], [.apiNs .loc (s "helper") sBody]⟩),
    (s "/d1/helper", ⟨[], none, [], [], [.text (s "[h1]")]⟩), (s "/d2/helper", ⟨[], none, [], [], [.text (s "[h2]")]⟩)],
   [], [], [], false, false⟩

/-- non-vacuity, on a whole render: the same relative string from two directories reaches two templates -/
example : output (render sameRelativeWitness 40 (s "/main") [] St.empty).st = s "[h1][h2]" := by decide +kernel

/-- `get_namespace_context_partial`: … which is the cleaned context the `<%namespace>` tag would use (`self` is overwritten
by `_populate_self_namespace` in both cases) – **guard: the receiver's context has neither `parent` nor `next`** -/
theorem get_namespace_context_partial (c : Ctx) (guard : c.parent = none ∧ c.next = none) :
    { c with self := none } = c.clean := by
  cases c; simp_all [Ctx.clean]

example : ∃ c : Ctx, (c.parent = none ∧ c.next = none) ∧ c.self ≠ none := ⟨⟨[], some 0, some 0, none, none⟩, ⟨rfl, rfl⟩, by decide⟩

def getNsWitness : TSet :=
  ⟨[(s "/a", ⟨[], some (s "/base"), [], [], [.apiNs .loc (s "/t") sBody]⟩),
    (s "/base", ⟨[], none, [], [⟨s "k", true, [.text (s "[base.k]")]⟩], [.text (s "<"), .nscall .next sBody, .text (s ">"), .block (s "k")]⟩),
    (s "/t", ⟨[], none, [], [⟨s "k", true, [.text (s "[t.k]")]⟩], [.text (s "[t:"), .block (s "k"), .text (s "]")]⟩)], [], [], [], false, false⟩

/-- `get_namespace_context_counterexample` (F-C07-7): called in a template that inherits, the target's code sees the
caller's `parent`: the target's block `k` is skipped because the caller's parent has a block `k` -/
theorem get_namespace_context_counterexample :
    output (render getNsWitness 40 (s "/a") [] St.empty).st = s "<[t:]>[base.k]" := by
  decide +kernel


end MakoModel.C07
