import MakoModel.Lookup.LemmasSpec
/-!
# C14 – lookup serves fresh, stable, correctly prioritised templates over time

Model: `MakoModel/Lookup/Model.lean` (the code of `mako/lookup.py`, `mako/util.py: LRUCache`, the module-file
decision of `Template._compile_from_file`).  A history is a `List Op` of any length; `final cfg h` is the state
reached from the empty lookup, `outputs cfg h` what the operations returned.  All theorems below are about
**every** history (by the invariant `Inv`, proved by induction over the history in `Lookup/LemmasInv.lean`) or
about every state.

Recorded defects of the code w.r.t. the property text (the model has them too; `…_partial` + `…_counterexample`):

* module directory: a module file whose *import raises* (generated from late-breaking content: `<% break %>`,
  `<%! import nonexistent %>`, …) and that is not older than the source now denoted by the URI is imported – and
  raises – before `_compile_from_file` looks at the file name it was generated from: after the late-breaking file of
  an earlier directory is deleted, the next directory's good file never loads (`first_directory_wins_counterexample`);
* LRU collection: `put_string`/`put_template` entries are evicted like any other and are then gone
  (`put_entries_served_lru_counterexample`);
* "eviction never changes what a lookup returns" is false where a warm lookup may differ from a cold one:
  `filesystem_checks` off, a change in the very second of the compilation, a file created later in an earlier
  directory (`eviction_transparent_counterexample_*`).  OPEN (false of the code as it is):
  ```
  theorem eviction_transparent (cfg₁ cfg₂ : Cfg) (same except cap) (h : List Op) :
      (outputs cfg₁ h).map contentView = (outputs cfg₂ h).map contentView
  ```

Not a defect but the property's own one-second allowance, applied to the module file: a module file of the *same*
source stamped in the very second of the source's mtime is re-used (`fresh_same_second_put_template_witness`) or, if
its import raises, raises again (`failed_import_same_second_witness`).

Contents come in three kinds: good, `broken` (Mako's lexer/parser/codegen raise; nothing is written), `late` (Mako
compiles, the generated module raises when imported; with a module directory the module file is written and stays).
The order "decide staleness by mtime, then import" of `_compile_from_file` is a regenerated fact
(`staleDecidedBeforeImport`, obligation `stale_decided_before_import`).
-/
namespace MakoModel.C14
open MakoModel.Lookup MakoModel.Generated.Lookup

/-! ## invariants of every reachable state -/

/-- Every state reached by any history satisfies `Inv`: file and module mtimes and every compile stamp are
`≤ clock`, cached templates were constructed, the collection is a map, LRU stamps are distinct, identities are
fresh and pairwise distinct, and `_manage_size`'s loop condition is false. -/
theorem reachable_invariant (cfg : Cfg) (h : List Op) : Inv cfg (final cfg h) := inv_final cfg h

example : Inv ⟨2, true, some 1, true⟩ (final ⟨2, true, some 1, true⟩ [.writeFile 0 0 1, .getTemplate 0, .putString 1 2]) :=
  reachable_invariant _ _

/-! ## freshness -/

/-- **fresh (guarded).**  `filesystem_checks` on; the entry cached under `u` comes from file `f`, which now has an
mtime at least one whole second later than the entry's compile stamp and compiles.  If there is no module
directory, or the module file of `u` is older than the source or was generated from another source file,
`get_template(u)` compiles the *current* content of `f` now. -/
theorem fresh_partial (cfg : Cfg) (hck : cfg.checks = true) (h : List Op) (u : Uri) (e : Entry) (f : FileRef)
    (file : File) (he : get? (final cfg h).coll u = some e) (hfile : e.val.file = some f)
    (hfs : (final cfg h).fs f = some file) (hnb : file.broken = false) (hnl : file.late = false)
    (hlater : e.val.stamp + 1 ≤ file.mtime)
    (hguard : cfg.moddir = true → ∀ m, (final cfg h).mods u = some m →
      m.time < file.mtime ∨ (m.late = false ∧ m.src ≠ f)) :
    ∃ t s', getTemplate cfg (final cfg h) u = (.ok t, s') ∧ t.content = file.content ∧ t.file = some f ∧
      t.stamp = (final cfg h).clock ∧ t.id = (final cfg h).nextId := by
  have hlt : e.val.stamp < file.mtime := by omega
  have hc := construct_regen (cfg := cfg)
    (s := { stampHit (final cfg h) u with coll := erase (stampHit (final cfg h) u).coll u }) (k := u) (f := f)
    (file := file) hfs hnb hnl hguard
  have hget := (get_hit_check he hck).trans (check_stale_ok hfile hfs hlt hc)
  exact ⟨_, _, hget, rfl, rfl, rfl, rfl⟩

example : ∃ t s', getTemplate ⟨1, true, none, false⟩
      (final ⟨1, true, none, false⟩ [.writeFile 0 0 1, .getTemplate 0, .tick 1, .writeFile 0 0 2]) 0 = (.ok t, s')
      ∧ t.content = 2 ∧ t.file = some (0, 0) ∧ t.stamp = 1 ∧ t.id = 1 :=
  fresh_partial ⟨1, true, none, false⟩ rfl [.writeFile 0 0 1, .getTemplate 0, .tick 1, .writeFile 0 0 2] 0
    ⟨⟨0, 0, some (0, 0), 1, 0⟩, 0⟩ (0, 0) ⟨2, 1, false, false⟩ (by decide) rfl (by decide) rfl rfl (by decide)
    (by intro hh; cases hh)

/-- **fresh.**  For every history without `put_template` the guard holds by itself (invariant `ModSync`: a cached
file-backed entry carries the stamp of its URI's module file), in every configuration. -/
theorem fresh (cfg : Cfg) (hck : cfg.checks = true) (h : List Op) (hnp : ∀ op ∈ h, noPutTemplate op = true)
    (u : Uri) (e : Entry) (f : FileRef) (file : File) (he : get? (final cfg h).coll u = some e)
    (hfile : e.val.file = some f) (hfs : (final cfg h).fs f = some file) (hnb : file.broken = false)
    (hnl : file.late = false) (hlater : e.val.stamp + 1 ≤ file.mtime) :
    ∃ t s', getTemplate cfg (final cfg h) u = (.ok t, s') ∧ t.content = file.content ∧ t.file = some f ∧
      t.stamp = (final cfg h).clock ∧ t.id = (final cfg h).nextId := by
  apply fresh_partial cfg hck h u e f file he hfile hfs hnb hnl hlater
  intro hmd m hm
  obtain ⟨m', hm', ht, _⟩ := modsync_final cfg h hnp hmd (u, e) (get?_some_mem he) (by simp [hfile])
  simp only at hm' ht
  rw [hm] at hm'; injection hm' with hm'; subst hm'
  left; omega

example : ∃ t s', getTemplate ⟨1, true, some 2, true⟩
      (final ⟨1, true, some 2, true⟩ [.writeFile 0 0 1, .getTemplate 0, .tick 1, .writeFile 0 0 2]) 0 = (.ok t, s')
      ∧ t.content = 2 ∧ t.file = some (0, 0) ∧ t.stamp = 1 ∧ t.id = 1 :=
  fresh ⟨1, true, some 2, true⟩ rfl [.writeFile 0 0 1, .getTemplate 0, .tick 1, .writeFile 0 0 2]
    (by decide) 0 ⟨⟨0, 0, some (0, 0), 1, 0⟩, 0⟩ (0, 0) ⟨2, 1, false, false⟩ (by decide) rfl (by decide) rfl rfl (by decide)

/-- **fresh, every history** (also with `put_template` and a module directory).  Under the premises of `fresh` the
template returned comes from file `f` and was compiled from its current content – or, with a module directory, is
the module of this very source stamped in the second of the source's mtime (the one-second allowance of the
property, applied to the module file).  Guard: no module file whose import raises stands in the way (see
`first_directory_wins_counterexample`). -/
theorem fresh_any_history (cfg : Cfg) (hck : cfg.checks = true) (h : List Op) (u : Uri) (e : Entry) (f : FileRef)
    (file : File) (he : get? (final cfg h).coll u = some e) (hfile : e.val.file = some f)
    (hfs : (final cfg h).fs f = some file) (hnb : file.broken = false) (hnl : file.late = false)
    (hlater : e.val.stamp + 1 ≤ file.mtime)
    (hlate : cfg.moddir = true → ∀ m, (final cfg h).mods u = some m → m.late = true → m.time < file.mtime) :
    ∃ t s', getTemplate cfg (final cfg h) u = (.ok t, s') ∧ t.file = some f ∧ t.id = (final cfg h).nextId ∧
      (t.content = file.content ∨ (cfg.moddir = true ∧ t.stamp = file.mtime)) := by
  have hlt : e.val.stamp < file.mtime := by omega
  obtain ⟨t, s', hc⟩ := construct_ok_of_compiles (cfg := cfg)
    (s := { stampHit (final cfg h) u with coll := erase (stampHit (final cfg h) u).coll u }) (k := u) (f := f) hfs hnb hnl hlate
  have hm : ModCur { stampHit (final cfg h) u with coll := erase (stampHit (final cfg h) u).coll u } :=
    modcur_congr rfl rfl (modcur_final cfg h)
  obtain ⟨h1, h2, h3⟩ := construct_ok_current hm hfs hc
  have hget := (get_hit_check he hck).trans (check_stale_ok hfile hfs hlt hc)
  exact ⟨_, _, hget, h1, h2, h3⟩

example : ∃ t s', getTemplate ⟨1, true, none, true⟩
      (final ⟨1, true, none, true⟩ [.writeFile 0 0 1, .getTemplate 0, .tick 1, .writeFile 0 0 3, .tick 1, .writeFile 0 1 4,
        .getTemplate 1, .putTemplate 1 0]) 1 = (.ok t, s') ∧ t.file = some (0, 0) ∧ t.id = 2 ∧
      (t.content = 3 ∨ ((true : Bool) = true ∧ t.stamp = 1)) :=
  fresh_any_history ⟨1, true, none, true⟩ rfl _ 1 ⟨⟨0, 0, some (0, 0), 1, 0⟩, 1⟩ (0, 0) ⟨3, 1, false, false⟩
    (by decide) rfl (by decide) rfl rfl (by decide) (by decide)

/-- Regression (repaired by b4d0d5f): template 0 (compiled at 0 from file (0,0)) is put under URI 1, whose module
file was written at second 2 from file (0,1); file (0,0) was modified at second 1.  `get_template(1)` used to
serve the module of file (0,1) (content 4); it now regenerates from its own source: content 3. -/
theorem fresh_former_witness :
    let cfg : Cfg := ⟨1, true, none, true⟩
    let s := final cfg [.writeFile 0 0 1, .getTemplate 0, .tick 1, .writeFile 0 0 3, .tick 1, .writeFile 0 1 4,
      .getTemplate 1, .putTemplate 1 0]
    (get? s.coll 1).map (fun e => (e.val.file, e.val.stamp)) = some (some (0, 0), 0) ∧
      s.fs (0, 0) = some ⟨3, 1, false, false⟩ ∧ (step cfg s (.getTemplate 1)).1 = .ok 2 3 := by
  decide

/-- Why `fresh` excludes `put_template` and `fresh_any_history` has the second alternative: an *old* template
object (compiled at 0) is put back under its URI after the source was recompiled at second 1 and changed once
more within that second; the reload re-uses the module of second 1 (content 2, current is 3).  The template
returned is stamped 1 = the source's mtime: inside the one-second allowance. -/
theorem fresh_same_second_put_template_witness :
    let cfg : Cfg := ⟨1, true, none, true⟩
    let s := final cfg [.writeFile 0 0 1, .getTemplate 0, .tick 1, .writeFile 0 0 2, .getTemplate 0, .writeFile 0 0 3,
      .putTemplate 0 0]
    (get? s.coll 0).map (fun e => (e.val.file, e.val.stamp)) = some (some (0, 0), 0) ∧
      s.fs (0, 0) = some ⟨3, 1, false, false⟩ ∧ (step cfg s (.getTemplate 0)).1 = .ok 2 2 := by
  decide

/-! ## stability -/

/-- **stable.**  After `get_template(u)` returned template `t`, as long as only quiet operations follow (clock
ticks, and fetches – of any URI for the plain dict, of `u` itself for an LRU collection), `get_template(u)`
returns the very same `t` (same identity) and constructs nothing (the construction counter does not move). -/
theorem stable (cfg : Cfg) (hcap : cfg.cap ≠ some 0) (h : List Op) (u : Uri) (t : Tmpl) (s1 : State)
    (hget : getTemplate cfg (final cfg h) u = (.ok t, s1)) (q : List Op)
    (hq : ∀ op ∈ q, quietOp cfg u op = true) :
    getTemplate cfg (run cfg s1 q).2 u = (.ok t, stampHit (run cfg s1 q).2 u) ∧
      (stampHit (run cfg s1 q).2 u).nextId = (run cfg s1 q).2.nextId :=
  ⟨served_get (served_quiet_run q (get_ok_served (inv_final cfg h) hcap hget) hq), rfl⟩

example : (getTemplate ⟨1, true, none, false⟩
    (run ⟨1, true, none, false⟩ (getTemplate ⟨1, true, none, false⟩ (final ⟨1, true, none, false⟩ [.writeFile 0 0 1]) 0).2
      [.tick 3, .getTemplate 1, .getTemplate 0, .tick 0]).2 0).1 = .ok ⟨0, 0, some (0, 0), 1, 0⟩ :=
  congrArg Prod.fst (stable ⟨1, true, none, false⟩ (by decide) [.writeFile 0 0 1] 0 ⟨0, 0, some (0, 0), 1, 0⟩ _ rfl
    [.tick 3, .getTemplate 1, .getTemplate 0, .tick 0] (by decide)).1

/-! ## filesystem_checks off -/

/-- With `filesystem_checks` off a cached entry is returned as it is, whatever the disk looks like (any state, any
collection kind). -/
theorem checks_off_entry_returned (cfg : Cfg) (hck : cfg.checks = false) (s : State) (u : Uri) (e : Entry)
    (he : get? s.coll u = some e) : getTemplate cfg s u = (.ok e.val, stampHit s u) :=
  get_hit_nocheck he hck

example : (getTemplate ⟨1, false, some 2, false⟩
      (final ⟨1, false, some 2, false⟩ [.writeFile 0 0 1, .getTemplate 0, .tick 9, .deleteFile 0 0]) 0).1 =
    .ok ⟨0, 0, some (0, 0), 1, 0⟩ :=
  congrArg Prod.fst
    (checks_off_entry_returned ⟨1, false, some 2, false⟩ rfl _ 0 ⟨⟨0, 0, some (0, 0), 1, 0⟩, 0⟩ (by decide))

/-- **checks_off_frozen.**  `filesystem_checks` off, plain dict: once `get_template(u)` returned `t`, it keeps
returning the very same `t` after *any* operations (writes, deletions, broken files, ticks, other lookups,
puts under other URIs) – everything except a `put_*` under `u` itself. -/
theorem checks_off_frozen (cfg : Cfg) (hck : cfg.checks = false) (hc : cfg.cap = none) (h : List Op) (u : Uri)
    (t : Tmpl) (s1 : State) (hget : getTemplate cfg (final cfg h) u = (.ok t, s1)) (q : List Op)
    (hq : ∀ op ∈ q, keepsOp u op = true) :
    getTemplate cfg (run cfg s1 q).2 u = (.ok t, stampHit (run cfg s1 q).2 u) := by
  have hs := get_ok_served (inv_final cfg h) (by rw [hc]; intro hh; cases hh) hget
  exact served_get (pinned_served (pinned_run hc q ⟨hs.1, Or.inr hck⟩ hq))

example : (getTemplate ⟨1, false, none, false⟩
    (run ⟨1, false, none, false⟩ (getTemplate ⟨1, false, none, false⟩ (final ⟨1, false, none, false⟩ [.writeFile 0 0 1]) 0).2
      [.tick 3, .writeFile 0 0 2, .deleteFile 0 0, .putString 1 5]).2 0).1 = .ok ⟨0, 0, some (0, 0), 1, 0⟩ :=
  congrArg Prod.fst (checks_off_frozen ⟨1, false, none, false⟩ rfl rfl [.writeFile 0 0 1] 0 ⟨0, 0, some (0, 0), 1, 0⟩ _ rfl
    [.tick 3, .writeFile 0 0 2, .deleteFile 0 0, .putString 1 5] (by decide))

/-! ## directory priority -/

/-- **first_directory_wins (guarded).**  `u` is not cached, `d` is the first configured directory that holds a file
`u`, and it compiles and imports.  If no module file whose import raises stands in the way (there is none for `u`
that is not older than the file), `get_template(u)` constructs a template from directory `d`'s file, caches it, and
its content is the file's current content – or, with a module directory, that of the module of this very file
stamped in the second of the file's mtime (the one-second allowance). -/
theorem first_directory_wins_partial (cfg : Cfg) (hcap : cfg.cap ≠ some 0) (h : List Op) (u : Uri) (d : Dir)
    (file : File) (hmiss : get? (final cfg h).coll u = none) (hd : d < cfg.ndirs)
    (hfile : (final cfg h).fs (d, u) = some file) (hfirst : ∀ j, j < d → (final cfg h).fs (j, u) = none)
    (hnb : file.broken = false) (hnl : file.late = false)
    (hlate : cfg.moddir = true → ∀ m, (final cfg h).mods u = some m → m.late = true → m.time < file.mtime) :
    ∃ t s', getTemplate cfg (final cfg h) u = (.ok t, s') ∧ t.file = some (d, u) ∧
      t.id = (final cfg h).nextId ∧ valAt s' u = some t ∧
      (t.content = file.content ∨ (cfg.moddir = true ∧ t.stamp = file.mtime)) := by
  have hfd : firstDir cfg.ndirs (final cfg h).fs u = some d :=
    firstDir_some_iff.mpr ⟨by simp [hfile], hd, hfirst⟩
  obtain ⟨t, s', hc⟩ := construct_ok_of_compiles (cfg := cfg) (s := final cfg h) (k := u) (f := (d, u)) hfile hnb
    hnl hlate
  obtain ⟨h1, h2, h3⟩ := construct_ok_current (modcur_final cfg h) hfile hc
  have hl := load_ok hmiss hc
  have hget := (get_miss_load hmiss hfd).trans hl
  have hs := load_ok_served (inv_final cfg h) hcap hmiss hl
  exact ⟨_, _, hget, h1, h2, hs.1.1, h3⟩

example : ∃ t s', getTemplate ⟨2, true, none, true⟩
      (final ⟨2, true, none, true⟩ [.writeFile 1 0 1, .tick 1, .writeFile 0 0 2, .getTemplate 0, .tick 1, .deleteFile 0 0,
        .getTemplate 0]) 0 = (.ok t, s') ∧ t.file = some (1, 0) ∧ t.id = 1 ∧ valAt s' 0 = some t ∧
      (t.content = 1 ∨ ((true : Bool) = true ∧ t.stamp = 0)) :=
  first_directory_wins_partial ⟨2, true, none, true⟩ (by decide) _ 0 1 ⟨1, 0, false, false⟩ (by decide) (by decide)
    (by decide) (by decide) rfl rfl (by decide)

/-- With a module directory the unguarded statement is false: directory 0's file is late-breaking (Mako compiles
it, the module raises at import); its module file is written at second 1.  The file is deleted.  Directory 1's good
file (mtime 0) is now the first one – but `_compile_from_file` imports the leftover module file (not older than the
source) before it looks at the file name it was generated from: the import error is raised, for good. -/
theorem first_directory_wins_counterexample :
    let cfg : Cfg := ⟨2, true, none, true⟩
    let s := final cfg [.writeFile 1 0 3, .tick 1, .breakFileLate 0 0, .getTemplate 0, .deleteFile 0 0]
    get? s.coll 0 = none ∧ s.fs (0, 0) = none ∧ s.fs (1, 0) = some ⟨3, 0, false, false⟩ ∧
      (step cfg s (.getTemplate 0)).1 = .exc .late ∧
      (step cfg { (step cfg s (.getTemplate 0)).2 with clock := s.clock + 100 } (.getTemplate 0)).1 = .exc .late := by
  decide

/-- **first_directory_wins, exact.**  If there is no module directory, or the module file of `u` is older than the
file, or imports and was generated from another source file, the template is compiled now from the file's current
content. -/
theorem first_directory_wins_exact (cfg : Cfg) (hcap : cfg.cap ≠ some 0) (h : List Op) (u : Uri) (d : Dir)
    (file : File) (hmiss : get? (final cfg h).coll u = none) (hd : d < cfg.ndirs)
    (hfile : (final cfg h).fs (d, u) = some file) (hfirst : ∀ j, j < d → (final cfg h).fs (j, u) = none)
    (hnb : file.broken = false) (hnl : file.late = false)
    (hguard : cfg.moddir = true → ∀ m, (final cfg h).mods u = some m →
      m.time < file.mtime ∨ (m.late = false ∧ m.src ≠ (d, u))) :
    ∃ t s', getTemplate cfg (final cfg h) u = (.ok t, s') ∧ t.file = some (d, u) ∧ t.content = file.content ∧
      t.stamp = (final cfg h).clock ∧ t.id = (final cfg h).nextId ∧ valAt s' u = some t := by
  have hfd : firstDir cfg.ndirs (final cfg h).fs u = some d :=
    firstDir_some_iff.mpr ⟨by simp [hfile], hd, hfirst⟩
  have hc := construct_regen (cfg := cfg) (s := final cfg h) (k := u) (f := (d, u)) hfile hnb hnl hguard
  have hl := load_ok hmiss hc
  have hget := (get_miss_load hmiss hfd).trans hl
  have hs := load_ok_served (inv_final cfg h) hcap hmiss hl
  exact ⟨_, _, hget, rfl, rfl, rfl, rfl, hs.1.1⟩

/-- **first_directory_wins.**  Without a module directory: the full statement. -/
theorem first_directory_wins (cfg : Cfg) (hmd : cfg.moddir = false) (hcap : cfg.cap ≠ some 0) (h : List Op) (u : Uri)
    (d : Dir) (file : File) (hmiss : get? (final cfg h).coll u = none) (hd : d < cfg.ndirs)
    (hfile : (final cfg h).fs (d, u) = some file) (hfirst : ∀ j, j < d → (final cfg h).fs (j, u) = none)
    (hnb : file.broken = false) (hnl : file.late = false) :
    ∃ t s', getTemplate cfg (final cfg h) u = (.ok t, s') ∧ t.file = some (d, u) ∧ t.content = file.content ∧
      t.stamp = (final cfg h).clock ∧ t.id = (final cfg h).nextId ∧ valAt s' u = some t :=
  first_directory_wins_exact cfg hcap h u d file hmiss hd hfile hfirst hnb hnl
    (by intro hh; rw [hmd] at hh; cases hh)

example : ∃ t s', getTemplate ⟨3, true, some 1, false⟩
      (final ⟨3, true, some 1, false⟩ [.writeFile 2 0 7, .writeFile 1 0 8, .tick 2]) 0 = (.ok t, s') ∧
      t.file = some (1, 0) ∧ t.content = 8 ∧ t.stamp = 2 ∧ t.id = 0 ∧ valAt s' 0 = some t :=
  first_directory_wins ⟨3, true, some 1, false⟩ rfl (by decide) [.writeFile 2 0 7, .writeFile 1 0 8, .tick 2] 0 1
    ⟨8, 0, false, false⟩ (by decide) (by decide) (by decide) (by decide) rfl rfl

/-- Regression (repaired by b4d0d5f): the file in directory 0 (content 2) is loaded and deleted; the uncached URI
is then served from directory 1's file (content 1, unchanged since second 0).  It used to come with the module
compiled from the deleted file (content 2); now the module is regenerated: content 1. -/
theorem first_directory_wins_former_witness :
    let cfg : Cfg := ⟨2, true, none, true⟩
    let s := final cfg [.writeFile 1 0 1, .tick 1, .writeFile 0 0 2, .getTemplate 0, .tick 1, .deleteFile 0 0,
      .getTemplate 0]
    get? s.coll 0 = none ∧ s.fs (0, 0) = none ∧ s.fs (1, 0) = some ⟨1, 0, false, false⟩ ∧
      (step cfg s (.getTemplate 0)).1 = .ok 1 1 := by
  decide

/-! ## put_string / put_template -/

/-- **put_entries_served.**  Right after `put_string(u, c)` (capacity ≥ 1) `get_template(u)` returns the template
constructed by the put – content `c`, no file – without constructing anything, whatever is on disk. -/
theorem put_entries_served (cfg : Cfg) (hcap : cfg.cap ≠ some 0) (h : List Op) (u : Uri) (c : Content) :
    getTemplate cfg (putString cfg (final cfg h) u c) u =
      (.ok ⟨(final cfg h).nextId, u, none, c, (final cfg h).clock⟩, stampHit (putString cfg (final cfg h) u c) u) := by
  have hi := inv_final cfg h
  have h1 := inv_made hi ⟨(final cfg h).nextId, u, none, c, (final cfg h).clock⟩ (final cfg h).mods rfl
    (Nat.le_refl _) hi.mod_le
  have hv := valAt_setItem_self h1 u (t := ⟨(final cfg h).nextId, u, none, c, (final cfg h).clock⟩) (by simp) hcap
  exact served_get (pinned_served ⟨hv, Or.inl rfl⟩)

example : (getTemplate ⟨1, true, some 1, false⟩
      (putString ⟨1, true, some 1, false⟩ (final ⟨1, true, some 1, false⟩ [.writeFile 0 0 1, .getTemplate 0]) 0 9) 0).1
    = .ok ⟨1, 0, none, 9, 0⟩ :=
  congrArg Prod.fst (put_entries_served ⟨1, true, some 1, false⟩ (by decide) [.writeFile 0 0 1, .getTemplate 0] 0 9)

/-- In a plain dict the put entry stays served across any later operations other than a `put_*` under `u`. -/
theorem put_entries_served_persist (cfg : Cfg) (hc : cfg.cap = none) (h : List Op) (u : Uri) (c : Content)
    (q : List Op) (hq : ∀ op ∈ q, keepsOp u op = true) :
    getTemplate cfg (run cfg (putString cfg (final cfg h) u c) q).2 u =
      (.ok ⟨(final cfg h).nextId, u, none, c, (final cfg h).clock⟩,
        stampHit (run cfg (putString cfg (final cfg h) u c) q).2 u) := by
  have hi := inv_final cfg h
  have h1 := inv_made hi ⟨(final cfg h).nextId, u, none, c, (final cfg h).clock⟩ (final cfg h).mods rfl
    (Nat.le_refl _) hi.mod_le
  have hv := valAt_setItem_self h1 u (t := ⟨(final cfg h).nextId, u, none, c, (final cfg h).clock⟩) (by simp)
    (by rw [hc]; intro hh; cases hh)
  exact served_get (pinned_served (pinned_run hc q ⟨hv, Or.inl rfl⟩ hq))

example : (getTemplate ⟨1, true, none, false⟩
    (run ⟨1, true, none, false⟩ (putString ⟨1, true, none, false⟩ (final ⟨1, true, none, false⟩ [.tick 4]) 0 9)
      [.writeFile 0 0 1, .tick 1, .getTemplate 1, .deleteFile 0 0]).2 0).1 = .ok ⟨0, 0, none, 9, 4⟩ :=
  congrArg Prod.fst (put_entries_served_persist ⟨1, true, none, false⟩ rfl [.tick 4] 0 9
    [.writeFile 0 0 1, .tick 1, .getTemplate 1, .deleteFile 0 0] (by decide))

/-- `put_template(u, t)` of a memory template (or of any template when `filesystem_checks` is off), plain dict:
`t` itself is served under `u` from then on. -/
theorem put_template_served (cfg : Cfg) (hc : cfg.cap = none) (h : List Op) (u : Uri) (tid : Nat) (t : Tmpl)
    (hfind : (final cfg h).made.find? (fun t => t.id == tid) = some t) (hmem : t.file = none ∨ cfg.checks = false)
    (q : List Op) (hq : ∀ op ∈ q, keepsOp u op = true) :
    getTemplate cfg (run cfg (step cfg (final cfg h) (.putTemplate u tid)).2 q).2 u =
      (.ok t, stampHit (run cfg (step cfg (final cfg h) (.putTemplate u tid)).2 q).2 u) := by
  have hi := inv_final cfg h
  have hv := valAt_setItem_self hi u (List.mem_of_find?_eq_some hfind) (by rw [hc]; intro hh; cases hh)
  have hst : (step cfg (final cfg h) (.putTemplate u tid)).2 = setItem cfg (final cfg h) u t := by
    simp [step, hfind]
  rw [hst]
  exact served_get (pinned_served (pinned_run hc q ⟨hv, hmem⟩ hq))

example : (getTemplate ⟨1, true, none, false⟩
    (run ⟨1, true, none, false⟩
      (step ⟨1, true, none, false⟩ (final ⟨1, true, none, false⟩ [.putString 0 9]) (.putTemplate 3 0)).2 [.tick 1]).2 3).1
    = .ok ⟨0, 0, none, 9, 0⟩ :=
  congrArg Prod.fst (put_template_served ⟨1, true, none, false⟩ rfl [.putString 0 9] 3 0 ⟨0, 0, none, 9, 0⟩ (by decide)
    (Or.inl rfl) [.tick 1] (by decide))

/-- In an LRU collection a put entry is evicted like any other – and then it is gone: `collection_size=1`,
two `put_string`s, the first URI raises `TopLevelLookupException`. -/
theorem put_entries_served_lru_counterexample :
    outputs ⟨1, true, some 1, false⟩ [.putString 0 7, .putString 1 8, .getTemplate 0] = [.none, .none, .exc .topLevel] ∧
    outputs ⟨1, true, none, false⟩ [.putString 0 7, .putString 1 8, .getTemplate 0] = [.none, .none, .ok 0 7] := by
  decide

/-! ## exception classes -/

/-- **no_file_toplevel_exception.**  Not cached and in no configured directory: `TopLevelLookupException`,
`has_template` is `False`, and nothing changes (any state). -/
theorem no_file_toplevel_exception (cfg : Cfg) (s : State) (u : Uri) (hmiss : get? s.coll u = none)
    (hno : ∀ d, d < cfg.ndirs → s.fs (d, u) = none) :
    step cfg s (.getTemplate u) = (.exc .topLevel, s) ∧ step cfg s (.hasTemplate u) = (.has false, s) := by
  have hg := get_miss_none hmiss (firstDir_none_iff.mpr hno)
  simp [step, hg]

example : (step ⟨2, true, none, false⟩ (final ⟨2, true, none, false⟩ [.writeFile 0 1 5, .writeFile 2 0 6]) (.getTemplate 0)).1
    = .exc .topLevel :=
  congrArg Prod.fst (no_file_toplevel_exception ⟨2, true, none, false⟩ _ 0 (by decide) (by decide)).1

/-- **vanished_file_lookup_exception.**  `filesystem_checks` on, the cached entry's file is gone:
`TemplateLookupException`, the entry is evicted, `has_template` is `False` (any state). -/
theorem vanished_file_lookup_exception (cfg : Cfg) (hck : cfg.checks = true) (s : State) (u : Uri) (e : Entry)
    (f : FileRef) (he : get? s.coll u = some e) (hf : e.val.file = some f) (hgone : s.fs f = none) :
    ∃ s', step cfg s (.getTemplate u) = (.exc .lookup, s') ∧ get? s'.coll u = none ∧
      step cfg s (.hasTemplate u) = (.has false, s') := by
  have hg : getTemplate cfg s u = (.error .lookup, { stampHit s u with coll := erase (stampHit s u).coll u }) := by
    rw [get_hit_check he hck]; exact check_vanished hf hgone
  exact ⟨{ stampHit s u with coll := erase (stampHit s u).coll u }, by simp [step, hg], get?_erase_self _ _,
    by simp [step, hg]⟩

example : ∃ s', step ⟨1, true, none, false⟩
      (final ⟨1, true, none, false⟩ [.writeFile 0 0 1, .getTemplate 0, .deleteFile 0 0]) (.getTemplate 0) = (.exc .lookup, s')
      ∧ get? s'.coll 0 = none ∧
      step ⟨1, true, none, false⟩
        (final ⟨1, true, none, false⟩ [.writeFile 0 0 1, .getTemplate 0, .deleteFile 0 0]) (.hasTemplate 0) = (.has false, s') :=
  vanished_file_lookup_exception ⟨1, true, none, false⟩ rfl _ 0 ⟨⟨0, 0, some (0, 0), 1, 0⟩, 0⟩ (0, 0)
    (by decide) rfl (by decide)

/-! ## failure recovery -/

/-- **failed_compile_leaves_lookup_usable.**  If `get_template(u)` raises a compile error – `f` being the file that
failed – then afterwards there is no entry for `u` (the model has no mutex: sequentially it is released by the
`finally`), the invariant holds, and once the first directory's file for `u` is (re)written with compiling content
`c`, `get_template(u)` succeeds with content `c`: for the corrected file `f` itself after any tick, also none;
for any other file after a tick of at least a second (or without module directory). -/
theorem failed_compile_leaves_lookup_usable (cfg : Cfg) (h : List Op) (u : Uri) (s1 : State)
    (hfail : getTemplate cfg (final cfg h) u = (.error .compile, s1)) :
    ∃ f file, (final cfg h).fs f = some file ∧ file.broken = true ∧
    get? s1.coll u = none ∧ Inv cfg s1 ∧
    ∀ (n : Nat) (d : Dir) (c : Content), d < cfg.ndirs → (∀ j, j < d → s1.fs (j, u) = none) →
      ((d, u) = f ∨ 1 ≤ n ∨ cfg.moddir = false) →
      ∃ t s3, getTemplate cfg (run cfg s1 [.tick n, .writeFile d u c]).2 u = (.ok t, s3) ∧
        t.content = c ∧ t.file = some (d, u) := by
  have hi := inv_final cfg h
  obtain ⟨f, file, hff, hfb, hn, hfs, hclk, hmods, hmod⟩ := get_compile_error hi hfail
  have hi1 : Inv cfg s1 := by
    have := inv_getTemplate hi u; rw [hfail] at this; exact this
  refine ⟨f, file, hff, hfb, hn, hi1, ?_⟩
  intro n d c hd hfirst hwhich
  let s2 : State := { s1 with clock := s1.clock + n, fs := setFs s1.fs (d, u) (some ⟨c, s1.clock + n, false, false⟩) }
  have hrun : (run cfg s1 [.tick n, .writeFile d u c]).2 = s2 := rfl
  rw [hrun]
  have hfile : s2.fs (d, u) = some ⟨c, s1.clock + n, false, false⟩ := by simp [s2, setFs]
  have hfd : firstDir cfg.ndirs s2.fs u = some d := by
    apply firstDir_some_iff.mpr
    refine ⟨by simp [hfile], hd, ?_⟩
    intro j hj
    have : (j, u) ≠ (d, u) := by
      intro hh
      have hjd : j = d := congrArg Prod.fst hh
      rw [hjd] at hj; exact Nat.lt_irrefl _ hj
    simp [s2, setFs, this, hfirst j hj]
  have hguard : needsRegen cfg s2 u (d, u) ⟨c, s1.clock + n, false, false⟩ := by
    intro hmd m hm
    have hm0 : (final cfg h).mods u = some m := by rw [← hmods]; exact hm
    have hle := hi.mod_le u m hm0
    rw [← hclk] at hle
    rcases hwhich with hw | hw | hw
    · rcases hmod hmd m hm0 with h4 | h4
      · rw [← hclk] at h4; left; simp only; omega
      · right; exact ⟨h4.1, hw ▸ h4.2⟩
    · left; simp only; omega
    · rw [hw] at hmd; cases hmd
  have hc := construct_regen (cfg := cfg) (s := s2) (k := u) (f := (d, u)) hfile rfl rfl hguard
  have hget := (get_miss_load (s := s2) hn hfd).trans (load_ok (s := s2) hn hc)
  exact ⟨_, _, hget, rfl, rfl⟩

example : ∃ t s3, getTemplate ⟨1, true, none, true⟩
      (run ⟨1, true, none, true⟩
        (getTemplate ⟨1, true, none, true⟩
          (final ⟨1, true, none, true⟩ [.writeFile 0 0 1, .getTemplate 0, .tick 1, .breakFile 0 0]) 0).2
        [.tick 1, .writeFile 0 0 2]).2 0 = (.ok t, s3) ∧ t.content = 2 ∧ t.file = some (0, 0) := by
  obtain ⟨f, file, _, _, _, _, hkey⟩ := failed_compile_leaves_lookup_usable ⟨1, true, none, true⟩
    [.writeFile 0 0 1, .getTemplate 0, .tick 1, .breakFile 0 0] 0 _ rfl
  exact hkey 1 0 2 (by decide) (by intro j hj; exact absurd hj (Nat.not_lt_zero _)) (Or.inr (Or.inl (Nat.le_refl 1)))

/-- **failed_compile_leaves_lookup_usable, failures at import.**  If `get_template(u)` raises what the import /
execution of the generated module raises (the source compiles in Mako; with a module directory its module file has
been written and stays), then afterwards there is no entry for `u`, the invariant holds, and once the first
directory's file for `u` is (re)written with good content at least one second later (or at once, without module
directory), `get_template(u)` succeeds with that content: the leftover module file is older than the source and is
overwritten *without being imported* (`stale_decided_before_import`). -/
theorem failed_import_leaves_lookup_usable (cfg : Cfg) (h : List Op) (u : Uri) (s1 : State)
    (hfail : getTemplate cfg (final cfg h) u = (.error .late, s1)) :
    get? s1.coll u = none ∧ Inv cfg s1 ∧
    ∀ (n : Nat) (d : Dir) (c : Content), d < cfg.ndirs → (∀ j, j < d → s1.fs (j, u) = none) →
      (1 ≤ n ∨ cfg.moddir = false) →
      ∃ t s3, getTemplate cfg (run cfg s1 [.tick n, .writeFile d u c]).2 u = (.ok t, s3) ∧
        t.content = c ∧ t.file = some (d, u) := by
  have hi := inv_final cfg h
  have hn := get_error_noentry hfail (by intro hh; cases hh)
  have hi1 : Inv cfg s1 := by
    have := inv_getTemplate hi u; rw [hfail] at this; exact this
  refine ⟨hn, hi1, ?_⟩
  intro n d c hd hfirst hwhich
  let s2 : State := { s1 with clock := s1.clock + n, fs := setFs s1.fs (d, u) (some ⟨c, s1.clock + n, false, false⟩) }
  have hrun : (run cfg s1 [.tick n, .writeFile d u c]).2 = s2 := rfl
  rw [hrun]
  have hfile : s2.fs (d, u) = some ⟨c, s1.clock + n, false, false⟩ := by simp [s2, setFs]
  have hfd : firstDir cfg.ndirs s2.fs u = some d := by
    apply firstDir_some_iff.mpr
    refine ⟨by simp [hfile], hd, ?_⟩
    intro j hj
    have : (j, u) ≠ (d, u) := by
      intro hh
      have hjd : j = d := congrArg Prod.fst hh
      rw [hjd] at hj; exact Nat.lt_irrefl _ hj
    simp [s2, setFs, this, hfirst j hj]
  have hguard : needsRegen cfg s2 u (d, u) ⟨c, s1.clock + n, false, false⟩ := by
    intro hmd m hm
    have hle := hi1.mod_le u m hm
    rcases hwhich with hw | hw
    · left; simp only; omega
    · rw [hw] at hmd; cases hmd
  have hc := construct_regen (cfg := cfg) (s := s2) (k := u) (f := (d, u)) hfile rfl rfl hguard
  have hget := (get_miss_load (s := s2) hn hfd).trans (load_ok (s := s2) hn hc)
  exact ⟨_, _, hget, rfl, rfl⟩

example : ∃ t s3, getTemplate ⟨1, true, none, true⟩
      (run ⟨1, true, none, true⟩
        (getTemplate ⟨1, true, none, true⟩ (final ⟨1, true, none, true⟩ [.breakFileLate 0 0]) 0).2
        [.tick 1, .writeFile 0 0 2]).2 0 = (.ok t, s3) ∧ t.content = 2 ∧ t.file = some (0, 0) :=
  (failed_import_leaves_lookup_usable ⟨1, true, none, true⟩ [.breakFileLate 0 0] 0 _ rfl).2.2 1 0 2 (by decide)
    (by intro j hj; exact absurd hj (Nat.not_lt_zero _)) (Or.inl (Nat.le_refl 1))

/-- Why a tick is required with a module directory: corrected in the very second in which the late-breaking module
file was written, the source is not newer than that module file, which is imported again and raises (the
one-second allowance, applied to the module file); after a tick the corrected file loads. -/
theorem failed_import_same_second_witness :
    outputs ⟨1, true, none, true⟩ [.breakFileLate 0 0, .getTemplate 0, .writeFile 0 0 2, .getTemplate 0, .tick 1,
      .writeFile 0 0 3, .getTemplate 0] = [.none, .exc .late, .none, .exc .late, .none, .none, .ok 2 3] ∧
    outputs ⟨1, true, none, false⟩ [.breakFileLate 0 0, .getTemplate 0, .writeFile 0 0 2, .getTemplate 0]
      = [.none, .exc .late, .none, .ok 1 2] := by
  decide

/-! ## the LRU collection -/

/-- **lru_bound (as in the code).**  After every operation of every history `_manage_size`'s loop condition
`len > capacity + capacity * threshold` is false. -/
theorem lru_bound_threshold (cfg : Cfg) (n : Nat) (hc : cfg.cap = some n) (h : List Op) :
    (final cfg h).coll.length * thresholdDen ≤ n * thresholdDen + n * thresholdNum := by
  have := (inv_final cfg h).bound n hc
  simpa [over] using this

example := lru_bound_threshold ⟨1, true, some 2, false⟩ 2 rfl [.putString 0 7, .putString 1 8, .putString 2 9, .putString 3 1]

/-- **lru_bound.**  With the threshold found in the source (0.5): `len ≤ ⌊1.5·n⌋` after every operation; in
particular `collection_size=1` never holds more than one template. -/
theorem lru_bound (cfg : Cfg) (n : Nat) (hc : cfg.cap = some n) (h : List Op) :
    2 * (final cfg h).coll.length ≤ 3 * n ∧ (final cfg h).coll.length ≤ n + n / 2 := by
  have := lru_bound_threshold cfg n hc h
  have h1 : thresholdDen = 2 := by decide
  have h2 : thresholdNum = 1 := by decide
  rw [h1, h2] at this
  omega

example := lru_bound ⟨1, true, some 1, false⟩ 1 rfl [.putString 0 7, .putString 1 8, .putString 2 9]

/-- **lru_evicts_oldest.**  One pass of `_manage_size` over a collection with distinct keys and distinct stamps
(every reachable collection, and the collection at the moment `__setitem__` calls `_manage_size`) keeps exactly
`min n len` items, in dict order, and every kept item carries a younger stamp (was fetched or inserted later)
than every deleted one.  The pass runs iff `len > n + n·threshold`, and then the loop condition is false. -/
theorem lru_evicts_oldest (c : Coll) (n : Nat) (hk : (keys c).Nodup) (ht : (c.map (·.2.ts)).Nodup) :
    (trim n c).length = min n c.length ∧ (trim n c).Sublist c ∧
      (∀ p ∈ trim n c, ∀ q ∈ c, q ∉ trim n c → q.2.ts < p.2.ts) ∧
      manageSize n c = (if over n c.length then trim n c else c) ∧ over n (manageSize n c).length = false :=
  ⟨length_trim n hk, trim_sublist n c, fun _ hp _ hq hqn => trim_keeps_newest n hk ht hp hq hqn, rfl,
    over_manageSize n hk⟩

/-- the hypotheses of `lru_evicts_oldest` hold in every reachable state, and a fetch gives the youngest stamp -/
theorem lru_stamps (cfg : Cfg) (h : List Op) :
    (keys (final cfg h).coll).Nodup ∧ ((final cfg h).coll.map (·.2.ts)).Nodup ∧
      ∀ p ∈ (final cfg h).coll, p.2.ts < (final cfg h).nextTs :=
  ⟨(inv_final cfg h).keys_nodup, (inv_final cfg h).ts_nodup, (inv_final cfg h).ts_lt⟩

example := lru_evicts_oldest (final ⟨1, true, none, false⟩ [.putString 0 7, .putString 1 8, .getTemplate 0]).coll 1
  (lru_stamps _ _).1 (lru_stamps _ _).2.1

/-! ## eviction transparency -/

/-- **served_current.**  `filesystem_checks` on; the history keeps every name in one directory (`home`), changes
files only in seconds in which nothing was compiled before, and has no `put_*` (`settledFrom home true h`).  Then
every `get_template`/`has_template` of the history serves exactly what the specification says – the current
content of the file (or "no template", or the compile error) – for every collection kind, capacity and with or
without module directory. -/
theorem served_current (home : Uri → Dir) (cfg : Cfg) (hck : cfg.checks = true) (h : List Op)
    (hg : settledFrom home true h = true) :
    (outputs cfg h).map contentView = specRun cfg.ndirs init.fs init.clock h :=
  cur_run hck h (inv_init cfg) (cur_init home cfg) (fun _ => older_init) hg

example : (outputs ⟨1, true, some 1, true⟩ [.writeFile 0 0 5, .getTemplate 0, .tick 1, .breakFile 0 0, .getTemplate 0,
      .tick 1, .deleteFile 0 0, .hasTemplate 0]).map contentView = [.none, .ok 0 5, .none, .none, .exc .compile, .none,
      .none, .has false] :=
  served_current (fun _ => 0) ⟨1, true, some 1, true⟩ rfl _ (by decide)

/-- **eviction_transparent (guarded).**  Under the guards of `served_current` two lookups that differ in
`collection_size` (and/or `module_directory`) return the same contents and the same failures on every history. -/
theorem eviction_transparent_partial (home : Uri → Dir) (cfg₁ cfg₂ : Cfg) (hck₁ : cfg₁.checks = true)
    (hck₂ : cfg₂.checks = true) (hnd : cfg₁.ndirs = cfg₂.ndirs) (h : List Op)
    (hg : settledFrom home true h = true) :
    (outputs cfg₁ h).map contentView = (outputs cfg₂ h).map contentView := by
  rw [served_current home cfg₁ hck₁ h hg, served_current home cfg₂ hck₂ h hg, hnd]

example : (outputs ⟨2, true, some 1, true⟩ [.writeFile 1 0 5, .writeFile 0 1 9, .getTemplate 0, .tick 1,
      .writeFile 1 0 6, .getTemplate 1, .getTemplate 0, .tick 2, .breakFile 1 0, .hasTemplate 0]).map contentView =
    (outputs ⟨2, true, none, false⟩ [.writeFile 1 0 5, .writeFile 0 1 9, .getTemplate 0, .tick 1,
      .writeFile 1 0 6, .getTemplate 1, .getTemplate 0, .tick 2, .breakFile 1 0, .hasTemplate 0]).map contentView :=
  eviction_transparent_partial (fun u => if u = 0 then 1 else 0) _ _ rfl rfl rfl _ (by decide)

/-- unguarded it is false (1): a put entry is lost by eviction -/
theorem eviction_transparent_counterexample_put :
    (outputs ⟨1, true, some 1, false⟩ [.putString 0 7, .putString 1 8, .getTemplate 0]).map contentView ≠
    (outputs ⟨1, true, none, false⟩ [.putString 0 7, .putString 1 8, .getTemplate 0]).map contentView := by
  decide

/-- unguarded it is false (2): the cached entry from directory 1 is shadowed by a file created later in directory 0;
the unbounded lookup keeps serving directory 1, the evicting one re-scans and serves directory 0 -/
theorem eviction_transparent_counterexample_shadow :
    let h : List Op := [.writeFile 1 0 5, .writeFile 0 1 9, .getTemplate 0, .tick 1, .writeFile 0 0 6, .tick 1,
      .getTemplate 1, .getTemplate 0]
    (outputs ⟨2, true, some 1, false⟩ h).getLast? = some (.ok 2 6) ∧
    (outputs ⟨2, true, none, false⟩ h).getLast? = some (.ok 0 5) := by
  decide

/-- unguarded it is false (3): a change within the second of the compilation is not seen by `_check`
(allowed by the property), but a reload after eviction sees it -/
theorem eviction_transparent_counterexample_grace :
    let h : List Op := [.writeFile 0 0 1, .writeFile 0 1 9, .getTemplate 0, .writeFile 0 0 2, .getTemplate 1,
      .getTemplate 0]
    (outputs ⟨1, true, some 1, false⟩ h).getLast? = some (.ok 2 2) ∧
    (outputs ⟨1, true, none, false⟩ h).getLast? = some (.ok 0 1) := by
  decide

/-- unguarded it is false (4): with `filesystem_checks` off the unbounded lookup is frozen, the evicting one
reloads the current content (so `checks_off_frozen` does not extend to an LRU collection either) -/
theorem eviction_transparent_counterexample_checks_off :
    let h : List Op := [.writeFile 0 0 1, .writeFile 0 1 9, .getTemplate 0, .tick 1, .writeFile 0 0 2, .tick 1,
      .getTemplate 1, .getTemplate 0]
    (outputs ⟨1, false, some 1, false⟩ h).getLast? = some (.ok 2 2) ∧
    (outputs ⟨1, false, none, false⟩ h).getLast? = some (.ok 0 1) := by
  decide

end MakoModel.C14
