import MakoModel.ModFile.LemmasProps
import MakoModel.ModFile.LemmasConc
/-!
# C15 - module files are regenerated when stale and never observed half-written

Model: `MakoModel/ModFile/Model.lean` (the writer is the *regenerated* primitive list
`Generated.ModFile.writerOps`; staleness operator, magic number, re-check, `verify_directory` bound are
regenerated too).  All theorems quantify over **all histories** (`List HOp`: modify the source with any
mtime, delete / replace the module file, move the clock, construct with any plan of faults), all **crash
points** (`Plan.crash = some k`, every `k`, actions are atomic, a write passes through a half-written
state), all **faults** (`Plan.fates*`: any primitive raises; a write may be short) and all **schedules**
(`List Nat` of process ids).

Two recorded defects of the unchanged tree appear as guards:

* **F4** (short write): `Plan.guard` = "no `short` fate, or the code writes until complete (`writeLoops`)".
  When `writeLoops` is regenerated as `true` the guard is `Or.inl rfl` and disappears.
* **F-C15-2** (stale bytecode cache): `PycCoherent`/`PycFresh` = "the cache entry of the module path, if its
  (mtime second, size) key matches the file, was compiled from that file".

```
OPEN (false of the unchanged tree, see the two `_counterexample` theorems):

theorem path_never_partial_full (w0 : World) (h : List HOp) (p : Plan) (hw0 : Good w0.fs)
    (hh : ∀ op ∈ h, ∀ c m, op = .replaceMod c m → c.complete = true) :      -- no guard on the plans, no `hfix`
    let w := runH w0 h
    Good w.fs ∧ ((construct defaultWriter w p).world.fs .mod = w.fs .mod ∨
      ∃ f, (construct defaultWriter w p).world.fs .mod = some f ∧ IsNew w f)

theorem after_rewrite_current_full (w0 : World) (h : List HOp) (p : Plan) (hw0 : Good w0.fs) (hh : HistOk h)
    (hp : p.noFault) :                                                       -- no guard on the bytecode cache
    let w := runH w0 h
    ∃ c t, (construct defaultWriter w p).res = .served c ∧ … ∧ c.src = w.srcVer
```
-/
namespace MakoModel.C15
open MakoModel.ModFile MakoModel.Generated.ModFile

/-! ## (re)written exactly when due, otherwise reused unchanged -/

/-- For every history and every world it reaches: a construct without faults writes the module iff it is
missing, older than the source or carries another magic number; it writes at most once; when nothing is
due the whole module directory is untouched and no file-system action is performed.
Guard (F-C15-2): the bytecode cache of the module path is coherent with the file. -/
theorem rewrite_iff_due_partial (w0 : World) (h : List HOp) (p : Plan) (hw0 : Good w0.fs) (hh : HistOk h)
    (hp : p.noFault) (hcoh : PycCoherent (runH w0 h)) (hfresh : PycFresh (runH w0 h) p) :
    ((construct defaultWriter (runH w0 h) p).writes ≥ 1 ↔ Due (runH w0 h)) ∧
    (construct defaultWriter (runH w0 h) p).writes ≤ 1 ∧
    (¬ Due (runH w0 h) → (construct defaultWriter (runH w0 h) p).world.fs = (runH w0 h).fs ∧
      (construct defaultWriter (runH w0 h) p).acts = []) :=
  rewrite_iff_due_core w0 h p hw0 hh hp hcoh (Or.inr hfresh)

/-- The same without a guard, for interpreters that have no bytecode cache for the module path
(`sys.dont_write_bytecode`, no `__pycache__` entry): every history keeps it that way. -/
theorem rewrite_iff_due (w0 : World) (h : List HOp) (p : Plan) (hw0 : Good w0.fs) (hh : HistOk h)
    (hp : p.noFault) (hpyc : NoPyc w0) :
    ((construct defaultWriter (runH w0 h) p).writes ≥ 1 ↔ Due (runH w0 h)) ∧
    (construct defaultWriter (runH w0 h) p).writes ≤ 1 ∧
    (¬ Due (runH w0 h) → (construct defaultWriter (runH w0 h) p).world.fs = (runH w0 h).fs ∧
      (construct defaultWriter (runH w0 h) p).acts = []) :=
  rewrite_iff_due_partial w0 h p hw0 hh hp (runH_nopyc h w0 hpyc).coherent ((runH_nopyc h w0 hpyc).fresh p)

/-- the hypotheses are satisfiable, and both sides of the equivalence occur -/
example : (construct defaultWriter (runH World.init exHist) {}).writes = 1 ∧ Due (runH World.init exHist) :=
  have h := rewrite_iff_due World.init exHist {} init_good exHist_ok ⟨rfl, rfl, rfl⟩ init_nopyc
  ⟨by decide, h.1.1 (by decide)⟩
example : (construct defaultWriter (runH World.init (exHist ++ [.setClock 13, .construct {}])) {}).writes = 0 := by
  decide

/-! ## the `module_writer` hook -/

/-- A user-supplied `module_writer` (whatever it does to the file system: `eff`) is called iff a (re)write
is due; every call receives the complete module generated from the current source and the module path;
a hook that installs what it is given is called exactly once. -/
theorem writer_called_iff_due (eff : Content → FS → FS) (w0 : World) (h : List HOp) (p : Plan)
    (hw0 : Good w0.fs) (hh : HistOk h) (hcoh : PycCoherent (runH w0 h)) :
    ((construct (hookWriter eff) (runH w0 h) p).calls ≠ [] ↔ Due (runH w0 h)) ∧
    (∀ x ∈ (construct (hookWriter eff) (runH w0 h) p).calls, CallOk (runH w0 h) x) ∧
    ((runH w0 h).pyc = none → (∀ c fs, ∃ t, (eff c fs) .mod = some ⟨c, t⟩) → Due (runH w0 h) →
      (construct (hookWriter eff) (runH w0 h) p).calls.length = 1) := by
  have hgood := runH_good h w0 hh hw0
  exact ⟨hook_called_iff eff _ p hgood hcoh, hook_calls_ok eff _ p,
    fun hpyc hinst hdue => hook_called_once eff _ p hgood hpyc hinst hdue⟩

example : (construct (hookWriter fun c fs => fs.set .mod (some ⟨c, 0⟩)) (runH World.init exHist) {}).calls
    = [(⟨4, magicNumber, true, 4, 1⟩, .mod)] := by decide

/-! ## the module path never holds a half-written file -/

/-- For every history - whose constructs may raise at any primitive and die after any number `k` of
file-system actions - and for one more construct with any such plan: the module path holds no file or a
complete module before, and afterwards it holds *what it held before* or *the complete module generated
from the current source* - nothing else, whatever instant the writer failed or died at.
Guard (F4): no write is short, unless the code writes until complete. -/
theorem path_never_partial_partial (w0 : World) (h : List HOp) (p : Plan) (hw0 : Good w0.fs) (hh : HistOk h)
    (hg : p.guard) :
    Good (runH w0 h).fs ∧
    ((construct defaultWriter (runH w0 h) p).world.fs .mod = (runH w0 h).fs .mod ∨
      ∃ f, (construct defaultWriter (runH w0 h) p).world.fs .mod = some f ∧ IsNew (runH w0 h) f) ∧
    Good (construct defaultWriter (runH w0 h) p).world.fs := by
  have hgood := runH_good h w0 hh hw0
  exact ⟨hgood, construct_fs _ p hg, construct_good _ p hg hgood⟩

/-- the guard is met by plans that raise anywhere and die anywhere; the three outcomes occur -/
example : (Plan.guard { fates1 := [.ok, .raise], crash := some 3 }) := Or.inr ⟨by simp, by simp⟩
example : ((construct defaultWriter (runH World.init exHist) { crash := some 4 }).world.fs .mod) = none := by decide
example : ((construct defaultWriter (runH World.init exHist) { crash := some 5 }).world.fs .mod)
    = some ⟨⟨4, magicNumber, true, 4, 1⟩, 9⟩ := by decide
example : ((construct defaultWriter (runH World.init (exHist ++ [.construct {}, .modifySrc 20]))
    { fates1 := [.ok, .raise] }).world.fs .mod) = some ⟨⟨4, magicNumber, true, 4, 1⟩, 9⟩ := by decide

/-- **F4**: as long as the code does not write until complete (`writeLoops = false`, regenerated), the full
statement is false of the model, as it is of the code: a short `os.write` whose result is dropped leaves a
truncated file in the temp name, and the rename puts it at the module path. -/
theorem path_never_partial_counterexample : writeLoops = false →
    ((construct defaultWriter World.init { fates1 := [.ok, .short] }).world.fs .mod).map (·.content.complete)
      = some false := by decide

/-- The full statement - no guard on short writes - for code that writes until complete: once
`writeLoops` is regenerated as `true` the hypothesis is `rfl`. -/
theorem path_never_partial (hfix : writeLoops = true) (w0 : World) (h : List HOp) (p : Plan) (hw0 : Good w0.fs)
    (hh : ∀ op ∈ h, ∀ c m, op = HOp.replaceMod c m → c.complete = true) :
    Good (runH w0 h).fs ∧
    ((construct defaultWriter (runH w0 h) p).world.fs .mod = (runH w0 h).fs .mod ∨
      ∃ f, (construct defaultWriter (runH w0 h) p).world.fs .mod = some f ∧ IsNew (runH w0 h) f) ∧
    Good (construct defaultWriter (runH w0 h) p).world.fs := by
  have hok : HistOk h := by
    intro op hop
    cases op with
    | replaceMod c m => exact hh _ hop c m rfl
    | construct q => exact Or.inl hfix
    | modifySrc m => trivial
    | deleteMod => trivial
    | setClock t => trivial
  exact path_never_partial_partial w0 h p hw0 hok (Or.inl hfix)

/-! ## after a rewrite, and whenever the file was generated from the current source, the current source is served -/

/-- After any history (with faults and crashes under the guard of F4), a construct without faults succeeds:
it serves a complete module which is also what the module path holds, and that module was generated from
the current source whenever a rewrite happened or the file on disk had been generated from the current source.
Guard (F-C15-2): bytecode cache coherent with the file. -/
theorem after_rewrite_current_partial (w0 : World) (h : List HOp) (p : Plan) (hw0 : Good w0.fs)
    (hh : HistOk h) (hp : p.noFault) (hcoh : PycCoherent (runH w0 h)) (hfresh : PycFresh (runH w0 h) p) :
    ∃ c t, (construct defaultWriter (runH w0 h) p).res = .served c ∧
      (construct defaultWriter (runH w0 h) p).world.fs .mod = some ⟨c, t⟩ ∧ c.complete = true ∧
      (((construct defaultWriter (runH w0 h) p).writes ≥ 1 ∨
          ∃ f, (runH w0 h).fs .mod = some f ∧ f.content.src = (runH w0 h).srcVer) → c.src = (runH w0 h).srcVer) :=
  after_rewrite_current_core w0 h p hw0 hh hp hcoh (Or.inr hfresh)

/-- The same for code that removes the cached bytecode after every (re)write (`dropsBytecode`, regenerated;
`false` on the unchanged tree): the collision guard `PycFresh` is not needed any more. -/
theorem after_rewrite_current_fixed (hfix : dropsBytecode = true) (w0 : World) (h : List HOp) (p : Plan)
    (hw0 : Good w0.fs) (hh : HistOk h) (hp : p.noFault) (hcoh : PycCoherent (runH w0 h)) :
    ∃ c t, (construct defaultWriter (runH w0 h) p).res = .served c ∧
      (construct defaultWriter (runH w0 h) p).world.fs .mod = some ⟨c, t⟩ ∧ c.complete = true ∧
      (((construct defaultWriter (runH w0 h) p).writes ≥ 1 ∨
          ∃ f, (runH w0 h).fs .mod = some f ∧ f.content.src = (runH w0 h).srcVer) → c.src = (runH w0 h).srcVer) :=
  after_rewrite_current_core w0 h p hw0 hh hp hcoh (Or.inl hfix)

/-- without a bytecode cache: no guard -/
theorem after_rewrite_current (w0 : World) (h : List HOp) (p : Plan) (hw0 : Good w0.fs)
    (hh : HistOk h) (hp : p.noFault) (hpyc : NoPyc w0) :
    ∃ c t, (construct defaultWriter (runH w0 h) p).res = .served c ∧
      (construct defaultWriter (runH w0 h) p).world.fs .mod = some ⟨c, t⟩ ∧ c.complete = true ∧
      (((construct defaultWriter (runH w0 h) p).writes ≥ 1 ∨
          ∃ f, (runH w0 h).fs .mod = some f ∧ f.content.src = (runH w0 h).srcVer) → c.src = (runH w0 h).srcVer) :=
  after_rewrite_current_partial w0 h p hw0 hh hp (runH_nopyc h w0 hpyc).coherent ((runH_nopyc h w0 hpyc).fresh p)

example : (construct defaultWriter (runH World.init exHist) {}).res = .served ⟨4, magicNumber, true, 4, 1⟩ := by
  decide

/-- **F-C15-2** (F-C15-2 in known_findings.json): with bytecode caching on, as long as the code does not remove the
cached bytecode after a write, a rewrite within the same mtime second that yields a file of the
same size is loaded from the stale cache entry: the module path holds the module of source version 1, the
Template serves version 0. -/
theorem after_rewrite_current_counterexample : dropsBytecode = false →
    let w := runH { World.init with pycOn := true } [.construct {}, .deleteMod, .modifySrc 0]
    let o := construct defaultWriter w {}
    w.srcVer = 1 ∧ o.writes = 1 ∧ (o.world.fs .mod).map (·.content.src) = some 1 ∧
    o.res = .served ⟨0, magicNumber, true, 0, 1⟩ := by decide

/-! ## concurrent writers -/

/-- Any number of writer processes for the same path (process `q` uses temp name `q`, writes its own
complete module `news q`, may raise anywhere and die after any number of actions), interleaved by **any**
schedule: at every point the module path holds what it held initially or the complete module of one of the
writers.  Guard (F4) as above. -/
theorem concurrent_writers_safe (fs0 : FS) (news : Nat → Content) (nows : Nat → Nat) (fates : Nat → List Fate)
    (crash : Nat → Option Nat) (hg : ∀ q, writeLoops = true ∨ Fate.short ∉ fates q) (sched : List Nat) :
    (runSched (fs0, fun q => writerProc q (news q) (nows q) (fates q) (crash q)) sched).1 .mod = fs0 .mod ∨
    ∃ q, (runSched (fs0, fun q => writerProc q (news q) (nows q) (fates q) (crash q)) sched).1 .mod
      = some ⟨news q, nows q⟩ :=
  (runSched_inv (fs0 .mod) news nows sched _ (init_inv fs0 news nows fates crash hg)).path

/-- a loader reading the module path at any point of any schedule finds no file or a complete module -/
theorem concurrent_loader_sees_complete (fs0 : FS) (news : Nat → Content) (nows : Nat → Nat)
    (fates : Nat → List Fate) (crash : Nat → Option Nat) (hg : ∀ q, writeLoops = true ∨ Fate.short ∉ fates q)
    (hnew : ∀ q, (news q).complete = true) (h0 : Good fs0) (sched : List Nat) :
    Good (runSched (fs0, fun q => writerProc q (news q) (nows q) (fates q) (crash q)) sched).1 := by
  intro f hf
  rcases concurrent_writers_safe fs0 news nows fates crash hg sched with h | ⟨q, h⟩
  · exact h0 f (by rw [← h]; exact hf)
  · rw [h] at hf; cases hf; exact hnew q

/-- three writers, one of which raises in `close`; a schedule in which writer 1 wins, then writer 0 -/
example : (runSched (FS.empty, fun q => writerProc q ⟨1, magicNumber, true, q, 1⟩ 5
      (if q = 2 then [.ok, .ok, .raise] else []) (if q < 3 then none else some 0))
    [0, 1, 2, 1, 1, 0, 2, 2, 1, 1, 0, 0, 3, 0]).1 .mod = some ⟨⟨1, magicNumber, true, 0, 1⟩, 5⟩ := by decide

/-! ## `util.verify_directory` -/

/-- the retry loop makes at most `verifyDirMaxTries` attempts and raises exactly when all of them failed -/
theorem verify_directory_bounded (exists_ : Bool) (failures : Nat) :
    (verifyDir exists_ failures).1 ≤ verifyDirMaxTries ∧
    ((verifyDir exists_ failures).2 = true ↔ (exists_ = false ∧ failures ≥ verifyDirMaxTries)) := by
  unfold verifyDir
  cases exists_ with
  | true => simp
  | false =>
    rw [if_neg (by simp), verifyDirLoop_spec verifyDirMaxTries 0 failures (by simp)]
    by_cases h : 0 + failures < verifyDirMaxTries
    · simp only [h, if_true]
      exact ⟨by omega, by simp; omega⟩
    · simp only [h, if_false]
      exact ⟨by omega, by simp; omega⟩

end MakoModel.C15
