import MakoModel.ModFile.LemmasProps
import MakoModel.ModFile.LemmasConc
import MakoModel.ModFile.LemmasCC2
/-!
# C15 - module files are regenerated when stale and never observed half-written

Model: `MakoModel/ModFile/Model.lean`.  The writer is the *regenerated* primitive list
`Generated.ModFile.writerOps` (read from the AST of `_compile_module_file`); the staleness operator, the
magic number, the two re-check reasons (`magicRecheck`, `fileRecheck`), "writes until complete"
(`writeLoops`), "drops the cached bytecode after a write" (`dropsBytecode`) and the `verify_directory` bound
are regenerated as well; each is tied to the proofs by a `decide`d obligation (`writerOps_safe`,
`writeLoops_on`, `dropsBytecode_on`, `dropsBytecodeHook_on`, `mtimes_whole_seconds`, `staleCmp_is_lt`, `magicRecheck_on`, `fileRecheck_on`, …), so that a
change of the code either keeps the obligations or breaks a named one.

All theorems quantify over **all histories** (`List HOp`: modify the source with any mtime, delete the
module file, replace it by any complete module - other magic number, other template file, any mtime -,
move the clock, construct with any plan), all **crash points** (`Plan.crash = some k`: the process dies
after `k` atomic file-system actions, a write passes through a half-written state), all **faults**
(`Plan.fates*`: any primitive raises, a write may be short) and all **schedules** (`List Nat`).

What is assumed about a history (`HistOkFrom`): a module file installed by *somebody else* is complete and
does not collide in (mtime second, size) with the bytecode-cache entry of the module path - CPython
validates cached bytecode by exactly that key, and no code in mako can repair a collision it did not
cause.  Mako's own writes cannot collide any more: the entry is removed after every (re)write.
OPEN: nothing - no recorded finding of C15 is left.  `known_findings.json` lists the three repaired ones under
"fixed" (short write ignored; stale bytecode after a same-second rewrite; a re-spelled file name regenerated
the module): undoing a repair breaks a `decide`d obligation of the lemma files, where the build then stops -
`writeLoops_on`, `dropsBytecode_on` / `dropsBytecodeHook_on` (ModFile/LemmasCoh.lean), `fileCmpNormalised_on`
(ModFile/LemmasConstruct.lean; `respelled_name_reused_regression` below states the same repair at property
level and would fail next) - and the oracle streams keep the witnesses.
-/
namespace MakoModel.C15
open MakoModel.ModFile MakoModel.Generated.ModFile

/-! ## (re)written exactly when due, otherwise reused unchanged -/

/-- Regenerated fact behind the `Nat` time stamps of the model: `_compile_from_file` reads the source's mtime as
`os.stat(filename)[stat.ST_MTIME]` - whole seconds, like the module's.  (Reading it as the float `st_mtime`
makes a module written in the second of the source's mtime count as older: it is then rewritten on every
construction of that second - "reused unchanged" fails; the harness stamps sources T.25 and modules T.31 to
see exactly that.) -/
theorem mtimes_whole_seconds : mtimesWholeSeconds = true := by decide

/-- Regenerated fact: `_CompileContext` stores the template file name unchanged, so the name a module records
(`_template_filename`) is the very string the Template was given - which is what the re-check after loading
compares it with (up to `os.path.normpath`).  Code that records a rewritten name with another normalised path -
the absolute name for a relative one - would make every Template given such a name regenerate on each
construction (twice when the module is missing); that is the dead `else` branch of `recordedName`.  The lemma
files use this fact as `recordsFilenameVerbatim_on`. -/
theorem records_filename_verbatim : recordsFilenameVerbatim = true := by decide

/-- For every history and the world it reaches: a construct without faults writes the module iff it is
missing, older than the source, carries another magic number **or was generated from another template
file**; it writes at most once; when nothing is due the whole module directory is untouched and no
file-system action is performed.
"Another file" is file identity *up to `os.path.normpath` of the names* (`normOf`): the recorded name and the
name now given are two spellings with the same normalised path - `./tmpl//x.html` and `tmpl/x.html` - iff they
count as the same file.  A symlinked name, or a relative and an absolute spelling of one file, are still
different names for the code (and, given by name, map to different module paths anyway); histories may
re-spell the name at any point (`HOp.respell`). -/
theorem rewrite_iff_due (w0 : World) (h : List HOp) (p : Plan) (hw0 : Inv w0) (hh : HistOkFrom w0 h)
    (hp : p.noFault) :
    ((construct defaultWriter (runH w0 h) p).writes ≥ 1 ↔
      ((runH w0 h).fs .mod = none ∨ ∃ f, (runH w0 h).fs .mod = some f ∧
        (f.mtime < (runH w0 h).srcMtime ∨ f.content.magic ≠ magicNumber ∨ normOf f.content.file ≠ normOf (runH w0 h).fileId))) ∧
    (construct defaultWriter (runH w0 h) p).writes ≤ 1 ∧
    (¬ Due (runH w0 h) → (construct defaultWriter (runH w0 h) p).world.fs = (runH w0 h).fs ∧
      (construct defaultWriter (runH w0 h) p).acts = []) :=
  rewrite_iff_due_at (runH w0 h) p (runH_inv h w0 hh hw0) hp

/-- the hypotheses are satisfiable by a non-trivial history (written, source touched older / equal / newer,
replaced by another generator version, deleted, a raising and a dying construct), and both sides occur -/
example : (construct defaultWriter (runH World.init exHist) {}).writes = 1 ∧ Due (runH World.init exHist) :=
  have h := rewrite_iff_due World.init exHist {} init_inv_world exHist_okFrom ⟨rfl, rfl, rfl⟩
  ⟨by decide, h.1.1 (by decide)⟩
example : (construct defaultWriter (runH World.init (exHist ++ [.setClock 13, .construct {}])) {}).writes = 0 := by
  decide
/-- the fourth reason: a complete, fresh module of the right magic number, generated from another file -/
example : (construct defaultWriter (runH World.init
    (exHist ++ [.setClock 13, .construct {}, .replaceMod ⟨4, magicNumber, true, 50, 1, 7⟩ 20])) {}).writes = 1 := by
  decide

/-- **Regression theorem** (repaired defect F-C15-3, /repo 9a78efb): the module was written for this source
version under the name `0`; the next Template is given another spelling (`1`) of the same normalised path (same
module path).  Nothing is due - and nothing is written, the module directory stays as it is.  With the raw
string comparison the code had before (`fileCmpNormalised = false`) this construct rewrote the module. -/
theorem respelled_name_reused_regression :
    let w := runH World.init [.modifySrc 5, .setClock 7, .construct {}, .respell 1]
    (construct defaultWriter w {}).writes = 0 ∧ (construct defaultWriter w {}).acts = [] ∧
    (w.fs .mod).map (fun f => (f.content.src, f.content.magic, f.content.complete, decide (f.mtime < w.srcMtime)))
      = some (w.srcVer, magicNumber, true, false) := by decide

/-- … while a name with another normalised path (another file) is still a reason to regenerate -/
example : (construct defaultWriter (runH World.init [.modifySrc 5, .setClock 7, .construct {}, .respell 2]) {}).writes = 1 := by
  decide

/-! ## the `module_writer` hook -/

/-- A user-supplied `module_writer` (whatever it does to the file system: `eff`) is called iff a (re)write
is due; every call receives the complete module generated from the current source of this template file and
the module path; a hook that installs what it is given is called exactly once. -/
theorem writer_called_iff_due (eff : Content → FS → FS) (w0 : World) (h : List HOp) (p : Plan)
    (hw0 : Inv w0) (hh : HistOkFrom w0 h) :
    ((construct (hookWriter eff) (runH w0 h) p).calls ≠ [] ↔ Due (runH w0 h)) ∧
    (∀ x ∈ (construct (hookWriter eff) (runH w0 h) p).calls, CallOk (runH w0 h) x) ∧
    ((∀ c fs, ∃ t, (eff c fs) .mod = some ⟨c, t⟩) → Due (runH w0 h) →
      (construct (hookWriter eff) (runH w0 h) p).calls.length = 1) := by
  obtain ⟨hgood, hcoh⟩ := runH_inv h w0 hh hw0
  exact ⟨hook_called_iff eff _ p hgood hcoh, hook_calls_ok eff _ p,
    fun hinst hdue => hook_called_once eff _ p hgood hcoh (Or.inl dropsBytecodeHook_on) hinst hdue⟩

example : (construct (hookWriter fun c fs => fs.set .mod (some ⟨c, 0⟩)) (runH World.init exHist) {}).calls
    = [(⟨4, magicNumber, true, 4, 1, 0⟩, .mod)] := by decide

/-! ## the module path never holds a half-written file -/

/-- **Full strength** (no guard on the plans): for every history - whose constructs may raise at any
primitive, write short, and die after any number `k` of file-system actions - and for one more construct
with any such plan: the module path holds no file or a complete module before, and afterwards it holds
*what it held before* or *the complete module generated from the current source* - nothing else,
whatever instant the writer failed or died at. -/
theorem path_never_partial (w0 : World) (h : List HOp) (p : Plan) (hw0 : Inv w0) (hh : HistOkFrom w0 h) :
    Good (runH w0 h).fs ∧
    ((construct defaultWriter (runH w0 h) p).world.fs .mod = (runH w0 h).fs .mod ∨
      ∃ f, (construct defaultWriter (runH w0 h) p).world.fs .mod = some f ∧ IsNew (runH w0 h) f) ∧
    Good (construct defaultWriter (runH w0 h) p).world.fs := by
  have hgood := (runH_inv h w0 hh hw0).1
  exact ⟨hgood, construct_fs _ p (guard_all p), construct_good _ p (guard_all p) hgood⟩

/-- the three outcomes occur: crash before the move, after it, a raising write over a previous module; and
a short write is completed by the code -/
example : ((construct defaultWriter (runH World.init exHist) { crash := some 4 }).world.fs .mod) = none := by decide
example : ((construct defaultWriter (runH World.init exHist) { crash := some 5 }).world.fs .mod)
    = some ⟨⟨4, magicNumber, true, 4, 1, 0⟩, 9⟩ := by decide
example : ((construct defaultWriter (runH World.init (exHist ++ [.construct {}, .modifySrc 20]))
    { fates1 := [.ok, .raise] }).world.fs .mod) = some ⟨⟨4, magicNumber, true, 4, 1, 0⟩, 9⟩ := by decide
example : ((construct defaultWriter World.init { fates1 := [.ok, .short] }).world.fs .mod).map (·.content.complete)
    = some true := by decide

/-! ## after a rewrite, and whenever the file was generated from the current source, the current source is served -/

/-- After any history (with faults, short writes and crashes), a construct without faults succeeds: it
serves a complete module of the current generator version, generated from this template file, which is also
what the module path holds; and that module was generated from the *current* source whenever a rewrite
happened or the file on disk had been generated from the current source. -/
theorem after_rewrite_current (w0 : World) (h : List HOp) (p : Plan) (hw0 : Inv w0) (hh : HistOkFrom w0 h)
    (hp : p.noFault) :
    ∃ c t, (construct defaultWriter (runH w0 h) p).res = .served c ∧
      (construct defaultWriter (runH w0 h) p).world.fs .mod = some ⟨c, t⟩ ∧ c.complete = true ∧
      c.magic = magicNumber ∧ normOf c.file = normOf (runH w0 h).fileId ∧
      (((construct defaultWriter (runH w0 h) p).writes ≥ 1 ∨
          ∃ f, (runH w0 h).fs .mod = some f ∧ f.content.src = (runH w0 h).srcVer) → c.src = (runH w0 h).srcVer) :=
  after_rewrite_current_at (runH w0 h) p (runH_inv h w0 hh hw0) hp

example : (construct defaultWriter (runH World.init exHist) {}).res = .served ⟨4, magicNumber, true, 4, 1, 0⟩ := by
  decide

/-- the same-second history with bytecode caching on - construct, delete the module,
modify the source with an equal mtime, construct within the same second, same size - satisfies the
hypotheses, and the current source is served -/
example : HistOkFrom { World.init with pycOn := true } [.construct {}, .deleteMod, .modifySrc 0] :=
  ⟨trivial, trivial, trivial, trivial⟩
example :
    (construct defaultWriter (runH { World.init with pycOn := true } [.construct {}, .deleteMod, .modifySrc 0]) {}).res
      = .served ⟨1, magicNumber, true, 1, 1, 0⟩ := by decide

/-! ## concurrent writers -/

/-- Any number of writer processes for the same path (process `q` uses temp name `q`, writes its own
complete module `news q`, may raise anywhere, write short, and die after any number of actions),
interleaved by **any** schedule: at every point the module path holds what it held initially or the
complete module of one of the writers. -/
theorem concurrent_writers_safe (fs0 : FS) (news : Nat → Content) (nows : Nat → Nat) (fates : Nat → List Fate)
    (crash : Nat → Option Nat) (sched : List Nat) :
    (runSched (fs0, fun q => writerProc q (news q) (nows q) (fates q) (crash q)) sched).1 .mod = fs0 .mod ∨
    ∃ q, (runSched (fs0, fun q => writerProc q (news q) (nows q) (fates q) (crash q)) sched).1 .mod
      = some ⟨news q, nows q⟩ :=
  (runSched_inv (fs0 .mod) news nows sched _
    (init_inv fs0 news nows fates crash (fun _ => Or.inl writeLoops_on))).path

/-- a loader reading the module path at any point of any schedule finds no file or a complete module -/
theorem concurrent_loader_sees_complete (fs0 : FS) (news : Nat → Content) (nows : Nat → Nat)
    (fates : Nat → List Fate) (crash : Nat → Option Nat)
    (hnew : ∀ q, (news q).complete = true) (h0 : Good fs0) (sched : List Nat) :
    Good (runSched (fs0, fun q => writerProc q (news q) (nows q) (fates q) (crash q)) sched).1 := by
  intro f hf
  rcases concurrent_writers_safe fs0 news nows fates crash sched with h | ⟨q, h⟩
  · exact h0 f (by rw [← h]; exact hf)
  · rw [h] at hf; cases hf; exact hnew q

/-- three writers, one of which raises in `close`, one writes short; a schedule in which writer 1 wins, then writer 0 -/
example : (runSched (FS.empty, fun q => writerProc q ⟨1, magicNumber, true, q, 1, 0⟩ 5
      (if q = 2 then [.ok, .ok, .raise] else if q = 1 then [.ok, .short] else []) (if q < 3 then none else some 0))
    [0, 1, 2, 1, 1, 0, 2, 2, 1, 1, 0, 0, 3, 0]).1 .mod = some ⟨⟨1, magicNumber, true, 0, 1, 0⟩, 5⟩ := by decide

/-! ## concurrent constructs (whole `Template(...)` constructions interleaved step by step) -/

/-- `m` processes construct the same Template (process `p` with any plan of raising / short-writing
primitives; a process that is not scheduled any more has died), interleaved by **any** schedule in which the
source may also be modified and the clock moved at any point.  In every reachable state:
* the module path holds what it held initially, or a complete module of the current generator version,
  generated from this template file, from a version of the source that was current at some point of the run;
* so a loader at any point finds no file or a complete module;
* every construct that has finished serving serves a complete module of the current generator version for
  this template file - such a module of the run, or the initial one;
* a construct without injected faults never fails. -/
theorem concurrent_constructs_safe (fs0 : FS) (v0 sm0 clock0 : Nat) (fates1 fates2 : Nat → List Fate)
    (hg : Good fs0) (sched : List SItem) :
    ((runC (CState.initial fs0 v0 sm0 clock0 fates1 fates2) sched).fs .mod = fs0 .mod ∨
      PathNew v0 (runC (CState.initial fs0 v0 sm0 clock0 fates1 fates2) sched).fs
        (runC (CState.initial fs0 v0 sm0 clock0 fates1 fates2) sched).srcVer) ∧
    Good (runC (CState.initial fs0 v0 sm0 clock0 fates1 fates2) sched).fs ∧
    (∀ p c, ((runC (CState.initial fs0 v0 sm0 clock0 fates1 fates2) sched).procs p).phase = .done (some c) →
      c.complete = true ∧ c.magic = magicNumber ∧ normOf c.file = normOf 0 ∧
      (NewLike v0 (runC (CState.initial fs0 v0 sm0 clock0 fates1 fates2) sched).srcVer c ∨
        ∃ t, fs0 .mod = some ⟨c, t⟩)) ∧
    (∀ p, fates1 p = [] → fates2 p = [] →
      ((runC (CState.initial fs0 v0 sm0 clock0 fates1 fates2) sched).procs p).phase ≠ .done none) := by
  have hj := runC_J sched _ (initial_J fs0 v0 sm0 clock0 fates1 fates2 hg)
  refine ⟨hj.path, ?_, ?_, ?_⟩
  · intro f hf
    rcases hj.path with hp | ⟨f', hf', hn⟩
    · exact hg f (by rw [← hp]; exact hf)
    · rw [hf] at hf'; cases hf'; exact hn.1
  · intro p c hph
    have := hj.ph p
    rw [hph] at this
    exact this c rfl
  · intro p h1 h2 hph
    have := runC_clean (init := fs0 .mod) (v0 := v0) p sched _ (initial_J fs0 v0 sm0 clock0 fates1 fates2 hg)
      ⟨h1, h2⟩ trivial
    rw [hph] at this
    exact this rfl

/-- When the source is not modified during the run (`stable`): every module served is generated from the
current source, or is the initial module; and as soon as one construct has finished serving, the module on
disk is a complete module generated from the **current** source - or it is still the initial module and that
module is not due (not older than the source, current generator version, this template file: the reuse the
property allows). -/
theorem concurrent_constructs_converge (fs0 : FS) (v0 sm0 clock0 : Nat) (fates1 fates2 : Nat → List Fate)
    (hg : Good fs0) (sched : List SItem) (hs : stable sched = true) :
    (∀ p c, ((runC (CState.initial fs0 v0 sm0 clock0 fates1 fates2) sched).procs p).phase = .done (some c) →
      c.src = v0 ∨ ∃ t, fs0 .mod = some ⟨c, t⟩) ∧
    ((∃ p c, ((runC (CState.initial fs0 v0 sm0 clock0 fates1 fates2) sched).procs p).phase = .done (some c)) →
      PathNew v0 (runC (CState.initial fs0 v0 sm0 clock0 fates1 fates2) sched).fs v0 ∨
      ((runC (CState.initial fs0 v0 sm0 clock0 fates1 fates2) sched).fs .mod = fs0 .mod ∧
        InitReusable (fs0 .mod) sm0)) := by
  have hj := runC_J sched _ (initial_J fs0 v0 sm0 clock0 fates1 fates2 hg)
  have hk := runC_K sched _ hs (initial_J fs0 v0 sm0 clock0 fates1 fates2 hg)
    (initial_K fs0 v0 sm0 clock0 fates1 fates2)
  refine ⟨?_, ?_⟩
  · intro p c hph
    have := hj.ph p
    rw [hph] at this
    rcases (this c rfl).2.2.2 with hn | hi
    · left
      have h1 := hn.2.2.2.1
      have h2 := hn.2.2.2.2
      rw [hk.ver] at h2
      omega
    · exact Or.inr hi
  · rintro ⟨p, c, hph⟩
    by_cases hp : PathNew v0 (runC (CState.initial fs0 v0 sm0 clock0 fates1 fates2) sched).fs v0
    · exact Or.inl hp
    · right
      have := hk.ph p
      rw [hph] at this
      refine ⟨?_, this hp⟩
      rcases hj.path with h | h
      · exact h
      · rw [hk.ver] at h; exact absurd h hp

/-- three processes on an empty module directory, one of them raising in `close`; a schedule mixing their
steps: both others serve the current source (the module written by process 1, stamp 2) and the path holds a complete
module of it -/
example :
    let st := runC (CState.initial FS.empty 3 5 10 (fun q => if q = 2 then [.ok, .ok, .raise] else []) (fun _ => []))
      ([0, 1, 2, 0, 1, 2, 2, 0, 1, 1, 2, 2, 2, 0, 0, 1, 1, 1, 0, 0, 0, 1, 1, 0, 0, 1, 2, 2, 0, 0, 0, 1, 1, 1].map .proc)
    (st.procs 0).phase = .done (some ⟨3, magicNumber, true, 2, 1, 0⟩) ∧
    (st.procs 1).phase = .done (some ⟨3, magicNumber, true, 2, 1, 0⟩) ∧
    (st.procs 2).phase = .done none ∧
    (st.fs .mod).map (·.content.src) = some 3 := by decide

/-- Why `stable` is needed - a limit of the protocol, **not a finding**: the source is modified (mtime 10) while
process 0, which has already read version 0, is still writing; process 1 publishes version 1; process 0 renames
last.  Everybody has finished, the path holds a *complete* module of the **older** version whose mtime is not
older than the source's, so the staleness test of a later construct does not fire.
Outside the property's quantifier: C15 speaks of histories of {modify, delete, replace, construct} - sequential
operations - times 2-8 processes constructing the same Template "for the same source" concurrently; a source
modification *concurrent with a running construct* is in neither factor (and no staleness test on mtimes could
exclude it).  Hence no finding id and no oracle stream; `concurrent_constructs_converge` is the statement for
the property's case. -/
theorem concurrent_constructs_need_stable_source_counterexample :
    let st := runC (CState.initial FS.empty 0 5 10 (fun _ => []) (fun _ => []))
      ([.proc 0, .proc 0, .proc 0, .modify 10] ++ (List.replicate 10 (.proc 1)) ++ (List.replicate 7 (.proc 0)))
    (st.procs 0).phase = .done (some ⟨0, magicNumber, true, 0, 1, 0⟩) ∧
    (st.procs 1).phase = .done (some ⟨1, magicNumber, true, 2, 1, 0⟩) ∧
    st.srcVer = 1 ∧ (st.fs .mod).map (·.content.src) = some 0 ∧ dueAt st.fs st.srcMtime = false := by decide

/-! ## `util.verify_directory` -/

/-- the retry loop makes at most `verifyDirMaxTries` attempts and raises exactly when all of them failed -/
theorem verify_directory_bounded (exists_ : Bool) (failures : Nat) :
    (verifyDir exists_ failures).1 ≤ verifyDirMaxTries ∧
    ((verifyDir exists_ failures).2 = true ↔ (exists_ = false ∧ failures ≥ verifyDirMaxTries)) := by
  unfold verifyDir
  cases exists_ with
  | true => simp
  | false =>
    rw [if_neg (by simp), verifyDirLoop_spec verifyDirMaxTries 0 failures (by simp)]
    by_cases h : 0 + failures < verifyDirMaxTries
    · simp only [h, if_true]
      exact ⟨by omega, by simp; omega⟩
    · simp only [h, if_false]
      exact ⟨by omega, by simp; omega⟩

end MakoModel.C15
