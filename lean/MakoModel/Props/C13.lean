import MakoModel.Codegen.Refine
import MakoModel.Generated.RuntimeFacts
/-!
# C13 – an exception at any point leaves the render state consistent

Model: `Target/Model.lean` (target language + runtime stacks + exception oracle `boom`), `Codegen/Model.lean`
(structured templates and the generator's output shape).  All theorems quantify over **every template of the
modelled grammar** (any nesting: structural induction in `Codegen/Lemmas.lean`), **every crash point** `k`,
**every fuel** and **every start state** whose stored closures are generated code (`LocOK`, `StOK` – true of
`St.init` and preserved by every execution).  `o ≠ .timeout` excludes only the model's out-of-fuel artefact.

OPEN
* `handled_equals_spec` in full (every template of the grammar): proved for the control fragment only
  (`handled_equals_spec_partial`, `handled_equals_spec_render_partial`); false as an unguarded statement because a
  `return` inside a buffered def loses its content in mako (`handled_equals_spec_counterexample`).
* finding F-C13-1 (known_findings.json): with `format_exceptions`, `Template.render_context` leaves the error page
  in a fresh internal buffer instead of the caller's buffer.  The model follows the code (`execTemplate`,
  `format_exceptions_renders_error_page` speak about `render()`).
The seven constants of `Generated/RuntimeFacts.lean` are consumed only by their own obligations
(`runtime_cleanup_uses_finally`, `runtime_error_paths_as_modelled`): they pin the shape of the runtime helpers that
the hand-written model assumes, no model definition is computed from them; `supportsCallerCleanup` has no Lean
counterpart at all (`supports_caller` is not modelled).
Not modelled: asynchronous exceptions, cache back ends, inheritance chains, namespaces of other templates and
python-module `supports_caller` defs (oracle streams of the check only).
-/
namespace MakoModel.C13
open MakoModel.Target MakoModel.Codegen

/-! ## balance -/

/-- **Every render callable** the generator emits – `render_body` or a def/block with any combination of
    buffered / filtered / cached / decorated flags, at any nesting – ends, on every exit path (normal, `return`,
    exception at any evaluation point), with the buffer stack, the caller stack, the loop stack and the pending
    `nextcaller` it started with. -/
theorem balanced_codegen (ts : List (Tmpl × Option Bool)) (k : Nat) (top : Bool) (fl : DefFlags) (t : Tmpl)
    (fuel : Nat) (l : Loc) (σ : St) (hl : LocOK l) (hσ : StOK σ) (hne : σ.bufs ≠ [])
    (o : Outcome) (l' : Loc) (σ' : St)
    (he : exec (progOf ts k) fuel (renderCallable top fl t) l σ = (o, l', σ')) (ho : o ≠ .timeout) :
    SameStacks σ σ' := by
  obtain ⟨⟨i, topc⟩, rest, hb⟩ := List.exists_cons_of_ne_nil hne
  exact Bal.same hb ((all_good _ (codegen_cfg_ok ts k) fuel).body _ l σ i topc rest
    (renderCallable_wf top fl t) hl hσ hb o l' σ' he ho)

/-- non-vacuous: the sample's buffered+filtered def raises at crash point 0 inside its buffer, the exception
    leaves `render_body` (outcome `exc`), and the hypotheses hold for the initial state -/
example : ∃ o l' σ', exec (progOf [(sampleRaw, none)] 0) 60 (renderCallable true noFlags sampleRaw) (Loc.init 0) St.init
      = (o, l', σ') ∧ o = .exc excBoom ∧ LocOK (Loc.init 0) ∧ StOK St.init ∧ St.init.bufs ≠ [] :=
  ⟨_, _, _, rfl, by decide, loc_init_ok 0, init_ok, by decide⟩

/-- the same for **any construct inside a callable**: the statements generated for any sub-template in any
    scope (control structures, `<%call>`, `<%text filter>`, loops with `loop`, includes, …). -/
theorem balanced_construct (ts : List (Tmpl × Option Bool)) (k : Nat) (sc : Scope) (t : Tmpl)
    (fuel : Nat) (l : Loc) (σ : St) (hl : LocOK l) (hσ : StOK σ) (i : Nat) (topc : Str) (rest : List (Nat × Str))
    (hb : σ.bufs = (i, topc) :: rest) (hw : l.writer = i) (o : Outcome) (l' : Loc) (σ' : St)
    (he : exec (progOf ts k) fuel (stmts sc t) l σ = (o, l', σ')) (ho : o ≠ .timeout) :
    SameStacks σ σ' ∧ l'.writer = i :=
  have g := (all_good _ (codegen_cfg_ok ts k) fuel).exec _ l σ i topc rest ((emits t).stmts sc) hl hσ hb hw o l' σ' he ho
  ⟨Bal.same hb g.1, g.2.2⟩

example : ∃ o l' σ', exec (progOf [(sampleRaw, none)] 0) 60
      (stmts { top := true, cd := false, bind := false, loops := false } sampleRaw)
      { Loc.init 0 with funs := [] } St.init = (o, l', σ') ∧ o ≠ .timeout ∧ (Loc.init 0).writer = 0 :=
  ⟨_, _, _, rfl, by decide, rfl⟩

/-- … and for **any expression** (def calls, `caller.x()`, `capture`, includes, filters) -/
theorem balanced_expression (ts : List (Tmpl × Option Bool)) (k : Nat) (e : Expr)
    (fuel : Nat) (l : Loc) (σ : St) (hl : LocOK l) (hσ : StOK σ) (hne : σ.bufs ≠ []) (r : VRes) (σ' : St)
    (he : eval (progOf ts k) fuel e l σ = (r, σ')) (hr : r ≠ .timeout) : SameStacks σ σ' := by
  obtain ⟨⟨i, topc⟩, rest, hb⟩ := List.exists_cons_of_ne_nil hne
  exact Bal.same hb ((all_good _ (codegen_cfg_ok ts k) fuel).eval e l σ i topc rest hl hσ hb r σ' he hr)

example : ∃ r σ', eval (progOf [(sampleRaw, none)] 0) 60 (.call 1 [.lit ['q']]) (Loc.init 0) St.init = (r, σ') ∧
    r = .exc excBoom := ⟨_, _, rfl, by decide⟩

/-! ## buffers -/

/-- **Frame property**: whatever happens inside a construct, the buffer that was on top only grows by a
    suffix, the buffers below are untouched, and every buffer pushed inside is gone – so later output goes to
    the right buffer (`__M_writer` still denotes the top buffer), and text written directly before the raise
    stays. -/
theorem abandoned_buffers_discarded (ts : List (Tmpl × Option Bool)) (k : Nat) (sc : Scope) (t : Tmpl)
    (fuel : Nat) (l : Loc) (σ : St) (hl : LocOK l) (hσ : StOK σ) (i : Nat) (topc : Str) (rest : List (Nat × Str))
    (hb : σ.bufs = (i, topc) :: rest) (hw : l.writer = i) (o : Outcome) (l' : Loc) (σ' : St)
    (he : exec (progOf ts k) fuel (stmts sc t) l σ = (o, l', σ')) (ho : o ≠ .timeout) :
    (∃ w, σ'.bufs = (i, topc ++ w) :: rest) ∧ l'.writer = i :=
  have g := (all_good _ (codegen_cfg_ok ts k) fuel).exec _ l σ i topc rest ((emits t).stmts sc) hl hσ hb hw o l' σ' he ho
  ⟨g.1.bufs, g.2.2⟩

/-- the sample with a `% try`: the def's partial content `ab` is dropped, `x` written before stays, the handler's
    probe sees depths 1.1 and writes to the same buffer, `y` follows -/
example : (render (progOf [(sampleTmpl, none)] 0) ⟨none, false⟩ 100).2.1 = "x1.1.0y".toList := by decide
example : (render (progOf [(sampleTmpl, none)] 7) ⟨none, false⟩ 100).2.1 = "x1(ab)y".toList := by decide

/-- the same seen from a call site: a def call / capture / include appends a suffix to the caller's buffer -/
theorem call_appends_suffix (ts : List (Tmpl × Option Bool)) (k : Nat) (e : Expr)
    (fuel : Nat) (l : Loc) (σ : St) (hl : LocOK l) (hσ : StOK σ) (i : Nat) (topc : Str) (rest : List (Nat × Str))
    (hb : σ.bufs = (i, topc) :: rest) (r : VRes) (σ' : St)
    (he : eval (progOf ts k) fuel e l σ = (r, σ')) (hr : r ≠ .timeout) : ∃ w, σ'.bufs = (i, topc ++ w) :: rest :=
  ((all_good _ (codegen_cfg_ok ts k) fuel).eval e l σ i topc rest hl hσ hb r σ' he hr).bufs

example : ∃ r σ', eval (progOf [(sampleRaw, none)] 7) 60 (.call 1 [.lit ['q']]) (Loc.init 0) St.init = (r, σ') ∧
    r = .val "1(ab)".toList := ⟨_, _, rfl, by decide⟩

/-- the buffered core of a buffered / filtered / cached callable: when it is left – normally or **by an
    exception** – the outer buffer is *exactly* as it was: the partial content of the abandoned buffer is in the
    dead `__M_buf` only (for a filtered def it is written afterwards, outside the `finally`, hence only when
    the body completed). -/
theorem abandoned_buffer_content_is_dropped (ts : List (Tmpl × Option Bool)) (k : Nat) (sc : Scope) (t : Tmpl)
    (p : Prim) (hp : p = .popBuffer ∨ p = .popBufferAndWriter)
    (fuel : Nat) (l : Loc) (σ : St) (hl : LocOK l) (hσ : StOK σ) (i : Nat) (topc : Str) (rest : List (Nat × Str))
    (hb : σ.bufs = (i, topc) :: rest) (f : NS) (fr : List NS) (hf : σ.frames = f :: fr) (hn : σ.next = [])
    (o : Outcome) (l' : Loc) (σ' : St)
    (he : exec (progOf ts k) fuel
            (.tryFinally (.seq (.prim .pushBuffer) (.seq (.seq (hoist sc t) (.prim .getWriter)) (stmts sc t)))
                         (.seq (.prim p) (.prim .popFrame))) l σ = (o, l', σ'))
    (ho : o ≠ .timeout) : σ'.bufs = σ.bufs ∧ σ'.frames = fr ∧ σ'.next = f := by
  have h := core_good _ fuel (fun m _ => all_good _ (codegen_cfg_ok ts k) m) p hp ((emits t).hoist sc).1
    ((emits t).hoist sc).2 ((emits t).stmts sc) hl hσ hb hf hn he ho
  exact ⟨h.1.trans hb.symm, h.2.1, h.2.2.1⟩

example : ∃ o l' σ', exec (progOf [] 0) 60
      (.tryFinally (.seq (.prim .pushBuffer) (.seq (.seq (hoist ⟨false, false, false, false⟩ (.expr .boom []))
          (.prim .getWriter)) (stmts ⟨false, false, false, false⟩ (.seq (.text ['a']) (.expr .boom [])))))
        (.seq (.prim .popBuffer) (.prim .popFrame)))
      (Loc.init 0) { St.init with frames := [[]] } = (o, l', σ') ∧ o = .exc excBoom ∧ σ'.bufs = St.init.bufs :=
  ⟨_, _, _, rfl, by decide, by decide⟩

/-! ## `caller` and `loop` -/

/-- After an exception inside any construct (in particular: when the handler of a `% try` starts) `caller` and
    `loop` denote what they denoted before the construct: the caller stack, the loop stack and the pending `nextcaller` are the same,
    and the activation's lexical `caller` was never touched.  Hence `loop.index` and the namespace `caller.x()`
    resolves to are as before. -/
theorem caller_and_loop_restored (ts : List (Tmpl × Option Bool)) (k : Nat) (sc : Scope) (t : Tmpl)
    (fuel : Nat) (l : Loc) (σ : St) (hl : LocOK l) (hσ : StOK σ) (i : Nat) (topc : Str) (rest : List (Nat × Str))
    (hb : σ.bufs = (i, topc) :: rest) (hw : l.writer = i) (e : Nat) (l' : Loc) (σ' : St)
    (he : exec (progOf ts k) fuel (stmts sc t) l σ = (.exc e, l', σ')) :
    σ'.frames = σ.frames ∧ σ'.loops = σ.loops ∧ σ'.next = σ.next ∧ l'.lexc = l.lexc ∧ l'.useLex = l.useLex ∧
      (if l'.useLex then some l'.lexc else σ'.frames.head?) = (if l.useLex then some l.lexc else σ.frames.head?) ∧
      ∀ m, (eval (progOf ts k) m .loopIndex l' σ').1 = (eval (progOf ts k) m .loopIndex l σ).1 := by
  have g := (all_good _ (codegen_cfg_ok ts k) fuel).exec _ l σ i topc rest ((emits t).stmts sc) hl hσ hb hw _ l' σ' he
    (by simp)
  have kp := (exec_keeps_lex (progOf ts k) fuel).1 _ l σ _ l' σ' he
  refine ⟨g.1.frames, g.1.loops, g.1.next, kp.1, kp.2.1, by rw [kp.1, kp.2.1, g.1.frames], ?_⟩
  intro m
  cases m with
  | zero => simp [eval]
  | succ m => simp only [eval, g.1.loops]; split <;> rfl

/-- non-vacuous: a loop with `loop`, whose body calls the raising def: the exception leaves the statements with
    the loop context still pushed *inside*, and it is gone at the end -/
example : ∃ e l' σ', exec (progOf [(sampleRaw, none)] 0) 60
      (stmts { top := true, cd := false, bind := false, loops := true }
        (.for_ 2 [.lit ['i']] (.seq (.expr .loopIndex []) (.expr (.call 1 [.lit ['q']]) []))))
      (Loc.init 0) St.init = (.exc e, l', σ') := by
  have h : (exec (progOf [(sampleRaw, none)] 0) 60
      (stmts { top := true, cd := false, bind := false, loops := true }
        (.for_ 2 [.lit ['i']] (.seq (.expr .loopIndex []) (.expr (.call 1 [.lit ['q']]) []))))
      (Loc.init 0) St.init).1 = .exc 0 := by decide
  exact ⟨0, _, _, by rw [← h]⟩

/-! ## the handled exception and the specification renderer -/

/-- **Refinement (control fragment).**  For every template built from text, `${expr | filters}` (expressions
    without calls), `% if / for / while`, `loop`, `<%text filter>`, `return / break / continue` **and `% try` at any
    level** – whatever the crash point and wherever the `% try` sits – the statements the generator emits append to
    the buffer on top exactly the string `Spec.snodes` returns, end with the same outcome and the same evaluation
    counter, and leave the same variables.  `Spec.snodes` has no stacks, so there is nothing it could have left
    behind: the output after a handled exception is "as if every abandoned construct had been exited normally".

    PARTIAL – guard `Ctl t`: constructs that involve a *callable* (`<%def>`, `<%block>`, `<%call>`, `capture`,
    `caller.x()`, `<%include>`) are not covered by this proof.  For them the frame-level theorems above hold
    (`abandoned_buffers_discarded`, `abandoned_buffer_content_is_dropped`, `call_appends_suffix`,
    `caller_and_loop_restored`), and `Spec.render` is compared with the real renderer on every run of the check
    (stream `corr.spec`).

    OPEN (full statement, not proved; false as it stands, see `handled_equals_spec_counterexample`):
    `∀ t, render (progOf ts k) o fuel` and `Spec.render ⟨ts, k⟩ o m` agree for large `m`. -/
theorem handled_equals_spec_partial (ts : List (Tmpl × Option Bool)) (k : Nat) (t : Tmpl) (sc : Scope)
    (hctl : Ctl t = true) (hlo : LoopOK sc t) (fuel : Nat) (l : Loc) (σ : St) (E : Spec.Env)
    (hR : Rel l σ E) (hl : LocOK l) (hσ : StOK σ) (i : Nat) (topc : Str) (rest : List (Nat × Str))
    (hb : σ.bufs = (i, topc) :: rest) (hw : l.writer = i) (o : Outcome) (l' : Loc) (σ' : St)
    (he : exec (progOf ts k) fuel (stmts sc t) l σ = (o, l', σ')) (ho : o ≠ .timeout) :
    ∃ out vars', σ'.bufs = (i, topc ++ out) :: rest ∧
      (∃ m0, ∀ m, m0 ≤ m → Spec.snodes ⟨ts, k⟩ m t E σ.cnt = ⟨conv o, out, σ'.cnt, vars'⟩) ∧
      ∀ x, lookup x l'.vars = lookup x vars' :=
  (ref_all (progOf ts k) ⟨ts, k⟩ (codegen_cfg_ok ts k) rfl fuel).stmt t sc l σ E i topc rest o l' σ' hctl hlo hR hl hσ
    hb hw he ho

/-- non-vacuous: the guard, the loop condition and the state relation hold for the sample (a loop with `loop`, a
    `% try` inside it, a filter that is the crash point, a `<%text filter>`) from the initial state -/
example : Ctl sampleCtl = true ∧ LoopOK ⟨true, false, false, true⟩ sampleCtl ∧
    Rel (Loc.init 0) St.init { vars := [], defs := [], caller := [], loops := [], nb := 1, nf := 0, mod := 0 } :=
  ⟨by decide, .inl rfl, ⟨fun _ => rfl, rfl, rfl, rfl, rfl⟩⟩

/-- the same for the **whole render** of a control-fragment template, with every combination of `error_handler`
    and `format_exceptions`: `Template.render()` in the model returns what `Spec.render` returns. -/
theorem handled_equals_spec_render_partial (ts : List (Tmpl × Option Bool)) (k : Nat) (t : Tmpl) (ieh : Option Bool)
    (hctl : Ctl t = true) (o : Opts) (fuel : Nat)
    (hr : (render (progOf ((t, ieh) :: ts) k) o fuel).1 ≠ .timeout) :
    ∃ m0, ∀ m, m0 ≤ m →
      (Spec.render ⟨(t, ieh) :: ts, k⟩ o m).2 = (render (progOf ((t, ieh) :: ts) k) o fuel).2.1 ∧
      SameKind (render (progOf ((t, ieh) :: ts) k) o fuel).1 (Spec.render ⟨(t, ieh) :: ts, k⟩ o m).1 :=
  render_refines_ctl ts k t ieh hctl o fuel hr

/-- the sample, crash point 1 = the filter in the first iteration: the handler runs with `loop` intact, the
    second iteration follows, both renderers agree -/
example : (render (progOf [(sampleCtl, none)] 1) ⟨none, false⟩ 100).2.1 = "a0!1.1.012()3(z)".toList ∧
    (Spec.render ⟨[(sampleCtl, none)], 1⟩ ⟨none, false⟩ 100).2 = "a0!1.1.012()3(z)".toList ∧
    (render (progOf [(sampleCtl, none)] 1) ⟨none, false⟩ 100).1 ≠ .timeout := by decide +kernel

/-- the unguarded statement is false of the model (because it is false of mako): a `return` inside a buffered
    def loses the content written before it, where the specification (and the documentation) keep it -/
theorem handled_equals_spec_counterexample :
    (render (progOf [(quirkTmpl, none)] 99) ⟨none, false⟩ 100).2.1 = "[]".toList ∧
    (Spec.render ⟨[(quirkTmpl, none)], 99⟩ ⟨none, false⟩ 100).2 = "[x]".toList := by decide +kernel

/-! ## the context after a render; rendering again -/

/-- After `Template.render_context` – whatever happened: normal end, exception propagated to the caller,
    swallowed by `error_handler`, or turned into an error page – the context is back in its initial shape: one
    buffer, empty caller stack, no `nextcaller`, no loop context.  Nothing else is stored (the compiled template
    is not part of the state): a second render starts exactly like a first one, and `Context.write` after a
    failed render goes to the only buffer there is. -/
theorem rerender_same (ts : List (Tmpl × Option Bool)) (k : Nat) (o : Opts) (fuel : Nat) (r : VRes) (σ' : St)
    (he : execTemplate (progOf ts k) o fuel St.init = (r, σ')) (hr : r ≠ .timeout) :
    σ'.bufs.length = 1 ∧ σ'.frames = [] ∧ σ'.next = [] ∧ σ'.loops = [] := by
  have body : ∀ r1 σ1, runBody (progOf ts k) fuel St.init = (r1, σ1) → r1 ≠ .timeout →
      (∃ w, σ1.bufs = [(0, w)]) ∧ σ1.frames = [] ∧ σ1.next = [] ∧ σ1.loops = [] := by
    intro r1 σ1 h1 hr1
    simp only [runBody] at h1
    split at h1
    · simp only [Prod.mk.injEq] at h1; obtain ⟨_, rfl⟩ := h1; exact ⟨⟨[], rfl⟩, rfl, rfl, rfl⟩
    · rename_i m hm
      have hm' : m ∈ (progOf ts k).prog := List.mem_of_getElem? hm
      have b := (all_good _ (codegen_cfg_ok ts k) fuel).invoke ⟨m.body, [], 0⟩ [] (Loc.init 0) St.init 0 [] []
        ((codegen_cfg_ok ts k).body m hm') NSOK_nil (loc_init_ok 0) init_ok rfl r1 σ1 h1 hr1
      obtain ⟨w, hw⟩ := b.bufs
      exact ⟨⟨w, by simpa using hw⟩, b.frames, b.next, b.loops⟩
  simp only [execTemplate] at he
  split at he
  · generalize hx : runBody (progOf ts k) fuel St.init = x at he
    obtain ⟨r1, σ1⟩ := x
    cases r1 with
    | timeout => simp only [Prod.mk.injEq] at he; exact absurd he.1.symm hr
    | val v =>
      simp only [Prod.mk.injEq] at he; obtain ⟨_, rfl⟩ := he
      obtain ⟨⟨w, hw⟩, h2, h3, h4⟩ := body _ _ hx (by simp)
      exact ⟨by simp [hw], h2, h3, h4⟩
    | exc e =>
      obtain ⟨⟨w, hw⟩, h2, h3, h4⟩ := body _ _ hx (by simp)
      simp only at he
      split at he <;> (simp only [Prod.mk.injEq] at he; obtain ⟨_, rfl⟩ := he)
      · exact ⟨by simp [hw], h2, h3, h4⟩
      · exact ⟨by simp [hw], h2, h3, h4⟩
      · exact ⟨by simp, h2, h3, h4⟩
  · obtain ⟨⟨w, hw⟩, h2, h3, h4⟩ := body _ _ he hr
    exact ⟨by simp [hw], h2, h3, h4⟩

example : (execTemplate (progOf [(sampleRaw, none)] 0) ⟨none, false⟩ 100 St.init).1 = .exc excBoom := by decide
example : (execTemplate (progOf [(sampleRaw, none)] 0) ⟨some true, false⟩ 100 St.init).1 = .val [] := by decide
example : (execTemplate (progOf [(sampleRaw, none)] 0) ⟨none, true⟩ 100 St.init).1 = .val [] := by decide

/-- … and what was written directly before the failure is still in that buffer (nothing else is). -/
theorem output_kept_after_failed_render (ts : List (Tmpl × Option Bool)) (k : Nat) (fuel : Nat) (e : Nat) (σ' : St)
    (he : runBody (progOf ts k) fuel St.init = (.exc e, σ')) : ∃ w, σ'.bufs = [(0, w)] := by
  simp only [runBody] at he
  split at he
  · simp only [Prod.mk.injEq] at he; obtain ⟨_, rfl⟩ := he; exact ⟨[], rfl⟩
  · rename_i m hm
    have hm' : m ∈ (progOf ts k).prog := List.mem_of_getElem? hm
    have b := (all_good _ (codegen_cfg_ok ts k) fuel).invoke ⟨m.body, [], 0⟩ [] (Loc.init 0) St.init 0 [] []
      ((codegen_cfg_ok ts k).body m hm') NSOK_nil (loc_init_ok 0) init_ok rfl _ σ' he (by simp)
    obtain ⟨w, hw⟩ := b.bufs
    exact ⟨w, by simpa using hw⟩

example : ∃ e σ', runBody (progOf [(sampleRaw, none)] 0) 100 St.init = (.exc e, σ') ∧ σ'.bufs = [(0, ['x'])] := by
  have h : (runBody (progOf [(sampleRaw, none)] 0) 100 St.init).1 = .exc 0 := by decide
  exact ⟨0, _, by rw [← h], by decide⟩

/-! ## who handles the exception: `_exec_template`, `_render_error`, `_include_file` -/

/-- no `error_handler`, no `format_exceptions`: the callable is called directly – the exception (the same
    object: nothing catches it) reaches the caller of `render` -/
theorem unhandled_propagates_unchanged (c : Cfg) (fuel : Nat) (σ : St) :
    execTemplate c ⟨none, false⟩ fuel σ = runBody c fuel σ := by
  simp [execTemplate]

/-- `error_handler` returning true: the exception is swallowed, the state (output so far) is kept -/
theorem error_handler_true_swallows (c : Cfg) (fe : Bool) (fuel : Nat) (σ σ1 : St) (e : Nat)
    (h : runBody c fuel σ = (.exc e, σ1)) : execTemplate c ⟨some true, fe⟩ fuel σ = (.val [], σ1) := by
  simp [execTemplate, h]

example : ∃ e σ1, runBody (progOf [(sampleRaw, none)] 0) 100 St.init = (.exc e, σ1) := by
  have h : (runBody (progOf [(sampleRaw, none)] 0) 100 St.init).1 = .exc 0 := by decide
  exact ⟨0, _, by rw [← h]⟩

/-- `error_handler` returning false: re-raised – the same exception, the same state -/
theorem error_handler_false_reraises (c : Cfg) (fe : Bool) (fuel : Nat) (σ σ1 : St) (e : Nat)
    (h : runBody c fuel σ = (.exc e, σ1)) : execTemplate c ⟨some false, fe⟩ fuel σ = (.exc e, σ1) := by
  simp [execTemplate, h]

example : (execTemplate (progOf [(sampleRaw, none)] 0) ⟨some false, true⟩ 100 St.init).1 = .exc excBoom := by decide

/-- `format_exceptions` (and no handler): the buffer stack is replaced by one fresh buffer holding the error
    page, which is what `render()` returns; an `error_handler`, when present, takes precedence -/
theorem format_exceptions_renders_error_page (c : Cfg) (fuel : Nat) (e : Nat) (σ1 : St)
    (h : runBody c fuel St.init = (.exc e, σ1)) :
    (render c ⟨none, true⟩ fuel).1 = .val [] ∧ (render c ⟨none, true⟩ fuel).2.1 = errorPage e ∧
      (render c ⟨none, true⟩ fuel).2.2.bufs.length = 1 := by
  simp [render, execTemplate, h]

example : (render (progOf [(sampleRaw, none)] 0) ⟨none, true⟩ 100).2.1 = errorPage excBoom := by decide

/-- `_include_file` with an `include_error_handler`: returning true swallows the exception of the included
    template and rendering continues in the including one (with what the included template and the handler wrote
    directly); returning false re-raises; without a handler the exception propagates. -/
theorem include_error_handler (c : Cfg) (n i : Nat) (m : Module) (l : Loc) (σ σ1 : St) (e : Nat)
    (hm : c.prog[i]? = some m)
    (h : invoke c n ⟨m.body, [], i⟩ [] { l with funs := [] } σ = (.exc e, σ1)) :
    eval c (n + 1) (.includeFile i) l σ =
      match m.ieh with
      | none => (.exc e, σ1)
      | some b => (if b then .val [] else .exc e, { σ1 with bufs := writeTop ['[', 'H', ']'] σ1.bufs }) := by
  simp only [eval, hm, h]
  cases m.ieh with
  | none => rfl
  | some b => cases b <;> rfl

/-- non-vacuous: template 0 includes template 1, which raises; with a handler returning true rendering goes on -/
example : (render (progOf [(.seq (.text ['a']) (.seq (.include_ 1) (.text ['z'])), none),
                           (.seq (.text ['i']) (.expr .boom []), some true)] 0) ⟨none, false⟩ 100).2.1
    = "ai[H]z".toList := by decide
example : (render (progOf [(.seq (.text ['a']) (.seq (.include_ 1) (.text ['z'])), none),
                           (.seq (.text ['i']) (.expr .boom []), some false)] 0) ⟨none, false⟩ 100).1
    = .exc excBoom := by decide

/-! ## the exception *object* that reaches the caller -/

/-- **Unhandled, the original exception object propagates unchanged** – the very object (identity, class and
    constructor arguments), whether or not its class derives from `Exception`: without `error_handler` and
    `format_exceptions` nothing catches it; with an `error_handler` that returns a false value `_render_error`
    re-raises the object found in `sys.exc_info()`, not the value it handed to the handler (which for a
    `BaseException` outside `Exception` is only the *class*). -/
theorem unhandled_same_object (e : ExcObj) (fe : Bool) :
    (renderErrorObj ⟨none, false⟩ e).seen = .raised e ∧ (renderErrorObj ⟨some false, fe⟩ e).seen = .raised e := by
  simp [renderErrorObj]

/-- what the handler is given: the instance for an `Exception`, only the class otherwise (bare `except:`) -/
theorem error_handler_argument (e : ExcObj) (b fe : Bool) :
    (renderErrorObj ⟨some b, fe⟩ e).handlerArg = some (if e.isException then .inst e else .cls e.cls) ∧
      ((renderErrorObj ⟨some b, fe⟩ e).seen = .returned ↔ b = true) ∧ (renderErrorObj ⟨some b, fe⟩ e).page = false := by
  cases b <;> simp [renderErrorObj]

/-- `format_exceptions` without a handler turns every exception – `BaseException`s included – into an error page -/
theorem format_exceptions_catches_all (e : ExcObj) :
    renderErrorObj ⟨none, true⟩ e = ⟨none, .returned, true⟩ := by
  simp [renderErrorObj]

/-- `_include_file`: the `include_error_handler` sees `Exception`s only; a false result (bare `raise`) and every
    exception outside `Exception` propagate as the same object -/
theorem include_error_handler_same_object (e : ExcObj) (b : Bool) :
    (includeErrorObj none e).seen = .raised e ∧ (includeErrorObj (some false) e).seen = .raised e ∧
      (e.isException = false → includeErrorObj (some b) e = ⟨none, .raised e, false⟩) ∧
      (e.isException = true → (includeErrorObj (some true) e).seen = .returned) := by
  refine ⟨by simp [includeErrorObj], ?_, ?_, ?_⟩
  · cases h : e.isException <;> simp [includeErrorObj, h]
  · intro h; simp [includeErrorObj, h]
  · intro h; simp [includeErrorObj, h]

example : (renderErrorObj ⟨some false, false⟩ ⟨1, 7, [302, 5], false⟩).handlerArg = some (.cls 1) ∧
    (renderErrorObj ⟨some false, false⟩ ⟨1, 7, [302, 5], false⟩).seen = .raised ⟨1, 7, [302, 5], false⟩ := by decide

/-- **The error page replaces the whole shared buffer stack, for every alias of the context.**  When the failing
    callable ran on a copy of the caller's context (`<%inherit>`, includes, namespaces: `Context._copy` shares the
    `_buffer_stack` list), the caller's context – the one `_render` pops the result from, or the one handed to
    `render_context` – sees exactly one buffer, holding the error page: no partial output in front of it.

    This is a statement about aliasing on the small heap model `CtxHeap` / `renderErrorHeap` (a context is its
    reference to a list object; the replacement happens in the object).  It is not derived from `execTemplate`,
    which has a single state and no context copies; the stream `corr.shared_stack` checks on every run that the
    real error path hands `_render_error` a context whose `_buffer_stack` *is* the caller's list and that the
    caller then sees what this model says. -/
theorem error_page_replaces_shared_stack (h : CtxHeap) (caller : CtxRef) (page : Str)
    (hlive : caller.stack < h.stacks.length) :
    ∀ alias : CtxRef, alias.stack = caller.stack →
      (renderErrorHeap h caller.copy page).stackOf alias = [(0, page)] := by
  intro alias ha
  simp [renderErrorHeap, CtxHeap.stackOf, CtxRef.copy, ha, hlive]

example : (renderErrorHeap ⟨[[(0, "partial".toList), (1, "deeper".toList)]]⟩ (CtxRef.copy ⟨0⟩) "PAGE".toList).stackOf ⟨0⟩
    = [(0, "PAGE".toList)] := by decide

/-! ## cleanup does not depend on the class of the exception -/

/-- **What /repo's runtime helpers do now** (regenerated from `mako/runtime.py` on every run): `capture()` pops its
    buffer and `supports_caller` its frame in a `finally` (no `except <class>` in between), so a `KeyboardInterrupt`,
    `GeneratorExit` or a user `BaseException` is cleaned up after exactly like an `Exception`; the model's `capture`
    and frames are written accordingly.  An edit that narrows the cleanup to `except Exception:` breaks this. -/
theorem runtime_cleanup_uses_finally :
    Generated.RuntimeFacts.captureCleanup = "finally" ∧ Generated.RuntimeFacts.supportsCallerCleanup = "finally" := by
  decide

/-- … and the error paths are the ones `renderErrorObj` / `includeErrorObj` / `renderErrorHeap` model:
    `_include_file` catches `Exception` only and re-raises with a bare `raise`; `_exec_template` has
    `except Exception:` and a bare `except:`; `_render_error` replaces the buffer stack in place and re-raises the
    object found in `sys.exc_info()`. -/
theorem runtime_error_paths_as_modelled :
    Generated.RuntimeFacts.includeHandlerCatches = ["Exception"] ∧
    Generated.RuntimeFacts.execTemplateCatches = ["Exception", ""] ∧
    Generated.RuntimeFacts.includeReraisesBare = true ∧ Generated.RuntimeFacts.renderErrorInPlace = true ∧
    Generated.RuntimeFacts.reraisesFromExcInfo = true := by decide

/-- **`finally` semantics**: when the body of a generated `try … finally` ends with an exception, the finalizer is
    executed from the state the body left, whatever the exception is; the exception that goes on is the same one
    unless the finalizer itself does not end normally.  (The model has one kind of `try/finally` and no cleanup that
    inspects the exception; the only class-sensitive construct is the user's own `% except <class>`.) -/
theorem finally_runs_for_every_exception (c : Cfg) (n : Nat) (b f : Stmt) (l l1 l2 : Loc) (σ σ1 σ2 : St) (e : Nat)
    (o2 : Outcome) (hb : exec c n b l σ = (.exc e, l1, σ1)) (hf : exec c n f l1 σ1 = (o2, l2, σ2)) :
    exec c (n + 1) (.tryFinally b f) l σ = (if o2 = .normal then .exc e else o2, l2, σ2) := by
  simp only [exec, hb, hf]
  cases o2 <;> simp

example : ∃ l1 σ1, exec ⟨[], 0⟩ 3 (.write .boom) (Loc.init 0) St.init = (.exc excBoom, l1, σ1) := ⟨_, _, rfl⟩

/-- `capture()`: the buffer it pushed is popped when the captured callable raises – for every exception `e` alike;
    the state afterwards does not depend on `e` -/
theorem capture_pops_for_every_exception (c : Cfg) (n : Nat) (f : Name) (clo : Clo) (l : Loc) (σ σ3 : St)
    (e : Nat) (b : Nat × Str) (rest : List (Nat × Str)) (hres : resolve c l f = some clo)
    (hinv : invoke c (n + 1) clo [] l { σ with bufs := (σ.nextId, []) :: σ.bufs, nextId := σ.nextId + 1 } = (.exc e, σ3))
    (hb3 : σ3.bufs = b :: rest) :
    eval c (n + 2) (.capture f []) l σ = (.exc e, { σ3 with bufs := rest }) := by
  simp [eval, evalArgs, hres, hinv, hb3]

end MakoModel.C13
