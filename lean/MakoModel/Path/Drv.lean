import MakoModel.Basic.Wire
import MakoModel.Path.Model
import MakoModel.Path.History
/-! Driver handler for the path model: `path <fn> <args…>` -/
namespace MakoModel.Path.Drv
open MakoModel.Wire

def decOps : List String → Option (List Op)
  | [] => some []
  | "g" :: u :: rest => do let u ← decStr u; let r ← decOps rest; pure (.get u :: r)
  | "h" :: u :: rest => do let u ← decStr u; let r ← decOps rest; pure (.has u :: r)
  | "a" :: f :: rest => do let f ← decStr f; let r ← decOps rest; pure (.add f :: r)
  | "d" :: f :: rest => do let f ← decStr f; let r ← decOps rest; pure (.del f :: r)
  | _ => none

def encOut : Out → String
  | .notFound => "N"
  | .rejected => "R"
  | .served s => "S" ++ encStr s
  | .answer b => if b then "T" else "F"
  | .none => "_"

/-- `hist <fsChecks> <n> d1 … dn <m> f1 … fm op…`: a whole history on the lookup state machine -/
def hist (fs : String) (rest : List String) : Option String := do
  let fs ← decBool fs
  let n ← rest.head?.bind String.toNat?
  let ds ← ((rest.drop 1).take n).mapM decStr
  let rest := rest.drop (1 + n)
  let m ← rest.head?.bind String.toNat?
  let fl ← ((rest.drop 1).take m).mapM decStr
  let ops ← decOps (rest.drop (1 + m))
  pure (";".intercalate ((runFrom { dirs := ds, fsChecks := fs } (LState.init fl) ops).map encOut))

def handle : Handler
  | "hist" :: fs :: rest => hist fs rest
  | ["normpath", p] => do let p ← decStr p; pure (encStr (normpath p))
  | ["join", a, b] => do let a ← decStr a; let b ← decStr b; pure (encStr (joinPath a b))
  | ["dirname", p] => do let p ← decStr p; pure (encStr (dirname p))
  | ["src", d, u] => do let d ← decStr d; let u ← decStr u; pure (encStr (uriToSrc d u))
  | ["check", u] => do let u ← decStr u; pure (encBool (templateCheck u))
  | ["modpath", m, u] => do let m ← decStr m; let u ← decStr u; pure (encStr (modulePath m u))
  | ["adjust", u, "none"] => do let u ← decStr u; pure (encOpt encStr (adjustUri u none))
  | ["adjust", u, r] => do let u ← decStr u; let r ← decStr r; pure (encOpt encStr (adjustUri u (some r)))
  | _ => none

end MakoModel.Path.Drv
