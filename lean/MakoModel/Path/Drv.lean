import MakoModel.Basic.Wire
import MakoModel.Path.Model
/-! Driver handler for the path model: `path <fn> <args…>` -/
namespace MakoModel.Path.Drv
open MakoModel.Wire

def handle : Handler
  | ["normpath", p] => do let p ← decStr p; pure (encStr (normpath p))
  | ["join", a, b] => do let a ← decStr a; let b ← decStr b; pure (encStr (joinPath a b))
  | ["dirname", p] => do let p ← decStr p; pure (encStr (dirname p))
  | ["src", d, u] => do let d ← decStr d; let u ← decStr u; pure (encStr (uriToSrc d u))
  | ["check", u] => do let u ← decStr u; pure (encBool (templateCheck u))
  | ["modpath", m, u] => do let m ← decStr m; let u ← decStr u; pure (encStr (modulePath m u))
  | ["adjust", u, "none"] => do let u ← decStr u; pure (encOpt encStr (adjustUri u none))
  | ["adjust", u, r] => do let u ← decStr u; let r ← decStr r; pure (encOpt encStr (adjustUri u (some r)))
  | _ => none

end MakoModel.Path.Drv
