import MakoModel.Path.Lemmas
/-!
# Containment: what `normpath (join d u)` is for a normalised directory `d` (helper lemmas for C09)
-/
namespace MakoModel.Path

/-- the string `normpath` assembles from the number of leading slashes and the final components -/
def build (k : Nat) (comps : List Comp) : List Char :=
  let path := List.replicate k '/' ++ joinSlash comps
  if path = [] then dot else path

theorem normpath_nil : normpath [] = dot := by simp [normpath]

theorem normpath_eq_build (p : List Char) (hp : p ≠ []) :
    normpath p = build (initialSlashes p) (run (initialSlashes p != 0) [] (splitSlash p)).reverse := by
  simp [normpath, hp, build]

theorem initialSlashes_le (p : List Char) : initialSlashes p ≤ 2 := by
  unfold initialSlashes; repeat' split
  all_goals omega

/-- a component as it can occur on the stack: non-empty and slash-free -/
def GoodComp (c : Comp) : Prop := c ≠ [] ∧ '/' ∉ c

theorem NameComp.good {c : Comp} (h : NameComp c) : GoodComp c := ⟨h.1, h.2.2.2⟩

theorem dotdot_good : GoodComp dotdot := by simp [GoodComp, dotdot]

theorem StackOK.good {abs : Bool} {st : List Comp} (h : StackOK abs st) : ∀ c ∈ st, GoodComp c := by
  obtain ⟨names, j, rfl, _, hn⟩ := h
  intro c hc
  simp at hc
  cases hc with
  | inl h => exact (hn c h).good
  | inr h => rw [h.2]; exact dotdot_good

theorem joinSlash_ne_nil (D : List Comp) (hne : D ≠ []) (h : ∀ c ∈ D, GoodComp c) :
    ∃ x r, joinSlash D = x :: r ∧ x ≠ '/' := by
  cases D with
  | nil => contradiction
  | cons c cs =>
    obtain ⟨hc1, hc2⟩ := h c (by simp)
    cases c with
    | nil => contradiction
    | cons x xs =>
      have hx : x ≠ '/' := by intro e; apply hc2; simp [e]
      cases cs with
      | nil => exact ⟨x, xs, rfl, hx⟩
      | cons d ds => exact ⟨x, xs ++ '/' :: joinSlash (d :: ds), rfl, hx⟩

theorem joinSlash_getLast (D : List Comp) (hne : D ≠ []) (h : ∀ c ∈ D, GoodComp c) :
    (joinSlash D).getLast? ≠ some '/' := by
  induction D with
  | nil => contradiction
  | cons c cs ih =>
    obtain ⟨hc1, hc2⟩ := h c (by simp)
    cases cs with
    | nil =>
      simp only [joinSlash]
      intro e
      apply hc2
      exact List.mem_of_getLast? e
    | cons d ds =>
      rw [joinSlash_cons_cons]
      have ih' := ih (by simp) (fun x hx => h x (by simp [hx]))
      obtain ⟨x, r, hxr, _⟩ := joinSlash_ne_nil (d :: ds) (by simp) (fun x hx => h x (by simp [hx]))
      rw [hxr] at ih' ⊢
      rw [List.getLast?_append]
      simp only [List.getLast?_cons_cons]
      intro e
      apply ih'
      cases hl : (x :: r).getLast? with
      | none => simp at hl
      | some v => rw [hl] at e; simp at e; rw [e]

/-- running the loop over already normalised components reproduces them -/
theorem run_self (abs : Bool) (D : List Comp) (h : StackOK abs D.reverse) : run abs [] D = D.reverse := by
  obtain ⟨names, j, hD, habs, hn⟩ := h
  have hD' : D = List.replicate j dotdot ++ names.reverse := by
    have := congrArg List.reverse hD
    simpa using this
  rw [hD, hD', run_append_list]
  have h1 : run abs [] (List.replicate j dotdot) = List.replicate j dotdot := by
    cases abs with
    | true => have := habs rfl; subst this; rfl
    | false => have := run_dotdots_rel j 0; simpa using this
  rw [h1, run_names abs _ names.reverse (by intro c hc; exact hn c (by simpa using hc))]
  simp

theorem initialSlashes_rep_cons (k : Nat) (hk : k ≤ 2) (x : Char) (r : List Char) (hx : x ≠ '/') :
    initialSlashes (List.replicate k '/' ++ x :: r) = k := by
  match k, hk with
  | 0, _ => simp [initialSlashes, hx]
  | 1, _ => simp [List.replicate, initialSlashes, hx]
  | 2, _ => simp [List.replicate, initialSlashes, hx]

theorem initialSlashes_rep (k : Nat) (hk : k ≤ 2) :
    initialSlashes (List.replicate k '/') = k := by
  match k, hk with
  | 0, _ => simp [initialSlashes]
  | 1, _ => simp [List.replicate, initialSlashes]
  | 2, _ => simp [List.replicate, initialSlashes]

theorem splitSlash_rep (k : Nat) (s : List Char) :
    splitSlash (List.replicate k '/' ++ s) = List.replicate k [] ++ splitSlash s := by
  induction k with
  | zero => rfl
  | succ k ih => simp [List.replicate_succ, splitSlash_cons_slash, ih]

/-- a directory as `TemplateLookup.__init__` stores it: `normpath` of something -/
structure NormDir (d : List Char) (k : Nat) (D : List Comp) : Prop where
  hd : d = build k D
  hk : k ≤ 2
  hstack : StackOK (k != 0) D.reverse

theorem normpath_normDir (d0 : List Char) : ∃ k D, NormDir (normpath d0) k D := by
  by_cases h0 : d0 = []
  · subst h0
    exact ⟨0, [], by simp [normpath_nil, build, joinSlash], by omega, by simpa using stackOK_nil false⟩
  · refine ⟨initialSlashes d0, (run (initialSlashes d0 != 0) [] (splitSlash d0)).reverse,
      normpath_eq_build d0 h0, initialSlashes_le d0, ?_⟩
    rw [List.reverse_reverse]
    exact run_stackOK _ _ _ (mem_splitSlash_noslash d0) (stackOK_nil _)

/-- **Key lemma.** Joining a relative `u` onto a normalised directory and normalising again continues
the loop from the directory's own components. -/
theorem normpath_join (d : List Char) (k : Nat) (D : List Comp) (hN : NormDir d k D)
    (u : List Char) (hu : u.head? ≠ some '/') :
    normpath (joinPath d u) = build k (run (k != 0) D.reverse (splitSlash u)).reverse := by
  obtain ⟨hd, hk, hst⟩ := hN
  have hgood : ∀ c ∈ D, GoodComp c := fun c hc => hst.good c (by simpa using hc)
  have hself := run_self (k != 0) D hst
  by_cases hD : D = []
  · subst hD
    by_cases hk0 : k = 0
    · -- d = "."
      subst hk0
      have hd' : d = dot := by simp [hd, build, joinSlash]
      subst hd'
      have hj : joinPath dot u = '.' :: '/' :: u := by simp [joinPath, hu, dot]
      rw [hj, normpath_eq_build _ (by simp)]
      have hi : initialSlashes ('.' :: '/' :: u) = 0 := by simp [initialSlashes]
      rw [hi]
      have : splitSlash ('.' :: '/' :: u) = dot :: splitSlash u := by
        have := splitSlash_comp_slash dot u (by simp [dot])
        simpa [dot] using this
      rw [this, run_cons, step_dot]
      rfl
    · -- d = "/" or "//"
      have hd' : d = List.replicate k '/' := by
        have : List.replicate k '/' ≠ [] := by
          cases k with
          | zero => contradiction
          | succ k => simp [List.replicate_succ]
        simp [hd, build, joinSlash, this]
      have hlast : d.getLast? = some '/' := by
        rw [hd']
        cases k with
        | zero => contradiction
        | succ k => simp [List.getLast?_replicate]
      have hj : joinPath d u = List.replicate k '/' ++ u := by
        unfold joinPath
        rw [if_neg hu, if_pos (Or.inr hlast), hd']
      have hne : List.replicate k '/' ++ u ≠ [] := by
        cases k with
        | zero => contradiction
        | succ k => simp [List.replicate_succ]
      rw [hj, normpath_eq_build _ hne]
      have hi : initialSlashes (List.replicate k '/' ++ u) = k := by
        cases u with
        | nil => simpa using initialSlashes_rep k hk
        | cons x r =>
          have hx : x ≠ '/' := by intro e; apply hu; simp [e]
          exact initialSlashes_rep_cons k hk x r hx
      rw [hi, splitSlash_rep, run_append_list, run_replicate_empty]
      rfl
  · -- d = slashes ++ joinSlash D, D ≠ []
    obtain ⟨x, r, hxr, hx⟩ := joinSlash_ne_nil D hD hgood
    have hd' : d = List.replicate k '/' ++ joinSlash D := by
      simp [hd, build, hxr]
    have hlast : d.getLast? ≠ some '/' := by
      rw [hd', List.getLast?_append]
      have := joinSlash_getLast D hD hgood
      cases hl : (joinSlash D).getLast? with
      | none => rw [hxr] at hl; simp at hl
      | some v => rw [hl] at this; simpa using this
    have hdne : d ≠ [] := by rw [hd', hxr]; simp
    have hj : joinPath d u = List.replicate k '/' ++ (joinSlash D ++ '/' :: u) := by
      unfold joinPath
      rw [if_neg hu, if_neg (by intro h; cases h with | inl h => exact hdne h | inr h => exact hlast h), hd']
      simp
    rw [hj, normpath_eq_build _ (by rw [hxr]; simp)]
    have hi : initialSlashes (List.replicate k '/' ++ (joinSlash D ++ '/' :: u)) = k := by
      rw [hxr]; exact initialSlashes_rep_cons k hk x _ hx
    rw [hi, splitSlash_rep, splitSlash_append_slash,
      splitSlash_joinSlash D hD (fun c hc => (hgood c hc).2),
      run_append_list, run_replicate_empty, run_append_list, hself]

end MakoModel.Path
