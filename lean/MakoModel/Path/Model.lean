/-!
# L7 (paths): `posixpath.normpath/join/dirname` and the URI → file computations of
`TemplateLookup.get_template`, `Template.__init__` and `TemplateLookup.adjust_uri`.

Strings are `List Char`.  Every definition is a direct transcription of the Python code named
beside it; agreement with CPython is checked by the correspondence stream `corr_C09`.
-/
namespace MakoModel.Path

abbrev Comp := List Char

def dotdot : Comp := ['.', '.']
def dot : Comp := ['.']

/-- `str.split('/')` -/
def splitSlash : List Char → List Comp
  | [] => [[]]
  | c :: cs =>
    match splitSlash cs with
    | [] => [[]]      -- unreachable: `splitSlash` never returns `[]`
    | h :: t => if c = '/' then [] :: h :: t else (c :: h) :: t

/-- `'/'.join(comps)` -/
def joinSlash : List Comp → List Char
  | [] => []
  | [c] => c
  | c :: d :: cs => c ++ '/' :: joinSlash (d :: cs)

/-- One iteration of `posixpath.normpath`'s loop.  The stack `new_comps` is kept top-first;
`abs` is `initial_slashes != 0`. -/
def step (abs : Bool) (st : List Comp) (c : Comp) : List Comp :=
  if c = [] ∨ c = dot then st
  else if c ≠ dotdot then c :: st
  else match st with
    | [] => if abs then [] else [dotdot]
    | t :: r => if t = dotdot then dotdot :: t :: r else r

def run (abs : Bool) (st : List Comp) (cs : List Comp) : List Comp := cs.foldl (step abs) st

/-- POSIX: one or two initial slashes are kept, three or more collapse to one. -/
def initialSlashes (p : List Char) : Nat :=
  match p with
  | [] => 0
  | c1 :: r1 =>
    if c1 = '/' then
      match r1 with
      | [] => 1
      | c2 :: r2 =>
        if c2 = '/' then
          match r2 with
          | [] => 2
          | c3 :: _ => if c3 = '/' then 1 else 2
        else 1
    else 0

/-- `posixpath.normpath` -/
def normpath (p : List Char) : List Char :=
  if p = [] then dot else
    let k := initialSlashes p
    let comps := (run (k != 0) [] (splitSlash p)).reverse
    let path := List.replicate k '/' ++ joinSlash comps
    if path = [] then dot else path

/-- `posixpath.join(a, b)` -/
def joinPath (a b : List Char) : List Char :=
  if b.head? = some '/' then b
  else if a = [] ∨ a.getLast? = some '/' then a ++ b
  else a ++ '/' :: b

/-- `s.rstrip('/')` -/
def rstripSlash (s : List Char) : List Char := (s.reverse.dropWhile (· = '/')).reverse

/-- `p[: p.rfind('/') + 1]` : everything up to and including the last slash -/
def headToLastSlash (p : List Char) : List Char := (p.reverse.dropWhile (· ≠ '/')).reverse

/-- `posixpath.dirname` -/
def dirname (p : List Char) : List Char :=
  let head := headToLastSlash p
  if head ≠ [] ∧ ¬ head.all (· = '/') then rstripSlash head else head

/-- `uri.replace("\\", "/")` -/
def bs2slash (s : List Char) : List Char := s.map fun c => if c = '\\' then '/' else c

/-- `re.sub(r"^\/+", "", s)` and `s.lstrip("/")` -/
def stripLead (s : List Char) : List Char := s.dropWhile (· = '/')

/-- the relative part `u` computed by `get_template` / `u_norm` before normalisation in `Template.__init__` -/
def relPart (uri : List Char) : List Char := stripLead (bs2slash uri)

/-- `TemplateLookup.get_template`: the file probed for `uri` under the (already normalised) directory `d` -/
def uriToSrc (d uri : List Char) : List Char := normpath (joinPath d (relPart uri))

/-- `Template.__init__`: `u_norm` -/
def uNorm (uri : List Char) : List Char := normpath (relPart uri)

/-- `Template.__init__`: the URI check; `true` = accepted (`not u_norm.startswith("..")`) -/
def templateCheck (uri : List Char) : Bool := !(dotdot.isPrefixOf (uNorm uri))

/-- `Template.__init__`: module path before `os.path.abspath`:
`os.path.join(os.path.normpath(module_directory), u_norm + ".py")` -/
def modulePath (moddir uri : List Char) : List Char :=
  joinPath (normpath moddir) (uNorm uri ++ ['.', 'p', 'y'])

/-- `TemplateLookup.adjust_uri(uri, relativeto)` (without the memo dictionary).  Since the repair of the
empty uri case (`uri.startswith("/")` instead of `uri[0] == "/"`) the function is total: the empty uri takes
the relative branch.  The result stays an `Option` (always `some`) so that callers written against the
earlier partial function keep their shape. -/
def adjustUri (uri : List Char) (relativeto : Option (List Char)) : Option (List Char) :=
  if uri.head? = some '/' then some uri
  else match relativeto with
    | some r => some (joinPath (dirname r) uri)
    | none => some ('/' :: uri)

end MakoModel.Path
