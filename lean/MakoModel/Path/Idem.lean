import MakoModel.Path.Contain
/-!
# `posixpath.normpath` is idempotent (helper for C09: the directories stored by `TemplateLookup.__init__`
are fixed points of `normpath`, whatever spelling they were given with)
-/
namespace MakoModel.Path

theorem normpath_build (k : Nat) (D : List Comp) (hk : k ≤ 2) (hst : StackOK (k != 0) D.reverse) :
    normpath (build k D) = build k D := by
  have hgood : ∀ c ∈ D, GoodComp c := fun c hc => hst.good c (by simpa using hc)
  have hself := run_self (k != 0) D hst
  by_cases hD : D = []
  · subst hD
    by_cases hk0 : k = 0
    · subst hk0
      have hb : build 0 [] = dot := by simp [build, joinSlash]
      rw [hb, normpath_eq_build dot (by simp [dot])]
      have hi : initialSlashes dot = 0 := by simp [initialSlashes, dot]
      have hs : splitSlash dot = [dot] := splitSlash_noslash dot (by simp [dot])
      rw [hi, hs, run_cons, step_dot]
      rfl
    · have hrep : List.replicate k '/' ≠ [] := by
        cases k with
        | zero => contradiction
        | succ k => simp [List.replicate_succ]
      have hb : build k [] = List.replicate k '/' := by simp [build, joinSlash, hrep]
      rw [hb, normpath_eq_build _ hrep, initialSlashes_rep k hk]
      have : splitSlash (List.replicate k '/') = List.replicate k [] ++ [[]] := by
        have := splitSlash_rep k []
        simpa [splitSlash] using this
      rw [this, run_append_list, run_replicate_empty, run_cons, step_empty]
      simp [run, build, joinSlash, hrep]
  · obtain ⟨x, r, hxr, hx⟩ := joinSlash_ne_nil D hD hgood
    have hb : build k D = List.replicate k '/' ++ joinSlash D := by simp [build, hxr]
    rw [hb, normpath_eq_build _ (by rw [hxr]; simp)]
    have hi : initialSlashes (List.replicate k '/' ++ joinSlash D) = k := by
      rw [hxr]; exact initialSlashes_rep_cons k hk x r hx
    rw [hi, splitSlash_rep, splitSlash_joinSlash D hD (fun c hc => (hgood c hc).2),
      run_append_list, run_replicate_empty, hself]
    simp [build, hxr]

/-- **normpath is idempotent** – for every string. -/
theorem normpath_idem (p : List Char) : normpath (normpath p) = normpath p := by
  obtain ⟨k, D, hd, hk, hst⟩ := normpath_normDir p
  rw [hd]
  exact normpath_build k D hk hst

end MakoModel.Path
