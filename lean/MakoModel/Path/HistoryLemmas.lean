import MakoModel.Path.History
/-! Invariant of the lookup state machine: every collection entry was accepted by the URI check and names the
file `get_template` computed for its URI under one of the configured directories. -/
namespace MakoModel.Path

/-- what every entry of `_collection` satisfies -/
def Entry (c : LCfg) (u src : P) : Prop :=
  templateCheck u = true ∧ ∃ d ∈ c.dirs, src = uriToSrc (normpath d) u

def CollInv (c : LCfg) (st : LState) : Prop := ∀ u src, (u, src) ∈ st.coll → Entry c u src

theorem lookup_some_mem {l : List (P × P)} {u src : P} (h : l.lookup u = some src) : (u, src) ∈ l := by
  induction l with
  | nil => simp [List.lookup] at h
  | cons e l ih =>
    obtain ⟨a, b⟩ := e
    by_cases hu : u = a
    · subst hu
      simp [List.lookup] at h
      simp [h]
    · have : (u == a) = false := by simpa using hu
      simp [List.lookup, this] at h
      exact List.mem_cons_of_mem _ (ih h)

theorem find_stored {c : LCfg} {files : List P} {uri src : P}
    (h : (c.stored.map (fun d => uriToSrc d uri)).find? (fun f => files.contains f) = some src) :
    ∃ d ∈ c.dirs, src = uriToSrc (normpath d) uri := by
  have hm := List.mem_of_find?_eq_some h
  simp only [LCfg.stored, List.map_map, List.mem_map, Function.comp] at hm
  obtain ⟨d, hd, rfl⟩ := hm
  exact ⟨d, hd, rfl⟩

/-- one `get_template` call keeps the invariant, and a served file is an `Entry` for the requested URI -/
theorem getTemplate_inv (c : LCfg) (st : LState) (uri : P) (hinv : CollInv c st) :
    CollInv c (getTemplate c st uri).1 ∧
      ∀ src, (getTemplate c st uri).2 = .served src → Entry c uri src := by
  unfold getTemplate
  cases hl : st.coll.lookup uri with
  | some src0 =>
    have he := hinv _ _ (lookup_some_mem hl)
    by_cases hfs : c.fsChecks = true
    · by_cases hex : st.files.contains src0 = true
      · simp only [hfs, hex, if_true]
        exact ⟨hinv, fun src h => by cases h; exact he⟩
      · simp only [hfs, hex, if_true]
        refine ⟨?_, fun src h => by simp at h⟩
        intro u src hmem
        exact hinv u src (List.mem_filter.mp hmem).1
    · simp only [hfs]
      exact ⟨hinv, fun src h => by cases h; exact he⟩
  | none =>
    cases hf : (c.stored.map (fun d => uriToSrc d uri)).find? (fun f => st.files.contains f) with
    | none => exact ⟨hinv, fun src h => by simp at h⟩
    | some src0 =>
      by_cases hc : templateCheck uri = true
      · simp only [hc, if_true]
        have he : Entry c uri src0 := ⟨hc, find_stored hf⟩
        refine ⟨?_, fun src h => by cases h; exact he⟩
        intro u src hmem
        rcases List.mem_cons.mp hmem with h | h
        · cases h; exact he
        · exact hinv u src h
      · simp only [hc]
        exact ⟨hinv, fun src h => by simp at h⟩

theorem step_inv (c : LCfg) (st : LState) (op : Op) (hinv : CollInv c st) :
    CollInv c (lstep c st op).1 ∧ ∀ src, (lstep c st op).2 = .served src → ∃ u, Entry c u src := by
  cases op with
  | get uri =>
    have := getTemplate_inv c st uri hinv
    exact ⟨this.1, fun src h => ⟨uri, this.2 src h⟩⟩
  | has uri =>
    have := getTemplate_inv c st uri hinv
    simp only [lstep]
    split <;> exact ⟨by simp_all, fun src h => by simp at h⟩
  | add f => exact ⟨hinv, fun src h => by simp [lstep] at h⟩
  | del f => exact ⟨hinv, fun src h => by simp [lstep] at h⟩

theorem runFrom_served (c : LCfg) (ops : List Op) :
    ∀ (st : LState), CollInv c st → ∀ src, Out.served src ∈ runFrom c st ops → ∃ u, Entry c u src := by
  induction ops with
  | nil => intro st _ src h; simp [runFrom] at h
  | cons op ops ih =>
    intro st hinv src h
    have hs := step_inv c st op hinv
    simp only [runFrom, List.mem_cons] at h
    rcases h with h | h
    · exact hs.2 src h.symm
    · exact ih _ hs.1 src h

theorem init_inv (c : LCfg) (files : List P) : CollInv c (LState.init files) := by
  intro u src h; simp [LState.init] at h

end MakoModel.Path
