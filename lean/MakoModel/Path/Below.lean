import MakoModel.Path.Contain
/-!
# `Below d p`: the string `p` is the directory `d` or a path under it; the core containment lemma
-/
namespace MakoModel.Path

/-- all components are ordinary names (non-empty, not `.`/`..`, slash-free) -/
def CleanRel (cs : List Comp) : Prop := ∀ c ∈ cs, NameComp c

/-- what has to be put in front of a relative path to place it under `d`:
nothing for `.`, `d` itself if it ends in a slash (`/`, `//`), `d/` otherwise -/
def dirPrefix (d : List Char) : List Char :=
  if d = dot then [] else if d.getLast? = some '/' then d else d ++ ['/']

/-- `p` is `d` itself, or `d` followed by one or more ordinary name components -/
def Below (d p : List Char) : Prop :=
  p = d ∨ ∃ cs, cs ≠ [] ∧ CleanRel cs ∧ p = dirPrefix d ++ joinSlash cs

theorem stripLead_head (s : List Char) : (stripLead s).head? ≠ some '/' := by
  induction s with
  | nil => simp [stripLead]
  | cons c cs ih =>
    simp only [stripLead, List.dropWhile_cons]
    split
    · exact ih
    · rename_i h; simpa using h

theorem relPart_head (uri : List Char) : (relPart uri).head? ≠ some '/' := stripLead_head _

theorem initialSlashes_of_head (u : List Char) (hu : u.head? ≠ some '/') : initialSlashes u = 0 := by
  cases u with
  | nil => rfl
  | cons x r =>
    have : x ≠ '/' := by intro e; apply hu; simp [e]
    simp [initialSlashes, this]

theorem build_append (k : Nat) (D cs : List Comp) (hD : D ≠ []) (hcs : cs ≠ []) :
    build k (D ++ cs) = List.replicate k '/' ++ joinSlash D ++ '/' :: joinSlash cs := by
  unfold build
  rw [joinSlash_append D cs hD hcs]
  simp

/-- the core: a relative `u` whose own normalisation leaves only names lands in or below `normpath d0` -/
theorem below_of_clean (d0 u : List Char) (hu : u.head? ≠ some '/')
    (hclean : ∀ c ∈ run false [] (splitSlash u), NameComp c) :
    Below (normpath d0) (normpath (joinPath (normpath d0) u)) := by
  obtain ⟨k, D, hN⟩ := normpath_normDir d0
  rw [normpath_join _ k D hN u hu]
  obtain ⟨hd, hk, hst⟩ := hN
  have hcl : Clean (run false [] (splitSlash u)) := by
    intro hm
    exact (hclean _ hm).2.2.1 rfl
  have hra := run_append (k != 0) (splitSlash u) [] D.reverse hcl
  simp only [List.nil_append] at hra
  rw [hra, List.reverse_append, List.reverse_reverse]
  generalize hR : (run false [] (splitSlash u)).reverse = cs at *
  have hcs : CleanRel cs := by
    intro c hc
    apply hclean
    have : c ∈ (run false [] (splitSlash u)).reverse := by rw [hR]; exact hc
    simpa using this
  by_cases hcsn : cs = []
  · left; subst hcsn; simp [hd]
  · right
    refine ⟨cs, hcsn, hcs, ?_⟩
    have hgood : ∀ c ∈ D, GoodComp c := fun c hc => hst.good c (by simpa using hc)
    have hcsgood : ∀ c ∈ cs, GoodComp c := fun c hc => (hcs c hc).good
    obtain ⟨y, s, hys, _⟩ := joinSlash_ne_nil cs hcsn hcsgood
    by_cases hD : D = []
    · subst hD
      by_cases hk0 : k = 0
      · subst hk0
        have : normpath d0 = dot := by simp [hd, build, joinSlash]
        simp [this, dirPrefix, build, hys]
      · have hrep : List.replicate k '/' ≠ [] := by
          cases k with
          | zero => contradiction
          | succ k => simp [List.replicate_succ]
        have hd' : normpath d0 = List.replicate k '/' := by simp [hd, build, joinSlash, hrep]
        have hlast : (normpath d0).getLast? = some '/' := by
          rw [hd']
          cases k with
          | zero => contradiction
          | succ k => simp [List.getLast?_replicate]
        have hnd : normpath d0 ≠ dot := by
          rw [hd']
          cases k with
          | zero => contradiction
          | succ k => simp [List.replicate_succ, dot]
        simp only [dirPrefix, hnd, if_false, hlast, if_true, List.nil_append]
        rw [hd']
        simp [build, hrep]
    · obtain ⟨x, r, hxr, hx⟩ := joinSlash_ne_nil D hD hgood
      have hd' : normpath d0 = List.replicate k '/' ++ joinSlash D := by
        simp [hd, build, hxr]
      have hlast : (normpath d0).getLast? ≠ some '/' := by
        rw [hd', List.getLast?_append]
        have := joinSlash_getLast D hD hgood
        cases hl : (joinSlash D).getLast? with
        | none => rw [hxr] at hl; simp at hl
        | some v => rw [hl] at this; simpa using this
      have hnd : normpath d0 ≠ dot := by
        intro e
        rw [hd'] at e
        -- a single-character result "." would need D = ["."], impossible for stack components
        cases k with
        | succ k => simp [List.replicate_succ, dot] at e
        | zero =>
          simp only [List.replicate_zero, List.nil_append] at e
          cases D with
          | nil => contradiction
          | cons c1 D1 =>
            cases D1 with
            | nil =>
              simp only [joinSlash] at e
              have hmem : c1 ∈ (([c1] : List Comp).reverse) := by simp
              obtain ⟨names, j, hnj, _, hn⟩ := hst
              have : c1 ∈ names ++ List.replicate j dotdot := by rw [← hnj]; exact hmem
              simp at this
              cases this with
              | inl h => exact (hn c1 h).2.1 e
              | inr h => rw [h.2] at e; exact dotdot_ne_dot e
            | cons c2 D2 =>
              rw [joinSlash_cons_cons] at e
              have hc1 := (hgood c1 (by simp)).1
              cases c1 with
              | nil => contradiction
              | cons a as => simp [dot] at e
      simp only [dirPrefix, hnd, if_false, hlast]
      rw [build_append k D cs hD hcsn, hd']
      simp

end MakoModel.Path
