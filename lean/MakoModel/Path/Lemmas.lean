import MakoModel.Path.Model
/-!
# Lemmas about the path model (helper lemmas for `Props/C09.lean`)
-/
namespace MakoModel.Path

/-! ## splitSlash / joinSlash -/

theorem splitSlash_ne_nil (s : List Char) : splitSlash s ≠ [] := by
  induction s with
  | nil => simp [splitSlash]
  | cons c cs ih =>
    unfold splitSlash
    split
    · simp
    · split <;> simp

theorem splitSlash_cons_slash (s : List Char) : splitSlash ('/' :: s) = [] :: splitSlash s := by
  have h := splitSlash_ne_nil s
  conv => lhs; unfold splitSlash
  split
  · contradiction
  · rename_i h' t heq; simp [heq]

theorem splitSlash_cons_ne (c : Char) (s : List Char) (hc : c ≠ '/') (h : Comp) (t : List Comp)
    (hs : splitSlash s = h :: t) : splitSlash (c :: s) = (c :: h) :: t := by
  conv => lhs; unfold splitSlash
  simp [hs, hc]

/-- splitting at an explicit slash -/
theorem splitSlash_append_slash (a b : List Char) :
    splitSlash (a ++ '/' :: b) = splitSlash a ++ splitSlash b := by
  induction a with
  | nil => simp [splitSlash_cons_slash, splitSlash]
  | cons c a ih =>
    by_cases hc : c = '/'
    · subst hc
      simp [splitSlash_cons_slash, ih]
    · simp only [List.cons_append]
      have h := splitSlash_ne_nil a
      cases hs : splitSlash a with
      | nil => contradiction
      | cons x xs =>
        rw [splitSlash_cons_ne c a hc x xs hs]
        rw [splitSlash_cons_ne c _ hc x (xs ++ splitSlash b) (by rw [ih, hs]; rfl)]
        rfl

theorem splitSlash_noslash (c : List Char) (h : '/' ∉ c) : splitSlash c = [c] := by
  induction c with
  | nil => simp [splitSlash]
  | cons x xs ih =>
    have hx : x ≠ '/' := by intro e; apply h; simp [e]
    have hxs : '/' ∉ xs := by intro e; apply h; simp [e]
    exact splitSlash_cons_ne x xs hx xs [] (ih hxs)

theorem splitSlash_comp_slash (c r : List Char) (h : '/' ∉ c) :
    splitSlash (c ++ '/' :: r) = c :: splitSlash r := by
  rw [splitSlash_append_slash, splitSlash_noslash c h]; simp

theorem mem_splitSlash_noslash (s : List Char) : ∀ c ∈ splitSlash s, '/' ∉ c := by
  induction s with
  | nil => simp [splitSlash]
  | cons x xs ih =>
    by_cases hx : x = '/'
    · subst hx
      rw [splitSlash_cons_slash]
      intro c hc
      cases hc with
      | head => simp
      | tail _ h => exact ih c h
    · have hne := splitSlash_ne_nil xs
      cases hs : splitSlash xs with
      | nil => contradiction
      | cons y ys =>
        rw [splitSlash_cons_ne x xs hx y ys hs]
        rw [hs] at ih
        intro c hc
        cases hc with
        | head =>
          have := ih y (by simp)
          intro hm
          cases hm with
          | head => exact hx rfl
          | tail _ h => exact this h
        | tail _ h => exact ih c (List.mem_cons_of_mem _ h)

/-- `joinSlash` of non-empty lists -/
theorem joinSlash_cons_cons (c d : Comp) (cs : List Comp) :
    joinSlash (c :: d :: cs) = c ++ '/' :: joinSlash (d :: cs) := rfl

theorem joinSlash_append (xs ys : List Comp) (hx : xs ≠ []) (hy : ys ≠ []) :
    joinSlash (xs ++ ys) = joinSlash xs ++ '/' :: joinSlash ys := by
  induction xs with
  | nil => contradiction
  | cons x xs ih =>
    cases xs with
    | nil =>
      cases ys with
      | nil => contradiction
      | cons y ys => simp [joinSlash]
    | cons x2 xs =>
      simp only [List.cons_append, joinSlash_cons_cons]
      have := ih (by simp)
      simp only [List.cons_append] at this
      rw [this]; simp

theorem splitSlash_joinSlash (cs : List Comp) (hne : cs ≠ []) (h : ∀ c ∈ cs, '/' ∉ c) :
    splitSlash (joinSlash cs) = cs := by
  induction cs with
  | nil => contradiction
  | cons c cs ih =>
    cases cs with
    | nil => simp [joinSlash]; exact splitSlash_noslash c (h c (by simp))
    | cons d cs =>
      rw [joinSlash_cons_cons, splitSlash_comp_slash _ _ (h c (by simp))]
      rw [ih (by simp) (fun x hx => h x (by simp [hx]))]

/-! ## the normalisation loop -/

theorem run_nil (abs : Bool) (st : List Comp) : run abs st [] = st := rfl

theorem run_cons (abs : Bool) (st : List Comp) (c : Comp) (cs : List Comp) :
    run abs st (c :: cs) = run abs (step abs st c) cs := rfl

theorem run_append_list (abs : Bool) (st : List Comp) (xs ys : List Comp) :
    run abs st (xs ++ ys) = run abs (run abs st xs) ys := by
  simp [run, List.foldl_append]

theorem step_empty (abs : Bool) (st : List Comp) : step abs st [] = st := by simp [step]

theorem step_dot (abs : Bool) (st : List Comp) : step abs st dot = st := by simp [step]

theorem run_replicate_empty (abs : Bool) (st : List Comp) (k : Nat) :
    run abs st (List.replicate k []) = st := by
  induction k with
  | zero => rfl
  | succ k ih => simp [List.replicate_succ, run_cons, step_empty, ih]

/-- an ordinary name: non-empty, neither `.` nor `..`, without a slash -/
def NameComp (c : Comp) : Prop := c ≠ [] ∧ c ≠ dot ∧ c ≠ dotdot ∧ '/' ∉ c

theorem step_name (abs : Bool) (st : List Comp) (c : Comp) (h : NameComp c) :
    step abs st c = c :: st := by
  obtain ⟨h1, h2, h3, _⟩ := h
  simp [step, h1, h2, h3]

theorem run_names (abs : Bool) (st : List Comp) (cs : List Comp) (h : ∀ c ∈ cs, NameComp c) :
    run abs st cs = cs.reverse ++ st := by
  induction cs generalizing st with
  | nil => rfl
  | cons c cs ih =>
    rw [run_cons, step_name abs st c (h c (by simp)), ih _ (fun x hx => h x (by simp [hx]))]
    simp

theorem dotdot_ne_nil : dotdot ≠ [] := by simp [dotdot]
theorem dotdot_ne_dot : dotdot ≠ dot := by simp [dotdot, dot]

theorem run_dotdots_rel (k j : Nat) :
    run false (List.replicate j dotdot) (List.replicate k dotdot) = List.replicate (j + k) dotdot := by
  induction k generalizing j with
  | zero => rfl
  | succ k ih =>
    rw [List.replicate_succ, run_cons]
    have : step false (List.replicate j dotdot) dotdot = List.replicate (j + 1) dotdot := by
      cases j with
      | zero => simp [step, dotdot_ne_nil, dotdot_ne_dot]
      | succ j => simp [step, dotdot_ne_nil, dotdot_ne_dot, List.replicate_succ]
    rw [this, ih]; congr 1; omega

/-- shape of the stack of the loop: names on top of `..`s (the latter only in relative mode) -/
def StackOK (abs : Bool) (st : List Comp) : Prop :=
  ∃ names j, st = names ++ List.replicate j dotdot ∧ (abs = true → j = 0) ∧ ∀ c ∈ names, NameComp c

theorem stackOK_nil (abs : Bool) : StackOK abs [] := ⟨[], 0, by simp, by simp, by simp⟩

theorem step_stackOK (abs : Bool) (st : List Comp) (c : Comp) (hc : '/' ∉ c) (h : StackOK abs st) :
    StackOK abs (step abs st c) := by
  obtain ⟨names, j, rfl, habs, hn⟩ := h
  unfold step
  split
  · exact ⟨names, j, rfl, habs, hn⟩
  · rename_i h1
    have h1' : c ≠ [] ∧ c ≠ dot := by
      constructor <;> intro e <;> apply h1 <;> simp [e]
    split
    · rename_i h2
      refine ⟨c :: names, j, by simp, habs, ?_⟩
      intro x hx
      simp at hx
      cases hx with
      | inl e => subst e; exact ⟨h1'.1, h1'.2, h2, hc⟩
      | inr e => exact hn x e
    · cases names with
      | nil =>
        cases j with
        | zero =>
          simp only [List.replicate_zero, List.append_nil]
          cases abs with
          | true => simp; exact stackOK_nil true
          | false => simp; exact ⟨[], 1, by simp, by simp, by simp⟩
        | succ j =>
          have : abs = false := by cases abs <;> simp_all
          subst this
          simp only [List.nil_append, List.replicate_succ]
          simp
          exact ⟨[], j + 2, by simp [List.replicate_succ], by simp, by simp⟩
      | cons n names =>
        have hnn : n ≠ dotdot := (hn n (by simp)).2.2.1
        simp [hnn]
        exact ⟨names, j, rfl, habs, fun x hx => hn x (by simp [hx])⟩

theorem run_stackOK (abs : Bool) (st : List Comp) (cs : List Comp) (hc : ∀ c ∈ cs, '/' ∉ c)
    (h : StackOK abs st) : StackOK abs (run abs st cs) := by
  induction cs generalizing st with
  | nil => exact h
  | cons c cs ih =>
    rw [run_cons]
    exact ih _ (fun x hx => hc x (by simp [hx])) (step_stackOK abs st c (hc c (by simp)) h)

/-! ## `..` persists (prototype core) -/

def Clean (st : List Comp) : Prop := dotdot ∉ st

theorem step_dotdot_persist (abs : Bool) (st : List Comp) (c : Comp) (h : dotdot ∈ st) :
    dotdot ∈ step abs st c := by
  unfold step
  split
  · exact h
  · split
    · exact List.mem_cons_of_mem _ h
    · cases st with
      | nil => cases h
      | cons t r =>
        simp only
        split
        · simp
        · rename_i hne
          cases h with
          | head => exact absurd rfl hne
          | tail _ h' => exact h'

theorem run_dotdot_persist (abs : Bool) (cs : List Comp) (st : List Comp) (h : dotdot ∈ st) :
    dotdot ∈ run abs st cs := by
  induction cs generalizing st with
  | nil => exact h
  | cons c cs ih => exact ih _ (step_dotdot_persist abs st c h)

/-- if running `cs` from the stack `t` in relative mode ends without `..`, then running it on top of
any base `s` (either mode) just stacks the same result on `s` -/
theorem run_append (abs : Bool) (cs : List Comp) (t s : List Comp)
    (hclean : Clean (run false t cs)) :
    run abs (t ++ s) cs = run false t cs ++ s := by
  induction cs generalizing t with
  | nil => rfl
  | cons c cs ih =>
    simp only [run, List.foldl_cons] at hclean ⊢
    have hstep : step abs (t ++ s) c = step false t c ++ s := by
      unfold step
      split
      · rfl
      · split
        · rfl
        · cases t with
          | nil =>
            exfalso
            apply hclean
            have : step false [] c = [dotdot] := by
              unfold step; simp_all
            show dotdot ∈ run false (step false [] c) cs
            rw [this]
            exact run_dotdot_persist false cs _ (by simp)
          | cons x r =>
            simp only [List.cons_append]
            split <;> rfl
    rw [hstep]
    exact ih _ hclean

end MakoModel.Path
