import MakoModel.Path.Model
/-!
# `TemplateLookup` as a state machine over a changing file system

`mako/lookup.py`: `get_template` (collection hit → `_check`; miss → probe each directory in order → `_load` →
`Template.__init__`'s URI check), `has_template` (= "does `get_template` succeed") and a file system whose set of
regular files changes arbitrarily between calls.  The collection is keyed by the URI *as spelled*.

Not modelled here (they do not change which file is served): modification times (`_check` re-loads the *same*
file name), the LRU bound of `collection_size`, `put_string`/`put_template` (templates handed in by the caller, not
looked up).
-/
namespace MakoModel.Path

abbrev P := List Char

inductive Op where
  | get (uri : P)      -- `lookup.get_template(uri)`
  | has (uri : P)      -- `lookup.has_template(uri)`
  | add (file : P)     -- the regular file `file` appears (anywhere – inside or outside the directories)
  | del (file : P)     -- it disappears
  deriving Repr, DecidableEq

inductive Out where
  | notFound           -- `TopLevelLookupException` / `TemplateLookupException` "Can't locate template"
  | rejected           -- `TemplateLookupException` from `Template.__init__`'s URI check
  | served (src : P)   -- a `Template` whose `filename` is `src`
  | answer (b : Bool)  -- result of `has_template`
  | none               -- file-system events have no result
  deriving Repr, DecidableEq

structure LState where
  files : List P            -- the regular files that exist now
  coll  : List (P × P)      -- `_collection`: uri ↦ `template.filename`
  deriving Repr

/-- the lookup's configuration: its directories as given to the constructor and `filesystem_checks` -/
structure LCfg where
  dirs : List P
  fsChecks : Bool

/-- the directories as `TemplateLookup.__init__` stores them -/
def LCfg.stored (c : LCfg) : List P := c.dirs.map normpath

/-- one `get_template` call -/
def getTemplate (c : LCfg) (st : LState) (uri : P) : LState × Out :=
  match st.coll.lookup uri with
  | some src =>
      if c.fsChecks then
        -- `_check`: stat the file; gone → pop + "Can't locate"; otherwise the same file (re-loaded or not)
        if st.files.contains src then (st, .served src)
        else ({ st with coll := st.coll.filter (fun e => e.1 ≠ uri) }, .notFound)
      else (st, .served src)
  | Option.none =>
      match (c.stored.map (fun d => uriToSrc d uri)).find? (fun f => st.files.contains f) with
      | Option.none => (st, .notFound)
      | some src =>
          -- `_load` → `Template(uri=uri, filename=src, …)`
          if templateCheck uri then ({ st with coll := (uri, src) :: st.coll }, .served src)
          else (st, .rejected)

def lstep (c : LCfg) (st : LState) : Op → LState × Out
  | .get uri => getTemplate c st uri
  | .has uri =>
      match getTemplate c st uri with
      | (st', .served _) => (st', .answer true)
      | (st', _) => (st', .answer false)
  | .add f => ({ st with files := f :: st.files }, .none)
  | .del f => ({ st with files := st.files.filter (· ≠ f) }, .none)

/-- run a history from a state, collecting the results -/
def runFrom (c : LCfg) : LState → List Op → List Out
  | _, [] => []
  | st, op :: ops => let r := lstep c st op; r.2 :: runFrom c r.1 ops

def LState.init (files : List P) : LState := { files := files, coll := [] }

end MakoModel.Path
